#!/usr/bin/env python3
"""Writes the C20 probe catalogue /verif/probes/*.rs (one rule per file).  The .rs files are the
deliverable (they are committed and read by tools/props/c20.py); this script only keeps the ~100
tiny programs consistent.  Run it again after editing the tables below."""
import os, sys
HERE = os.path.dirname(os.path.abspath(__file__))
OUT = os.path.join(os.path.dirname(HERE), "probes")

PROBES = {}


KNOWN = {}


def known_defect(name, rule, query, expect, body, uses=""):
    KNOWN[name] = ("// rule: %s\n// query: %s\n// expect: %s\n#![allow(unused)]\n%s%s"
                   % (rule, query, expect, uses, body))


def probe(name, rule, query, expect, body, uses=""):
    assert name not in PROBES, name
    PROBES[name] = ("// rule: %s\n// query: %s\n// expect: %s\n#![allow(unused)]\n%s%s"
                    % (rule, query, expect, uses, body))


# ------------------------------------------------------------------ Send / Sync (E0277)
USE_ALL = """use easy_ml::differentiation::{Derivatives, Record, RecordMatrix, RecordTensor, Trace, WengertList};
use easy_ml::differentiation::iterators::{AsRecords, InconsistentHistory, InvalidRecordIteratorError};
use easy_ml::matrices::iterators::*;
use easy_ml::matrices::views::*;
use easy_ml::matrices::Matrix;
use easy_ml::tensors::indexing::*;
use easy_ml::tensors::views::*;
use easy_ml::tensors::{InvalidShapeError, Tensor};
use std::cell::Cell;
use std::rc::Rc;
"""


def auto(name, rule, tr, rust_ty, model_ty, ok):
    bound = "Send" if tr == "send" else "Sync"
    probe(name, rule, "%s %s" % (tr, model_ty), "compile" if ok else "error E0277",
          "fn need<X: %s>() {}\nfn main() {\n    need::<%s>();\n}\n" % (bound, rust_ty), USE_ALL)


T = "tensors::Tensor"
M = "matrices::Matrix"
WLm = "differentiation::WengertList"
# the tape
auto("tape_send_f64", "C20_tape_send_iff", "send", "WengertList<f64>", WLm + "<f64>", True)
auto("tape_not_sync", "C20_tape_not_sync", "sync", "WengertList<f64>", WLm + "<f64>", False)
auto("tape_ref_not_send", "C20_tape_not_sync", "send", "&'static WengertList<f64>", "&" + WLm + "<f64>", False)
auto("tape_send_needs_element_send", "C20_tape_send_iff", "send", "WengertList<Rc<f64>>", WLm + "<Rc>", False)
# records and containers
auto("record_not_send", "C20_record_not_send_nor_sync", "send", "Record<'static, f64>", "differentiation::Record<f64>", False)
auto("record_not_sync", "C20_record_not_send_nor_sync", "sync", "Record<'static, f64>", "differentiation::Record<f64>", False)
auto("record_tensor_not_send", "C20_record_containers_not_send_nor_sync", "send",
     "RecordTensor<'static, f64, Tensor<(f64, usize), 2>, 2>", "RecordTensor<f64, %s<(f64, f64)>>" % T, False)
auto("record_tensor_not_sync", "C20_record_containers_not_send_nor_sync", "sync",
     "RecordTensor<'static, f64, Tensor<(f64, usize), 2>, 2>", "RecordTensor<f64, %s<(f64, f64)>>" % T, False)
auto("record_matrix_not_send", "C20_record_containers_not_send_nor_sync", "send",
     "RecordMatrix<'static, f64, Matrix<(f64, usize)>>", "RecordMatrix<f64, %s<(f64, f64)>>" % M, False)
auto("record_matrix_not_sync", "C20_record_containers_not_send_nor_sync", "sync",
     "RecordMatrix<'static, f64, Matrix<(f64, usize)>>", "RecordMatrix<f64, %s<(f64, f64)>>" % M, False)
auto("as_records_not_send", "C20_record_containers_not_send_nor_sync", "send",
     "AsRecords<'static, std::vec::IntoIter<(f64, usize)>, f64>", "AsRecords<Vec<(f64, f64)>, f64>", False)
auto("record_iterator_error_not_send", "C20_record_containers_not_send_nor_sync", "send",
     "InvalidRecordIteratorError<'static, f64, 1>", "InvalidRecordIteratorError<f64>", False)
auto("inconsistent_history_not_sync", "C20_record_containers_not_send_nor_sync", "sync",
     "InconsistentHistory<'static, f64>", "InconsistentHistory<f64>", False)
# tensors / matrices
auto("tensor_send", "C20_send_sync_iff", "send", "Tensor<f64, 2>", T + "<f64>", True)
auto("tensor_sync", "C20_send_sync_iff", "sync", "Tensor<f64, 2>", T + "<f64>", True)
auto("tensor_cell_send", "C20_send_sync_iff", "send", "Tensor<Cell<f64>, 1>", T + "<Cell>", True)
auto("tensor_cell_not_sync", "C20_send_sync_iff", "sync", "Tensor<Cell<f64>, 1>", T + "<Cell>", False)
auto("tensor_rc_not_send", "C20_send_sync_iff", "send", "Tensor<Rc<f64>, 1>", T + "<Rc>", False)
auto("matrix_send", "C20_send_sync_iff", "send", "Matrix<f64>", M + "<f64>", True)
auto("matrix_sync", "C20_send_sync_iff", "sync", "Matrix<f64>", M + "<f64>", True)
auto("matrix_cell_not_sync", "C20_send_sync_iff", "sync", "Matrix<Cell<f64>>", M + "<Cell>", False)
auto("matrix_rc_not_send", "C20_send_sync_iff", "send", "Matrix<Rc<f64>>", M + "<Rc>", False)
# views: element AND source
TV = "tensors::views::TensorView"
MV = "matrices::views::MatrixView"
auto("tensor_view_owned_send", "C20_send_sync_iff", "send", "TensorView<f64, Tensor<f64, 2>, 2>", "%s<f64, %s<f64>>" % (TV, T), True)
auto("tensor_view_ref_sync", "C20_send_sync_iff", "sync", "TensorView<f64, &'static Tensor<f64, 2>, 2>", "%s<f64, &%s<f64>>" % (TV, T), True)
auto("tensor_view_ref_cell_not_send", "C20_send_sync_iff", "send", "TensorView<Cell<f64>, &'static Tensor<Cell<f64>, 1>, 1>",
     "%s<Cell, &%s<Cell>>" % (TV, T), False)
auto("tensor_view_mut_cell_send", "C20_send_sync_iff", "send", "TensorView<Cell<f64>, &'static mut Tensor<Cell<f64>, 1>, 1>",
     "%s<Cell, &mut %s<Cell>>" % (TV, T), True)
auto("tensor_view_rc_source_not_send", "C20_send_sync_iff", "send", "TensorView<Rc<f64>, Tensor<Rc<f64>, 1>, 1>",
     "%s<Rc, %s<Rc>>" % (TV, T), False)
auto("matrix_view_owned_sync", "C20_send_sync_iff", "sync", "MatrixView<f64, Matrix<f64>>", "%s<f64, %s<f64>>" % (MV, M), True)
auto("matrix_view_ref_cell_not_send", "C20_send_sync_iff", "send", "MatrixView<Cell<f64>, &'static Matrix<Cell<f64>>>",
     "%s<Cell, &%s<Cell>>" % (MV, M), False)
# every view adaptor, once positive (f64) and once negative (Rc element behind it)
ADAPTORS = [
    ("tensor_access", "TensorAccess<{e}, Tensor<{e}, 2>, 2>", "tensors::indexing::TensorAccess<{m}, %s<{m}>>" % T),
    ("tensor_transpose", "TensorTranspose<{e}, Tensor<{e}, 2>, 2>", "tensors::indexing::TensorTranspose<{m}, %s<{m}>>" % T),
    ("tensor_index", "TensorIndex<{e}, Tensor<{e}, 2>, 2, 1>", "TensorIndex<{m}, %s<{m}>>" % T),
    ("tensor_expansion", "TensorExpansion<{e}, Tensor<{e}, 2>, 2, 1>", "TensorExpansion<{m}, %s<{m}>>" % T),
    ("tensor_range", "TensorRange<{e}, Tensor<{e}, 2>, 2>", "TensorRange<{m}, %s<{m}>>" % T),
    ("tensor_mask", "TensorMask<{e}, Tensor<{e}, 2>, 2>", "TensorMask<{m}, %s<{m}>>" % T),
    ("tensor_rename", "TensorRename<{e}, Tensor<{e}, 2>, 2>", "TensorRename<{m}, %s<{m}>>" % T),
    ("tensor_reverse", "TensorReverse<{e}, Tensor<{e}, 2>, 2>", "TensorReverse<{m}, %s<{m}>>" % T),
    ("tensor_stack", "TensorStack<{e}, (Tensor<{e}, 2>, Tensor<{e}, 2>), 2>", "TensorStack<{m}, (%s<{m}>, %s<{m}>)>" % (T, T)),
    ("tensor_chain", "TensorChain<{e}, [Tensor<{e}, 2>; 2], 2>", "TensorChain<{m}, Vec<%s<{m}>>>" % T),
    ("matrix_range", "MatrixRange<{e}, Matrix<{e}>>", "MatrixRange<{m}, %s<{m}>>" % M),
    ("matrix_reverse", "MatrixReverse<{e}, Matrix<{e}>>", "MatrixReverse<{m}, %s<{m}>>" % M),
    ("matrix_part", "MatrixPart<'static, {e}>", "MatrixPart<{m}>"),
    ("matrix_quadrants", "MatrixQuadrants<'static, {e}>", "MatrixQuadrants<{m}>"),
    ("tensor_ref_matrix", "easy_ml::interop::TensorRefMatrix<{e}, Matrix<{e}>, easy_ml::interop::RowAndColumn>",
     "TensorRefMatrix<{m}, %s<{m}>, RowAndColumn>" % M),
    ("matrix_ref_tensor", "easy_ml::interop::MatrixRefTensor<{e}, Tensor<{e}, 2>>", "MatrixRefTensor<{m}, %s<{m}>>" % T),
]
for n, rt, mt in ADAPTORS:
    auto(n + "_send", "C20_send_sync_iff", "send", rt.format(e="f64"), mt.format(m="f64"), True)
    auto(n + "_rc_not_send", "C20_send_sync_iff", "send", rt.format(e="Rc<f64>"), mt.format(m="Rc"), False)
    auto(n + "_cell_not_sync", "C20_send_sync_iff", "sync", rt.format(e="Cell<f64>"), mt.format(m="Cell"), False)
# traces, derivatives, errors
auto("trace_send_sync", "C20_send_sync_iff", "sync", "Trace<f64>", "differentiation::Trace<f64>", True)
auto("derivatives_send", "C20_send_sync_iff", "send", "Derivatives<f64>", "Derivatives<f64>", True)
auto("derivatives_rc_not_send", "C20_send_sync_iff", "send", "Derivatives<Rc<f64>>", "Derivatives<Rc>", False)
auto("derivatives_cell_not_sync", "C20_send_sync_iff", "sync", "Derivatives<Cell<f64>>", "Derivatives<Cell>", False)
auto("invalid_shape_error_send_sync", "C20_send_sync_iff", "sync", "InvalidShapeError<3>", "tensors::InvalidShapeError", True)
auto("invalid_dimensions_error_send", "C20_send_sync_iff", "send", "easy_ml::tensors::InvalidDimensionsError<3, 2>",
     "tensors::InvalidDimensionsError", True)
auto("indexing_invalid_dimensions_error_sync", "C20_send_sync_iff", "sync", "easy_ml::tensors::indexing::InvalidDimensionsError<3>",
     "tensors::indexing::InvalidDimensionsError", True)
auto("index_range_validation_error_send", "C20_send_sync_iff", "send", "IndexRangeValidationError<3, 2>", "IndexRangeValidationError", True)
auto("strict_index_range_validation_error_sync", "C20_send_sync_iff", "sync", "StrictIndexRangeValidationError<3, 2>",
     "StrictIndexRangeValidationError", True)
auto("scalar_conversion_error_send_sync", "C20_send_sync_iff", "sync", "easy_ml::matrices::ScalarConversionError",
     "ScalarConversionError", True)
auto("gaussian_error_send", "C20_send_sync_iff", "send", "easy_ml::distributions::MultivariateGaussianError<f64>",
     "MultivariateGaussianError<f64>", True)
auto("gaussian_error_rc_not_send", "C20_send_sync_iff", "send", "easy_ml::distributions::MultivariateGaussianError<Rc<f64>>",
     "MultivariateGaussianError<Rc>", False)
auto("qr_decomposition_send", "C20_send_sync_iff", "send", "easy_ml::linear_algebra::QRDecomposition<f64>", "QRDecomposition<f64>", True)
auto("slice2d_send_sync", "C20_send_sync_iff", "sync", "easy_ml::matrices::slices::Slice2D", "Slice2D", True)
# iterators
TI = "tensors::indexing::"
MI = "matrices::iterators::"
auto("tensor_iterator_send", "C20_send_sync_iff", "send", "TensorIterator<'static, f64, Tensor<f64, 2>, 2>", TI + "TensorIterator<f64, %s<f64>>" % T, True)
auto("tensor_iterator_cell_not_send", "C20_send_sync_iff", "send", "TensorIterator<'static, Cell<f64>, Tensor<Cell<f64>, 2>, 2>",
     TI + "TensorIterator<Cell, %s<Cell>>" % T, False)
auto("tensor_reference_iterator_sync", "C20_send_sync_iff", "sync", "TensorReferenceIterator<'static, f64, Tensor<f64, 2>, 2>",
     TI + "TensorReferenceIterator<f64, %s<f64>>" % T, True)
auto("tensor_reference_iterator_cell_not_send", "C20_send_sync_iff", "send", "TensorReferenceIterator<'static, Cell<f64>, Tensor<Cell<f64>, 2>, 2>",
     TI + "TensorReferenceIterator<Cell, %s<Cell>>" % T, False)
auto("tensor_reference_mut_iterator_cell_send", "C20_send_sync_iff", "send", "TensorReferenceMutIterator<'static, Cell<f64>, Tensor<Cell<f64>, 2>, 2>",
     TI + "TensorReferenceMutIterator<Cell, %s<Cell>>" % T, True)
auto("tensor_reference_mut_iterator_rc_not_send", "C20_send_sync_iff", "send", "TensorReferenceMutIterator<'static, Rc<f64>, Tensor<Rc<f64>, 2>, 2>",
     TI + "TensorReferenceMutIterator<Rc, %s<Rc>>" % T, False)
auto("tensor_owned_iterator_send", "C20_send_sync_iff", "send", "TensorOwnedIterator<f64, Tensor<f64, 2>, 2>",
     TI + "TensorOwnedIterator<f64, %s<f64>>" % T, True)
auto("tensor_owned_iterator_rc_not_send", "C20_send_sync_iff", "send", "TensorOwnedIterator<Rc<f64>, Tensor<Rc<f64>, 2>, 2>",
     TI + "TensorOwnedIterator<Rc, %s<Rc>>" % T, False)
auto("shape_iterator_send_sync", "C20_send_sync_iff", "sync", "ShapeIterator<3>", TI + "ShapeIterator", True)
auto("with_index_send", "C20_send_sync_iff", "send", "WithIndex<TensorIterator<'static, f64, Tensor<f64, 2>, 2>>",
     "WithIndex<" + TI + "TensorIterator<f64, %s<f64>>>" % T, True)
for it in ("ColumnIterator", "RowIterator", "ColumnMajorIterator", "RowMajorIterator", "DiagonalIterator",
           "ColumnReferenceIterator", "RowReferenceIterator", "ColumnMajorReferenceIterator", "RowMajorReferenceIterator",
           "DiagonalReferenceIterator"):
    low = "".join("_" + c.lower() if c.isupper() else c for c in it).lstrip("_")
    auto("matrix_%s_send" % low, "C20_send_sync_iff", "send", "%s<'static, f64, Matrix<f64>>" % it, MI + "%s<f64, %s<f64>>" % (it, M), True)
    auto("matrix_%s_cell_not_send" % low, "C20_send_sync_iff", "send", "%s<'static, Cell<f64>, Matrix<Cell<f64>>>" % it,
         MI + "%s<Cell, %s<Cell>>" % (it, M), False)
for it in ("ColumnMajorReferenceMutIterator", "RowMajorReferenceMutIterator", "DiagonalReferenceMutIterator",
           "ColumnReferenceMutIterator", "RowReferenceMutIterator"):
    low = "".join("_" + c.lower() if c.isupper() else c for c in it).lstrip("_")
    auto("matrix_%s_cell_send" % low, "C20_send_sync_iff", "send", "%s<'static, Cell<f64>, Matrix<Cell<f64>>>" % it,
         MI + "%s<Cell, %s<Cell>>" % (it, M), True)
    auto("matrix_%s_cell_not_sync" % low, "C20_send_sync_iff", "sync", "%s<'static, Cell<f64>, Matrix<Cell<f64>>>" % it,
         MI + "%s<Cell, %s<Cell>>" % (it, M), False)
for it in ("ColumnMajorOwnedIterator", "RowMajorOwnedIterator"):
    low = "".join("_" + c.lower() if c.isupper() else c for c in it).lstrip("_")
    auto("matrix_%s_send" % low, "C20_send_sync_iff", "send", "%s<f64, Matrix<f64>>" % it, MI + "%s<f64, %s<f64>>" % (it, M), True)
    auto("matrix_%s_rc_not_send" % low, "C20_send_sync_iff", "send", "%s<Rc<f64>, Matrix<Rc<f64>>>" % it,
         MI + "%s<Rc, %s<Rc>>" % (it, M), False)

# exact conditions: element type Send-but-not-Sync (Cell) over a Sync source
auto("tensor_iterator_cell_over_sync_source_send", "C20_send_sync_iff", "send", "TensorIterator<'static, Cell<f64>, Tensor<f64, 2>, 2>",
     TI + "TensorIterator<Cell, %s<f64>>" % T, True)
auto("tensor_iterator_cell_over_sync_source_not_sync", "C20_send_sync_iff", "sync", "TensorIterator<'static, Cell<f64>, Tensor<f64, 2>, 2>",
     TI + "TensorIterator<Cell, %s<f64>>" % T, False)
auto("tensor_reference_iterator_cell_over_sync_source_not_send", "C20_send_sync_iff", "send",
     "TensorReferenceIterator<'static, Cell<f64>, Tensor<f64, 2>, 2>", TI + "TensorReferenceIterator<Cell, %s<f64>>" % T, False)
auto("tensor_owned_iterator_rc_element_only_source_matters", "C20_send_sync_iff", "send",
     "TensorOwnedIterator<Rc<f64>, Tensor<f64, 2>, 2>", TI + "TensorOwnedIterator<Rc, %s<f64>>" % T, True)
auto("tensor_reference_mut_iterator_cell_not_sync", "C20_send_sync_iff", "sync",
     "TensorReferenceMutIterator<'static, Cell<f64>, Tensor<Cell<f64>, 2>, 2>", TI + "TensorReferenceMutIterator<Cell, %s<Cell>>" % T, False)
auto("tensor_view_phantom_element_matters", "C20_send_sync_iff", "send", "TensorView<Rc<f64>, Tensor<f64, 2>, 2>",
     "%s<Rc, %s<f64>>" % (TV, T), False)
auto("matrix_view_phantom_element_matters", "C20_send_sync_iff", "sync", "MatrixView<Cell<f64>, Matrix<f64>>",
     "%s<Cell, %s<f64>>" % (MV, M), False)
auto("tensor_access_phantom_element_matters", "C20_send_sync_iff", "send", "TensorAccess<Rc<f64>, Tensor<f64, 2>, 2>",
     "tensors::indexing::TensorAccess<Rc, %s<f64>>" % T, False)

# ------------------------------------------------------------------ threads: the documented usages
probe("thread_move_tensor", "C20_send_sync_iff", "send %s<f64>" % T, "compile", """
fn main() {
    let t = Tensor::from([("x", 2)], vec![1.0f64, 2.0]);
    let h = std::thread::spawn(move || t.iter().sum::<f64>());
    assert_eq!(h.join().unwrap(), 3.0);
}
""", "use easy_ml::tensors::Tensor;\n")
probe("thread_share_matrix", "C20_send_sync_iff", "sync %s<f64>" % M, "compile", """
fn main() {
    let m = Matrix::from(vec![vec![1.0f64, 2.0]]);
    std::thread::scope(|s| {
        s.spawn(|| m.row_major_iter().sum::<f64>());
        s.spawn(|| m.column_major_iter().sum::<f64>());
    });
}
""", "use easy_ml::matrices::Matrix;\n")
probe("thread_move_tape", "C20_tape_send_iff", "send %s<f64>" % WLm, "compile", """
fn main() {
    let list = WengertList::new();
    let h = std::thread::spawn(move || {
        let x = Record::variable(2.0f64, &list);
        let y = x * x;
        y.derivatives()[&x]
    });
    assert_eq!(h.join().unwrap(), 4.0);
}
""", "use easy_ml::differentiation::{Record, WengertList};\n")
probe("thread_share_tape", "C20_tape_not_sync", "send &%s<f64>" % WLm, "error E0277", """
fn main() {
    let list = WengertList::<f64>::new();
    std::thread::scope(|s| {
        s.spawn(|| Record::variable(2.0f64, &list).number);
    });
}
""", "use easy_ml::differentiation::{Record, WengertList};\n")
probe("thread_move_record", "C20_record_not_send_nor_sync", "send differentiation::Record<f64>", "error E0277", """
fn main() {
    let list = WengertList::<f64>::new();
    let x = Record::variable(2.0f64, &list);
    std::thread::scope(|s| {
        s.spawn(move || { let y = x; y.number });
    });
}
""", "use easy_ml::differentiation::{Record, WengertList};\n")
probe("thread_move_record_tensor", "C20_record_containers_not_send_nor_sync",
      "send RecordTensor<f64, %s<(f64, f64)>>" % T, "error E0277", """
fn main() {
    let list = WengertList::<f64>::new();
    let x = RecordTensor::variables(&list, Tensor::from([("x", 2)], vec![1.0f64, 2.0]));
    std::thread::scope(|s| {
        s.spawn(move || x.view().shape());
    });
}
""", "use easy_ml::differentiation::{RecordTensor, WengertList};\nuse easy_ml::tensors::Tensor;\n")
probe("thread_move_record_matrix", "C20_record_containers_not_send_nor_sync",
      "send RecordMatrix<f64, %s<(f64, f64)>>" % M, "error E0277", """
fn main() {
    let list = WengertList::<f64>::new();
    let x = RecordMatrix::variables(&list, Matrix::from(vec![vec![1.0f64, 2.0]]));
    std::thread::scope(|s| {
        s.spawn(move || x.view().size());
    });
}
""", "use easy_ml::differentiation::{RecordMatrix, WengertList};\nuse easy_ml::matrices::Matrix;\n")
probe("thread_derivatives_leave_thread", "C20_send_sync_iff", "send Derivatives<f64>", "compile", """
fn main() {
    let h = std::thread::spawn(|| {
        let list = WengertList::new();
        let x = Record::variable(3.0f64, &list);
        (x * x).derivatives()
    });
    let d: Derivatives<f64> = h.join().unwrap();
}
""", "use easy_ml::differentiation::{Derivatives, Record, WengertList};\n")

# ------------------------------------------------------------------ lifetimes: outlive (E0597)
U_T = "use easy_ml::tensors::Tensor;\nuse easy_ml::tensors::views::TensorView;\n"
U_M = "use easy_ml::matrices::Matrix;\nuse easy_ml::matrices::views::MatrixView;\n"
U_D = "use easy_ml::differentiation::{Record, RecordMatrix, RecordTensor, WengertList};\nuse easy_ml::tensors::Tensor;\nuse easy_ml::matrices::Matrix;\n"
NEW_T = 'Tensor::from([("x", 2)], vec![1.0f64, 2.0])'
NEW_M = "Matrix::from(vec![vec![1.0f64, 2.0], vec![3.0, 4.0]])"


def outlive(name, rule, decl, uses, make_src, make_val, use_val, expect="error E0597"):
    probe(name, rule, "outlive " + decl, expect, """
fn main() {
    let v;
    {
        let %s;
        v = %s;
    }
    %s;
}
""" % (make_src, make_val, use_val), uses)


outlive("record_outlives_tape", "C20_borrow_carried", "differentiation::Record", U_D,
        "list = WengertList::new()", "Record::variable(1.0f64, &list)", "let _ = v.number")
outlive("record_via_list_outlives_tape", "C20_borrow_carried", "differentiation::Record", U_D,
        "list = WengertList::new()", "list.variable(1.0f64)", "let _ = v.number")
outlive("record_result_outlives_tape", "C20_borrow_carried", "differentiation::Record", U_D,
        "list = WengertList::new()", "Record::variable(1.0f64, &list) * Record::constant(2.0)", "let _ = v.number")
outlive("record_tensor_outlives_tape", "C20_borrow_carried", "differentiation::container_record::RecordContainer", U_D,
        "list = WengertList::new()", "RecordTensor::variables(&list, %s)" % NEW_T, "let _ = v.view().shape()")
outlive("record_matrix_outlives_tape", "C20_borrow_carried", "differentiation::container_record::RecordContainer", U_D,
        "list = WengertList::new()", "RecordMatrix::variables(&list, %s)" % NEW_M, "let _ = v.view().size()")
outlive("as_records_outlives_tape", "C20_borrow_carried", "AsRecords", U_D,
        "list = WengertList::new()",
        "easy_ml::differentiation::iterators::AsRecords::from(Some(&list), vec![(1.0f64, 0usize)].into_iter())",
        "let _ = v.count()")
outlive("record_constant_needs_no_tape", "C20_borrow_carried", "valid-constant", U_D,
        "list = WengertList::<f64>::new()", "Record::constant(1.0f64)", "let _ = v.number", expect="compile")
PROBES["record_constant_needs_no_tape"] = PROBES["record_constant_needs_no_tape"].replace("// query: outlive valid-constant", "// query: valid")
for meth, decl in (("iter()", "TensorIterator"), ("iter_reference()", "TensorReferenceIterator"),
                   ("iter_reference_mut()", "TensorReferenceMutIterator")):
    outlive("tensor_%s_outlives_tensor" % meth[:-2], "C20_borrow_carried", "tensors::indexing::" + decl, U_T,
            "mut t = " + NEW_T, "t." + meth, "let _ = v.count()")
outlive("tensor_owned_iterator_keeps_tensor", "C20_owning_types_lifetime_free", "tensors::indexing::TensorOwnedIterator", U_T,
        "t = " + NEW_T, "t.iter_owned()", "let _ = v.count()", expect="compile")
outlive("tensor_view_outlives_tensor", "C20_borrow_carried", "valid", U_T,
        "t = " + NEW_T, "t.view()", "let _ = v.shape()")
# a view over a borrowed source is TensorView<T, &Tensor>: the borrow is in the type ARGUMENT, the
# model's prediction comes from the iterator type returned by the view
PROBES["tensor_view_outlives_tensor"] = PROBES["tensor_view_outlives_tensor"].replace(
    "// query: outlive valid", "// query: outlive tensors::indexing::TensorIterator").replace(
    "let _ = v.shape()", "let _ = v.iter().count()")
outlive("tensor_view_owned_keeps_tensor", "C20_owning_types_lifetime_free", "tensors::views::TensorView", U_T,
        "t = " + NEW_T, "t.view_owned()", "let _ = v.shape()", expect="compile")
for meth, decl in (("column_iter(0)", "ColumnIterator"), ("row_iter(0)", "RowIterator"),
                   ("column_major_iter()", "ColumnMajorIterator"), ("row_major_iter()", "RowMajorIterator"),
                   ("diagonal_iter()", "DiagonalIterator"),
                   ("column_reference_iter(0)", "ColumnReferenceIterator"), ("row_reference_iter(0)", "RowReferenceIterator"),
                   ("column_major_reference_iter()", "ColumnMajorReferenceIterator"),
                   ("row_major_reference_iter()", "RowMajorReferenceIterator"),
                   ("diagonal_reference_iter()", "DiagonalReferenceIterator"),
                   ("column_reference_mut_iter(0)", "ColumnReferenceMutIterator"), ("row_reference_mut_iter(0)", "RowReferenceMutIterator"),
                   ("column_major_reference_mut_iter()", "ColumnMajorReferenceMutIterator"),
                   ("row_major_reference_mut_iter()", "RowMajorReferenceMutIterator"),
                   ("diagonal_reference_mut_iter()", "DiagonalReferenceMutIterator")):
    outlive("matrix_%s_outlives_matrix" % meth.split("(")[0], "C20_borrow_carried", "matrices::iterators::" + decl, U_M,
            "mut m = " + NEW_M, "m." + meth, "let _ = v.count()")
for meth, decl in (("column_major_owned_iter()", "ColumnMajorOwnedIterator"), ("row_major_owned_iter()", "RowMajorOwnedIterator")):
    outlive("matrix_%s_keeps_matrix" % meth.split("(")[0], "C20_owning_types_lifetime_free", "matrices::iterators::" + decl, U_M,
            "m = " + NEW_M, "m." + meth, "let _ = v.count()", expect="compile")
outlive("matrix_quadrants_outlive_matrix", "C20_quadrants_carry_source_lifetime", "MatrixQuadrants", U_M,
        "mut m = " + NEW_M, "m.partition_quadrants(1, 1)", "let _ = v.top_left.size()")
outlive("matrix_partition_outlives_matrix", "C20_borrow_carried", "MatrixPart", U_M,
        "mut m = " + NEW_M, "m.partition(&[1], &[])", "let _ = v.len()")

# the same through the iterators' own public constructors (no method-signature elision in between)
U_TI = "use easy_ml::tensors::Tensor;\nuse easy_ml::tensors::indexing::*;\n"
U_MI = "use easy_ml::matrices::Matrix;\nuse easy_ml::matrices::iterators::*;\n"
for decl, arg in (("TensorIterator", "&t"), ("TensorReferenceIterator", "&t"), ("TensorReferenceMutIterator", "&mut t")):
    outlive("ctor_%s_outlives_tensor" % decl, "C20_borrow_carried", "tensors::indexing::" + decl, U_TI,
            "mut t = " + NEW_T, "%s::from(%s)" % (decl, arg), "let _ = v.count()")
outlive("ctor_TensorOwnedIterator_keeps_tensor", "C20_owning_types_lifetime_free", "tensors::indexing::TensorOwnedIterator", U_TI,
        "t = " + NEW_T, "TensorOwnedIterator::from(t)", "let _ = v.count()", expect="compile")
for decl, arg in (("ColumnIterator", "&m, 0"), ("RowIterator", "&m, 0"), ("ColumnMajorIterator", "&m"), ("RowMajorIterator", "&m"),
                  ("DiagonalIterator", "&m"), ("ColumnReferenceIterator", "&m, 0"), ("RowReferenceIterator", "&m, 0"),
                  ("ColumnMajorReferenceIterator", "&m"), ("RowMajorReferenceIterator", "&m"), ("DiagonalReferenceIterator", "&m"),
                  ("ColumnMajorReferenceMutIterator", "&mut m"), ("RowMajorReferenceMutIterator", "&mut m"),
                  ("DiagonalReferenceMutIterator", "&mut m"), ("ColumnReferenceMutIterator", "&mut m, 0"),
                  ("RowReferenceMutIterator", "&mut m, 0")):
    outlive("ctor_%s_outlives_matrix" % decl, "C20_borrow_carried", "matrices::iterators::" + decl, U_MI,
            "mut m = " + NEW_M, "%s::from(%s)" % (decl, arg), "let _ = v.count()")
for decl in ("ColumnMajorOwnedIterator", "RowMajorOwnedIterator"):
    outlive("ctor_%s_keeps_matrix" % decl, "C20_owning_types_lifetime_free", "matrices::iterators::" + decl, U_MI,
            "m = " + NEW_M, "%s::from(m)" % decl, "let _ = v.count()", expect="compile")
# views over a borrowed source: the borrow sits in the type ARGUMENT (TensorView<T, &'a Tensor>), so
# the prediction is the one for a plain reference held inside a lifetime-free wrapper: rejected
# because the argument type itself mentions the borrow; the model query is the iterator the view hands out
for meth, use in (("view()", "v.iter().count()"), ("index_by([\"x\"])", "v.iter().count()"),
                  ("range([(\"x\", 0..1)]).unwrap()", "v.iter().count()"), ("reverse(&[\"x\"])", "v.iter().count()"),
                  ("rename_view([\"y\"])", "v.iter().count()"), ("select([(\"x\", 0)])", "v.iter().count()"),
                  ("expand([(0, \"y\")])", "v.iter().count()")):
    outlive("tensor_%s_adaptor_outlives_tensor" % meth.split("(")[0], "C20_borrow_carried", "tensors::indexing::TensorIterator", U_T,
            "t = " + NEW_T, "t." + meth, "let _ = " + use)
for meth in ("range(0..1, 0..1)", "reverse(easy_ml::matrices::views::Reverse { rows: true, columns: false })"):
    outlive("matrix_%s_view_outlives_matrix" % meth.split("(")[0], "C20_borrow_carried", "matrices::iterators::RowMajorIterator", U_M,
            "m = " + NEW_M, "m." + meth, "let _ = v.row_major_iter().count()")

# ------------------------------------------------------------------ aliasing: mutate / move while alive


def conflict(name, rule, decl, uses, make_src, make_val, clash, use_val, expect):
    probe(name, rule, "conflict " + decl, expect, """
fn main() {
    let %s;
    let v = %s;
    %s;
    %s;
}
""" % (make_src, make_val, clash, use_val), uses)


conflict("tensor_mutated_while_iterated", "C20_borrow_carried", "tensors::indexing::TensorIterator", U_T,
         "mut t = " + NEW_T, "t.iter()", "t.map_mut(|x| x + 1.0)", "let _ = v.count()", "error E0502")
conflict("tensor_mutated_while_reference_iterated", "C20_borrow_carried", "tensors::indexing::TensorReferenceIterator", U_T,
         "mut t = " + NEW_T, "t.iter_reference()", "t.map_mut(|x| x + 1.0)", "let _ = v.count()", "error E0502")
conflict("tensor_two_mutable_iterators", "C20_borrow_carried", "tensors::indexing::TensorReferenceMutIterator", U_T,
         "mut t = " + NEW_T, "t.iter_reference_mut()", "let w = t.iter_reference_mut()", "let _ = v.count()", "error E0499")
conflict("tensor_read_while_mutably_iterated", "C20_borrow_carried", "tensors::indexing::TensorReferenceMutIterator", U_T,
         "mut t = " + NEW_T, "t.iter_reference_mut()", "let n = t.iter().count()", "let _ = v.count()", "error E0502")
conflict("tensor_moved_while_iterated", "C20_borrow_carried", "tensors::indexing::TensorIterator", U_T,
         "t = " + NEW_T, "t.iter()", "drop(t)", "let _ = v.count()", "error E0505")
conflict("tensor_replaced_while_iterated", "C20_borrow_carried", "tensors::indexing::TensorIterator", U_T,
         "mut t = " + NEW_T, "t.iter()", "t = " + NEW_T, "let _ = v.count()", "error E0506")
conflict("tensor_read_while_iterated_ok", "C20_borrow_carried", "valid", U_T,
         "t = " + NEW_T, "t.iter()", "let n = t.iter_reference().count()", "let _ = v.count()", "compile")
PROBES["tensor_read_while_iterated_ok"] = PROBES["tensor_read_while_iterated_ok"].replace("// query: conflict valid", "// query: valid")
conflict("tensor_mutated_after_iteration_ok", "C20_borrow_carried", "valid", U_T,
         "mut t = " + NEW_T, "t.iter().count()", "t.map_mut(|x| x + 1.0)", "let _ = v", "compile")
PROBES["tensor_mutated_after_iteration_ok"] = PROBES["tensor_mutated_after_iteration_ok"].replace("// query: conflict valid", "// query: valid")
conflict("matrix_mutated_while_row_iterated", "C20_borrow_carried", "matrices::iterators::RowIterator", U_M,
         "mut m = " + NEW_M, "m.row_iter(0)", "m.set(0, 0, 5.0)", "let _ = v.count()", "error E0502")
conflict("matrix_mutated_while_column_major_iterated", "C20_borrow_carried", "matrices::iterators::ColumnMajorIterator", U_M,
         "mut m = " + NEW_M, "m.column_major_iter()", "m.set(0, 0, 5.0)", "let _ = v.count()", "error E0502")
conflict("matrix_resized_while_reference_iterated", "C20_borrow_carried", "matrices::iterators::RowMajorReferenceIterator", U_M,
         "mut m = " + NEW_M, "m.row_major_reference_iter()", "m.remove_row(0)", "let _ = v.count()", "error E0502")
conflict("matrix_two_mutable_iterators", "C20_borrow_carried", "matrices::iterators::RowMajorReferenceMutIterator", U_M,
         "mut m = " + NEW_M, "m.row_major_reference_mut_iter()", "let w = m.column_major_reference_mut_iter()", "let _ = v.count()",
         "error E0499")
conflict("matrix_moved_while_diagonal_iterated", "C20_borrow_carried", "matrices::iterators::DiagonalIterator", U_M,
         "m = " + NEW_M, "m.diagonal_iter()", "drop(m)", "let _ = v.count()", "error E0505")
conflict("matrix_used_while_partitioned", "C20_quadrants_carry_source_lifetime", "MatrixQuadrants", U_M,
         "mut m = " + NEW_M, "m.partition_quadrants(1, 1)", "m.set(0, 0, 5.0)", "let _ = v.top_left.size()", "error E0499")
conflict("matrix_two_partitions", "C20_borrow_carried", "MatrixPart", U_M,
         "mut m = " + NEW_M, "m.partition(&[1], &[])", "let w = m.partition(&[], &[1])", "let _ = v.len()", "error E0499")
conflict("tape_moved_while_record_alive", "C20_borrow_carried", "differentiation::Record", U_D,
         "list = WengertList::new()", "Record::variable(1.0f64, &list)", "drop(list)", "let _ = v.number", "error E0505")
conflict("tape_moved_while_record_tensor_alive", "C20_borrow_carried", "differentiation::container_record::RecordContainer", U_D,
         "list = WengertList::new()", "RecordTensor::variables(&list, %s)" % NEW_T, "drop(list)", "let _ = v.view().shape()", "error E0505")
conflict("tape_cleared_while_record_alive_ok", "C20_borrow_carried", "valid", U_D,
         "list = WengertList::new()", "Record::variable(1.0f64, &list)", "list.clear()", "let _ = v.number", "compile")
PROBES["tape_cleared_while_record_alive_ok"] = PROBES["tape_cleared_while_record_alive_ok"].replace("// query: conflict valid", "// query: valid")
conflict("record_tensor_mutated_while_iterated", "C20_borrow_carried", "AsRecords", U_D,
         "list = WengertList::new(); let mut x = RecordTensor::variables(&list, %s)" % NEW_T, "x.iter_as_records()",
         "x.reset()", "let _ = v.count()", "error E0502")

# every matrix iterator: the matrix cannot be mutated (shared iterators, E0502) nor borrowed again
# (mutable iterators, E0499) while the iterator is alive
for meth, decl in (("column_iter(0)", "ColumnIterator"), ("row_iter(0)", "RowIterator"),
                   ("column_major_iter()", "ColumnMajorIterator"), ("row_major_iter()", "RowMajorIterator"),
                   ("diagonal_iter()", "DiagonalIterator"),
                   ("column_reference_iter(0)", "ColumnReferenceIterator"), ("row_reference_iter(0)", "RowReferenceIterator"),
                   ("column_major_reference_iter()", "ColumnMajorReferenceIterator"),
                   ("row_major_reference_iter()", "RowMajorReferenceIterator"),
                   ("diagonal_reference_iter()", "DiagonalReferenceIterator")):
    conflict("matrix_set_while_%s_alive" % meth.split("(")[0], "C20_borrow_carried", "matrices::iterators::" + decl, U_M,
             "mut m = " + NEW_M, "m." + meth, "m.set(0, 0, 5.0)", "let _ = v.count()", "error E0502")
for meth, decl in (("column_reference_mut_iter(0)", "ColumnReferenceMutIterator"), ("row_reference_mut_iter(0)", "RowReferenceMutIterator"),
                   ("column_major_reference_mut_iter()", "ColumnMajorReferenceMutIterator"),
                   ("row_major_reference_mut_iter()", "RowMajorReferenceMutIterator"),
                   ("diagonal_reference_mut_iter()", "DiagonalReferenceMutIterator")):
    conflict("matrix_set_while_%s_alive" % meth.split("(")[0], "C20_borrow_carried", "matrices::iterators::" + decl, U_M,
             "mut m = " + NEW_M, "m." + meth, "m.set(0, 0, 5.0)", "let _ = v.count()", "error E0499")
    conflict("matrix_read_while_%s_alive" % meth.split("(")[0], "C20_borrow_carried", "matrices::iterators::" + decl, U_M,
             "mut m = " + NEW_M, "m." + meth, "let n = m.get(0, 0)", "let _ = v.count()", "error E0502")
# views: the container cannot be mutated while a view over it is alive (the borrow is the view's source
# argument; the prediction is the one of the iterator it hands out)
for meth in ("view()", "index_by([\"x\"])", "range([(\"x\", 0..1)]).unwrap()", "mask([(\"x\", 0..1)]).unwrap()",
             "reverse(&[\"x\"])", "rename_view([\"y\"])", "select([(\"x\", 0)])", "expand([(0, \"y\")])", "transpose_view([\"x\"])"):
    conflict("tensor_mutated_while_%s_alive" % meth.split("(")[0], "C20_borrow_carried", "tensors::indexing::TensorIterator", U_T,
             "mut t = " + NEW_T, "t." + meth, "t.map_mut(|x| x + 1.0)", "let _ = v.iter().count()", "error E0502")
for meth in ("view_mut()", "index_by_mut([\"x\"])", "range_mut([(\"x\", 0..1)]).unwrap()", "mask_mut([(\"x\", 0..1)]).unwrap()",
             "reverse_mut(&[\"x\"])"):
    conflict("tensor_read_while_%s_alive" % meth.split("(")[0], "C20_borrow_carried", "tensors::indexing::TensorReferenceMutIterator", U_T,
             "mut t = " + NEW_T, "t." + meth, "let n = t.iter().count()", "let _ = v.iter().count()", "error E0502")
for meth in ("range(0..1, 0..1)", "reverse(easy_ml::matrices::views::Reverse { rows: true, columns: false })"):
    conflict("matrix_mutated_while_%s_view_alive" % meth.split("(")[0], "C20_borrow_carried", "matrices::iterators::RowMajorIterator", U_M,
             "mut m = " + NEW_M, "m." + meth, "m.set(0, 0, 5.0)", "let _ = v.row_major_iter().count()", "error E0502")
# record containers: their record iterators pin the container, the container pins the tape
conflict("record_matrix_mutated_while_iterated", "C20_borrow_carried", "AsRecords", U_D,
         "list = WengertList::new(); let mut x = RecordMatrix::variables(&list, %s)" % NEW_M, "x.iter_row_major_as_records()",
         "x.reset()", "let _ = v.count()", "error E0502")
outlive("as_records_outlives_container", "C20_borrow_carried", "AsRecords", U_D,
        "list = WengertList::new(); let x = RecordTensor::variables(&list, %s)" % NEW_T, "x.iter_as_records()", "let _ = v.count()")
outlive("derivatives_outlive_tape_ok", "C20_owning_types_lifetime_free", "differentiation::Derivatives", U_D,
        "list = WengertList::new()", "{ let x = Record::variable(1.0f64, &list); (x * x).derivatives() }", "let _ = v", expect="compile")

# ------------------------------------------------------------------ documented valid usages
probe("valid_record_usage", "C20_borrow_carried", "valid", "compile", """
fn main() {
    let list = WengertList::new();
    let x = Record::variable(2.0f64, &list);
    let y = Record::variable(3.0f64, &list);
    let z = x * y + Record::constant(1.0);
    let d = z.derivatives();
    assert_eq!(d[&x], 3.0);
    list.clear();
}
""", U_D)
probe("valid_record_container_usage", "C20_borrow_carried", "valid", "compile", """
fn main() {
    let list = WengertList::new();
    let x = RecordTensor::variables(&list, Tensor::from([("x", 2)], vec![1.0f64, 2.0]));
    let y = RecordMatrix::variables(&list, Matrix::from(vec![vec![1.0f64, 2.0]]));
    let s: Vec<Record<f64>> = x.iter_as_records().collect();
    let total = s[0] + s[1];
    let _ = total.derivatives();
    let _ = y.iter_row_major_as_records().count();
}
""", U_D)
probe("valid_views_and_iterators", "C20_send_sync_iff", "valid", "compile", """
fn main() {
    let mut t = Tensor::from([("r", 2), ("c", 2)], vec![1.0f64, 2.0, 3.0, 4.0]);
    let total: f64 = t.iter().sum();
    for x in t.iter_reference_mut() { *x += total; }
    let tr = t.transpose(["c", "r"]);
    let v = TensorView::from(&tr);
    let _ = v.iter().count() + t.iter_reference().count();
    let mut m = Matrix::from(vec![vec![1.0f64, 2.0], vec![3.0, 4.0]]);
    { let q = m.partition_quadrants(1, 1); let _ = q.bottom_right.size(); }
    m.set(0, 0, 9.0);
    let owned: Vec<f64> = m.row_major_owned_iter().collect();
}
""", U_T + U_M)

# ------------------------------------------------------------------ sealed trait
probe("sealed_similar_foreign_impl", "C20_sealed", "sealed tensors::operations Similar private Sealed", "error E0277", """
struct Mine;
impl Similar for Mine {
    fn similar(&self, _other: &Mine) -> bool { true }
}
fn main() {}
""", "use easy_ml::tensors::operations::Similar;\n")
probe("sealed_private_module_unreachable", "C20_sealed", "sealed tensors::operations Similar private Sealed", "error E0603", """
struct Mine;
impl easy_ml::tensors::operations::private::Sealed for Mine {}
fn main() {}
""")
# finding S1 / F14 (repaired in /repo dc5faf4): the seal must cover the Rhs parameter as well
probe("sealed_similar_foreign_rhs", "C20_seal_covers_rhs", "sealed-rhs tensors::operations Similar private Sealed", "error E0277", """
struct Mine;
impl Similar<Mine> for Tensor<f64, 1> {
    fn similar(&self, _other: &Mine) -> bool { true }
}
fn main() {}
""", "use easy_ml::tensors::operations::Similar;\nuse easy_ml::tensors::Tensor;\n")
# seeded change C20-t1: a downstream PartialEq<Local> impl must not open the seal
probe("sealed_similar_view_foreign_rhs_after_partial_eq", "C20_seal_impls_closed",
      "sealed-open tensors::operations Similar private Sealed", "error E0277", """
struct Mine;
// allowed by the orphan rules (Mine is local); nothing to do with sealing
impl PartialEq<Mine> for TensorView<f64, Tensor<f64, 1>, 1> {
    fn eq(&self, _other: &Mine) -> bool { false }
}
impl Similar<Mine> for TensorView<f64, Tensor<f64, 1>, 1> {
    fn similar(&self, _other: &Mine) -> bool { true }
}
fn main() {}
""", "use easy_ml::tensors::operations::Similar;\nuse easy_ml::tensors::views::TensorView;\nuse easy_ml::tensors::Tensor;\n")
probe("sealed_similar_view_foreign_rhs", "C20_seal_covers_rhs", "sealed-rhs tensors::operations Similar private Sealed", "error E0277", """
struct Mine;
impl Similar<Mine> for TensorView<f64, Tensor<f64, 1>, 1> {
    fn similar(&self, _other: &Mine) -> bool { true }
}
fn main() {}
""", "use easy_ml::tensors::operations::Similar;\nuse easy_ml::tensors::views::TensorView;\nuse easy_ml::tensors::Tensor;\n")
probe("sealed_similar_usable", "C20_sealed", "valid", "compile", """
fn main() {
    let a = Tensor::from([("x", 2)], vec![1.0f64, 2.0]);
    let b = Tensor::from([("x", 2)], vec![1.0f64, 2.0]);
    assert!(a.similar(&b));
    assert!(a.view().similar(&b));
}
""", "use easy_ml::tensors::operations::Similar;\nuse easy_ml::tensors::Tensor;\n")

# ------------------------------------------------------------------ unsafe marker traits
TENSOR_REF_BODY = """
    fn get_reference(&self, _i: [usize; 1]) -> Option<&f64> { Some(&self.0) }
    fn view_shape(&self) -> [(&'static str, usize); 1] { [("x", 1)] }
    unsafe fn get_reference_unchecked(&self, _i: [usize; 1]) -> &f64 { &self.0 }
    fn data_layout(&self) -> DataLayout<1> { DataLayout::Other }
"""
TENSOR_MUT_BODY = """
    fn get_reference_mut(&mut self, _i: [usize; 1]) -> Option<&mut f64> { Some(&mut self.0) }
    unsafe fn get_reference_unchecked_mut(&mut self, _i: [usize; 1]) -> &mut f64 { &mut self.0 }
"""
MATRIX_REF_BODY = """
    fn try_get_reference(&self, _r: usize, _c: usize) -> Option<&f64> { Some(&self.0) }
    fn view_rows(&self) -> usize { 1 }
    fn view_columns(&self) -> usize { 1 }
    unsafe fn get_reference_unchecked(&self, _r: usize, _c: usize) -> &f64 { &self.0 }
    fn data_layout(&self) -> DataLayout { DataLayout::Other }
"""
MATRIX_MUT_BODY = """
    fn try_get_reference_mut(&mut self, _r: usize, _c: usize) -> Option<&mut f64> { Some(&mut self.0) }
    unsafe fn get_reference_unchecked_mut(&mut self, _r: usize, _c: usize) -> &mut f64 { &mut self.0 }
"""
UT = "use easy_ml::tensors::views::{DataLayout, TensorMut, TensorRef, TensorView};\n"
UM = "use easy_ml::matrices::views::{DataLayout, MatrixMut, MatrixRef, MatrixView, NoInteriorMutability};\n"
probe("marker_tensor_ref_needs_unsafe", "C20_unsafe_markers", "safe-impl tensors::views::TensorRef", "error E0200",
      "struct One(f64);\nimpl TensorRef<f64, 1> for One {%s}\nfn main() {}\n" % TENSOR_REF_BODY, UT)
probe("marker_tensor_mut_needs_unsafe", "C20_unsafe_markers", "safe-impl tensors::views::TensorMut", "error E0200",
      "struct One(f64);\nunsafe impl TensorRef<f64, 1> for One {%s}\nimpl TensorMut<f64, 1> for One {%s}\nfn main() {}\n"
      % (TENSOR_REF_BODY, TENSOR_MUT_BODY), UT)
probe("marker_tensor_ref_unsafe_impl_ok", "C20_unsafe_markers", "unsafe-impl tensors::views::TensorRef", "compile",
      "struct One(f64);\nunsafe impl TensorRef<f64, 1> for One {%s}\nunsafe impl TensorMut<f64, 1> for One {%s}\n"
      "fn main() {\n    let v = TensorView::from(One(1.0));\n    assert_eq!(v.iter().count(), 1);\n}\n" % (TENSOR_REF_BODY, TENSOR_MUT_BODY), UT)
probe("marker_matrix_ref_needs_unsafe", "C20_unsafe_markers", "safe-impl matrices::views::MatrixRef", "error E0200",
      "struct One(f64);\nunsafe impl NoInteriorMutability for One {}\nimpl MatrixRef<f64> for One {%s}\nfn main() {}\n" % MATRIX_REF_BODY, UM)
probe("marker_matrix_mut_needs_unsafe", "C20_unsafe_markers", "safe-impl matrices::views::MatrixMut", "error E0200",
      "struct One(f64);\nunsafe impl NoInteriorMutability for One {}\nunsafe impl MatrixRef<f64> for One {%s}\n"
      "impl MatrixMut<f64> for One {%s}\nfn main() {}\n" % (MATRIX_REF_BODY, MATRIX_MUT_BODY), UM)
probe("marker_no_interior_mutability_needs_unsafe", "C20_unsafe_markers", "safe-impl matrices::views::NoInteriorMutability", "error E0200",
      "struct One(f64);\nimpl NoInteriorMutability for One {}\nfn main() {}\n", UM)
probe("marker_matrix_ref_requires_no_interior_mutability", "C20_unsafe_markers", "supertrait matrices::views::MatrixRef NoInteriorMutability", "error E0277",
      "struct One(f64);\nunsafe impl MatrixRef<f64> for One {%s}\nfn main() {}\n" % MATRIX_REF_BODY, UM)
probe("marker_matrix_unsafe_impl_ok", "C20_unsafe_markers", "unsafe-impl matrices::views::MatrixRef", "compile",
      "struct One(f64);\nunsafe impl NoInteriorMutability for One {}\nunsafe impl MatrixRef<f64> for One {%s}\n"
      "unsafe impl MatrixMut<f64> for One {%s}\nfn main() {\n    let v = MatrixView::from(One(1.0));\n    assert_eq!(v.size(), (1, 1));\n}\n"
      % (MATRIX_REF_BODY, MATRIX_MUT_BODY), UM)
probe("marker_safe_trait_rejects_unsafe_impl", "C20_unsafe_markers", "unsafe-impl interop::DimensionNames", "error E0199",
      "struct Names;\nunsafe impl easy_ml::interop::DimensionNames for Names {\n    fn names(&self) -> [&'static str; 2] { [\"a\", \"b\"] }\n}\nfn main() {}\n")
probe("marker_safe_trait_safe_impl_ok", "C20_unsafe_markers", "safe-impl interop::DimensionNames", "compile",
      "struct Names;\nimpl easy_ml::interop::DimensionNames for Names {\n    fn names(&self) -> [&'static str; 2] { [\"a\", \"b\"] }\n}\nfn main() {}\n")


def main():
    os.makedirs(OUT, exist_ok=True)
    keep = set()
    for name, text in PROBES.items():
        p = os.path.join(OUT, name + ".rs")
        keep.add(p)
        old = open(p).read() if os.path.exists(p) else None
        if old != text:
            open(p, "w").write(text)
    for f in os.listdir(OUT):
        p = os.path.join(OUT, f)
        if f.endswith(".rs") and p not in keep:
            os.remove(p)
    kd = os.path.join(OUT, "known_defects")
    os.makedirs(kd, exist_ok=True)
    for name, text in KNOWN.items():
        if not os.path.exists(os.path.join(OUT, name + ".rs")):     # once repaired it moves up
            open(os.path.join(kd, name + ".rs"), "w").write(text)
    print("%d probes written to %s (+%d known-defect probes)" % (len(PROBES), OUT, len(KNOWN)))


if __name__ == "__main__":
    main()
