#!/usr/bin/env python3
"""The C20 translator: reads the Rust sources under <REPO>/src and writes
coq/theories/Gen/Types.v, a deep embedding (Model/AutoTraits.v) of

  * every `struct` / `enum` / `union` declaration outside function bodies: visibility, lifetime /
    type / const parameters, and every field with its type (type parameters, primitives,
    references with their lifetime, raw pointers, RefCell / Cell / UnsafeCell, Vec / Box / Option /
    Range / arrays / slices / tuples, PhantomData, fn pointers, trait objects, applications of
    other declared types with their lifetime and type arguments);
  * every `type` alias (non-generic aliases are also expanded inside field types);
  * every `impl` of `Send` / `Sync` (unsafe, negative, with the Send/Sync bounds on its parameters);
  * every `trait` declaration (unsafe?, visibility, supertraits as written);
  * every `mod` declaration (visibility) and every `pub use` re-export.

It is a purely syntactic reader: comments, doc-tests and string literals are removed, items are
found by a small recursive-descent parser over the token stream, names are resolved through the
file's own declarations, its `use` items and finally by unique simple name.  Anything it cannot
read becomes `TOpaque "<text>"`, which the model treats as neither Send nor Sync and which the
theorem C20_translation_closed forbids for the types C20 names -- so an unreadable declaration
breaks a proof obligation instead of being silently accepted.

usage: gen_types.py [REPO] [OUT]      (defaults: tools.vlib.REPO, coq/theories/Gen/Types.v)"""
import os, re, sys

HERE = os.path.dirname(os.path.abspath(__file__))
sys.path.insert(0, os.path.dirname(HERE))

PRIMS = {"usize", "u8", "u16", "u32", "u64", "u128", "isize", "i8", "i16", "i32", "i64", "i128",
         "f32", "f64", "bool", "char", "str", "String",
         # std types without parameters that are Send + Sync
         "AtomicBool", "AtomicUsize", "AtomicIsize", "AtomicU8", "AtomicU16", "AtomicU32", "AtomicU64",
         "AtomicI8", "AtomicI16", "AtomicI32", "AtomicI64", "Duration", "Instant", "Ordering", "PathBuf", "TypeId"}
# std wrappers with a dedicated constructor in Model/AutoTraits.v : name -> (constructor, arity)
WRAP = {"Vec": "TVec", "Box": "TBox", "Option": "TOption", "PhantomData": "TPhantom",
        "RefCell": "TRefCell", "Cell": "TCell", "UnsafeCell": "TCell", "Range": "TRange",
        "RangeInclusive": "TRange", "VecDeque": "TVec", "Rc": "TRc", "Arc": "TArc",
        "Mutex": "TMutex", "NonNull": "TRawNN",
        # std interior-mutability / lazy-initialisation cells, with their std auto-trait rules:
        #   OnceCell<T>: Send <-> T: Send, never Sync (as Cell);  RwLock<T> / OnceLock<T>: Send <-> T: Send,
        #   Sync <-> T: Send + Sync
        "OnceCell": "TCell", "RwLock": "TRwLock", "OnceLock": "TRwLock",
        # owning collections: as their element type
        "HashSet": "TVec", "BTreeSet": "TVec", "BinaryHeap": "TVec", "LinkedList": "TVec",
        "Wrapping": "TBox", "Saturating": "TBox", "Reverse": "TBox", "ManuallyDrop": "TBox", "Pin": "TBox",
        "MaybeUninit": "TBox"}
# std maps: as the pair (key, value)
WRAP2 = {"HashMap", "BTreeMap"}
# names of this table that a crate declaration may shadow are looked up AFTER the crate's own
# declarations (see Translator.ty), so e.g. matrices::views::reverse::Reverse stays a TApp


# ------------------------------------------------------------------ lexer

def strip_comments(src):
    """Removes // and nested /* */ comments (doc comments and therefore doc-tests included);
    string / char literals are replaced by an empty string literal token so that braces inside
    them cannot confuse the item scanner.  Lifetimes ('a) are kept."""
    out = []
    i, n = 0, len(src)
    while i < n:
        c = src[i]
        if src.startswith("//", i):
            j = src.find("\n", i)
            i = n if j < 0 else j
            continue
        if src.startswith("/*", i):
            depth, i = 1, i + 2
            while i < n and depth:
                if src.startswith("/*", i):
                    depth += 1; i += 2
                elif src.startswith("*/", i):
                    depth -= 1; i += 2
                else:
                    if src[i] == "\n":
                        out.append("\n")
                    i += 1
            out.append(" ")
            continue
        if c == '"' or (c in "rb" and re.match(r'(?:br|r|b)#*"', src[i:]) and (i == 0 or not (src[i - 1].isalnum() or src[i - 1] == "_"))):
            m = re.match(r'(?:br|r)(#*)"', src[i:])
            if m:                                   # raw string
                close = '"' + m.group(1)
                j = src.find(close, i + len(m.group(0)))
                j = n if j < 0 else j + len(close)
            else:
                j = i + (2 if c == "b" else 1)
                while j < n and src[j] != '"':
                    j += 2 if src[j] == "\\" else 1
                j += 1
            out.append('""' + "\n" * src[i:j].count("\n"))
            i = j
            continue
        if c == "'":
            m = re.match(r"'(?:\\(?:x[0-9a-fA-F]{2}|u\{[0-9a-fA-F_]+\}|.)|[^\\'])'", src[i:])
            if m:                                   # char literal
                out.append("'c'")
                i += len(m.group(0))
                continue
        out.append(c)
        i += 1
    return "".join(out)


TOKEN = re.compile(r"\s*(?:('c')|('[A-Za-z_]\w*)|([A-Za-z_]\w*)|(\d[\w.]*)|(\"\")|(::|->|=>|\.\.=|\.\.\.|\.\.|&&|\|\||[-+*/%^!&|<>=]=|<<|>>|.))", re.S)


def tokenize(text):
    """-> list of (kind, text, line); kind in {char, lt, id, num, str, p}.  `>>` `>=` `<<` ... are
    split back into single characters: only generics matter here."""
    toks, pos, line = [], 0, 1
    n = len(text)
    while pos < n:
        m = TOKEN.match(text, pos)
        if not m:
            break
        line += text[pos:m.end()].count("\n")
        pos = m.end()
        ch, lt, idt, num, st, p = m.groups()
        if ch:
            toks.append(("char", ch, line))
        elif lt:
            toks.append(("lt", lt, line))
        elif idt:
            toks.append(("id", idt, line))
        elif num:
            toks.append(("num", num, line))
        elif st is not None and st != "":
            toks.append(("str", st, line))
        elif p is not None:
            if p.strip() == "":
                continue
            if p in ("::", "->", "=>", "..", "...", "..="):
                toks.append(("p", p, line))
            else:
                for chx in p:
                    toks.append(("p", chx, line))
    return toks


# ------------------------------------------------------------------ parser

class ParseError(Exception):
    pass


class P:
    def __init__(self, toks, path):
        self.t, self.i, self.path = toks, 0, path

    def peek(self, k=0):
        j = self.i + k
        return self.t[j][1] if j < len(self.t) else None

    def kind(self, k=0):
        j = self.i + k
        return self.t[j][0] if j < len(self.t) else None

    def line(self):
        return self.t[min(self.i, len(self.t) - 1)][2] if self.t else 0

    def next(self):
        v = self.peek()
        self.i += 1
        return v

    def accept(self, s):
        if self.peek() == s and self.kind() != "str":
            self.i += 1
            return True
        return False

    def expect(self, s):
        if not self.accept(s):
            raise ParseError("%s:%d: expected %r, found %r" % (self.path, self.line(), s, self.peek()))

    def skip_balanced(self):
        """current token is an opening ( [ { : skips to after its partner"""
        op = self.next()
        cl = {"(": ")", "[": "]", "{": "}"}[op]
        depth = 1
        while depth and self.i < len(self.t):
            v = self.next()
            if self.t[self.i - 1][0] != "p":
                continue
            if v in "([{":
                depth += 1
            elif v in ")]}":
                depth -= 1
        return cl

    # ---- generics   <'a, 'b: 'a, T: Bound + 'a = Default, const D: usize = 3>
    def generics(self):
        lts, tys, consts, bounds = [], [], [], {}
        if not self.accept("<"):
            return lts, tys, consts, bounds
        while not self.accept(">"):
            if self.kind() == "lt":
                lts.append(self.next())
                if self.accept(":"):
                    self.bounds_text()
            elif self.accept("const"):
                consts.append(self.next())
                self.expect(":")
                self.type()
                if self.accept("="):
                    self.const_expr()
            else:
                name = self.next()
                tys.append(name)
                if self.accept(":"):
                    bounds.setdefault(name, []).extend(self.bounds_text())
                if self.accept("="):
                    self.type()
            if not self.accept(","):
                self.expect(">")
                break
        return lts, tys, consts, bounds

    def bounds_text(self):
        """T: A + B<X> + ?Sized + 'a + for<'t> Fn(&'t T) -> U    -> list of bound strings"""
        res = []
        while True:
            start = self.i
            if self.accept("?"):
                pass
            if self.accept("for"):
                self.generics()
            if self.kind() == "lt":
                self.next()
            elif self.accept("("):
                self.i -= 1
                self.skip_balanced()
            else:
                self.path_type()
            res.append(join_tokens(self.t[start:self.i]))
            if not self.accept("+"):
                break
        return res

    def where_clause(self):
        """where T: A, for<'t> &'t T: B<T>, ...   (up to `{` or `;`)  -> {typaram: [bounds]}"""
        out = {}
        if not self.accept("where"):
            return out
        while self.peek() not in ("{", ";", None):
            if self.accept("for"):
                self.generics()
            if self.kind() == "lt":
                self.next()
                self.expect(":")
                self.bounds_text()
            else:
                start = self.i
                self.type()
                lhs = "".join(x[1] for x in self.t[start:self.i])
                self.expect(":")
                out.setdefault(lhs, []).extend(self.bounds_text())
            if not self.accept(","):
                break
        return out

    def const_expr(self):
        if self.peek() == "{":
            s = self.i
            self.skip_balanced()
            return "".join(x[1] for x in self.t[s:self.i])
        if self.accept("-"):
            return "-" + self.next()
        return self.next()

    # ---- types -> AST
    def type(self):
        if self.accept("&"):
            lt = self.next() if self.kind() == "lt" else None
            m = self.accept("mut")
            return ("ref", lt, m, self.type())
        if self.accept("*"):
            if self.accept("const"):
                return ("raw", False, self.type())
            self.expect("mut")
            return ("raw", True, self.type())
        if self.accept("("):
            items, trailing = [], False
            while not self.accept(")"):
                items.append(self.type())
                trailing = self.accept(",")
                if not trailing:
                    self.expect(")")
                    break
            if len(items) == 1 and not trailing:
                return items[0]
            return ("tuple", items)
        if self.accept("["):
            t = self.type()
            if self.accept(";"):
                depth = 0
                while not (depth == 0 and self.peek() == "]"):
                    v = self.next()
                    if v in "([{":
                        depth += 1
                    elif v in ")]}":
                        depth -= 1
                self.expect("]")
                return ("array", t)
            self.expect("]")
            return ("slice", t)
        if self.accept("!"):
            return ("never",)
        if self.peek() in ("fn", "unsafe", "extern") and self.kind() == "id":
            while self.peek() in ("unsafe", "extern") or self.kind() == "str":
                self.next()
            self.expect("fn")
            self.skip_balanced()
            if self.accept("->"):
                self.type()
            return ("fnptr",)
        if self.peek() in ("dyn", "impl") and self.kind() == "id":
            kw = self.next()
            return (kw, self.bounds_text())
        if self.accept("<"):                        # <T as Trait>::Assoc
            start = self.i - 1
            depth = 1
            while depth:
                v = self.next()
                depth += (v == "<") - (v == ">")
            while self.accept("::"):
                self.next()
            return ("opaque", "".join(x[1] for x in self.t[start:self.i]))
        if self.accept("_"):
            return ("opaque", "_")
        return self.path_type()

    def path_type(self):
        segs, lts, args = [], [], []
        self.accept("::")
        while True:
            if self.kind() != "id":
                raise ParseError("%s:%d: type expected, found %r" % (self.path, self.line(), self.peek()))
            segs.append(self.next())
            if self.peek() == "::" and self.peek(1) == "<":
                self.next()
            if self.accept("<"):
                lts, args = [], []
                while not self.accept(">"):
                    if self.kind() == "lt":
                        lts.append(self.next())
                    elif self.kind() == "num" or self.peek() in ("{", "-") or self.kind() == "char":
                        args.append(("const", self.const_expr()))
                    elif self.kind() == "id" and self.peek(1) == "=":
                        self.next(); self.next()
                        self.type()                 # associated type binding: ignored
                    else:
                        args.append(self.type())
                    if not self.accept(","):
                        self.expect(">")
                        break
            elif self.peek() == "(" and segs[-1] in ("Fn", "FnMut", "FnOnce"):
                self.skip_balanced()
                if self.accept("->"):
                    self.type()
            if not self.accept("::"):
                break
        return ("path", segs, lts, args)


def join_tokens(toks):
    out = ""
    for k, (kind, text, _) in enumerate(toks):
        if out and (out[-1].isalnum() or out[-1] in "_'") and (text[0].isalnum() or text[0] in "_'") :
            out += " "
        out += text
    return out


def split_super(b):
    """'private::Sealed<Rhs, X>' -> ('private::Sealed', ['Rhs', 'X'])  (top-level commas only)"""
    if "<" not in b or b.startswith("for<") or b.startswith("?"):
        return b, []
    head, rest = b.split("<", 1)
    rest = rest.rsplit(">", 1)[0]
    args, depth, cur = [], 0, ""
    for ch in rest:
        if ch in "<([":
            depth += 1
        elif ch in ">)]":
            depth -= 1
        if ch == "," and depth == 0:
            args.append(cur.strip()); cur = ""
        else:
            cur += ch
    if cur.strip():
        args.append(cur.strip())
    return head, args


class Decl:
    pass


def scan_file(path, modpath, out):
    """Scans one file.  out: dict of lists decls / aliases / impls / traits / mods / uses."""
    text = strip_comments(open(path, encoding="utf-8").read())
    p = P(tokenize(text), path)
    mods = [list(modpath)]          # stack of module paths
    uses = out["uses"].setdefault("::".join(modpath), {})
    use_stack = [uses]

    def cur():
        return "::".join(mods[-1])

    while p.i < len(p.t):
        start = p.i
        try:
            if p.accept("#"):
                p.accept("!")
                if p.peek() == "[":
                    p.skip_balanced()
                continue
            vis = ""
            if p.peek() == "pub" and p.kind() == "id":
                p.next()
                vis = "pub"
                if p.peek() == "(":
                    s = p.i
                    p.skip_balanced()
                    vis = "pub" + "".join(x[1] for x in p.t[s:p.i])
            unsafe = False
            while p.peek() in ("unsafe", "default", "async") and p.kind() == "id":
                if p.next() == "unsafe":
                    unsafe = True
            if p.peek() == "const" and p.peek(1) in ("fn", "unsafe", "async", "extern"):
                p.next()
                while p.peek() in ("unsafe", "async"):
                    p.next()
            if p.peek() == "extern" and p.kind() == "id":
                p.next()
                if p.kind() == "str":
                    p.next()
                if p.peek() == "{":
                    p.skip_balanced()
                    continue
                if p.accept("crate"):
                    while p.next() != ";":
                        pass
                    continue
            kw, kd = p.peek(), p.kind()
            if kd != "id":
                if kw == "}":
                    p.next()
                    if len(mods) > 1:
                        mods.pop()
                        use_stack.pop()
                    continue
                p.next()
                continue
            line = p.line()
            if kw in ("struct", "enum", "union") and p.kind(1) == "id" and p.peek(2) in ("<", "{", "(", ";", "where"):
                p.next()
                d = Decl()
                d.kind, d.name, d.vis, d.mod, d.file, d.line = kw, p.next(), vis, cur(), path, line
                d.lts, d.tys, d.consts, d.bounds = p.generics()
                p.where_clause()
                d.fields = []
                if kw == "enum":
                    p.expect("{")
                    while not p.accept("}"):
                        while p.accept("#"):
                            p.skip_balanced()
                        vname = p.next()
                        if p.peek() == "{":
                            for fn, ft in named_fields(p):
                                d.fields.append((vname + "." + fn, ft))
                        elif p.peek() == "(":
                            for k, ft in enumerate(tuple_fields(p)):
                                d.fields.append(("%s.%d" % (vname, k), ft))
                        if p.accept("="):
                            p.const_expr()
                        if not p.accept(","):
                            p.expect("}")
                            break
                elif p.peek() == "{":
                    d.fields = named_fields(p)
                elif p.peek() == "(":
                    d.fields = [(str(k), ft) for k, ft in enumerate(tuple_fields(p))]
                    p.where_clause()
                    p.accept(";")
                else:
                    p.accept(";")
                out["decls"].append(d)
                continue
            if kw == "type" and p.kind(1) == "id":
                p.next()
                a = Decl()
                a.name, a.vis, a.mod, a.file, a.line = p.next(), vis, cur(), path, line
                a.lts, a.tys, a.consts, a.bounds = p.generics()
                p.where_clause()
                p.expect("=")
                a.body = p.type()
                p.accept(";")
                out["aliases"].append(a)
                continue
            if kw == "trait" and p.kind(1) == "id":
                p.next()
                t = Decl()
                t.name, t.vis, t.mod, t.unsafe, t.file, t.line = p.next(), vis, cur(), unsafe, path, line
                t.auto = False
                _, t.tys, _, _ = p.generics()
                t.supers = p.bounds_text() if p.accept(":") else []
                p.where_clause()
                if p.peek() == "{":
                    p.skip_balanced()
                else:
                    p.accept(";")
                out["traits"].append(t)
                continue
            if kw == "impl":
                p.next()
                im = Decl()
                im.unsafe, im.mod, im.file, im.line = unsafe, cur(), path, line
                im.lts, im.tys, im.consts, im.bounds = p.generics() if p.peek() == "<" else ([], [], [], {})
                im.negative = p.accept("!")
                first = p.type()
                if p.accept("for"):
                    im.trait, im.target = first, p.type()
                else:
                    im.trait, im.target = None, first
                w = p.where_clause()
                for k, v in w.items():
                    im.bounds.setdefault(k, []).extend(v)
                if p.peek() == "{":
                    p.skip_balanced()
                else:
                    p.accept(";")
                out["impls"].append(im)
                continue
            if kw == "mod" and p.kind(1) == "id":
                p.next()
                name = p.next()
                m = Decl()
                m.name, m.vis, m.parent, m.file, m.line = name, vis, cur(), path, line
                m.inline = p.peek() == "{"
                out["mods"].append(m)
                if p.accept("{"):
                    mods.append(mods[-1] + [name])
                    u = out["uses"].setdefault("::".join(mods[-1]), {})
                    use_stack.append(u)
                else:
                    p.accept(";")
                continue
            if kw == "use":
                p.next()
                for local, full in use_tree(p, []):
                    use_stack[-1][local] = full
                    if vis.startswith("pub"):
                        out["reexports"].append((cur(), vis, full, line, path))
                p.accept(";")
                continue
            if kw == "fn":
                p.next()
                depth = 0
                while p.i < len(p.t):
                    v = p.peek()
                    if p.kind() == "p":
                        if v in "([":
                            depth += 1
                        elif v in ")]":
                            depth -= 1
                        elif depth == 0 and v in "{;":
                            break
                    p.next()
                if p.peek() == "{":
                    p.skip_balanced()
                else:
                    p.accept(";")
                continue
            if kw in ("const", "static"):
                p.next()
                depth = 0
                while p.i < len(p.t):
                    v = p.next()
                    if p.t[p.i - 1][0] != "p":
                        continue
                    if v in "([{":
                        depth += 1
                    elif v in ")]}":
                        depth -= 1
                    elif depth == 0 and v == ";":
                        break
                continue
            if kw == "macro_rules" or (p.peek(1) == "!" and p.peek(2) != "="):
                p.next(); p.next()
                if p.kind() == "id":
                    p.next()
                if p.peek() in ("(", "[", "{"):
                    p.skip_balanced()
                p.accept(";")
                continue
            p.next()
        except (ParseError, KeyError, TypeError, IndexError) as e:
            out["errors"].append("%s:%d: %s" % (path, p.line(), e))
            p.i = max(p.i, start + 1)


def named_fields(p):
    fields = []
    p.expect("{")
    while not p.accept("}"):
        while p.accept("#"):
            p.skip_balanced()
        if p.peek() == "pub" and p.kind() == "id":
            p.next()
            if p.peek() == "(":
                p.skip_balanced()
        name = p.next()
        p.expect(":")
        fields.append((name, p.type()))
        if not p.accept(","):
            p.expect("}")
            break
    return fields


def tuple_fields(p):
    fields = []
    p.expect("(")
    while not p.accept(")"):
        while p.accept("#"):
            p.skip_balanced()
        if p.peek() == "pub" and p.kind() == "id":
            p.next()
            if p.peek() == "(":
                p.skip_balanced()
        fields.append(p.type())
        if not p.accept(","):
            p.expect(")")
            break
    return fields


def use_tree(p, prefix):
    """use a::b::{c, d as e, f::*};  -> [(local name, [full, path])]"""
    res = []
    p.accept("::")
    segs = list(prefix)
    while True:
        if p.accept("{"):
            while not p.accept("}"):
                res.extend(use_tree(p, segs))
                if not p.accept(","):
                    p.expect("}")
                    break
            return res
        if p.accept("*"):
            res.append(("*" + "::".join(segs), segs + ["*"]))
            return res
        segs.append(p.next())
        if not p.accept("::"):
            break
    local = segs[-1]
    if p.accept("as"):
        local = p.next()
    if local == "self":
        local = segs[-2]
        segs = segs[:-1]
    res.append((local, segs))
    return res


# ------------------------------------------------------------------ collection + resolution

EXCLUDED_FILES = set()      # nothing is excluded: example modules contain no item-level types


def module_of(rel):
    parts = rel[:-3].split(os.sep)
    if parts[-1] in ("mod", "lib", "main"):
        parts = parts[:-1]
    return parts


def collect(repo):
    src = os.path.join(repo, "src")
    out = {"decls": [], "aliases": [], "impls": [], "traits": [], "mods": [], "uses": {}, "reexports": [],
           "errors": [], "files": 0}
    for root, dirs, files in sorted(os.walk(src)):
        dirs.sort()
        for f in sorted(files):
            if not f.endswith(".rs"):
                continue
            full = os.path.join(root, f)
            rel = os.path.relpath(full, src)
            out["files"] += 1
            scan_file(full, module_of(rel), out)
    return out


class Resolver:
    def __init__(self, out):
        self.out = out
        self.by_full = {}
        self.by_simple = {}
        for d in out["decls"]:
            d.full = (d.mod + "::" if d.mod else "") + d.name
            self.by_full[d.full] = d
            self.by_simple.setdefault(d.name, []).append(d)
        self.alias_full = {}
        self.alias_simple = {}
        for a in out["aliases"]:
            a.full = (a.mod + "::" if a.mod else "") + a.name
            self.alias_full[a.full] = a
            self.alias_simple.setdefault(a.name, []).append(a)

    def find(self, segs, mod, table_full, table_simple):
        """resolve a path written in module `mod`"""
        name = segs[-1]
        if len(segs) == 1:
            cand = (mod + "::" if mod else "") + name
            if cand in table_full:
                return table_full[cand]
        uses = self.out["uses"].get(mod, {})
        if segs[0] in uses:
            fullsegs = uses[segs[0]] + segs[1:]
            r = self.absolute(fullsegs, mod, table_full)
            if r is not None:
                return r
        r = self.absolute(segs, mod, table_full)
        if r is not None:
            return r
        # glob imports and re-exports: fall back to a unique simple name
        c = table_simple.get(name, [])
        if len(c) == 1:
            return c[0]
        if len(c) > 1:
            # prefer the candidate whose module is a prefix-sibling of `mod`
            best = [d for d in c if mod.startswith(d.mod) or d.mod.startswith(mod.split("::")[0])]
            if len(best) == 1:
                return best[0]
        return None

    def absolute(self, segs, mod, table):
        segs = list(segs)
        if segs and segs[0] == "crate":
            segs = segs[1:]
        elif segs and segs[0] == "self":
            segs = mod.split("::") + segs[1:] if mod else segs[1:]
        elif segs and segs[0] == "super":
            base = mod.split("::") if mod else []
            while segs and segs[0] == "super":
                base = base[:-1]
                segs = segs[1:]
            segs = base + segs
        full = "::".join(segs)
        if full in table:
            return table[full]
        # re-exported one level up (pub use child::X): try dropping / adding nothing else
        return None


def coq_str(s):
    return '"' + s.replace('"', '""') + '"'


def lt_coq(lt, lts):
    if lt is None:
        return "LAnon"
    if lt == "'static":
        return "LStatic"
    if lt in lts:
        return "LParam %d" % lts.index(lt)
    if lt == "'_":
        return "LAnon"
    return "LOther %s" % coq_str(lt)


def ast_text(a):
    k = a[0]
    if k == "path":
        s = "::".join(a[1])
        inner = list(a[2]) + [ast_text(x) for x in a[3]]
        return s + ("<" + ", ".join(inner) + ">" if inner else "")
    if k == "ref":
        return "&" + ((a[1] + " ") if a[1] else "") + ("mut " if a[2] else "") + ast_text(a[3])
    if k == "raw":
        return "*" + ("mut " if a[1] else "const ") + ast_text(a[2])
    if k == "tuple":
        return "(" + ", ".join(ast_text(x) for x in a[1]) + ")"
    if k == "array":
        return "[" + ast_text(a[1]) + "; _]"
    if k == "slice":
        return "[" + ast_text(a[1]) + "]"
    if k == "const":
        return str(a[1])
    if k in ("dyn", "impl"):
        return k + " " + " + ".join(a[1])
    if k == "fnptr":
        return "fn(..)"
    if k == "opaque":
        return a[1]
    return k


class Translator:
    def __init__(self, out):
        self.out = out
        self.r = Resolver(out)
        self.unresolved = []

    def ty(self, a, d, depth=0):
        """AST -> Coq term (string) in the scope of declaration d (d.lts, d.tys, d.consts, d.mod)"""
        k = a[0]
        if k == "ref":
            return "TRef (%s) %s (%s)" % (lt_coq(a[1], d.lts), "true" if a[2] else "false", self.ty(a[3], d, depth))
        if k == "raw":
            return "TRaw %s (%s)" % ("true" if a[1] else "false", self.ty(a[2], d, depth))
        if k == "tuple":
            return "TTuple [%s]" % "; ".join(self.ty(x, d, depth) for x in a[1])
        if k == "array":
            return "TArray (%s)" % self.ty(a[1], d, depth)
        if k == "slice":
            return "TSlice (%s)" % self.ty(a[1], d, depth)
        if k == "fnptr":
            return "TFnPtr"
        if k == "never":
            return "TPrim \"!\""
        if k == "dyn":
            bs = [b.split("<")[0].split("::")[-1] for b in a[1]]
            return "TDyn %s %s" % ("true" if "Send" in bs else "false", "true" if "Sync" in bs else "false")
        if k in ("impl", "opaque", "const"):
            return "TOpaque %s" % coq_str(ast_text(a))
        assert k == "path", a
        segs, lts, args = a[1], a[2], a[3]
        name = segs[-1]
        if len(segs) == 1 and not args and not lts:
            if name in d.tys:
                return "TParam %d" % d.tys.index(name)
            if name == "Self":
                return "TOpaque \"Self\""
        if len(segs) == 1 and name in PRIMS and not args:
            return "TPrim %s" % coq_str(name)
        # declared in the crate?
        target = self.r.find(segs, d.mod, self.r.by_full, self.r.by_simple)
        if target is not None:
            targs = [x for x in args if not self.is_const_arg(x, d)]
            if len(targs) > len(target.tys):
                targs = targs[:len(target.tys)]
            return "TApp %s [%s] [%s]" % (coq_str(target.full), "; ".join(lt_coq(l, d.lts) for l in lts),
                                          "; ".join(self.ty(x, d, depth) for x in targs))
        al = self.r.find(segs, d.mod, self.r.alias_full, self.r.alias_simple)
        if al is not None and depth < 8:
            return self.ty(self.expand_alias(al, lts, args, d), d, depth + 1)
        if name in WRAP and len([x for x in args if x[0] != "const"]) == 1:
            return "%s (%s)" % (WRAP[name], self.ty(args[0], d, depth))
        if name in WRAP2 and len([x for x in args if x[0] != "const"]) in (2, 3):
            return "TVec (TTuple [%s; %s])" % (self.ty(args[0], d, depth), self.ty(args[1], d, depth))
        if len(segs) >= 1 and name in PRIMS and not args and segs[0] in ("std", "core", "alloc"):
            return "TPrim %s" % coq_str(name)
        self.unresolved.append("%s: %s" % (getattr(d, "full", getattr(d, "name", "?")), ast_text(a)))
        return "TOpaque %s" % coq_str(ast_text(a))

    def is_const_arg(self, x, d):
        if x[0] == "const":
            return True
        return x[0] == "path" and len(x[1]) == 1 and not x[3] and x[1][0] in d.consts and x[1][0] not in d.tys

    def expand_alias(self, al, lts, args, d):
        """substitutes the alias' parameters in its body (AST level); the alias body is first
        rewritten so that names resolve in the alias' own module: we only support bodies whose
        names are also visible from the use site, which holds for this crate (checked by the
        unresolved list)."""
        targs = [x for x in args if not self.is_const_arg(x, d)]
        env_t = dict(zip(al.tys, targs))
        env_l = dict(zip(al.lts, lts))

        def sub(a):
            k = a[0]
            if k == "path":
                if len(a[1]) == 1 and not a[3] and a[1][0] in env_t:
                    return env_t[a[1][0]]
                return ("path", a[1], [env_l.get(l, l) for l in a[2]], [sub(x) for x in a[3]])
            if k == "ref":
                return ("ref", env_l.get(a[1], a[1]), a[2], sub(a[3]))
            if k == "raw":
                return ("raw", a[1], sub(a[2]))
            if k == "tuple":
                return ("tuple", [sub(x) for x in a[1]])
            if k in ("array", "slice"):
                return (k, sub(a[1]))
            return a
        return sub(al.body)

    def marker(self, d, trait):
        """Auto | Explicit conds | Negative from the impls of Send / Sync whose target is d"""
        for im in self.out["impls"]:
            if im.trait is None or im.trait[0] != "path" or im.trait[1][-1] != trait:
                continue
            tg = im.target
            if tg[0] != "path":
                continue
            scope = Decl()
            scope.mod, scope.lts, scope.tys, scope.consts = im.mod, im.lts, im.tys, im.consts
            t = self.r.find(tg[1], im.mod, self.r.by_full, self.r.by_simple)
            if t is not d:
                continue
            if im.negative:
                return "Negative"
            # conditions: Send / Sync bounds on parameters that are passed straight through
            pos = {}
            targs = [x for x in tg[3] if not self.is_const_arg(x, scope)]
            for k, x in enumerate(targs):
                if x[0] == "path" and len(x[1]) == 1 and x[1][0] in im.tys:
                    pos[x[1][0]] = k
            conds = []
            for name, bs in sorted(im.bounds.items()):
                for b in bs:
                    bn = b.split("<")[0].split("::")[-1]
                    if bn in ("Send", "Sync") and name in pos:
                        conds.append("(%s, %d)" % (bn, pos[name]))
            return "Explicit [%s]" % "; ".join(conds)
        return "Auto"


def generate(repo):
    out = collect(repo)
    tr = Translator(out)
    L = []
    w = L.append
    w("(* GENERATED by tools/gen_types.py from the Rust sources (src/**/*.rs) -- do not edit.")
    w("   Regenerated by ./check C20 on every run (pre_proof); a committed copy keeps `make` usable.")
    w("   %d files, %d struct/enum declarations, %d aliases, %d traits, %d modules. *)"
      % (out["files"], len(out["decls"]), len(out["aliases"]), len(out["traits"]), len(out["mods"])))
    w("From Coq Require Import List.")
    w("From EasyML Require Import Model.AutoTraits.")
    w("Import ListNotations.")
    w("Open Scope str_scope.")
    w("")
    w("Definition decls : list decl := [")
    items = []
    for d in sorted(out["decls"], key=lambda d: (d.full, d.file, d.line)):
        flds = ";\n      ".join("(%s, %s)" % (coq_str(n), tr.ty(t, d)) for n, t in d.fields)
        src = "%s:%d  %s %s%s" % (os.path.relpath(d.file, repo), d.line, d.kind, d.name,
                                  ("<" + ", ".join(d.lts + d.tys + ["const " + c for c in d.consts]) + ">") if d.lts + d.tys + d.consts else "")
        items.append("  (* %s *)\n  {| dname := %s; dkind := %s; dpub := %s; dlts := %d; dtys := %d; dconsts := %d;\n"
                     "     dfields := [%s];\n     dsend := %s; dsync := %s |}"
                     % (src, coq_str(d.full), {"struct": "KStruct", "enum": "KEnum", "union": "KUnion"}[d.kind],
                        "true" if d.vis == "pub" else "false", len(d.lts), len(d.tys), len(d.consts),
                        flds, tr.marker(d, "Send"), tr.marker(d, "Sync")))
    w(";\n".join(items))
    w("].")
    w("")
    w("(* generic type aliases, with their bodies in the scope of their own parameters *)")
    w("Definition aliases : list alias := [")
    items = []
    for a in sorted(out["aliases"], key=lambda a: (a.full, a.line)):
        items.append("  (* %s:%d *)\n  {| aname := %s; alts := %d; atys := %d; abody := %s |}"
                     % (os.path.relpath(a.file, repo), a.line, coq_str(a.full), len(a.lts), len(a.tys), tr.ty(a.body, a)))
    w(";\n".join(items))
    w("].")
    w("")
    w("Definition traits : list trait_decl := [")
    items = []
    for t in sorted(out["traits"], key=lambda t: ((t.mod + "::" if t.mod else "") + t.name, t.line)):
        full = (t.mod + "::" if t.mod else "") + t.name
        sup = []
        for b in t.supers:
            h, a = split_super(b)
            sup.append("(%s, [%s])" % (coq_str(h), "; ".join(coq_str(x) for x in a)))
        items.append("  (* %s:%d *)\n  {| tname := %s; tunsafe := %s; tpub := %s; tparams := [%s]; tsupers := [%s] |}"
                     % (os.path.relpath(t.file, repo), t.line, coq_str(full), "true" if t.unsafe else "false",
                        "true" if t.vis == "pub" else "false", "; ".join(coq_str(x) for x in t.tys), "; ".join(sup)))
    w(";\n".join(items))
    w("].")
    w("")
    w("Definition modules : list mod_decl := [")
    items = []
    for m in sorted(out["mods"], key=lambda m: ((m.parent + "::" if m.parent else "") + m.name, m.line)):
        full = (m.parent + "::" if m.parent else "") + m.name
        items.append("  {| mname := %s; mpub := %s; minline := %s |}"
                     % (coq_str(full), "true" if m.vis == "pub" else "false", "true" if m.inline else "false"))
    w(";\n".join(items))
    w("].")
    w("")
    w("(* every `pub use` / `pub(..) use`: (module it appears in, visibility, path segments) *)")
    w("Definition reexports : list reexport := [")
    items = []
    for modp, vis, full, line, path in sorted(out["reexports"], key=lambda r: (r[0], r[2], r[3])):
        items.append("  {| rmod := %s; rvis := %s; rpath := [%s] |}"
                     % (coq_str(modp), coq_str(vis), "; ".join(coq_str(s) for s in full)))
    w(";\n".join(items))
    w("].")
    w("")
    w("(* every impl of Send or Sync found anywhere in the sources *)")
    w("Definition marker_impls : list marker_impl := [")
    items = []
    for im in out["impls"]:
        if im.trait is not None and im.trait[0] == "path" and im.trait[1][-1] in ("Send", "Sync"):
            items.append("  (* %s:%d *)\n  {| mi_trait := %s; mi_unsafe := %s; mi_negative := %s; mi_target := %s |}"
                         % (os.path.relpath(im.file, repo), im.line, im.trait[1][-1], "true" if im.unsafe else "false",
                            "true" if im.negative else "false", coq_str(ast_text(im.target))))
    w(";\n".join(items))
    w("].")
    w("")
    # impls of traits that are declared inside a private INLINE module (the sealing pattern)
    private_inline = set((m.parent + "::" if m.parent else "") + m.name for m in out["mods"] if m.inline and m.vis != "pub")
    hidden = {}
    for t in out["traits"]:
        if any(t.mod == pm or t.mod.startswith(pm + "::") for pm in private_inline):
            hidden.setdefault(t.name, []).append((t.mod + "::" if t.mod else "") + t.name)

    def form(a, im):
        if a[0] == "path" and len(a[1]) == 1 and not a[3] and a[1][0] in im.tys:
            return "FParam %s" % coq_str(a[1][0])
        if a[0] == "path":
            scope = Decl()
            scope.mod = im.mod
            d = tr.r.find(a[1], im.mod, tr.r.by_full, tr.r.by_simple)
            if d is not None:
                return "FApp %s true" % coq_str(d.full)
            return "FApp %s false" % coq_str("::".join(a[1]))
        return "FOther %s" % coq_str(ast_text(a))

    w("(* every impl of a trait declared in a private inline module (sealing traits): its type parameters,")
    w("   Self form, the trait's explicit arguments (none = the default, Self) and its where-clauses *)")
    w("Definition sealed_impls : list trait_impl := [")
    items = []
    for im in out["impls"]:
        if im.trait is None or im.trait[0] != "path" or im.trait[1][-1] not in hidden:
            continue
        cands = hidden[im.trait[1][-1]]
        full = next((c for c in cands if c == (im.mod + "::" if im.mod else "") + im.trait[1][-1]), cands[0])
        args = [x for x in im.trait[3] if x[0] != "const"]
        wh = []
        for lhs, bs in sorted(im.bounds.items()):
            for b in bs:
                wh.append("(%s, %s)" % (coq_str(lhs), coq_str(b)))
        items.append("  (* %s:%d *)\n  {| ti_trait := %s; ti_mod := %s; ti_params := [%s]; ti_self := %s;\n     ti_args := [%s];\n     ti_where := [%s] |}"
                     % (os.path.relpath(im.file, repo), im.line, coq_str(full), coq_str(im.mod),
                        "; ".join(coq_str(x) for x in im.tys), form(im.target, im),
                        "; ".join(form(x, im) for x in args), "; ".join(wh)))
    w(";\n".join(items))
    w("].")
    w("")
    w("(* every use of the sealing pattern: (parent module, trait, private inline module, supertrait) for each")
    w("   trait that names a supertrait `m::S` where `parent::m` is a private inline module *)")
    w("Definition seal_uses : list (str * str * str * str) := [")
    items = []
    for t in sorted(out["traits"], key=lambda t: ((t.mod + "::" if t.mod else "") + t.name, t.line)):
        for b in t.supers:
            h, _ = split_super(b)
            if "::" in h:
                m, sname = h.rsplit("::", 1)
                if m.startswith("self::"):
                    m = m[6:]
                if (t.mod + "::" if t.mod else "") + m in private_inline:
                    items.append("  (%s, %s, %s, %s)" % (coq_str(t.mod), coq_str(t.name), coq_str(m), coq_str(sname)))
    w(";\n".join(items))
    w("].")
    w("")
    w("(* what the translator could not read (must be empty for the types C20 names) *)")
    w("Definition translator_errors : list str := [%s]." % "; ".join(coq_str(e.replace(repo, "")) for e in out["errors"]))
    w("Definition translator_unresolved : list str := [%s]." % "; ".join(coq_str(e) for e in sorted(set(tr.unresolved))))
    stats = {"files": out["files"], "decls": len(out["decls"]), "aliases": len(out["aliases"]),
             "traits": len(out["traits"]), "modules": len(out["mods"]),
             "marker_impls": sum(1 for im in out["impls"] if im.trait is not None and im.trait[0] == "path" and im.trait[1][-1] in ("Send", "Sync")),
             "impls_seen": len(out["impls"]), "errors": out["errors"], "unresolved": sorted(set(tr.unresolved))}
    return "\n".join(L) + "\n", stats


def write(repo=None, dest=None):
    if repo is None:
        from tools.vlib import REPO
        repo = REPO
    if dest is None:
        dest = os.path.join(os.path.dirname(HERE), "coq", "theories", "Gen", "Types.v")
    text, stats = generate(repo)
    os.makedirs(os.path.dirname(dest), exist_ok=True)
    old = open(dest).read() if os.path.exists(dest) else None
    stats["changed"] = old != text
    if old != text:                 # keep the mtime (and the .vo cache) when nothing changed
        tmp = dest + ".tmp"
        open(tmp, "w").write(text)
        os.replace(tmp, dest)
    return stats


if __name__ == "__main__":
    st = write(sys.argv[1] if len(sys.argv) > 1 else None, sys.argv[2] if len(sys.argv) > 2 else None)
    print(st)
