(* Line-oriented driver for the extracted model: one case (s-expression over integers) per line
   on stdin, one result line on stdout. Parsing and printing only. *)
open Model

let rec pos_of_int n =
  if n = 1 then XH
  else if n land 1 = 0 then XO (pos_of_int (n lsr 1))
  else XI (pos_of_int (n lsr 1))
let z_of_int n =
  if n = 0 then Z0 else if n > 0 then Zpos (pos_of_int n) else Zneg (pos_of_int (-n))
let rec int_of_pos = function
  | XH -> 1 | XO p -> 2 * int_of_pos p | XI p -> 2 * int_of_pos p + 1

let chunk_digits = 15
let chunk = 1_000_000_000_000_000
let zchunk = z_of_int chunk
let rec pow10 k = if k = 0 then 1 else 10 * pow10 (k - 1)

let z_of_string (s : Stdlib.String.t) : z =
  let neg = String.length s > 0 && s.[0] = '-' in
  let d = if neg then String.sub s 1 (String.length s - 1) else s in
  let n = String.length d in
  if n = 0 then failwith "empty integer";
  String.iter (fun c -> if c < '0' || c > '9' then failwith "bad integer") d;
  let first = n mod chunk_digits in
  let acc = ref Z0 in
  let pos = ref 0 in
  if first > 0 then begin
    acc := z_of_int (int_of_string (String.sub d 0 first));
    pos := first
  end;
  while !pos < n do
    let g = int_of_string (String.sub d !pos chunk_digits) in
    acc := Z.add (Z.mul !acc zchunk) (z_of_int g);
    pos := !pos + chunk_digits
  done;
  if neg then Z.opp !acc else !acc

let small_int_of_z = function
  | Z0 -> 0 | Zpos p -> int_of_pos p | Zneg p -> - (int_of_pos p)

let string_of_z (x : z) : Stdlib.String.t =
  match x with
  | Z0 -> "0"
  | _ ->
    let neg = (match x with Zneg _ -> true | _ -> false) in
    let a = ref (Z.abs x) in
    let parts = ref [] in
    while !a <> Z0 do
      let (q, r) = Z.div_eucl !a zchunk in
      parts := small_int_of_z r :: !parts;
      a := q
    done;
    let b = Buffer.create 32 in
    if neg then Buffer.add_char b '-';
    (match !parts with
     | [] -> Buffer.add_char b '0'
     | p :: rest ->
       Buffer.add_string b (string_of_int p);
       List.iter (fun q -> Buffer.add_string b (Printf.sprintf "%015d" q)) rest);
    Buffer.contents b

(* ---- s-expressions ---- *)
let parse (s : Stdlib.String.t) : sx =
  let n = String.length s in
  let i = ref 0 in
  let skip () = while !i < n && (s.[!i] = ' ' || s.[!i] = '\t' || s.[!i] = '\r') do incr i done in
  let rec item () : sx =
    skip ();
    if !i >= n then failwith "unexpected end";
    if s.[!i] = '(' then begin
      incr i;
      let items = ref [] in
      let fin = ref false in
      while not !fin do
        skip ();
        if !i >= n then failwith "unclosed list";
        if s.[!i] = ')' then (incr i; fin := true)
        else items := item () :: !items
      done;
      SL (List.rev !items)
    end else begin
      let st = !i in
      while !i < n && s.[!i] <> ' ' && s.[!i] <> '(' && s.[!i] <> ')' && s.[!i] <> '\t' && s.[!i] <> '\r' do incr i done;
      SZ (z_of_string (String.sub s st (!i - st)))
    end
  in
  let r = item () in
  skip ();
  if !i <> n then failwith "trailing input";
  r

let rec print (b : Buffer.t) (x : sx) : unit =
  match x with
  | SZ z -> Buffer.add_string b (string_of_z z)
  | SL l ->
    Buffer.add_char b '(';
    List.iteri (fun k y -> if k > 0 then Buffer.add_char b ' '; print b y) l;
    Buffer.add_char b ')'

let () =
  let b = Buffer.create 4096 in
  (try
     while true do
       let line = input_line stdin in
       Buffer.clear b;
       (try print b (run (parse line))
        with
        | Failure m -> Buffer.clear b; Buffer.add_string b ("(-3) ; driver: " ^ m)
        | Stack_overflow -> Buffer.clear b; Buffer.add_string b "(-4) ; stack overflow"
        | Out_of_memory -> Buffer.clear b; Buffer.add_string b "(-4) ; out of memory");
       print_string (Buffer.contents b);
       print_char '\n';
       flush stdout   (* one result per line, visible at once: the orchestrator detects a hanging case by output inactivity *)
     done
   with End_of_file -> ());
  flush stdout
