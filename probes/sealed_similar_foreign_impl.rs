// rule: C20_sealed
// query: sealed tensors::operations Similar private Sealed
// expect: error E0277
#![allow(unused)]
use easy_ml::tensors::operations::Similar;

struct Mine;
impl Similar for Mine {
    fn similar(&self, _other: &Mine) -> bool { true }
}
fn main() {}
