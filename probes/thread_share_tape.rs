// rule: C20_tape_not_sync
// query: send &differentiation::WengertList<f64>
// expect: error E0277
#![allow(unused)]
use easy_ml::differentiation::{Record, WengertList};

fn main() {
    let list = WengertList::<f64>::new();
    std::thread::scope(|s| {
        s.spawn(|| Record::variable(2.0f64, &list).number);
    });
}
