// rule: C20_unsafe_markers
// query: safe-impl matrices::views::NoInteriorMutability
// expect: error E0200
#![allow(unused)]
use easy_ml::matrices::views::{DataLayout, MatrixMut, MatrixRef, MatrixView, NoInteriorMutability};
struct One(f64);
impl NoInteriorMutability for One {}
fn main() {}
