// rule: C20_borrow_carried
// query: valid
// expect: compile
#![allow(unused)]
use easy_ml::differentiation::{Record, RecordMatrix, RecordTensor, WengertList};
use easy_ml::tensors::Tensor;
use easy_ml::matrices::Matrix;

fn main() {
    let v;
    {
        let list = WengertList::<f64>::new();
        v = Record::constant(1.0f64);
    }
    let _ = v.number;
}
