// rule: C20_adaptors_carry_argument_borrow
// query: conflict-type matrices::views::MatrixView<(f64, f64), &RecordMatrix<f64, matrices::Matrix<(f64, f64)>>>
// expect: error E0506
#![allow(unused)]
use easy_ml::tensors::Tensor;
use easy_ml::tensors::views::*;
use easy_ml::tensors::indexing::*;
use easy_ml::matrices::Matrix;
use easy_ml::matrices::views::{MatrixView, MatrixRange, MatrixReverse, Reverse};
use easy_ml::matrices::iterators::*;
use easy_ml::interop::{MatrixRefTensor, TensorRefMatrix};
use easy_ml::differentiation::{Record, RecordMatrix, RecordTensor, WengertList};

fn main() {
    let list = WengertList::new();
    let mut x = RecordMatrix::variables(&list, Matrix::from(vec![vec![1.0f64, 2.0], vec![3.0, 4.0]]));
    let v = x.view();
    x = RecordMatrix::variables(&list, Matrix::from(vec![vec![1.0f64, 2.0], vec![3.0, 4.0]]));
    let _ = v.size();
}
