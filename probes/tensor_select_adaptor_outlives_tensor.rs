// rule: C20_borrow_carried
// query: outlive tensors::indexing::TensorIterator
// expect: error E0597
#![allow(unused)]
use easy_ml::tensors::Tensor;
use easy_ml::tensors::views::TensorView;

fn main() {
    let v;
    {
        let t = Tensor::from([("x", 2)], vec![1.0f64, 2.0]);
        v = t.select([("x", 0)]);
    }
    let _ = v.iter().count();
}
