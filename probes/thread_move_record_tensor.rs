// rule: C20_record_containers_not_send_nor_sync
// query: send RecordTensor<f64, tensors::Tensor<(f64, f64)>>
// expect: error E0277
#![allow(unused)]
use easy_ml::differentiation::{RecordTensor, WengertList};
use easy_ml::tensors::Tensor;

fn main() {
    let list = WengertList::<f64>::new();
    let x = RecordTensor::variables(&list, Tensor::from([("x", 2)], vec![1.0f64, 2.0]));
    std::thread::scope(|s| {
        s.spawn(move || x.view().shape());
    });
}
