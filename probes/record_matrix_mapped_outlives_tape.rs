// rule: C20_borrow_carried
// query: outlive differentiation::container_record::RecordContainer
// expect: error E0597
#![allow(unused)]
use easy_ml::differentiation::{Record, RecordMatrix, RecordTensor, WengertList};
use easy_ml::tensors::Tensor;
use easy_ml::matrices::Matrix;

fn main() {
    let v;
    {
        let list = WengertList::new();
        v = { let x = RecordMatrix::variables(&list, Matrix::from(vec![vec![1.0f64, 2.0], vec![3.0, 4.0]])); x.map(|r| r * r).unwrap() };
    }
    let _ = v.view().size();
}
