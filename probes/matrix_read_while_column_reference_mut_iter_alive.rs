// rule: C20_borrow_carried
// query: conflict matrices::iterators::ColumnReferenceMutIterator
// expect: error E0502
#![allow(unused)]
use easy_ml::matrices::Matrix;
use easy_ml::matrices::views::MatrixView;

fn main() {
    let mut m = Matrix::from(vec![vec![1.0f64, 2.0], vec![3.0, 4.0]]);
    let v = m.column_reference_mut_iter(0);
    let n = m.get(0, 0);
    let _ = v.count();
}
