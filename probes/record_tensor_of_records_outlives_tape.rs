// rule: C20_borrow_carried
// query: outlive differentiation::Record
// expect: error E0597
#![allow(unused)]
use easy_ml::differentiation::{Record, RecordMatrix, RecordTensor, WengertList};
use easy_ml::tensors::Tensor;
use easy_ml::matrices::Matrix;

fn main() {
    let v;
    {
        let list = WengertList::new();
        v = Tensor::from([("x", 1)], vec![Record::variable(1.0f64, &list)]);
    }
    let _ = v.shape();
}
