// rule: C20_owning_types_lifetime_free
// query: outlive matrices::iterators::ColumnMajorOwnedIterator
// expect: compile
#![allow(unused)]
use easy_ml::matrices::Matrix;
use easy_ml::matrices::views::MatrixView;

fn main() {
    let v;
    {
        let m = Matrix::from(vec![vec![1.0f64, 2.0], vec![3.0, 4.0]]);
        v = m.column_major_owned_iter();
    }
    let _ = v.count();
}
