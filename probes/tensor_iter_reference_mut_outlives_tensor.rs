// rule: C20_borrow_carried
// query: outlive tensors::indexing::TensorReferenceMutIterator
// expect: error E0597
#![allow(unused)]
use easy_ml::tensors::Tensor;
use easy_ml::tensors::views::TensorView;

fn main() {
    let v;
    {
        let mut t = Tensor::from([("x", 2)], vec![1.0f64, 2.0]);
        v = t.iter_reference_mut();
    }
    let _ = v.count();
}
