// rule: C20_borrow_carried
// query: conflict matrices::iterators::DiagonalIterator
// expect: error E0505
#![allow(unused)]
use easy_ml::matrices::Matrix;
use easy_ml::matrices::views::MatrixView;

fn main() {
    let m = Matrix::from(vec![vec![1.0f64, 2.0], vec![3.0, 4.0]]);
    let v = m.diagonal_iter();
    drop(m);
    let _ = v.count();
}
