// rule: C20_send_sync_iff
// query: sync matrices::iterators::ColumnMajorOwnedIterator<f64, matrices::Matrix<f64>>
// expect: compile
#![allow(unused)]
use easy_ml::differentiation::{Derivatives, Record, RecordMatrix, RecordTensor, Trace, WengertList};
use easy_ml::differentiation::iterators::{AsRecords, InconsistentHistory, InvalidRecordIteratorError};
use easy_ml::matrices::iterators::*;
use easy_ml::matrices::views::*;
use easy_ml::matrices::Matrix;
use easy_ml::tensors::indexing::*;
use easy_ml::tensors::views::*;
use easy_ml::tensors::{InvalidShapeError, Tensor};
use std::cell::Cell;
use std::rc::Rc;
fn need<X: Sync>() {}
fn main() {
    need::<ColumnMajorOwnedIterator<f64, Matrix<f64>>>();
}
