// rule: C20_borrow_carried
// query: conflict differentiation::container_record::RecordContainer
// expect: error E0506
#![allow(unused)]
use easy_ml::differentiation::{Record, RecordMatrix, RecordTensor, WengertList};
use easy_ml::tensors::Tensor;
use easy_ml::matrices::Matrix;

fn main() {
    let mut list = WengertList::new();
    let v = RecordTensor::variables(&list, Tensor::from([("r", 2), ("c", 2)], vec![1.0f64, 2.0, 3.0, 4.0]));
    list = WengertList::new();
    let _ = v.view().shape();
}
