// rule: C20_tape_send_iff
// query: send differentiation::WengertList<f64>
// expect: compile
#![allow(unused)]
use easy_ml::differentiation::{Record, WengertList};

fn main() {
    let list = WengertList::new();
    let h = std::thread::spawn(move || {
        let x = Record::variable(2.0f64, &list);
        let y = x * x;
        y.derivatives()[&x]
    });
    assert_eq!(h.join().unwrap(), 4.0);
}
