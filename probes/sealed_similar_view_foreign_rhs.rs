// rule: C20_seal_covers_rhs
// query: sealed-rhs tensors::operations Similar private Sealed
// expect: error E0277
#![allow(unused)]
use easy_ml::tensors::operations::Similar;
use easy_ml::tensors::views::TensorView;
use easy_ml::tensors::Tensor;

struct Mine;
impl Similar<Mine> for TensorView<f64, Tensor<f64, 1>, 1> {
    fn similar(&self, _other: &Mine) -> bool { true }
}
fn main() {}
