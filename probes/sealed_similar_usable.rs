// rule: C20_sealed
// query: valid
// expect: compile
#![allow(unused)]
use easy_ml::tensors::operations::Similar;
use easy_ml::tensors::Tensor;

fn main() {
    let a = Tensor::from([("x", 2)], vec![1.0f64, 2.0]);
    let b = Tensor::from([("x", 2)], vec![1.0f64, 2.0]);
    assert!(a.similar(&b));
    assert!(a.view().similar(&b));
}
