// rule: C20_owning_types_lifetime_free
// query: outlive differentiation::Derivatives
// expect: compile
#![allow(unused)]
use easy_ml::differentiation::{Record, RecordMatrix, RecordTensor, WengertList};
use easy_ml::tensors::Tensor;
use easy_ml::matrices::Matrix;

fn main() {
    let v;
    {
        let list = WengertList::new();
        v = { let x = Record::variable(1.0f64, &list); (x * x).derivatives() };
    }
    let _ = v;
}
