// rule: C20_unsafe_markers
// query: safe-impl tensors::views::TensorRef
// expect: error E0200
#![allow(unused)]
use easy_ml::tensors::views::{DataLayout, TensorMut, TensorRef, TensorView};
struct One(f64);
impl TensorRef<f64, 1> for One {
    fn get_reference(&self, _i: [usize; 1]) -> Option<&f64> { Some(&self.0) }
    fn view_shape(&self) -> [(&'static str, usize); 1] { [("x", 1)] }
    unsafe fn get_reference_unchecked(&self, _i: [usize; 1]) -> &f64 { &self.0 }
    fn data_layout(&self) -> DataLayout<1> { DataLayout::Other }
}
fn main() {}
