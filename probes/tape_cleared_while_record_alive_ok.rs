// rule: C20_borrow_carried
// query: valid
// expect: compile
#![allow(unused)]
use easy_ml::differentiation::{Record, RecordMatrix, RecordTensor, WengertList};
use easy_ml::tensors::Tensor;
use easy_ml::matrices::Matrix;

fn main() {
    let list = WengertList::new();
    let v = Record::variable(1.0f64, &list);
    list.clear();
    let _ = v.number;
}
