// rule: C20_send_sync_iff
// query: sync WithIndex<matrices::iterators::RowMajorReferenceMutIterator<Cell, matrices::Matrix<Cell>>>
// expect: error E0277
#![allow(unused)]
use easy_ml::differentiation::{Derivatives, Record, RecordMatrix, RecordTensor, Trace, WengertList};
use easy_ml::differentiation::iterators::{AsRecords, InconsistentHistory, InvalidRecordIteratorError};
use easy_ml::matrices::iterators::*;
use easy_ml::matrices::views::*;
use easy_ml::matrices::Matrix;
use easy_ml::tensors::indexing::*;
use easy_ml::tensors::views::*;
use easy_ml::tensors::{InvalidShapeError, Tensor};
use std::cell::Cell;
use std::rc::Rc;
fn need<X: Sync>() {}
fn main() {
    need::<WithIndex<RowMajorReferenceMutIterator<'static, Cell<f64>, Matrix<Cell<f64>>>>>();
}
