// rule: C20_record_not_send_nor_sync
// query: send differentiation::Record<f64>
// expect: error E0277
#![allow(unused)]
use easy_ml::differentiation::{Record, WengertList};

fn main() {
    let list = WengertList::<f64>::new();
    let x = Record::variable(2.0f64, &list);
    std::thread::scope(|s| {
        s.spawn(move || { let y = x; y.number });
    });
}
