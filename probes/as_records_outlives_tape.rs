// rule: C20_borrow_carried
// query: outlive AsRecords
// expect: error E0597
#![allow(unused)]
use easy_ml::differentiation::{Record, RecordMatrix, RecordTensor, WengertList};
use easy_ml::tensors::Tensor;
use easy_ml::matrices::Matrix;

fn main() {
    let v;
    {
        let list = WengertList::new();
        v = easy_ml::differentiation::iterators::AsRecords::from(Some(&list), vec![(1.0f64, 0usize)].into_iter());
    }
    let _ = v.count();
}
