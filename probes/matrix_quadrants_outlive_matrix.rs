// rule: C20_quadrants_carry_source_lifetime
// query: outlive MatrixQuadrants
// expect: error E0597
#![allow(unused)]
use easy_ml::matrices::Matrix;
use easy_ml::matrices::views::MatrixView;

fn main() {
    let v;
    {
        let mut m = Matrix::from(vec![vec![1.0f64, 2.0], vec![3.0, 4.0]]);
        v = m.partition_quadrants(1, 1);
    }
    let _ = v.top_left.size();
}
