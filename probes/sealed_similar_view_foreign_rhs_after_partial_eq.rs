// rule: C20_seal_impls_closed
// query: sealed-open tensors::operations Similar private Sealed
// expect: error E0277
#![allow(unused)]
use easy_ml::tensors::operations::Similar;
use easy_ml::tensors::views::TensorView;
use easy_ml::tensors::Tensor;

struct Mine;
// allowed by the orphan rules (Mine is local); nothing to do with sealing
impl PartialEq<Mine> for TensorView<f64, Tensor<f64, 1>, 1> {
    fn eq(&self, _other: &Mine) -> bool { false }
}
impl Similar<Mine> for TensorView<f64, Tensor<f64, 1>, 1> {
    fn similar(&self, _other: &Mine) -> bool { true }
}
fn main() {}
