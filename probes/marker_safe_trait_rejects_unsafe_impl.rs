// rule: C20_unsafe_markers
// query: unsafe-impl interop::DimensionNames
// expect: error E0199
#![allow(unused)]
struct Names;
unsafe impl easy_ml::interop::DimensionNames for Names {
    fn names(&self) -> [&'static str; 2] { ["a", "b"] }
}
fn main() {}
