// rule: C20_owning_types_lifetime_free
// query: outlive differentiation::Trace
// expect: compile
#![allow(unused)]
use easy_ml::differentiation::{Record, RecordMatrix, RecordTensor, WengertList};
use easy_ml::tensors::Tensor;
use easy_ml::matrices::Matrix;

fn main() {
    let v;
    {
        let list = WengertList::new();
        v = (Record::variable(1.0f64, &list) * 3.0).number;
    }
    let _ = v;
}
