// rule: C20_borrow_carried
// query: valid
// expect: compile
#![allow(unused)]
use easy_ml::tensors::Tensor;
use easy_ml::tensors::views::TensorView;

fn main() {
    let t = Tensor::from([("x", 2)], vec![1.0f64, 2.0]);
    let v = t.iter();
    let n = t.iter_reference().count();
    let _ = v.count();
}
