// rule: C20_borrow_carried
// query: valid
// expect: compile
#![allow(unused)]
use easy_ml::differentiation::{Record, RecordMatrix, RecordTensor, WengertList};
use easy_ml::tensors::Tensor;
use easy_ml::matrices::Matrix;

fn main() {
    let list = WengertList::new();
    let x = RecordTensor::variables(&list, Tensor::from([("x", 2)], vec![1.0f64, 2.0]));
    let y = RecordMatrix::variables(&list, Matrix::from(vec![vec![1.0f64, 2.0]]));
    let s: Vec<Record<f64>> = x.iter_as_records().collect();
    let total = s[0] + s[1];
    let _ = total.derivatives();
    let _ = y.iter_row_major_as_records().count();
}
