// rule: C20_adaptors_store_source
// query: conflict-type WithIndex<matrices::iterators::RowMajorReferenceMutIterator<f64, matrices::Matrix<f64>>>
// expect: error E0499
#![allow(unused)]
use easy_ml::tensors::Tensor;
use easy_ml::tensors::views::*;
use easy_ml::tensors::indexing::*;
use easy_ml::matrices::Matrix;
use easy_ml::matrices::views::{MatrixView, MatrixRange, MatrixReverse, Reverse};
use easy_ml::matrices::iterators::*;
use easy_ml::interop::{MatrixRefTensor, TensorRefMatrix};
use easy_ml::differentiation::{Record, RecordMatrix, RecordTensor, WengertList};

fn main() {
    let mut m = Matrix::from(vec![vec![1.0f64, 2.0], vec![3.0, 4.0]]);
    let v = m.row_major_reference_mut_iter().with_index();
    m.set(0, 0, 5.0);
    let _ = v.count();
}
