// rule: C20_unsafe_markers
// query: unsafe-impl tensors::views::TensorRef
// expect: compile
#![allow(unused)]
use easy_ml::tensors::views::{DataLayout, TensorMut, TensorRef, TensorView};
struct One(f64);
unsafe impl TensorRef<f64, 1> for One {
    fn get_reference(&self, _i: [usize; 1]) -> Option<&f64> { Some(&self.0) }
    fn view_shape(&self) -> [(&'static str, usize); 1] { [("x", 1)] }
    unsafe fn get_reference_unchecked(&self, _i: [usize; 1]) -> &f64 { &self.0 }
    fn data_layout(&self) -> DataLayout<1> { DataLayout::Other }
}
unsafe impl TensorMut<f64, 1> for One {
    fn get_reference_mut(&mut self, _i: [usize; 1]) -> Option<&mut f64> { Some(&mut self.0) }
    unsafe fn get_reference_unchecked_mut(&mut self, _i: [usize; 1]) -> &mut f64 { &mut self.0 }
}
fn main() {
    let v = TensorView::from(One(1.0));
    assert_eq!(v.iter().count(), 1);
}
