// rule: C20_unsafe_markers
// query: unsafe-impl matrices::views::MatrixRef
// expect: compile
#![allow(unused)]
use easy_ml::matrices::views::{DataLayout, MatrixMut, MatrixRef, MatrixView, NoInteriorMutability};
struct One(f64);
unsafe impl NoInteriorMutability for One {}
unsafe impl MatrixRef<f64> for One {
    fn try_get_reference(&self, _r: usize, _c: usize) -> Option<&f64> { Some(&self.0) }
    fn view_rows(&self) -> usize { 1 }
    fn view_columns(&self) -> usize { 1 }
    unsafe fn get_reference_unchecked(&self, _r: usize, _c: usize) -> &f64 { &self.0 }
    fn data_layout(&self) -> DataLayout { DataLayout::Other }
}
unsafe impl MatrixMut<f64> for One {
    fn try_get_reference_mut(&mut self, _r: usize, _c: usize) -> Option<&mut f64> { Some(&mut self.0) }
    unsafe fn get_reference_unchecked_mut(&mut self, _r: usize, _c: usize) -> &mut f64 { &mut self.0 }
}
fn main() {
    let v = MatrixView::from(One(1.0));
    assert_eq!(v.size(), (1, 1));
}
