// rule: C20_adaptors_carry_argument_borrow
// query: conflict-type tensors::views::TensorView<f64, TensorReverse<f64, &tensors::Tensor<f64>>>
// expect: error E0506
#![allow(unused)]
use easy_ml::tensors::Tensor;
use easy_ml::tensors::views::*;
use easy_ml::tensors::indexing::*;
use easy_ml::matrices::Matrix;
use easy_ml::matrices::views::{MatrixView, MatrixRange, MatrixReverse, Reverse};
use easy_ml::matrices::iterators::*;
use easy_ml::interop::{MatrixRefTensor, TensorRefMatrix};
use easy_ml::differentiation::{Record, RecordMatrix, RecordTensor, WengertList};

fn main() {
    let mut t = Tensor::from([("r", 2), ("c", 2)], vec![1.0f64, 2.0, 3.0, 4.0]);
    let v = t.reverse(&["r"]);
    t = Tensor::from([("r", 2), ("c", 2)], vec![1.0f64, 2.0, 3.0, 4.0]);
    let _ = v.iter().count();
}
