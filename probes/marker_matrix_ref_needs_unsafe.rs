// rule: C20_unsafe_markers
// query: safe-impl matrices::views::MatrixRef
// expect: error E0200
#![allow(unused)]
use easy_ml::matrices::views::{DataLayout, MatrixMut, MatrixRef, MatrixView, NoInteriorMutability};
struct One(f64);
unsafe impl NoInteriorMutability for One {}
impl MatrixRef<f64> for One {
    fn try_get_reference(&self, _r: usize, _c: usize) -> Option<&f64> { Some(&self.0) }
    fn view_rows(&self) -> usize { 1 }
    fn view_columns(&self) -> usize { 1 }
    unsafe fn get_reference_unchecked(&self, _r: usize, _c: usize) -> &f64 { &self.0 }
    fn data_layout(&self) -> DataLayout { DataLayout::Other }
}
fn main() {}
