// rule: C20_borrow_carried
// query: conflict matrices::iterators::RowReferenceIterator
// expect: error E0502
#![allow(unused)]
use easy_ml::matrices::Matrix;
use easy_ml::matrices::views::MatrixView;

fn main() {
    let mut m = Matrix::from(vec![vec![1.0f64, 2.0], vec![3.0, 4.0]]);
    let v = m.row_reference_iter(0);
    m.set(0, 0, 5.0);
    let _ = v.count();
}
