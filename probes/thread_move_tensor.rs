// rule: C20_send_sync_iff
// query: send tensors::Tensor<f64>
// expect: compile
#![allow(unused)]
use easy_ml::tensors::Tensor;

fn main() {
    let t = Tensor::from([("x", 2)], vec![1.0f64, 2.0]);
    let h = std::thread::spawn(move || t.iter().sum::<f64>());
    assert_eq!(h.join().unwrap(), 3.0);
}
