// rule: C20_send_sync_iff
// query: valid
// expect: compile
#![allow(unused)]
use easy_ml::tensors::Tensor;
use easy_ml::tensors::views::TensorView;
use easy_ml::matrices::Matrix;
use easy_ml::matrices::views::MatrixView;

fn main() {
    let mut t = Tensor::from([("r", 2), ("c", 2)], vec![1.0f64, 2.0, 3.0, 4.0]);
    let total: f64 = t.iter().sum();
    for x in t.iter_reference_mut() { *x += total; }
    let tr = t.transpose(["c", "r"]);
    let v = TensorView::from(&tr);
    let _ = v.iter().count() + t.iter_reference().count();
    let mut m = Matrix::from(vec![vec![1.0f64, 2.0], vec![3.0, 4.0]]);
    { let q = m.partition_quadrants(1, 1); let _ = q.bottom_right.size(); }
    m.set(0, 0, 9.0);
    let owned: Vec<f64> = m.row_major_owned_iter().collect();
}
