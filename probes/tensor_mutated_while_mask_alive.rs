// rule: C20_borrow_carried
// query: conflict tensors::indexing::TensorIterator
// expect: error E0502
#![allow(unused)]
use easy_ml::tensors::Tensor;
use easy_ml::tensors::views::TensorView;

fn main() {
    let mut t = Tensor::from([("x", 2)], vec![1.0f64, 2.0]);
    let v = t.mask([("x", 0..1)]).unwrap();
    t.map_mut(|x| x + 1.0);
    let _ = v.iter().count();
}
