// rule: C20_borrow_carried
// query: conflict tensors::indexing::TensorReferenceMutIterator
// expect: error E0502
#![allow(unused)]
use easy_ml::tensors::Tensor;
use easy_ml::tensors::views::TensorView;

fn main() {
    let mut t = Tensor::from([("x", 2)], vec![1.0f64, 2.0]);
    let v = t.reverse_mut(&["x"]);
    let n = t.iter().count();
    let _ = v.iter().count();
}
