// rule: C20_record_containers_not_send_nor_sync
// query: send RecordMatrix<f64, matrices::Matrix<(f64, f64)>>
// expect: error E0277
#![allow(unused)]
use easy_ml::differentiation::{RecordMatrix, WengertList};
use easy_ml::matrices::Matrix;

fn main() {
    let list = WengertList::<f64>::new();
    let x = RecordMatrix::variables(&list, Matrix::from(vec![vec![1.0f64, 2.0]]));
    std::thread::scope(|s| {
        s.spawn(move || x.view().size());
    });
}
