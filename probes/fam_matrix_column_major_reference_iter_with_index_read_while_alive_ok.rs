// rule: C20_adaptors_store_source
// query: valid
// expect: compile
#![allow(unused)]
use easy_ml::tensors::Tensor;
use easy_ml::tensors::views::*;
use easy_ml::tensors::indexing::*;
use easy_ml::matrices::Matrix;
use easy_ml::matrices::views::{MatrixView, MatrixRange, MatrixReverse, Reverse};
use easy_ml::matrices::iterators::*;
use easy_ml::interop::{MatrixRefTensor, TensorRefMatrix};
use easy_ml::differentiation::{Record, RecordMatrix, RecordTensor, WengertList};

fn main() {
    let mut m = Matrix::from(vec![vec![1.0f64, 2.0], vec![3.0, 4.0]]);
    let v = m.column_major_reference_iter().with_index();
    let n = m.get(0, 0);
    let _ = v.count();
}
