// rule: C20_borrow_carried
// query: conflict differentiation::container_record::RecordContainer
// expect: error E0505
#![allow(unused)]
use easy_ml::differentiation::{Record, RecordMatrix, RecordTensor, WengertList};
use easy_ml::tensors::Tensor;
use easy_ml::matrices::Matrix;

fn main() {
    let list = WengertList::new();
    let v = RecordMatrix::variables(&list, Matrix::from(vec![vec![1.0f64, 2.0], vec![3.0, 4.0]]));
    drop(list);
    let _ = v.view().size();
}
