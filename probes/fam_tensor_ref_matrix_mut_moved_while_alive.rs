// rule: C20_adaptors_carry_argument_borrow
// query: conflict-type tensors::views::TensorView<f64, TensorRefMatrix<f64, &mut matrices::Matrix<f64>, RowAndColumn>>
// expect: error E0505
#![allow(unused)]
use easy_ml::tensors::Tensor;
use easy_ml::tensors::views::*;
use easy_ml::tensors::indexing::*;
use easy_ml::matrices::Matrix;
use easy_ml::matrices::views::{MatrixView, MatrixRange, MatrixReverse, Reverse};
use easy_ml::matrices::iterators::*;
use easy_ml::interop::{MatrixRefTensor, TensorRefMatrix};
use easy_ml::differentiation::{Record, RecordMatrix, RecordTensor, WengertList};

fn main() {
    let mut m = Matrix::from(vec![vec![1.0f64, 2.0], vec![3.0, 4.0]]);
    let v = TensorView::from(TensorRefMatrix::from(&mut m).unwrap());
    drop(m);
    let _ = v.iter().count();
}
