// rule: C20_borrow_carried
// query: valid
// expect: compile
#![allow(unused)]
use easy_ml::differentiation::{Record, RecordMatrix, RecordTensor, WengertList};
use easy_ml::tensors::Tensor;
use easy_ml::matrices::Matrix;

fn main() {
    let list = WengertList::new();
    let x = Record::variable(2.0f64, &list);
    let y = Record::variable(3.0f64, &list);
    let z = x * y + Record::constant(1.0);
    let d = z.derivatives();
    assert_eq!(d[&x], 3.0);
    list.clear();
}
