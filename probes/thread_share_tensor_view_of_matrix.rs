// rule: C20_send_sync_iff
// query: sync tensors::views::TensorView<f64, TensorRefMatrix<f64, matrices::Matrix<f64>, RowAndColumn>>
// expect: compile
#![allow(unused)]
use easy_ml::interop::TensorRefMatrix;
use easy_ml::tensors::views::TensorView;
use easy_ml::matrices::Matrix;

fn main() {
    let matrix = Matrix::from(vec![vec![1.0f64, 2.0], vec![3.0, 4.0]]);
    let view = TensorView::from(TensorRefMatrix::from(matrix).unwrap());
    let shared = &view;
    std::thread::scope(|scope| {
        scope.spawn(move || shared.iter().sum::<f64>());
        scope.spawn(move || shared.iter().count());
    });
}
