// rule: C20_quadrants_carry_source_lifetime
// query: conflict MatrixQuadrants
// expect: error E0499
#![allow(unused)]
use easy_ml::matrices::Matrix;
use easy_ml::matrices::views::MatrixView;

fn main() {
    let mut m = Matrix::from(vec![vec![1.0f64, 2.0], vec![3.0, 4.0]]);
    let v = m.partition_quadrants(1, 1);
    m.set(0, 0, 5.0);
    let _ = v.top_left.size();
}
