// rule: C20_borrow_carried
// query: conflict matrices::iterators::DiagonalReferenceMutIterator
// expect: error E0499
#![allow(unused)]
use easy_ml::matrices::Matrix;
use easy_ml::matrices::views::MatrixView;

fn main() {
    let mut m = Matrix::from(vec![vec![1.0f64, 2.0], vec![3.0, 4.0]]);
    let v = m.diagonal_reference_mut_iter();
    m.set(0, 0, 5.0);
    let _ = v.count();
}
