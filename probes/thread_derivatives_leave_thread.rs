// rule: C20_send_sync_iff
// query: send Derivatives<f64>
// expect: compile
#![allow(unused)]
use easy_ml::differentiation::{Derivatives, Record, WengertList};

fn main() {
    let h = std::thread::spawn(|| {
        let list = WengertList::new();
        let x = Record::variable(3.0f64, &list);
        (x * x).derivatives()
    });
    let d: Derivatives<f64> = h.join().unwrap();
}
