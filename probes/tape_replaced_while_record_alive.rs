// rule: C20_borrow_carried
// query: conflict differentiation::Record
// expect: error E0506
#![allow(unused)]
use easy_ml::differentiation::{Record, RecordMatrix, RecordTensor, WengertList};
use easy_ml::tensors::Tensor;
use easy_ml::matrices::Matrix;

fn main() {
    let mut list = WengertList::new();
    let v = Record::variable(1.0f64, &list);
    list = WengertList::new();
    let _ = v.number;
}
