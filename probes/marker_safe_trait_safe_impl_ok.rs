// rule: C20_unsafe_markers
// query: safe-impl interop::DimensionNames
// expect: compile
#![allow(unused)]
struct Names;
impl easy_ml::interop::DimensionNames for Names {
    fn names(&self) -> [&'static str; 2] { ["a", "b"] }
}
fn main() {}
