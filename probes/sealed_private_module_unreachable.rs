// rule: C20_sealed
// query: sealed tensors::operations Similar private Sealed
// expect: error E0603
#![allow(unused)]

struct Mine;
impl easy_ml::tensors::operations::private::Sealed for Mine {}
fn main() {}
