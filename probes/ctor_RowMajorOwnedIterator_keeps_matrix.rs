// rule: C20_owning_types_lifetime_free
// query: outlive matrices::iterators::RowMajorOwnedIterator
// expect: compile
#![allow(unused)]
use easy_ml::matrices::Matrix;
use easy_ml::matrices::iterators::*;

fn main() {
    let v;
    {
        let m = Matrix::from(vec![vec![1.0f64, 2.0], vec![3.0, 4.0]]);
        v = RowMajorOwnedIterator::from(m);
    }
    let _ = v.count();
}
