// rule: C20_send_sync_iff
// query: send matrices::views::MatrixView<f64, MatrixRefTensor<f64, tensors::Tensor<f64>>>
// expect: compile
#![allow(unused)]
use easy_ml::interop::MatrixRefTensor;
use easy_ml::matrices::views::MatrixView;
use easy_ml::tensors::Tensor;

fn main() {
    let tensor = Tensor::from([("row", 2), ("column", 3)], vec![1.0f64, 2.0, 3.0, 4.0, 5.0, 6.0]);
    let view = MatrixView::from(MatrixRefTensor::from(tensor));
    let h = std::thread::spawn(move || view.row_iter(0).sum::<f64>());
    assert_eq!(h.join().unwrap(), 6.0);
}
