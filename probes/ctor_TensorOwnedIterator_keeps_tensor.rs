// rule: C20_owning_types_lifetime_free
// query: outlive tensors::indexing::TensorOwnedIterator
// expect: compile
#![allow(unused)]
use easy_ml::tensors::Tensor;
use easy_ml::tensors::indexing::*;

fn main() {
    let v;
    {
        let t = Tensor::from([("x", 2)], vec![1.0f64, 2.0]);
        v = TensorOwnedIterator::from(t);
    }
    let _ = v.count();
}
