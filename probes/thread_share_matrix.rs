// rule: C20_send_sync_iff
// query: sync matrices::Matrix<f64>
// expect: compile
#![allow(unused)]
use easy_ml::matrices::Matrix;

fn main() {
    let m = Matrix::from(vec![vec![1.0f64, 2.0]]);
    std::thread::scope(|s| {
        s.spawn(|| m.row_major_iter().sum::<f64>());
        s.spawn(|| m.column_major_iter().sum::<f64>());
    });
}
