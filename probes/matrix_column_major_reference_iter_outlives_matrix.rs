// rule: C20_borrow_carried
// query: outlive matrices::iterators::ColumnMajorReferenceIterator
// expect: error E0597
#![allow(unused)]
use easy_ml::matrices::Matrix;
use easy_ml::matrices::views::MatrixView;

fn main() {
    let v;
    {
        let mut m = Matrix::from(vec![vec![1.0f64, 2.0], vec![3.0, 4.0]]);
        v = m.column_major_reference_iter();
    }
    let _ = v.count();
}
