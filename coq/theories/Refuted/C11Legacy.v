(* Regression facts about Matrix as it was BEFORE the repairs F1, F2, F3 and F12 recorded in
   /verif/known_findings.json (the seeded/reverts patches 004f763, ee154a5, 696f089, df82c6a):
   the legacy transcriptions below violate C11 — the representation invariant breaks, or the
   list-of-rows specification is not refined — shown by kernel-evaluated witnesses.  These
   lemmas are about the *_legacy definitions only; the current code is Model/Matrix.v. *)
From Coq Require Import List ZArith NArith Bool.
From EasyML Require Import Base.Sx Model.Matrix Proofs.C11Spec.
Import ListNotations.
Open Scope N_scope.

Section Legacy.
Context {T : Type}.

(* F1: remove_row / remove_column without the `index < len` assert *)
Definition remove_row_legacy (m : matrix T) (row : N) : matrix T * bool :=
  if 1 <? m_rows m then
    (mkM (retain_rc (fun r _ => negb (r =? row)) (m_cols m) (m_data m) 0 0) (m_rows m - 1) (m_cols m), true)
  else (m, false).

Definition remove_column_legacy (m : matrix T) (column : N) : matrix T * bool :=
  if 1 <? m_cols m then
    (mkM (retain_rc (fun _ c => negb (c =? column)) (m_cols m) (m_data m) 0 0) (m_rows m) (m_cols m - 1), true)
  else (m, false).

(* F2: insert_row_with pulling the values one by one INSIDE the insertion loop:
   for column in 0..columns { data.insert(get_index(row, column), values.next().unwrap_or_else(panic)) } *)
Fixpoint insert_next_legacy (positions : list N) (values : list T) (data : list T) : list T * bool :=
  match positions with
  | [] => (data, true)
  | k :: rest =>
      match values with
      | [] => (data, false)
      | v :: values' => insert_next_legacy rest values' (vec_insert (N.to_nat k) v data)
      end
  end.

Definition insert_row_with_legacy (m : matrix T) (row : N) (values : list T) : matrix T * bool :=
  if row <=? m_rows m then
    let '(d, fine) := insert_next_legacy (map (fun column => get_index m row column) (nrange (m_cols m)))
                                         values (m_data m) in
    if fine then (mkM d (m_rows m + 1) (m_cols m), true) else (mkM d (m_rows m) (m_cols m), false)
  else (m, false).

(* F3: retain_mut dropping the values BEFORE its asserts *)
Definition retain_mut_legacy (m : matrix T) (s : slice2d) : matrix T * bool :=
  let d := retain_rc (slice2d_accepts s) (m_cols m) (m_data m) 0 0 in
  let remaining_rows := count_accepted (s_rows s) (m_rows m) in
  let remaining_columns := count_accepted (s_columns s) (m_cols m) in
  if (0 <? remaining_rows) && (0 <? remaining_columns) then
    match d with
    | [] => (mkM d (m_rows m) (m_cols m), false)
    | _ => (mkM d remaining_rows remaining_columns, true)
    end
  else (mkM d (m_rows m) (m_cols m), false).

(* F12: insert_column_with popping from the untruncated Vec: the LAST rows values are used *)
Definition insert_column_with_legacy (m : matrix T) (column : N) (values : list T) : matrix T * bool :=
  if column <=? m_cols m then
    if m_rows m <=? nlen values then
      let '(d, fine) := insert_popping (map (fun row => get_index m row column) (rev (nrange (m_rows m))))
                                       (rev values) (m_data m) in
      if fine then (mkM d (m_rows m) (m_cols m + 1), true) else (mkM d (m_rows m) (m_cols m), false)
    else (m, false)
  else (m, false).

End Legacy.

Definition m32 : matrix N := mkM [1; 2; 3; 4; 5; 6] 3 2.

(* F1: 3 x 2 .remove_row(7) returned normally with size "2 x 2" over 6 stored values *)
Lemma remove_row_legacy_refuted :
  remove_row_legacy m32 7 = (mkM [1; 2; 3; 4; 5; 6] 2 2, true)
  /\ ~ Inv (fst (remove_row_legacy m32 7))
  /\ Inv m32 /\ spec_step (abs m32) (ORemoveRow 7) = (abs m32, false).
Proof.
  split; [vm_compute; reflexivity|]. split; [|split; [|vm_compute; reflexivity]].
  - intros [_ [_ H]]. vm_compute in H. discriminate.
  - unfold Inv, nlen. cbn. repeat split; discriminate.
Qed.

Lemma remove_column_legacy_refuted :
  remove_column_legacy m32 2 = (mkM [1; 2; 3; 4; 5; 6] 3 1, true)
  /\ ~ Inv (fst (remove_column_legacy m32 2)).
Proof.
  split; [vm_compute; reflexivity|]. intros [_ [_ H]]. vm_compute in H. discriminate.
Qed.

(* F2: one value for a 2-column matrix: the call panicked AFTER inserting it, and the caught
   matrix kept 7 stored values for a 3 x 2 size *)
Lemma insert_row_with_legacy_refuted :
  insert_row_with_legacy m32 1 [9] = (mkM [1; 2; 9; 3; 4; 5; 6] 3 2, false)
  /\ ~ Inv (fst (insert_row_with_legacy m32 1 [9])).
Proof.
  split; [vm_compute; reflexivity|]. intros [_ [_ H]]. vm_compute in H. discriminate.
Qed.

(* F3: a slice rejecting every row: the call panicked after emptying the storage *)
Lemma retain_mut_legacy_refuted :
  retain_mut_legacy m32 (mkSlice2D SNone SAll) = (mkM [] 3 2, false)
  /\ ~ Inv (fst (retain_mut_legacy m32 (mkSlice2D SNone SAll))).
Proof.
  split; [vm_compute; reflexivity|]. intros [_ [_ H]]. vm_compute in H. discriminate.
Qed.

(* F12: four values for three rows: the new column was 8, 9, 10 instead of 7, 8, 9 *)
Lemma insert_column_with_legacy_refuted :
  abs (fst (insert_column_with_legacy m32 0 [7; 8; 9; 10])) = [[8; 1; 2]; [9; 3; 4]; [10; 5; 6]]
  /\ fst (spec_step (abs m32) (OInsertColumnWith 0 [7; 8; 9; 10])) = [[7; 1; 2]; [8; 3; 4]; [9; 5; 6]]
  /\ abs (fst (insert_column_with m32 0 [7; 8; 9; 10])) = [[7; 1; 2]; [8; 3; 4]; [9; 5; 6]].
Proof. repeat split; vm_compute; reflexivity. Qed.
