(* Regression facts about the code as it was BEFORE the repairs recorded in
   /verif/known_findings.json: the legacy transcriptions violate C16 (and C02 / C10), shown by
   kernel-evaluated witnesses.  These lemmas are about the *_legacy definitions only. *)
From Coq Require Import List ZArith NArith Bool.
From EasyML Require Import Base.Sx Model.Shape Model.U64 Model.Fallible.
Import ListNotations.
Open Scope N_scope.

(* F5: through a mask hiding element 0 of a 2-element source, index usize::MAX was reported
   present in a release build and resolved to the HIDDEN element; a dev build panicked *)
Lemma mask_get_release_refuted :
  mask_get_legacy Release (mkRange 0 1) 2 usize_max = Ok (Some 0).
Proof. vm_compute. reflexivity. Qed.
Lemma mask_get_debug_refuted :
  mask_get_legacy Debug (mkRange 0 1) 2 usize_max = Panic.
Proof. vm_compute. reflexivity. Qed.

(* F6: clipping (start 1, length usize::MAX) to a dimension of 5: dev panic; release clipped to
   length 0 although indexes 1..4 remain; the strict bounds test was fooled the same way *)
Lemma clip_debug_refuted : ir_clip_legacy Debug (mkRange 1 usize_max) 5 = Panic.
Proof. vm_compute. reflexivity. Qed.
Lemma clip_release_refuted :
  omap r_length (ir_clip_legacy Release (mkRange 1 usize_max) 5) = Ok 0.
Proof. vm_compute. reflexivity. Qed.
Lemma exceeds_release_refuted : ir_exceeds_legacy Release (mkRange 2 usize_max) 3 = Ok false.
Proof. vm_compute. reflexivity. Qed.

(* F4: a one-past-the-end index through a reversed dimension panicked in a dev build *)
Lemma reverse_debug_refuted : reverse_get_legacy Debug 3 3 = Panic.
Proof. vm_compute. reflexivity. Qed.

(* F7: an overflowing element count: dev panic in a Result API; release accepted the shape
   [(a, 2^63 + 1); (b, 2)] for 2 stored elements *)
Lemma validate_release_refuted :
  validate_dimensions_legacy Release [(0%nat, 9223372036854775809); (1%nat, 2)] 2 = Ok true.
Proof. vm_compute. reflexivity. Qed.
Lemma validate_debug_refuted :
  validate_dimensions_legacy Debug [(0%nat, 9223372036854775809); (1%nat, 2)] 2 = Panic.
Proof. vm_compute. reflexivity. Qed.
Lemma flat_size_release_refuted : flat_size_ok_legacy Release 9223372036854775808 2 0 = Ok true.
Proof. vm_compute. reflexivity. Qed.
