(* Tensor sources for the iterator (C09) and transformation (C13) models: a small term language
   of TensorRef / TensorMut implementors, interpreted structurally.
     TBase       Tensor<T, D>                               src/tensors/mod.rs
     TRev        TensorReverse::from(source, dims)          src/tensors/views/reverse.rs
     TRange      TensorRange::from_all(source, ranges)      src/tensors/views/ranges.rs
     TAccess     TensorAccess::from(source, dims)           src/tensors/indexing.rs
     TTranspose  TensorTranspose::from(source, dims)        src/tensors/indexing.rs
     TMask       TensorMask::from_all(source, masks)        src/tensors/views/ranges.rs
     TRename     TensorRename::from(source, dims)           src/tensors/views/renamed.rs
   Each constructor transcribes the validation of the Rust constructor, `src_shape` is
   `view_shape`, `src_get` is `get_reference` and `src_set` is a write through
   `get_reference_mut`.  Executable definitions only. *)
From Coq Require Import List ZArith NArith Bool Arith.
From EasyML Require Import Base.Sx Model.Shape Model.Tensor.
Import ListNotations.
Open Scope N_scope.

(* reverse_indexes: from_fn(|d| if reversed[d] { last = len - 1; if i > last { i } else { last - i } }
   else { i }) *)
Fixpoint reverse_indexes (idx : list N) (sh : shape) (rev : list bool) : list N :=
  match idx, sh, rev with
  | i :: idx', (_, len) :: sh', r :: rev' =>
      (if r then let last := len - 1 in if last <? i then i else last - i else i)
      :: reverse_indexes idx' sh' rev'
  | _, _, _ => []
  end.

(* IndexRange::clip(max_index): end = min(start.saturating_add(length), max_index);
   length = end.saturating_sub(start) *)
Definition range_clip (r : N * N) (max_index : N) : N * N :=
  let e := N.min (N.min (fst r + snd r) usize_max) max_index in
  (fst r, e - fst r).

(* IndexRange::map *)
Definition range_map (r : N * N) (i : N) : option N :=
  if i <? snd r then Some (i + fst r) else None.

(* map_indexes_by_range *)
Fixpoint map_indexes_by_range (idx : list N) (rg : list (N * N)) : option (list N) :=
  match idx, rg with
  | [], [] => Some []
  | i :: idx', r :: rg' =>
      match range_map r i with
      | Some m => option_map (cons m) (map_indexes_by_range idx' rg')
      | None => None
      end
  | _, _ => None
  end.

(* IndexRange::mask: if index < start { index } else { index.saturating_add(length) } *)
Definition range_mask (r : N * N) (i : N) : N :=
  if i <? fst r then i else N.min (i + snd r) usize_max.

(* map_indexes_by_mask *)
Fixpoint map_indexes_by_mask (idx : list N) (mk : list (N * N)) : list N :=
  match idx, mk with
  | i :: idx', r :: mk' => range_mask r i :: map_indexes_by_mask idx' mk'
  | _, _ => []
  end.

Section TSource.
Context {A : Type}.

Inductive tsrc : Type :=
| TBase (t : tensor A)
| TRev (s : tsrc) (rev : list bool)
| TRange (s : tsrc) (rg : list (N * N))
| TAccess (s : tsrc) (tbl : list (nat * nat))
| TTranspose (s : tsrc) (tbl : list (nat * nat))
| TMask (s : tsrc) (mk : list (N * N))
| TRename (s : tsrc) (names : list name).

(* TensorRef::view_shape *)
Fixpoint src_shape (s : tsrc) : shape :=
  match s with
  | TBase t => t_shape t
  | TRev s' _ => src_shape s'
  | TRange s' rg => map (fun p => (fst (fst p), snd (snd p))) (combine (src_shape s') rg)
  | TAccess s' tbl => map_shape_to_requested tbl (src_shape s')
  | TTranspose s' tbl =>
      (* names = source.view_shape(); order = access.shape(); from_fn(|d| (names[d].0, order[d].1)) *)
      map (fun p => (fst (fst p), snd (snd p)))
          (combine (src_shape s') (map_shape_to_requested tbl (src_shape s')))
  | TMask s' mk =>
      (* pair.1 -= mask.length *)
      map (fun p => (fst (fst p), snd (fst p) - snd (snd p))) (combine (src_shape s') mk)
  | TRename s' names =>
      (* from_fn(|d| (self.dimensions[d], source_shape[d].1)) *)
      map (fun p => (snd p, snd (fst p))) (combine (src_shape s') names)
  end.

(* TensorRef::get_reference *)
Fixpoint src_get (s : tsrc) (idx : list N) : option A :=
  match s with
  | TBase t => t_get t idx
  | TRev s' rev => src_get s' (reverse_indexes idx (src_shape s') rev)
  | TRange s' rg =>
      match map_indexes_by_range idx rg with
      | Some m => src_get s' m
      | None => None
      end
  | TAccess s' tbl => src_get s' (map_dimensions_to_source tbl idx 0)
  | TTranspose s' tbl => src_get s' (map_dimensions_to_source tbl idx 0)
  | TMask s' mk => src_get s' (map_indexes_by_mask idx mk)
  | TRename s' _ => src_get s' idx
  end.

(* a write through TensorMut::get_reference_mut *)
Fixpoint src_set (s : tsrc) (idx : list N) (v : A) : option tsrc :=
  match s with
  | TBase t => option_map TBase (t_set t idx v)
  | TRev s' rev =>
      option_map (fun x => TRev x rev) (src_set s' (reverse_indexes idx (src_shape s') rev) v)
  | TRange s' rg =>
      match map_indexes_by_range idx rg with
      | Some m => option_map (fun x => TRange x rg) (src_set s' m v)
      | None => None
      end
  | TAccess s' tbl =>
      option_map (fun x => TAccess x tbl) (src_set s' (map_dimensions_to_source tbl idx 0) v)
  | TTranspose s' tbl =>
      option_map (fun x => TTranspose x tbl) (src_set s' (map_dimensions_to_source tbl idx 0) v)
  | TMask s' mk => option_map (fun x => TMask x mk) (src_set s' (map_indexes_by_mask idx mk) v)
  | TRename s' names => option_map (fun x => TRename x names) (src_set s' idx v)
  end.

(* the tensor at the bottom of the term *)
Fixpoint src_base (s : tsrc) : tensor A :=
  match s with
  | TBase t => t
  | TRev s' _ | TRange s' _ | TAccess s' _ | TTranspose s' _ | TMask s' _ | TRename s' _ => src_base s'
  end.

(* ---- constructors ---- *)

(* TensorReverse::from(source, dims): panics on duplicate names or a name that is not in the
   source; reversed = from_fn(|i| dims.contains(shape[i].0)) *)
Definition trev_from (s : tsrc) (dims : list name) : outcome tsrc :=
  if has_duplicates dims then Panic
  else if negb (forallb (contains (src_shape s)) dims) then Panic
  else Ok (TRev s (map (fun d => existsb (Nat.eqb (fst d)) dims) (src_shape s))).

(* TensorRange::from_all(source, [Some(range); D]) -> clip_from: every range is clipped to the
   source length, the resulting shape must be valid (no zero lengths), else Err(shape) *)
Definition trange_from_all (s : tsrc) (ranges : list (N * N)) : outcome tsrc :=
  let sh := src_shape s in
  let clipped := map (fun p => range_clip (snd p) (snd (fst p))) (combine sh ranges) in
  let sh' := map (fun p => (fst (fst p), snd (snd p))) (combine sh clipped) in
  if valid_shape_b sh' then Ok (TRange s clipped) else Err (sshape sh').

(* TensorAccess::from(source, dims) *)
Definition taccess_from (s : tsrc) (dims : list name) : outcome tsrc :=
  match dm_new (names_of (src_shape s)) dims with
  | Some tbl => Ok (TAccess s tbl)
  | None => Panic
  end.

(* TensorTranspose::from(source, dims) *)
Definition ttranspose_from (s : tsrc) (dims : list name) : outcome tsrc :=
  match dm_new (names_of (src_shape s)) dims with
  | Some tbl => Ok (TTranspose s tbl)
  | None => Panic
  end.

(* TensorMask::from_all(source, [Some(mask); D]) -> clip_from: every mask is clipped to the source
   length, what remains (length - mask.length) must be a valid shape, else Err(shape) *)
Definition tmask_from_all (s : tsrc) (masks : list (N * N)) : outcome tsrc :=
  let sh := src_shape s in
  let clipped := map (fun p => range_clip (snd p) (snd (fst p))) (combine sh masks) in
  let sh' := map (fun p => (fst (fst p), snd (fst p) - snd (snd p))) (combine sh clipped) in
  if valid_shape_b sh' then Ok (TMask s clipped) else Err (sshape sh').

(* TensorRename::from(source, dims): panics on duplicate names *)
Definition trename_from (s : tsrc) (dims : list name) : outcome tsrc :=
  if has_duplicates dims then Panic else Ok (TRename s dims).

End TSource.
Arguments tsrc A : clear implicits.

(* ---- the source-term case language (shared by RunC09 / RunC13) ----
     (0 shape data)        Tensor::from(shape, data)
     (1 src (names))       TensorReverse::from(src, names)
     (2 src ((start len)…)) TensorRange::from_all(src, [Some((start, len)); D])
     (3 src (names))       TensorAccess::from(src, names)
     (4 src (names))       TensorTranspose::from(src, names)
     (5 src ((start len)…)) TensorMask::from_all(src, [Some((start, len)); D])
     (6 src (names))       TensorRename::from(src, names)
   Any failure of a constructor is reported as Panic / Err of the whole term. *)
Fixpoint dsrc (fuel : nat) (s : sx) : option (outcome (tsrc Z)) :=
  match fuel with
  | O => None
  | S f =>
    match s with
    | SL [SZ 0%Z; sh; data] =>
        match dshape sh, dlist dZ data with
        | Some sh, Some data => Some (omap TBase (tensor_from sh data))
        | _, _ => None
        end
    | SL [SZ 1%Z; s'; dims] =>
        match dsrc f s', dnames dims with
        | Some o, Some dims => Some (obind o (fun x => trev_from x dims))
        | _, _ => None
        end
    | SL [SZ 2%Z; s'; rg] =>
        match dsrc f s', dlist (dpair dN dN) rg with
        | Some o, Some rg =>
            Some (obind o (fun x => if Nat.eqb (length rg) (length (src_shape x))
                                    then trange_from_all x rg else Panic))
        | _, _ => None
        end
    | SL [SZ 3%Z; s'; dims] =>
        match dsrc f s', dnames dims with
        | Some o, Some dims => Some (obind o (fun x => if Nat.eqb (length dims) (length (src_shape x))
                                                       then taccess_from x dims else Panic))
        | _, _ => None
        end
    | SL [SZ 4%Z; s'; dims] =>
        match dsrc f s', dnames dims with
        | Some o, Some dims => Some (obind o (fun x => if Nat.eqb (length dims) (length (src_shape x))
                                                       then ttranspose_from x dims else Panic))
        | _, _ => None
        end
    | SL [SZ 5%Z; s'; rg] =>
        match dsrc f s', dlist (dpair dN dN) rg with
        | Some o, Some rg =>
            Some (obind o (fun x => if Nat.eqb (length rg) (length (src_shape x))
                                    then tmask_from_all x rg else Panic))
        | _, _ => None
        end
    | SL [SZ 6%Z; s'; dims] =>
        match dsrc f s', dnames dims with
        | Some o, Some dims => Some (obind o (fun x => if Nat.eqb (length dims) (length (src_shape x))
                                                       then trename_from x dims else Panic))
        | _, _ => None
        end
    | _ => None
    end
  end.
