(* `n as f32` / `n as f64` for a machine-size count n (src/numeric.rs from_usize_float!:
   `Some(n as $T)`).  Rust defines the integer -> float cast as "round to nearest, ties to even"
   (and no usize overflows an f32: 2^64 < 2^128).  The cast is modelled in pure integer arithmetic:
   a float with a p-bit significand (p = 24 for f32, 53 for f64) is a pair (m, e) denoting
   m * 2^e with 0 <= m < 2^p.
     - n of at most p bits is exact: (n, 0);
     - otherwise e = bit-length(n) - p, n = q * 2^e + r; q is rounded up when r is above half of
       2^e, or equal to it and q is odd; a carry out of the p bits (q + 1 = 2^p) moves into the
       next binade: (2^(p-1), e + 1).
   `float_bits` packs the result into the IEEE-754 bit pattern (sign 0, biased exponent, the
   significand without its leading bit), which is what the correspondence compares with
   `f32::from_usize(n).to_bits()` / `f64::from_usize(n).to_bits()`.
   Executable definitions only; proofs in Proofs/C19F.v. *)
From Coq Require Import ZArith Bool.
Open Scope Z_scope.

(* number of bits of n: 0 for 0, floor(log2 n) + 1 otherwise *)
Definition fl_len (n : Z) : Z := if n =? 0 then 0 else Z.log2 n + 1.

Definition float_round (p : Z) (n : Z) : Z * Z :=
  let len := fl_len n in
  if len <=? p then (n, 0)
  else
    let e := len - p in
    let q := n / 2 ^ e in
    let r := n mod 2 ^ e in
    let half := 2 ^ (e - 1) in
    let q' := if (half <? r) || ((r =? half) && Z.odd q) then q + 1 else q in
    if q' =? 2 ^ p then (2 ^ (p - 1), e + 1) else (q', e).

(* the number a (significand, exponent) pair denotes *)
Definition fl_val (me : Z * Z) : Z := fst me * 2 ^ snd me.

(* IEEE-754 binary interchange encoding of the rounded count: `mant` explicit significand bits
   (23 / 52), exponent bias `bias` (127 / 1023).  0 is +0.0 (all bits clear). *)
Definition float_bits (mant bias : Z) (n : Z) : Z :=
  if n =? 0 then 0
  else
    let '(m, e) := float_round (mant + 1) n in
    let len := fl_len m in
    let sig := m * 2 ^ (mant + 1 - len) in       (* leading bit moved to position `mant` *)
    (len + e - 1 + bias) * 2 ^ mant + (sig - 2 ^ mant).

Definition f32_bits_of_usize (n : N) : Z := float_bits 23 127 (Z.of_N n).
Definition f64_bits_of_usize (n : N) : Z := float_bits 52 1023 (Z.of_N n).
