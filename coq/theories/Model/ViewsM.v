(* The view adaptors of Model/Views.v once more, with EXPLICIT machine arithmetic (Model/U64.v:
   a dev build panics on an overflowing + - *, a release build wraps modulo 2^64): view_shape and
   the checked getter get_reference of every adaptor over ANY source view.  Every usize operation
   the Rust code performs is a u_add / u_sub / u_mul here; saturating_add / checked_add / min are
   the same in both profiles and stay as in Model/Views.v.  Also modelled: `.unwrap()` of the
   TensorIndex helper (Panic when the helper returns None) and `sources[0]` of stack / chain.
   Sources: src/matrices/views/ranges.rs:136-164 (IndexRange::map: index + self.start),
   src/tensors/views/ranges.rs:574-605,700-717 (map_indexes_by_range; TensorMask::view_shape:
   pair.1 -= mask.length; clip_masked_shape: *length -= mask.length),
   src/tensors/views/reverse.rs:95-137 (length - 1, last_index - index; get_reference calls
   self.view_shape()), src/tensors/views/indexes.rs:104-142,369-412,
   src/tensors/views/zip.rs:358-393 (stack), 1078-1115 (chain: view_shape_impl sums the lengths with
   Iterator::sum = fold(0, +) under the build's overflow checks; indexing: i -= length, the
   sources' view_shape() evaluated lazily, one per loop round), src/tensors/indexing.rs:164-167,
   226-229,1522-1526,1556-1564 (TensorAccess / TensorTranspose), src/tensors/mod.rs
   (get_index_direct: index += n * strides[d], Model/Fallible.v gid_m), src/matrices/mod.rs
   (row * columns + column, Model/Fallible.v matrix_try_index).
   Executable definitions only. *)
From Coq Require Import List ZArith NArith Bool Arith.
From EasyML Require Import Base.Sx Model.Shape Model.U64 Model.Fallible Model.Views.
Import ListNotations.
Open Scope N_scope.

Section Machine.
Variable m : mode.

(* TensorMask::view_shape / clip_masked_shape: for (pair, mask) in shape.zip(masks) { pair.1 -= mask.length } *)
Fixpoint mask_shape_m (sh : shape) (ms : list irange) : outcome shape :=
  match sh, ms with
  | d :: sh', k :: ms' =>
      obind (u_sub m (snd d) (r_len k)) (fun l => omap (cons (fst d, l)) (mask_shape_m sh' ms'))
  | _, _ => Ok []
  end.

(* view_shape *)
Fixpoint c_shape_m (c : cview) : outcome shape :=
  match c with
  | CTensor _ sh _ => Ok sh
  | CMatrix _ rows cols n0 n1 => Ok [(n0, rows); (n1, cols)]
  | CRange c rs => omap (fun sh => zipwith (fun d r => (fst d, r_len r)) sh rs) (c_shape_m c)
  | CMask c ms => obind (c_shape_m c) (fun sh => mask_shape_m sh ms)
  | CIndex c pr => omap (fun sh => unprovided sh pr) (c_shape_m c)
  | CExpand c ex => omap (fun sh => expand_shape (length sh + length ex) sh 0 ex) (c_shape_m c)
  | CRename c ns => omap (fun sh => zipwith (fun d n => (n, snd d)) sh ns) (c_shape_m c)
  | CReverse c _ => c_shape_m c
  | CAccess c tbl => omap (map_shape_to_requested tbl) (c_shape_m c)
  | CTranspose c tbl =>
      (* names = source.view_shape(); order = access.shape() (a second source.view_shape()) *)
      obind (c_shape_m c) (fun names => omap (fun sh =>
        zipwith (fun a b => (fst a, snd b)) names (map_shape_to_requested tbl sh)) (c_shape_m c))
  | CStack cs along n =>
      match cs with
      | [] => Panic                                            (* sources[0] *)
      | c0 :: _ =>
          omap (fun sh0 => stack_shape (S (length sh0)) 0 sh0 along (n, N.of_nat (length cs)))
               (c_shape_m c0)
      end
  | CChain cs along =>
      match cs with
      | [] => Panic                                            (* sources[0] *)
      | c0 :: _ =>
          obind (c_shape_m c0) (fun sh0 =>
          (* shapes.map(|shape| shape[along].1).sum() : 0 + l0 + l1 + ... *)
          obind ((fix go (l : list cview) (acc : N) {struct l} : outcome N :=
                    match l with
                    | [] => Ok acc
                    | x :: r =>
                        obind (c_shape_m x) (fun s =>
                        obind (u_add m acc (len_at s along)) (fun a => go r a))
                    end) cs 0)
                (fun total => Ok (list_upd sh0 along (fst (nth along sh0 (0%nat, 0)), total))))
      end
  | CWrap c => c_shape_m c
  end.

(* map_indexes_by_range: mapped[d] = r.map(i)?  with  map = if i < length { Some(i + start) } *)
Fixpoint map_by_range_m (rs : list irange) (idx : list N) : outcome (option (list N)) :=
  match rs, idx with
  | r :: rs', i :: idx' =>
      if i <? r_len r
      then obind (u_add m i (r_start r)) (fun j => omap (option_map (cons j)) (map_by_range_m rs' idx'))
      else Ok None
  | _, _ => Ok (Some [])
  end.

(* reverse_indexes: Fallible.rev_index is  last = length - 1; if index > last { index } else { last - index } *)
Fixpoint reverse_indexes_m (idx : list N) (sh : shape) (rev : list bool) : outcome (list N) :=
  match idx, sh, rev with
  | i :: idx', d :: sh', r :: rev' =>
      obind (if (r : bool) then rev_index m (snd d) i else Ok i) (fun j =>
      omap (cons j) (reverse_indexes_m idx' sh' rev'))
  | _, _, _ => Ok []
  end.

(* get_reference *)
Fixpoint c_get_m (c : cview) (idx : list N) : outcome (option (N * N)) :=
  match c with
  | CTensor id sh st => omap (option_map (pair id)) (gid_m m idx st (lens_of sh) 0)
  | CMatrix id rows cols _ _ =>
      match idx with
      | [r; k] => omap (option_map (pair id)) (matrix_try_index m rows cols r k)
      | _ => Ok None
      end
  | CRange c rs =>
      obind (map_by_range_m rs idx) (fun o =>
        match o with Some idx' => c_get_m c idx' | None => Ok None end)
  | CMask c ms => c_get_m c (map_indexes_by_mask idx ms)
  | CIndex c pr =>
      match select_idx pr idx with Some idx' => c_get_m c idx' | None => Panic (* .unwrap() *) end
  | CExpand c ex =>
      match expand_idx idx 0 ex with Some idx' => c_get_m c idx' | None => Ok None end
  | CRename c _ => c_get_m c idx
  | CReverse c rev =>
      (* reverse_indexes(&indexes, &self.view_shape(), &self.reversed) *)
      obind (c_shape_m c) (fun sh => obind (reverse_indexes_m idx sh rev) (fun idx' => c_get_m c idx'))
  | CAccess c tbl => c_get_m c (map_dimensions_to_source tbl idx 0)
  | CTranspose c tbl => c_get_m c (map_dimensions_to_source tbl idx 0)
  | CStack cs along _ =>
      let idx' := remove_at 0 along idx in
      (fix pick (l : list cview) (k : N) {struct l} : outcome (option (N * N)) :=
         match l with
         | [] => Ok None
         | c0 :: r => if k =? 0 then c_get_m c0 idx' else pick r (k - 1)
         end) cs (nth along idx 0)
  | CChain cs along =>
      (* loop { (source, shape) = shapes.next()?; if i < shape[along].1 { return source.get(..) }
                i -= shape[along].1 } *)
      (fix go (l : list cview) (i : N) {struct l} : outcome (option (N * N)) :=
         match l with
         | [] => Ok None
         | c0 :: r =>
             obind (c_shape_m c0) (fun s =>
               let len := len_at s along in
               if i <? len then c_get_m c0 (list_upd idx along i)
               else obind (u_sub m i len) (fun i' => go r i'))
         end) cs (nth along idx 0)
  | CWrap c => c_get_m c idx
  end.

End Machine.
