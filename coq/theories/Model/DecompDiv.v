(* Division-instrumented transcriptions of the decompositions of src/linear_algebra.rs: the SAME
   routines as Model/Decomp.v (chol_row / chol_rows / cholesky, ldlt_cols / ldlt, householder /
   qr_loop / qr), with every `/` of the source made through a partial division `pd`
   (Model/DivOutcome.v) at the place and in the order in which the source evaluates it:
     Cholesky (line 1096)   T::one() / L[j,j]         for j < i, after the sum, per entry
     LDL^T    (line 1303)   T::one() / D[j,j]         for i > j, per entry, AFTER the `entry == 0`
                                                      test of the column (line 1277)
     Householder (line 1378) element / &length        for every element of u, first to last,
                                                      length = euclidean_length(u)
   A failing division is the outcome Panic (the first one wins; everything before it has no
   other effect than its value).  `None` (absence) stays a VALUE: Ok None.
   Also here: the dictionary Qops0 of the harness' element type StrictRat0 (rationals whose sqrt
   stand-in vanishes at zero).  Executable definitions only. *)
From Coq Require Import List Arith Bool ZArith QArith.
From EasyML Require Import Base.Sx Model.Num Model.LinAlg Model.Decomp Model.DivOutcome.
Import ListNotations.

Section DecompDiv.
Context {R : Type} (ops : numops R) (pd : R -> R -> option R).
Notation zero := (nzero ops).
Notation one := (none_ ops).
Notation mat := (@mat R).
Notation mget := (mget ops).
Notation dot := (dot ops).
Notation ldl_sum := (ldl_sum ops).

(* ------------------------------------------------------------------ Cholesky *)
Fixpoint chol_row_i (a : mat) (L : list (list R)) (i : nat) (cur : list R) (fuel : nat)
  : outcome (option (list R)) :=
  match fuel with
  | O => Ok (Some cur)
  | S f =>
      let j := length cur in
      if Nat.eqb j i then
        let entry_squared := nsub ops (mget a i i) (dot cur cur j) in
        if nleb ops entry_squared zero then Ok None
        else chol_row_i a L i (cur ++ [nsqrt ops entry_squared]) f
      else
        obind (of_option (pd one (nth j (nth j L []) zero))) (fun reciprocal =>
          let x := nmul ops (nsub ops (mget a i j) (dot cur (nth j L []) j)) reciprocal in
          chol_row_i a L i (cur ++ [x]) f)
  end.

Fixpoint chol_rows_i (a : mat) (L : list (list R)) (fuel : nat) : outcome (option (list (list R))) :=
  match fuel with
  | O => Ok (Some L)
  | S f => obind (chol_row_i a L (length L) [] (S (length L))) (fun r =>
           match r with
           | Some row => chol_rows_i a (L ++ [row]) f
           | None => Ok None
           end)
  end.

Definition cholesky_i (a : mat) : outcome (option mat) :=
  if negb (is_square a) then Ok None
  else omap (fun r => match r with
                      | None => None
                      | Some L => Some (map (pad_row ops (mrows a)) L)
                      end) (chol_rows_i a [] (mrows a)).

(* ------------------------------------------------------------------ LDL^T *)
Fixpoint ldlt_cols_i (a : mat) (n : nat) (cols : list (list R)) (ds : list R) (fuel : nat)
  : outcome (option (list (list R) * list R)) :=
  match fuel with
  | O => Ok (Some (cols, ds))
  | S f =>
      let j := length cols in
      let entry := nsub ops (mget a j j) (ldl_sum cols ds j j j) in
      if neqb ops entry zero then Ok None
      else
        obind (map_outcome (fun i =>
                 if Nat.ltb i j then Ok zero
                 else if Nat.eqb i j then Ok one
                 else obind (of_option (pd one entry)) (fun reciprocal =>
                        Ok (nmul ops (nsub ops (mget a i j) (ldl_sum cols ds i j j)) reciprocal)))
               (seq 0 n)) (fun col =>
        ldlt_cols_i a n (cols ++ [col]) (ds ++ [entry]) f)
  end.

Definition ldlt_i (a : mat) : outcome (option (mat * mat)) :=
  if negb (is_square a) then Ok None
  else let n := mrows a in
       omap (fun r =>
         match r with
         | None => None
         | Some (cols, ds) =>
             Some (map (fun i => map (fun j => lent ops cols i j) (seq 0 n)) (seq 0 n),
                   map (fun i => map (fun j => if Nat.eqb i j then nth i ds zero else zero) (seq 0 n))
                       (seq 0 n))
         end) (ldlt_cols_i a n [] [] n).

(* ------------------------------------------------------------------ QR *)
(* the vector u of the reflection and its euclidean length: the only divisor of the routine *)
Definition hh_u (x : list R) : list R :=
  let length := euclidean_length ops x in
  let a := if nltb ops zero (hd zero x) then length else nneg ops length in
  match x with [] => [] | x0 :: r => nadd ops x0 a :: r end.

Definition householder_i (x : list R) : outcome mat :=
  let rows := length x in
  let u := hh_u x in
  obind (let length := euclidean_length ops u in
         map_outcome (fun element => of_option (pd element length)) u) (fun v =>
  Ok (map (fun i => map (fun j =>
         nsub ops (if Nat.eqb i j then one else zero)
                  (nmul ops (nmul ops (nth i v zero) (nth j v zero)) (two ops)))
       (seq 0 rows)) (seq 0 rows))).

Fixpoint qr_loop_i (rows : nat) (cs : list nat) (q : option mat) (r : mat)
  : outcome (option mat * mat) :=
  match cs with
  | [] => Ok (q, r)
  | c :: cs' =>
      let submatrix_first_column := skipn c (column ops r c) in
      obind (householder_i submatrix_first_column) (fun hh =>
      let h := pad_h ops hh c rows in
      let r' := mmul ops h r in
      let q' := match q with None => Some h | Some h_previous => Some (mmul ops h_previous h) end in
      qr_loop_i rows cs' q' r')
  end.

Definition qr_i (m : mat) : outcome (option (mat * mat)) :=
  let rows := mrows m in
  let columns := mcols m in
  if Nat.ltb rows columns then Ok None
  else
    let iterations := Nat.min (rows - 1) columns in
    obind (qr_loop_i rows (seq 0 iterations) None m) (fun qr =>
    Ok (Some (match fst qr with Some q => q | None => identity ops rows end, snd qr))).
End DecompDiv.

(* ------------------------------------------------------------------ StrictRat0 *)
(* The rationals of Qops with the sqrt stand-in  x^3 + 7 x  (harness/src/c08/strict.rs,
   StrictRat0): it vanishes at zero and is positive on positive arguments, like the true square
   root, so a zero vector has euclidean length zero and Householder's `element / &length`
   becomes 0 / 0 on a zero (sub-)column. *)
Definition q_sqrt0 (x : Q) : Q := q_add (q_mul (q_mul x x) x) (q_mul (q_k 7) x).

Definition Qops0 : numops Q := {|
  nzero := nzero Qops; none_ := none_ Qops;
  nadd := nadd Qops; nsub := nsub Qops; nmul := nmul Qops; ndiv := ndiv Qops; nneg := nneg Qops;
  neqb := neqb Qops; nltb := nltb Qops; nleb := nleb Qops;
  nsqrt := q_sqrt0; nexp := nexp Qops; nln := nln Qops; nsin := nsin Qops; ncos := ncos Qops;
  npow := npow Qops; npi := npi Qops;
  nof_N := nof_N Qops; nenc := nenc Qops; ndec := ndec Qops
|}.
