(* Partial division for the division-safety instrumentation of the linear-algebra models
   (C07 inverse, C08 Cholesky / LDL^T / QR).
     The models of Model/LinAlg.v and Model/Decomp.v use the TOTAL division `ndiv ops` of the
   dictionary (x / 0 = 0 on Rat and Fp).  The instrumented models (Model/LinAlgDiv.v,
   Model/DecompDiv.v) are the same transcriptions with every `/` of the source replaced by a
   PARTIAL division `pd : R -> R -> option R` whose failure is the outcome `Panic`
   (Base/Sx.outcome; `Err` is never produced):
        strict_div ops   None exactly when the divisor is `== zero`   (an exact type whose `/`
                         panics on a zero divisor: the harness' StrictRat)
        total_div ops    never None                                    (Rat, Fp, and f64 as far as
                         panics are concerned)
   Executable definitions only. *)
From Coq Require Import List ZArith.
From EasyML Require Import Base.Sx Model.Num.
Import ListNotations.

Section PDiv.
Context {R : Type} (ops : numops R).

Definition total_div (x y : R) : option R := Some (ndiv ops x y).

Definition strict_div (x y : R) : option R :=
  if neqb ops y (nzero ops) then None else Some (ndiv ops x y).

(* element.map(|e| ...) with a panicking closure: left to right, the first panic wins *)
Fixpoint map_outcome {A B} (f : A -> outcome B) (l : list A) : outcome (list B) :=
  match l with
  | [] => Ok []
  | a :: r => obind (f a) (fun b => obind (map_outcome f r) (fun r' => Ok (b :: r')))
  end.
End PDiv.

(* result encoding of an instrumented run whose un-instrumented result is encoded by `f`:
   the value as before, a panic as `(2)` (what the harness answers when an entry point panics) *)
Definition sx_or_panic {A} (f : A -> sx) (o : outcome A) : sx :=
  match o with
  | Ok a => f a
  | Err _ => SL [SZ 2%Z]
  | Panic => SL [SZ 2%Z]
  end.
