(* Conversions between scalars, Tensor<T, 2>, Matrix<T> and the interop wrappers.
   A matrix is (rows, columns, row-major data).  Transcribed:
     src/matrices/mod.rs        Matrix::_try_get_reference / _try_get_reference_mut
                                (row < rows && column < columns, data[column + row * columns]),
                                Matrix::try_into_scalar, Matrix::from_scalar
     src/tensors/mod.rs         Tensor::from_scalar, From<T> for Tensor<T, 0>
     src/interop/mod.rs         TensorRefMatrix::with_names / view_shape / get_reference(_mut),
                                MatrixRefTensor::from / view_rows / view_columns /
                                try_get_reference(_mut)
   `From<Tensor<T, 2>> for Matrix<T>` and `TryFrom<(Matrix<T>, [Dimension; 2])> for Tensor<T, 2>`
   are Model/Transform.v's tensor_into_matrix / matrix_into_tensor (imported, not repeated).
   Executable definitions only. *)
From Coq Require Import List ZArith NArith Bool Arith.
From EasyML Require Import Base.Sx Model.Shape Model.Tensor.
Import ListNotations.
Open Scope N_scope.

Section C01Conv.
Context {A : Type}.

Definition mat : Type := (N * N * list A)%type.
Definition mat_rows (m : mat) : N := fst (fst m).
Definition mat_cols (m : mat) : N := snd (fst m).
Definition mat_data (m : mat) : list A := snd m.

(* Matrix::_try_get_reference *)
Definition mat_get (m : mat) (r c : N) : option A :=
  if (r <? mat_rows m) && (c <? mat_cols m)
  then nth_error (mat_data m) (N.to_nat (c + r * mat_cols m)) else None.

(* Matrix::_try_get_reference_mut, then a write through the reference *)
Definition mat_set (m : mat) (r c : N) (v : A) : option mat :=
  if (r <? mat_rows m) && (c <? mat_cols m)
  then option_map (fun d => (mat_rows m, mat_cols m, d))
                  (list_set (mat_data m) (N.to_nat (c + r * mat_cols m)) v)
  else None.

(* Matrix::from_scalar *)
Definition mat_from_scalar (v : A) : mat := (1, 1, [v]).

(* Matrix::try_into_scalar: Err(ScalarConversionError) carries nothing *)
Definition mat_try_into_scalar (m : mat) : outcome A :=
  if (mat_rows m =? 1) && (mat_cols m =? 1) then of_option (hd_error (mat_data m))
  else Err (SL []).

(* Tensor::from_scalar / From<T> for Tensor<T, 0> *)
Definition tensor_from_scalar (v : A) : tensor A := mkTensor [v] [] [].

(* TensorRefMatrix<T, Matrix<T>, [Dimension; 2]>: the wrapper keeps the matrix and the names *)
Record trm : Type := mkTrm { trm_src : mat; trm_rn : name; trm_cn : name }.

(* TensorRefMatrix::with_names: InvalidShapeError::new([(n0, rows), (n1, columns)]).is_valid() *)
Definition trm_with_names (m : mat) (rn cn : name) : outcome trm :=
  let sh := [(rn, mat_rows m); (cn, mat_cols m)] in
  if valid_shape_b sh then Ok (mkTrm m rn cn) else Err (sshape sh).
Definition trm_shape (w : trm) : shape :=
  [(trm_rn w, mat_rows (trm_src w)); (trm_cn w, mat_cols (trm_src w))].
(* TensorRef::get_reference: source.try_get_reference(indexes[0], indexes[1]) *)
Definition trm_get (w : trm) (idx : list N) : option A :=
  match idx with [r; c] => mat_get (trm_src w) r c | _ => None end.
Definition trm_set (w : trm) (idx : list N) (v : A) : option trm :=
  match idx with
  | [r; c] => option_map (fun m => mkTrm m (trm_rn w) (trm_cn w)) (mat_set (trm_src w) r c v)
  | _ => None
  end.

(* MatrixRefTensor<T, Tensor<T, 2>>: view_rows = view_shape()[0].1, view_columns = [1].1,
   try_get_reference(row, column) = source.get_reference([row, column]) *)
Definition mrt_rows (t : tensor A) : N := nth 0 (lens_of (t_shape t)) 0.
Definition mrt_cols (t : tensor A) : N := nth 1 (lens_of (t_shape t)) 0.
Definition mrt_get (t : tensor A) (r c : N) : option A := t_get t [r; c].
Definition mrt_set (t : tensor A) (r c : N) (v : A) : option (tensor A) := t_set t [r; c] v.

(* the probes of the correspondence: every (r, c) with r in 0..=rows, c in 0..=cols *)
Definition upto (n : N) : list N := map N.of_nat (seq 0 (S (N.to_nat n))).
Definition probe_grid {B} (rows cols : N) (get : N -> N -> B) : list (list B) :=
  map (fun r => map (fun c => get r c) (upto cols)) (upto rows).

End C01Conv.
Arguments mat A : clear implicits.
Arguments trm A : clear implicits.
