(* RecordTensor / RecordMatrix as TensorRef / TensorMut / MatrixRef / MatrixMut SOURCES
   (property C10, inventory class C): transcription of
     src/differentiation/container_record/mod.rs:2512-2558
        unsafe impl TensorRef<(T, Index), D> for RecordTensor<'a, T, S, D>   (S: TensorRef<(T, Index), D>)
        unsafe impl TensorMut<(T, Index), D> for RecordTensor<'a, T, S, D>   (S: TensorMut<(T, Index), D>)
     src/differentiation/container_record/mod.rs:2560-2635
        unsafe impl MatrixRef<(T, Index)> for RecordMatrix<'a, T, S>         (S: MatrixRef<(T, Index)>)
        unsafe impl MatrixMut<(T, Index)> for RecordMatrix<'a, T, S>         (S: MatrixMut<(T, Index)>)
   The struct is RecordContainer { numbers: TensorView<(T, Index), S, D> (resp. MatrixView<..>),
   history: Option<&WengertList<T>> } (mod.rs:66-79); `numbers.source_ref()` /
   `numbers.source_ref_mut()` is the wrapped source S itself (TensorView / MatrixView are
   index-transparent).  Every method body is ONE call of the same method of the source with the
   SAME index arguments:
       get_reference(indexes)               = self.numbers.source_ref().get_reference(indexes)
       view_shape()                         = self.numbers.source_ref().view_shape()
       get_reference_unchecked(indexes)     = self.numbers.source_ref().get_reference_unchecked(indexes)
       get_reference_mut(indexes)           = self.numbers.source_ref_mut().get_reference_mut(indexes)
       get_reference_unchecked_mut(indexes) = self.numbers.source_ref_mut().get_reference_unchecked_mut(indexes)
   and likewise try_get_reference / view_rows / view_columns / get_reference_unchecked /
   try_get_reference_mut / get_reference_unchecked_mut of RecordMatrix with (row, column).
   The element type is the pair (T, Index); Index = usize is `N`.  The history reference is carried
   but never consulted by these impls (kept as an opaque identifier).
   Sources: the adaptor stacks of Model/TSource.v (tensor at the bottom) and Model/MatrixIter.v
   (matrix at the bottom); a record tensor over a view term of the C02 algebra is `CWrap`
   (Model/Views.v: RecordTensor is one of the index-transparent wrappers).
   Executable definitions only. *)
From Coq Require Import List ZArith NArith Bool Arith.
From EasyML Require Import Base.Sx Model.Shape Model.Tensor Model.TSource Model.MatrixIter Model.Views.
Import ListNotations.
Open Scope N_scope.

Section RecordFwd.
Context {T : Type}.

(* ---------- RecordTensor ---------- *)
Record record_tensor : Type := mkRT { rt_numbers : tsrc (T * N); rt_history : option N }.

(* the `indexes` argument each method hands to the source's method of the same name: unchanged *)
Definition rt_forward (indexes : list N) : list N := indexes.

(* TensorRef::view_shape *)
Definition rt_view_shape (r : record_tensor) : shape := src_shape (rt_numbers r).

(* TensorRef::get_reference (and, index-wise, get_reference_unchecked) *)
Definition rt_get_reference (r : record_tensor) (indexes : list N) : option (T * N) :=
  src_get (rt_numbers r) (rt_forward indexes).

(* TensorMut::get_reference_mut followed by a store (and, index-wise, get_reference_unchecked_mut) *)
Definition rt_set (r : record_tensor) (indexes : list N) (v : T * N) : option record_tensor :=
  option_map (fun s => mkRT s (rt_history r)) (src_set (rt_numbers r) (rt_forward indexes) v).

(* ---------- RecordMatrix ---------- *)
Record record_matrix : Type := mkRM { rm_numbers : msrc (T * N); rm_history : option N }.

Definition rm_forward (row column : N) : N * N := (row, column).

(* MatrixRef::view_rows / view_columns *)
Definition rm_view_rows (r : record_matrix) : N := ms_rows (rm_numbers r).
Definition rm_view_columns (r : record_matrix) : N := ms_cols (rm_numbers r).

(* MatrixRef::try_get_reference (and, index-wise, get_reference_unchecked) *)
Definition rm_try_get_reference (r : record_matrix) (row column : N) : option (T * N) :=
  ms_get (rm_numbers r) (fst (rm_forward row column)) (snd (rm_forward row column)).

(* MatrixMut::try_get_reference_mut followed by a store (and get_reference_unchecked_mut) *)
Definition rm_set (r : record_matrix) (row column : N) (v : T * N) : option record_matrix :=
  option_map (fun s => mkRM s (rm_history r))
             (ms_set (rm_numbers r) (fst (rm_forward row column)) (snd (rm_forward row column)) v).

End RecordFwd.

(* ---------- a record tensor whose source is a view of the C02 algebra ----------
   (RecordTensor::from_existing over any TensorRef; in the C02 term language RecordTensor is the
   wrapper VWrap / CWrap: view_shape and get_reference of the source, same indexes) *)
Definition record_view (v : view) : view := VWrap v.
Definition record_cview (c : cview) : cview := CWrap c.
