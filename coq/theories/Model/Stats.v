(* C14 — transcription of src/linear_algebra.rs: mean, variance, covariance_column_features,
   covariance_row_features, covariance (tensor, named feature dimension), softmax, f1_score.
   Executable definitions only; specification and proofs live in Proofs/C14P.v.

   Data representation
     an iterator's items            : list R (in iteration order)
     a Matrix / 2-dimensional Tensor: list (list R), the list of its rows (row major), every
                                      row of the same non-zero length, at least one row
     a 2-dimensional tensor's names : a pair (n0, n1) of dimension names (nat, as in Shape.v)
   Iterator::sum::<T>() is `fold(T::zero(), |a, b| a + b)` (harness/src/num.rs), i.e. a left
   fold starting from zero. *)
From Coq Require Import List ZArith NArith Bool.
From EasyML Require Import Base.Sx Model.Num.
Import ListNotations.

Section Stats.
Context {R : Type} (ops : numops R).

Definition mat := list (list R).

(* iter.sum::<T>() *)
Definition isum (l : list R) : R := fold_left (nadd ops) l (nzero ops).

(* ---- mean (src/linear_algebra.rs:845) ----
     let mut next = data.next(); assert!(next.is_some());
     let mut count = T::zero(); let mut sum = T::zero();
     while next.is_some() { count = count + T::one(); sum = sum + next.unwrap(); next = data.next(); }
     sum / count *)
Fixpoint mean_loop (l : list R) (count sum : R) : R * R :=
  match l with
  | [] => (count, sum)
  | x :: r => mean_loop r (nadd ops count (none_ ops)) (nadd ops sum x)
  end.

Definition mean (l : list R) : outcome R :=
  match l with
  | [] => Panic
  | _ => let cs := mean_loop l (nzero ops) (nzero ops) in Ok (ndiv ops (snd cs) (fst cs))
  end.

(* ---- variance (src/linear_algebra.rs:880) ----
     let list = data.collect(); assert!(!list.is_empty());
     let m = mean(list.iter().cloned());
     mean(list.into_iter().map(|x| (x.clone() - m.clone()) * (x - m.clone()))) *)
Definition variance (l : list R) : outcome R :=
  match l with
  | [] => Panic
  | _ => obind (mean l) (fun m => mean (map (fun x => nmul ops (nsub ops x m) (nsub ops x m)) l))
  end.

(* ---- matrices ---- *)
Definition mrows (m : mat) : nat := length m.
Definition mcols (m : mat) : nat := length (hd [] m).
(* matrix.row_iter(i) / row_reference_iter(i) *)
Definition row_iter (m : mat) (i : nat) : list R := nth i m [].
(* matrix.column_iter(j) / column_reference_iter(j) *)
Definition column_iter (m : mat) (j : nat) : list R := map (fun row => nth j row (nzero ops)) m.

(* the closure body shared by the three covariance routines: xs, ys are the two feature
   vectors as iterated
     let feature_i_mean: T = xs.sum::<T>() / &samples;
     let feature_j_mean: T = ys.sum::<T>() / &samples;
     xs.map(|x| x - &feature_i_mean).zip(ys.map(|y| y - &feature_j_mean))
       .map(|(x, y)| x * y).sum::<T>() / &samples *)
Definition cov_cell (samples : R) (xs ys : list R) : R :=
  let mi := ndiv ops (isum xs) samples in
  let mj := ndiv ops (isum ys) samples in
  ndiv ops
    (isum (map (fun xy => nmul ops (fst xy) (snd xy))
               (combine (map (fun x => nsub ops x mi) xs) (map (fun y => nsub ops y mj) ys))))
    samples.

(* Matrix::empty(zero, (features, features)).map_mut_with_index(|_, i, j| cell i j) *)
Definition square_table (features : nat) (cell : nat -> nat -> R) : mat :=
  map (fun i => map (fun j => cell i j) (seq 0 features)) (seq 0 features).

(* covariance_column_features (src/linear_algebra.rs:615): features = columns, samples = rows;
   T::from_usize(rows).expect(..) *)
Definition covariance_column_features (m : mat) : outcome mat :=
  match nof_N ops (N.of_nat (mrows m)) with
  | None => Panic
  | Some samples =>
      Ok (square_table (mcols m) (fun i j => cov_cell samples (column_iter m i) (column_iter m j)))
  end.

(* covariance_row_features (src/linear_algebra.rs:676): features = rows, samples = columns *)
Definition covariance_row_features (m : mat) : outcome mat :=
  match nof_N ops (N.of_nat (mcols m)) with
  | None => Panic
  | Some samples =>
      Ok (square_table (mrows m) (fun i j => cov_cell samples (row_iter m i) (row_iter m j)))
  end.

(* ---- covariance over a 2-dimensional tensor (src/linear_algebra.rs:767-832) ----
   features_index = if shape[0].0 == fd {0} else if shape[1].0 == fd {1} else panic;
   tensor.select([(feature_dimension, i)]).iter() walks the remaining dimension in order: row i
   of the data when the feature dimension is the first one, column i when it is the second. *)
Definition select_iter (m : mat) (features_index : nat) (i : nat) : list R :=
  match features_index with
  | O => row_iter m i
  | _ => column_iter m i
  end.

(* names of the result: [("i", features), ("j", features)]; encoded by their ASCII codes *)
Definition name_i : nat := 105.
Definition name_j : nat := 106.

Definition covariance (names : nat * nat) (m : mat) (feature_dimension : nat)
  : outcome ((nat * N) * (nat * N) * mat) :=
  let lens := (mrows m, mcols m) in
  match (if Nat.eqb (fst names) feature_dimension then Some 0%nat
         else if Nat.eqb (snd names) feature_dimension then Some 1%nat
         else None) with
  | None => Panic
  | Some features_index =>
      let features := match features_index with O => fst lens | _ => snd lens end in
      let samples := match features_index with O => snd lens | _ => fst lens end in
      match nof_N ops (N.of_nat samples) with
      | None => Panic
      | Some samples =>
          Ok ((name_i, N.of_nat features), (name_j, N.of_nat features),
              square_table features
                (fun i j => cov_cell samples (select_iter m features_index i)
                                             (select_iter m features_index j)))
      end
  end.

(* ---- softmax (src/linear_algebra.rs:921) ----
     let list = data.collect(); if list.is_empty() { return Vec::with_capacity(0); }
     let max = list.iter().max_by(|a, b| a.partial_cmp(b).expect(..)).unwrap();
     let denominator: T = list.iter().cloned().map(|x| (x - max).exp()).sum();
     list.iter().cloned().map(|x| (x - max).exp() / denominator.clone()).collect()
   Iterator::max_by is reduce(|x, y| match compare(&x, &y) { Greater => x, _ => y }). *)
Definition max_step (x y : R) : R := if nltb ops y x then x else y.
Definition max_by (l : list R) : option R :=
  match l with
  | [] => None
  | x :: r => Some (fold_left max_step r x)
  end.

Definition softmax (l : list R) : list R :=
  match max_by l with
  | None => []
  | Some mx =>
      let denominator := isum (map (fun x => nexp ops (nsub ops x mx)) l) in
      map (fun x => ndiv ops (nexp ops (nsub ops x mx)) denominator) l
  end.

(* ---- f1_score (src/linear_algebra.rs:989) ----
     (T::one() + T::one()) * ((precision.clone() * recall.clone()) / (precision + recall)) *)
Definition f1_score (precision recall : R) : R :=
  nmul ops (nadd ops (none_ ops) (none_ ops))
       (ndiv ops (nmul ops precision recall) (nadd ops precision recall)).

End Stats.
