(* Forward-mode automatic differentiation with Trace (src/differentiation.rs: Trace::constant /
   variable / unary / binary; src/differentiation/trace_operations.rs: the dual-number rules),
   over an arbitrary dictionary of numeric operations.  Executable definitions only.
   Every expression keeps the association / operand order of the Rust source.  All by-value /
   by-reference forms delegate to the &Trace (op) &Trace / &Trace (op) &T impls (cross-checked
   by the harness), so there is one model function per operator KIND. *)
From Coq Require Import List Arith ZArith.
From EasyML Require Import Base.Sx Model.Num Model.AD.
Import ListNotations.

Section Forward.
Context {R : Type} (ops : numops R).
Notation zero := (nzero ops).
Notation one := (none_ ops).
Notation "x [+] y" := (nadd ops x y) (at level 50, left associativity).
Notation "x [-] y" := (nsub ops x y) (at level 50, left associativity).
Notation "x [*] y" := (nmul ops x y) (at level 40, left associativity).
Notation "x [/] y" := (ndiv ops x y) (at level 40, left associativity).

Record trace : Type := mkTrace { tnumber : R; tderivative : R }.

Definition tconstant (c : R) : trace := mkTrace c zero.
Definition tvariable (x : R) : trace := mkTrace x one.

(* trace (op) trace *)
Definition t_add (a b : trace) : trace :=
  mkTrace (tnumber a [+] tnumber b) (tderivative a [+] tderivative b).
Definition t_sub (a b : trace) : trace :=
  mkTrace (tnumber a [-] tnumber b) (tderivative a [-] tderivative b).
(* u'v + uv' *)
Definition t_mul (a b : trace) : trace :=
  mkTrace (tnumber a [*] tnumber b)
          ((tderivative a [*] tnumber b) [+] (tnumber a [*] tderivative b)).
(* (u'v - uv') / v^2 *)
Definition t_div (a b : trace) : trace :=
  mkTrace (tnumber a [/] tnumber b)
          (((tderivative a [*] tnumber b) [-] (tnumber a [*] tderivative b))
           [/] (tnumber b [*] tnumber b)).
(* (u' * v * u^(v-1)) + (v' * u^v * ln(u)) *)
Definition t_pow (a b : trace) : trace :=
  mkTrace (npow ops (tnumber a) (tnumber b))
          ((tderivative a [*] tnumber b [*] npow ops (tnumber a) (tnumber b [-] one))
           [+] (tderivative b [*] npow ops (tnumber a) (tnumber b) [*] nln ops (tnumber a))).

(* trace (op) number *)
Definition t_add_num (a : trace) (c : R) : trace := mkTrace (tnumber a [+] c) (tderivative a).
Definition t_sub_num (a : trace) (c : R) : trace := mkTrace (tnumber a [-] c) (tderivative a).
Definition t_mul_num (a : trace) (c : R) : trace := mkTrace (tnumber a [*] c) (tderivative a [*] c).
(* (u' * c) / (c * c) *)
Definition t_div_num (a : trace) (c : R) : trace :=
  mkTrace (tnumber a [/] c) ((tderivative a [*] c) [/] (c [*] c)).
Definition t_pow_num (a : trace) (c : R) : trace :=
  mkTrace (npow ops (tnumber a) c) (tderivative a [*] c [*] npow ops (tnumber a) (c [-] one)).
(* number ^ trace *)
Definition t_num_pow (c : R) (b : trace) : trace :=
  mkTrace (npow ops c (tnumber b)) (tderivative b [*] npow ops c (tnumber b) [*] nln ops c).

(* Neg: Trace::zero() - self *)
Definition t_neg (a : trace) : trace := t_sub (tconstant zero) a.
(* Sum: total = Trace { total.number + next.number, total.derivative + next.derivative } *)
Definition t_sum (l : list trace) : trace :=
  fold_left (fun total next => mkTrace (tnumber total [+] tnumber next)
                                       (tderivative total [+] tderivative next))
            l (tconstant zero).

Definition t_sin (a : trace) : trace :=
  mkTrace (nsin ops (tnumber a)) (tderivative a [*] ncos ops (tnumber a)).
(* -u' sin(u): (-self.derivative) * self.number.sin() *)
Definition t_cos (a : trace) : trace :=
  mkTrace (ncos ops (tnumber a)) (nneg ops (tderivative a) [*] nsin ops (tnumber a)).
Definition t_exp (a : trace) : trace :=
  mkTrace (nexp ops (tnumber a)) (tderivative a [*] nexp ops (tnumber a)).
Definition t_ln (a : trace) : trace :=
  mkTrace (nln ops (tnumber a)) (tderivative a [/] tnumber a).
(* u' / ((one + one) * sqrt(u)) *)
Definition t_sqrt (a : trace) : trace :=
  mkTrace (nsqrt ops (tnumber a)) (tderivative a [/] ((one [+] one) [*] nsqrt ops (tnumber a))).

(* Trace::unary / Trace::binary *)
Definition t_unary (f df : R -> R) (a : trace) : trace :=
  mkTrace (f (tnumber a)) (tderivative a [*] df (tnumber a)).
Definition t_binary (f dx dy : R -> R -> R) (a b : trace) : trace :=
  mkTrace (f (tnumber a) (tnumber b))
          ((tderivative a [*] dx (tnumber a) (tnumber b))
           [+] (tderivative b [*] dy (tnumber a) (tnumber b))).

(* ---- the program language of Model/AD.v run through Trace: the instruction at position `seed`
   (an IVar) is Trace::variable, every other IVar and every IConst is Trace::constant;
   number - trace and number / trace do not exist for Trace: the documented idiom is to lift the
   number (Trace::constant(c) - x) ---- *)
Definition gett (nodes : list trace) (n : nat) : trace := nth n nodes (tconstant zero).

Definition t_bin (o : bop) : trace -> trace -> trace :=
  match o with BAdd => t_add | BSub => t_sub | BMul => t_mul | BDiv => t_div | BPow => t_pow end.
Definition t_bin_num (o : bop) : trace -> R -> trace :=
  match o with
  | BAdd => t_add_num | BSub => t_sub_num | BMul => t_mul_num | BDiv => t_div_num
  | BPow => t_pow_num
  end.
Definition t_un (o : uop) : trace -> trace :=
  match o with
  | UNeg => t_neg | USin => t_sin | UCos => t_cos | UExp => t_exp | ULn => t_ln | USqrt => t_sqrt
  end.

Definition texec_op (seed : nat) (nodes : list trace) (ins : instr R) : trace :=
  match ins with
  | IVar x => if Nat.eqb (length nodes) seed then tvariable x else tconstant x
  | IConst c => tconstant c
  | IBin o a b => t_bin o (gett nodes a) (gett nodes b)
  | IBinC o a c => t_bin_num o (gett nodes a) c
  | ICBin CSub c b => t_sub (tconstant c) (gett nodes b)
  | ICBin CDiv c b => t_div (tconstant c) (gett nodes b)
  | ICBin CPow c b => t_num_pow c (gett nodes b)
  | IUn o a => t_un o (gett nodes a)
  | ISum l => t_sum (map (gett nodes) l)
  | IUser1 f df a => t_unary f df (gett nodes a)
  | IUser2 f dx dy a b => t_binary f dx dy (gett nodes a) (gett nodes b)
  end.

Definition texec (seed : nat) (nodes : list trace) (ins : instr R) : list trace :=
  nodes ++ [texec_op seed nodes ins].
Definition trun (seed : nat) (prog : list (instr R)) : list trace :=
  fold_left (texec seed) prog [].

End Forward.
Arguments trace R : clear implicits.
