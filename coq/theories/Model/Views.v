(* Tensor view adaptors (property C02): transcription of
     src/matrices/views/ranges.rs   IndexRange::{map, mask, clip}
     src/tensors/views/ranges.rs    TensorRange / TensorMask (from, from_strict, from_all, from_all_strict)
     src/tensors/views/indexes.rs   TensorIndex / TensorExpansion
     src/tensors/views/renamed.rs   TensorRename
     src/tensors/views/reverse.rs   TensorReverse
     src/tensors/indexing.rs        TensorAccess / TensorTranspose (as TensorRef sources)
     src/tensors/views/zip.rs       TensorStack / TensorChain
     src/tensors/views/traits.rs    Box / & / &mut sources (index-transparent)
     src/interop/mod.rs             TensorRefMatrix
   A view is a TERM (`view`: the constructor calls with their raw arguments). `v_ctor` runs the
   constructor validations in the code's order, sources first, and yields the constructed object
   (`cview`: exactly the fields the Rust structs store: clipped ranges, the `provided` array, the
   sorted extra dimensions, the `reversed` flags, the DimensionMappings tables, the `along`
   position). `c_shape`, `c_get`, `c_layout` transcribe view_shape / get_reference / data_layout.
   `c_get` yields the ONE source element an index resolves to: (leaf id, flat offset in the leaf).
   Arithmetic: ideal `N` with the saturating / checked operations written in the source modelled
   explicitly (`sat_add`, `checked_add`; `N` subtraction is `saturating_sub`).
   Arity errors (a `[_; D]` argument of the wrong length, sources of different dimensionality) are
   compile-time errors in Rust; `v_ctor` maps them to Panic so that `Ok` implies well-typed.
   Executable definitions only. *)
From Coq Require Import List ZArith NArith Bool Arith.
From EasyML Require Import Base.Sx Model.Shape.
Import ListNotations.
Open Scope N_scope.

(* ---------- IndexRange ---------- *)
Record irange : Type := mkR { r_start : N; r_len : N }.

Definition sat_add (a b : N) : N := N.min (a + b) usize_max.
Definition checked_add (a b : N) : option N := if a + b <=? usize_max then Some (a + b) else None.

(* map: if index < self.length { Some(index + self.start) } else { None } *)
Definition r_map (r : irange) (i : N) : option N :=
  if i <? r_len r then Some (i + r_start r) else None.
(* mask: if index < self.start { index } else { index.saturating_add(self.length) } *)
Definition r_mask (r : irange) (i : N) : N :=
  if i <? r_start r then i else sat_add i (r_len r).
(* clip: end = start.saturating_add(length); end = min(end, max); length = end.saturating_sub(start) *)
Definition r_clip (r : irange) (max_index : N) : irange :=
  let e := sat_add (r_start r) (r_len r) in
  let e := N.min e max_index in
  mkR (r_start r) (e - r_start r).

Inductive layout : Type := Linear (order : list name) | NonLinear | Other.

(* ---------- error payloads ---------- *)
Definition srange (r : irange) : sx := SL [sN (r_start r); sN (r_len r)].
Definition e_shape (sh : shape) : sx := SL [SZ 0; sshape sh].                    (* InvalidShapeError *)
Definition e_dims (provided valid : list name) : sx :=                            (* InvalidDimensionsError *)
  SL [SZ 1; snames provided; snames valid].
Definition e_outside (sh : shape) (rs : list (option irange)) : sx :=             (* OutsideShape *)
  SL [SZ 2; sshape sh; slist (sopt srange) rs].
Definition e_irv_shape (e : sx) : sx := SL [SZ 3; e].      (* IndexRangeValidationError::InvalidShape *)
Definition e_irv_dims (e : sx) : sx := SL [SZ 4; e].       (* IndexRangeValidationError::InvalidDimensions *)
Definition e_strict (e : sx) : sx := SL [SZ 5; e].         (* StrictIndexRangeValidationError::Error *)
Definition e_access (actual : shape) (req : list name) : sx :=   (* indexing::InvalidDimensionsError *)
  SL [SZ 6; sshape actual; snames req].

(* ---------- small list helpers ---------- *)
Fixpoint zipwith {A B C} (f : A -> B -> C) (l1 : list A) (l2 : list B) : list C :=
  match l1, l2 with a :: t1, b :: t2 => f a b :: zipwith f t1 t2 | _, _ => [] end.

Fixpoint list_upd {A} (l : list A) (k : nat) (x : A) : list A :=
  match l, k with
  | [], _ => []
  | _ :: r, O => x :: r
  | y :: r, S k' => y :: list_upd r k' x
  end.

Definition is_none {A} (o : option A) : bool := match o with None => true | Some _ => false end.

Definition shape_eqb (a b : shape) : bool :=
  Nat.eqb (length a) (length b) &&
  forallb (fun p => Nat.eqb (fst (fst p)) (fst (snd p)) && (snd (fst p) =? snd (snd p))) (combine a b).

(* ---------- terms: the constructor calls ---------- *)
Inductive rparams : Type :=
| PNamed (strict : bool) (l : list (name * irange))     (* from / from_strict *)
| PAll (strict : bool) (l : list (option irange)).      (* from_all / from_all_strict *)

Inductive view : Type :=
| VTensor (id : N) (sh : shape)                          (* Tensor::try_from(sh, id*1000 + 0..) *)
| VMatrix (id : N) (rows cols : N) (n0 n1 : name)        (* TensorRefMatrix::with_names(Matrix rows x cols, [n0, n1]) *)
| VRange (v : view) (p : rparams)
| VMask (v : view) (p : rparams)
| VIndex (v : view) (ps : list (name * N))               (* TensorIndex::from *)
| VExpand (v : view) (es : list (nat * name))            (* TensorExpansion::from *)
| VRename (v : view) (ns : list name)                    (* TensorRename::from *)
| VReverse (v : view) (ns : list name)                   (* TensorReverse::from *)
| VAccess (v : view) (ns : list name)                    (* TensorAccess::try_from *)
| VTranspose (v : view) (ns : list name)                 (* TensorTranspose::try_from *)
| VStack (vs : list view) (pos : nat) (n : name)         (* TensorStack::from([..] or (..), (pos, n)) *)
| VChain (vs : list view) (n : name)                     (* TensorChain::from([..] or (..), n) *)
| VWrap (v : view).                                      (* Box<S>, &mut S, Box<dyn TensorMut> *)

(* ---------- constructed views: the struct fields ---------- *)
Inductive cview : Type :=
| CTensor (id : N) (sh : shape) (strides : list N)
| CMatrix (id : N) (rows cols : N) (n0 n1 : name)
| CRange (c : cview) (rs : list irange)
| CMask (c : cview) (ms : list irange)
| CIndex (c : cview) (provided : list (option N))
| CExpand (c : cview) (extra : list (nat * name))
| CRename (c : cview) (ns : list name)
| CReverse (c : cview) (rev : list bool)
| CAccess (c : cview) (tbl : list (nat * nat))
| CTranspose (c : cview) (tbl : list (nat * nat))
| CStack (cs : list cview) (along : nat) (n : name)
| CChain (cs : list cview) (along : nat)
| CWrap (c : cview).

(* ---------- view_shape ---------- *)

(* TensorIndex::view_shape: the dimensions whose `provided` slot is None, in order *)
Fixpoint unprovided (sh : shape) (pr : list (option N)) : shape :=
  match sh, pr with
  | d :: sh', None :: pr' => d :: unprovided sh' pr'
  | _ :: sh', Some _ :: pr' => unprovided sh' pr'
  | _, _ => []
  end.

(* TensorExpansion::view_shape: for each of the D + I output slots:
     match extra.get(e) { None => shape[i], i += 1;
                          Some((j, name)) => if j == i { (name, 1), e += 1 } else { shape[i], i += 1 } }
   `sh` is the not yet consumed suffix shape[i..], `extra` the suffix extra[e..]. *)
Fixpoint expand_shape (fuel : nat) (sh : shape) (i : nat) (extra : list (nat * name)) : shape :=
  match fuel with
  | O => []
  | S f =>
      match extra with
      | [] => match sh with d :: sh' => d :: expand_shape f sh' (S i) [] | [] => [] end
      | (j, n) :: ex' =>
          if Nat.eqb j i then (n, 1) :: expand_shape f sh i ex'
          else match sh with d :: sh' => d :: expand_shape f sh' (S i) extra | [] => [] end
      end
  end.

(* TensorStack view_shape_impl: for each of the D + 1 output slots d:
     if d == along.0 { (along.1, sources) } else { shape[i], i += 1 } *)
Fixpoint stack_shape (fuel d : nat) (sh : shape) (along : nat) (x : name * N) : shape :=
  match fuel with
  | O => []
  | S f =>
      if Nat.eqb d along then x :: stack_shape f (S d) sh along x
      else match sh with e :: sh' => e :: stack_shape f (S d) sh' along x | [] => [] end
  end.

Definition len_at (sh : shape) (d : nat) : N := snd (nth d sh (0%nat, 0)).
Definition sum (l : list N) : N := fold_right N.add 0 l.

Definition head_shape (shs : list shape) : shape := match shs with s :: _ => s | [] => [] end.

Fixpoint c_shape (c : cview) : shape :=
  match c with
  | CTensor _ sh _ => sh
  | CMatrix _ rows cols n0 n1 => [(n0, rows); (n1, cols)]
  | CRange c rs => zipwith (fun d r => (fst d, r_len r)) (c_shape c) rs
  | CMask c ms => zipwith (fun d m => (fst d, snd d - r_len m)) (c_shape c) ms
  | CIndex c pr => unprovided (c_shape c) pr
  | CExpand c ex => expand_shape (length (c_shape c) + length ex) (c_shape c) 0 ex
  | CRename c ns => zipwith (fun d n => (n, snd d)) (c_shape c) ns
  | CReverse c _ => c_shape c
  | CAccess c tbl => map_shape_to_requested tbl (c_shape c)
  | CTranspose c tbl =>
      (* from_fn(|d| (names[d].0, order[d].1)) with order = access.shape() *)
      zipwith (fun a b => (fst a, snd b)) (c_shape c) (map_shape_to_requested tbl (c_shape c))
  | CStack cs along n =>
      let sh0 := head_shape (map c_shape cs) in
      stack_shape (S (length sh0)) 0 sh0 along (n, N.of_nat (length cs))
  | CChain cs along =>
      let shs := map c_shape cs in
      let sh0 := head_shape shs in
      list_upd sh0 along (fst (nth along sh0 (0%nat, 0)), sum (map (fun s => len_at s along) shs))
  | CWrap c => c_shape c
  end.

(* ---------- get_reference: index -> (leaf, offset) ---------- *)

(* map_indexes_by_range: mapped[d] = r.map(i)? *)
Definition map_indexes_by_range (idx : list N) (rs : list irange) : option (list N) :=
  sequence (zipwith (fun r i => r_map r i) rs idx).
Definition map_indexes_by_mask (idx : list N) (ms : list irange) : list N :=
  zipwith (fun m i => r_mask m i) ms idx.

(* compute_select_indexes: fill the None slots of `provided` with the supplied indexes in order *)
Fixpoint select_idx (pr : list (option N)) (supplied : list N) : option (list N) :=
  match pr with
  | [] => Some []
  | Some i :: pr' => option_map (cons i) (select_idx pr' supplied)
  | None :: pr' =>
      match supplied with
      | [] => None
      | s :: sup' => option_map (cons s) (select_idx pr' sup')
      end
  end.

(* compute_expansion_indexes: for each supplied index (same loop as expand_shape) *)
Fixpoint expand_idx (idx : list N) (i : nat) (extra : list (nat * name)) : option (list N) :=
  match idx with
  | [] => Some []
  | index :: idx' =>
      match extra with
      | [] => option_map (cons index) (expand_idx idx' (S i) [])
      | (j, _) :: ex' =>
          if Nat.eqb j i then (if index =? 0 then expand_idx idx' i ex' else None)
          else option_map (cons index) (expand_idx idx' (S i) extra)
      end
  end.

(* reverse_indexes *)
Definition reverse_index (rev : bool) (len index : N) : N :=
  if rev then
    let last_index := len - 1 in
    if last_index <? index then index else last_index - index
  else index.
Fixpoint reverse_indexes (idx : list N) (sh : shape) (rev : list bool) : list N :=
  match idx, sh, rev with
  | i :: idx', d :: sh', r :: rev' => reverse_index r (snd d) i :: reverse_indexes idx' sh' rev'
  | _, _, _ => []
  end.

(* TensorStack indexing: (indexes[along], the other indexes in order) *)
Fixpoint remove_at (d along : nat) (idx : list N) : list N :=
  match idx with
  | [] => []
  | x :: r => if Nat.eqb d along then remove_at (S d) along r else x :: remove_at (S d) along r
  end.

(* TensorChain indexing: subtract the lengths along the chained dimension until the index fits *)
Fixpoint chain_find (lens : list N) (i : N) (k : nat) : option (nat * N) :=
  match lens with
  | [] => None
  | l :: r => if i <? l then Some (k, i) else chain_find r (i - l) (S k)
  end.

Fixpoint c_get (c : cview) (idx : list N) : option (N * N) :=
  match c with
  | CTensor id sh st => option_map (pair id) (get_index_direct idx st sh)
  | CMatrix id rows cols _ _ =>
      (* if row < rows && column < columns { data[column + row * columns] } *)
      match idx with
      | [r; k] => if (r <? rows) && (k <? cols) then Some (id, k + r * cols) else None
      | _ => None
      end
  | CRange c rs =>
      match map_indexes_by_range idx rs with Some idx' => c_get c idx' | None => None end
  | CMask c ms => c_get c (map_indexes_by_mask idx ms)
  | CIndex c pr =>
      match select_idx pr idx with Some idx' => c_get c idx' | None => None end
  | CExpand c ex =>
      match expand_idx idx 0 ex with Some idx' => c_get c idx' | None => None end
  | CRename c _ => c_get c idx
  | CReverse c rev => c_get c (reverse_indexes idx (c_shape c) rev)
  | CAccess c tbl => c_get c (map_dimensions_to_source tbl idx 0)
  | CTranspose c tbl => c_get c (map_dimensions_to_source tbl idx 0)
  | CStack cs along _ =>
      let source := nth along idx 0 in
      let idx' := remove_at 0 along idx in
      (* self.sources.get(source)?.get_reference(indexes) *)
      (fix pick (l : list cview) (k : N) {struct l} : option (N * N) :=
         match l with
         | [] => None
         | c0 :: r => if k =? 0 then c_get c0 idx' else pick r (k - 1)
         end) cs source
  | CChain cs along =>
      match chain_find (map (fun c0 => len_at (c_shape c0) along) cs) (nth along idx 0) 0 with
      | None => None
      | Some (k, i) =>
          let idx' := list_upd idx along i in
          (fix pick (l : list cview) (k : nat) {struct l} : option (N * N) :=
             match l with
             | [] => None
             | c0 :: r => match k with O => c_get c0 idx' | S k' => pick r k' end
             end) cs k
      end
  | CWrap c => c_get c idx
  end.

(* ---------- data_layout ---------- *)

(* TensorTranspose::data_layout -> DimensionMappings::map_linear_data_layout_to_transposed.
   NOW (after fix 6660492 of defect F13, found by this property's correspondence check):
     from_fn(|d| match source.iter().position(|(name, _)| *name == order[d]) {
         Some(p) => source[self.source_to_requested[p]].0, None => order[d] })
   BEFORE the fix (kept as a regression fact, `c_layout_gen true`; Model/Shape.v still holds this
   old `map_linear_data_layout_to_transposed`):  from_fn(|d| order[source_to_requested[d]])
   which is only right when `order` equals the names of the source's view_shape in order (a plain
   Tensor source); see Proofs/C02P.v (transpose_layout_as_written_refuted) and notes/C02.md. *)
Definition transpose_layout_as_written (tbl : list (nat * nat)) (order : list name) : list name :=
  map_linear_data_layout_to_transposed tbl order.
Definition transpose_layout (sh : shape) (tbl : list (nat * nat)) (order : list name) : list name :=
  map (fun n => match position_of sh n with
                | Some p => nth (nth p (dm_s2r tbl) 0%nat) (names_of sh) 0%nat
                | None => n
                end) order.

(* as_written = true: the transcription of the code BEFORE fix 6660492; false: the code now *)
Fixpoint c_layout_gen (as_written : bool) (c : cview) : outcome layout :=
  match c with
  | CTensor _ sh _ => Ok (Linear (names_of sh))
  | CMatrix _ _ _ n0 n1 => Ok (Linear [n0; n1])          (* Matrix is RowMajor *)
  | CRange _ _ | CMask _ _ | CIndex _ _ | CExpand _ _ | CStack _ _ _ | CChain _ _ => Ok NonLinear
  | CReverse _ _ => Ok Other
  | CRename c ns =>
      match c_layout_gen as_written c with
      | Ok (Linear order) =>
          (* order_d[i] = position_of(shape, order[i]) or panic; Linear(from_fn(|i| dimensions[order_d[i]])) *)
          match sequence (map (position_of (c_shape c)) order) with
          | Some order_d => Ok (Linear (map (fun p => nth p ns 0%nat) order_d))
          | None => Panic
          end
      | other => other
      end
  | CAccess c _ => c_layout_gen as_written c
  | CTranspose c tbl =>
      match c_layout_gen as_written c with
      | Ok (Linear order) =>
          if as_written then Ok (Linear (transpose_layout_as_written tbl order))
          else Ok (Linear (transpose_layout (c_shape c) tbl order))
      | other => other
      end
  | CWrap c => c_layout_gen as_written c
  end.
Definition c_layout : cview -> outcome layout := c_layout_gen false.

(* ---------- the constructors ---------- *)

(* from_named_to_all *)
Fixpoint place_named (sh : shape) (named : list (name * irange)) (acc : list (option irange))
  : option (list (option irange)) :=
  match named with
  | [] => Some acc
  | (n, r) :: rest =>
      match position_of sh n with
      | Some d => place_named sh rest (list_upd acc d (Some r))
      | None => None
      end
  end.
Definition from_named_to_all (sh : shape) (named : list (name * irange))
  : outcome (list (option irange)) :=
  let provided := map fst named in
  if has_duplicates provided then Err (e_irv_dims (e_dims provided (names_of sh)))
  else match place_named sh named (repeat None (length sh)) with
       | Some all => Ok all
       | None => Err (e_irv_dims (e_dims provided (names_of sh)))
       end.

(* range_exceeds_bounds (also used for masks) *)
Fixpoint range_exceeds_bounds (sh : shape) (rs : list (option irange)) : bool :=
  match sh, rs with
  | d :: sh', r :: rs' =>
      match r with
      | None => range_exceeds_bounds sh' rs'
      | Some r =>
          match checked_add (r_start r) (r_len r) with
          | None => true
          | Some e => if snd d <? e then true else range_exceeds_bounds sh' rs'
          end
      end
  | _, _ => false
  end.

(* TensorRange::clip_from: None => IndexRange::new(0, shape[d].1); then clip_range_shape *)
Definition range_defaults (sh : shape) (rs : list (option irange)) : list irange :=
  zipwith (fun d o => match o with Some r => r | None => mkR 0 (snd d) end) sh rs.
Definition clip_all (sh : shape) (rs : list irange) : list irange :=
  zipwith (fun d r => r_clip r (snd d)) sh rs.
Definition range_clip_from (c : cview) (rs : list (option irange)) : outcome cview :=
  let sh := c_shape c in
  let rs' := clip_all sh (range_defaults sh rs) in
  let sh' := zipwith (fun d r => (fst d, r_len r)) sh rs' in
  if valid_shape_b sh' then Ok (CRange c rs') else Err (e_shape sh').

(* TensorMask::clip_from: None => IndexRange::new(0, 0); then clip_masked_shape *)
Definition mask_defaults (rs : list (option irange)) : list irange :=
  map (fun o => match o with Some r => r | None => mkR 0 0 end) rs.
Definition mask_clip_from (c : cview) (ms : list (option irange)) : outcome cview :=
  let sh := c_shape c in
  let ms' := clip_all sh (mask_defaults ms) in
  let sh' := zipwith (fun d m => (fst d, snd d - r_len m)) sh ms' in
  if valid_shape_b sh' then Ok (CMask c ms') else Err (e_shape sh').

Definition map_err {A} (f : sx -> sx) (o : outcome A) : outcome A :=
  match o with Err e => Err (f e) | other => other end.

(* from / from_strict / from_all / from_all_strict, for ranges (clip_from = range_clip_from) and
   masks (clip_from = mask_clip_from) alike *)
Definition ranged_ctor (clip_from : cview -> list (option irange) -> outcome cview)
           (c : cview) (p : rparams) : outcome cview :=
  let sh := c_shape c in
  match p with
  | PAll false rs =>
      if negb (Nat.eqb (length rs) (length sh)) then Panic else clip_from c rs
  | PAll true rs =>
      if negb (Nat.eqb (length rs) (length sh)) then Panic else
      if range_exceeds_bounds sh rs then Err (e_outside sh rs)
      else map_err (fun e => e_strict (e_irv_shape e)) (clip_from c rs)
  | PNamed false named =>
      obind (from_named_to_all sh named) (fun all => map_err e_irv_shape (clip_from c all))
  | PNamed true named =>
      obind (map_err e_strict (from_named_to_all sh named)) (fun all =>
        if range_exceeds_bounds sh all then Err (e_outside sh all)
        else map_err (fun e => e_strict (e_irv_shape e)) (clip_from c all))
  end.

(* TensorIndex::from *)
Fixpoint find_sel (sh : shape) (n : name) (index : N) (i : nat) : option nat :=
  match sh with
  | [] => None
  | d :: r => if Nat.eqb (fst d) n && (index <? snd d) then Some i else find_sel r n index (S i)
  end.
Fixpoint place_provided (sh : shape) (ps : list (name * N)) (acc : list (option N))
  : option (list (option N)) :=
  match ps with
  | [] => Some acc
  | (n, index) :: rest =>
      match find_sel sh n index 0 with
      | Some i => place_provided sh rest (list_upd acc i (Some index))
      | None => None
      end
  end.
Definition index_ctor (c : cview) (ps : list (name * N)) : outcome cview :=
  let sh := c_shape c in
  if (length sh <? length ps)%nat then Panic
  else if has_duplicates (map fst ps) then Panic
  else match place_provided sh ps (repeat None (length sh)) with
       | Some pr => Ok (CIndex c pr)
       | None => Panic
       end.

(* TensorExpansion::from; dimensions.sort_by(|a, b| a.0.cmp(&b.0)) is a stable sort *)
Fixpoint insert_sorted (x : nat * name) (l : list (nat * name)) : list (nat * name) :=
  match l with
  | [] => [x]
  | y :: r => if (fst x <=? fst y)%nat then x :: l else y :: insert_sorted x r
  end.
Definition stable_sort (l : list (nat * name)) : list (nat * name) := fold_right insert_sorted [] l.
Definition expand_ctor (c : cview) (es : list (nat * name)) : outcome cview :=
  let sh := c_shape c in
  if has_duplicates (map snd es) then Panic
  else if existsb (fun e => (length sh <? fst e)%nat || contains sh (snd e)) es then Panic
  else Ok (CExpand c (stable_sort es)).

Definition rename_ctor (c : cview) (ns : list name) : outcome cview :=
  if negb (Nat.eqb (length ns) (length (c_shape c))) then Panic
  else if has_duplicates ns then Panic
  else Ok (CRename c ns).

Definition reverse_ctor (c : cview) (ns : list name) : outcome cview :=
  let sh := c_shape c in
  if has_duplicates ns then Panic
  else if existsb (fun n => negb (contains sh n)) ns then Panic
  else Ok (CReverse c (map (fun d => existsb (Nat.eqb (fst d)) ns) sh)).

Definition access_tbl (c : cview) (ns : list name) : outcome (list (nat * nat)) :=
  let sh := c_shape c in
  if negb (Nat.eqb (length ns) (length sh)) then Panic
  else match dm_new (names_of sh) ns with
       | Some tbl => Ok tbl
       | None => Err (e_access sh ns)
       end.

(* validate_shapes_equal *)
Definition shapes_equal (shs : list shape) : bool :=
  match shs with [] => true | s0 :: rest => forallb (fun s => shape_eqb s s0) rest end.
(* validate_shapes_similar: names equal everywhere, lengths equal except at `along` *)
Fixpoint similar_from (d along : nat) (s s0 : shape) : bool :=
  match s, s0 with
  | [], [] => true
  | a :: s', b :: s0' =>
      (if Nat.eqb d along then Nat.eqb (fst a) (fst b)
       else Nat.eqb (fst a) (fst b) && (snd a =? snd b)) && similar_from (S d) along s' s0'
  | _, _ => false
  end.
Definition shapes_similar (shs : list shape) (along : nat) : bool :=
  match shs with [] => true | s0 :: rest => forallb (fun s => similar_from 0 along s s0) rest end.

Definition stack_ctor (cs : list cview) (pos : nat) (n : name) : outcome cview :=
  match cs with
  | [] => Panic
  | c0 :: _ =>
      let sh := c_shape c0 in
      if (length sh <? pos)%nat then Panic
      else if contains sh n then Panic
      else if negb (shapes_equal (map c_shape cs)) then Panic
      else Ok (CStack cs pos n)
  end.

(* validate_shapes_similar NOW (after fix f29e87d of finding F16, found by C16's machine-arithmetic
   proof): total_length = first_shape[along].1; for every later shape FIRST
   total_length = total_length.checked_add(shape[along].1) or panic, THEN its similarity test *)
Fixpoint similar_loop (along : nat) (s0 : shape) (total : N) (rest : list shape) : bool :=
  match rest with
  | [] => true
  | s :: r =>
      match checked_add total (len_at s along) with
      | None => false
      | Some t => similar_from 0 along s s0 && similar_loop along s0 t r
      end
  end.
Definition shapes_similar_checked (shs : list shape) (along : nat) : bool :=
  match shs with [] => true | s0 :: rest => similar_loop along s0 (len_at s0 along) rest end.

(* checked = false: the constructor BEFORE f29e87d (no test of the total length), kept for the
   refutation witness C16_chain_length_sum_overflows *)
Definition chain_ctor_gen (checked : bool) (cs : list cview) (n : name) : outcome cview :=
  match cs with
  | [] => Panic
  | c0 :: _ =>
      let sh := c_shape c0 in
      match sh with
      | [] => Panic
      | _ =>
          match position_of sh n with
          | None => Panic
          | Some along =>
              if negb (if checked then shapes_similar_checked (map c_shape cs) along
                       else shapes_similar (map c_shape cs) along) then Panic
              else Ok (CChain cs along)
          end
      end
  end.
Definition chain_ctor : list cview -> name -> outcome cview := chain_ctor_gen true.
Definition chain_ctor_legacy : list cview -> name -> outcome cview := chain_ctor_gen false.

Fixpoint v_ctor (v : view) : outcome cview :=
  match v with
  | VTensor id sh =>
      if valid_shape_b sh then Ok (CTensor id sh (compute_strides sh)) else Err (e_shape sh)
  | VMatrix id rows cols n0 n1 =>
      if (rows * cols =? 0) then Panic                     (* Matrix::from_flat_row_major asserts *)
      else let sh := [(n0, rows); (n1, cols)] in
           if valid_shape_b sh then Ok (CMatrix id rows cols n0 n1) else Err (e_shape sh)
  | VRange v p => obind (v_ctor v) (fun c => ranged_ctor range_clip_from c p)
  | VMask v p => obind (v_ctor v) (fun c => ranged_ctor mask_clip_from c p)
  | VIndex v ps => obind (v_ctor v) (fun c => index_ctor c ps)
  | VExpand v es => obind (v_ctor v) (fun c => expand_ctor c es)
  | VRename v ns => obind (v_ctor v) (fun c => rename_ctor c ns)
  | VReverse v ns => obind (v_ctor v) (fun c => reverse_ctor c ns)
  | VAccess v ns => obind (v_ctor v) (fun c => omap (CAccess c) (access_tbl c ns))
  | VTranspose v ns => obind (v_ctor v) (fun c => omap (CTranspose c) (access_tbl c ns))
  | VStack vs pos n =>
      obind ((fix all (l : list view) : outcome (list cview) :=
                match l with
                | [] => Ok []
                | v0 :: r => obind (v_ctor v0) (fun c0 => omap (cons c0) (all r))
                end) vs)
            (fun cs => stack_ctor cs pos n)
  | VChain vs n =>
      obind ((fix all (l : list view) : outcome (list cview) :=
                match l with
                | [] => Ok []
                | v0 :: r => obind (v_ctor v0) (fun c0 => omap (cons c0) (all r))
                end) vs)
            (fun cs => chain_ctor cs n)
  | VWrap v => omap CWrap (v_ctor v)
  end.

(* ---------- leaves and writes ---------- *)
Fixpoint c_leaves (c : cview) : list (N * N) :=     (* (leaf id, number of elements), in term order *)
  match c with
  | CTensor id sh _ => [(id, elements sh)]
  | CMatrix id rows cols _ _ => [(id, rows * cols)]
  | CRange c _ | CMask c _ | CIndex c _ | CExpand c _ | CRename c _ | CReverse c _
  | CAccess c _ | CTranspose c _ | CWrap c => c_leaves c
  | CStack cs _ _ | CChain cs _ => flat_map c_leaves cs
  end.

(* the value stored at (leaf, offset) before any write *)
Definition leaf_value (e : N * N) : Z := Z.of_N (fst e * 1000 + snd e).

(* all indexes of a shape, last dimension fastest (ShapeIterator order) *)
Fixpoint all_indexes (lens : list N) : list (list N) :=
  match lens with
  | [] => [[]]
  | l :: r => flat_map (fun i => map (cons (N.of_nat i)) (all_indexes r)) (seq 0 (N.to_nat l))
  end.
