(* Trace<T> as an ELEMENT TYPE of the generic routines: the full dictionary of operations of the
   dual numbers over the dictionary of T — the arithmetic of Model/Numeric.v (trace_rr, the
   transcribed `&Trace op &Trace` impls; Sum = the fold of + from zero; PartialEq / PartialOrd
   compare only the number parts) plus the Real functions of
   src/differentiation/trace_operations.rs:467-836 in the association order of the source:
     sin  { n.sin(),  d * n.cos() }          cos { n.cos(), (-d) * n.sin() }
     exp  { n.exp(),  d * n.exp() }          ln  { n.ln(),  d / n }
     sqrt { n.sqrt(), d / ((one + one) * n.sqrt()) }
     pow  { a^b, (a' * b * a^(b - one)) + (b' * a^b * ln a) }       pi = constant(T::pi())
   Running a routine's model (Model/LinAlg.v, Model/Stats.v, Model/Arith.v) at this dictionary IS
   "the documented formula evaluated on the wrapper type", derivative component included.
   (Model/TraceNum.v, used by C07, has the same arithmetic but placeholder Real functions.)
   Executable definitions only. *)
From Coq Require Import List ZArith NArith Bool.
From EasyML Require Import Base.Sx Model.Num Model.Numeric.
Import ListNotations.

Section W.
Context {R : Type} (ops : numops R).
Definition tw_sin (a : trace R) : trace R :=
  mkTrace (nsin ops (tr_number a)) (nmul ops (tr_derivative a) (ncos ops (tr_number a))).
Definition tw_cos (a : trace R) : trace R :=
  mkTrace (ncos ops (tr_number a)) (nmul ops (nneg ops (tr_derivative a)) (nsin ops (tr_number a))).
Definition tw_exp (a : trace R) : trace R :=
  mkTrace (nexp ops (tr_number a)) (nmul ops (tr_derivative a) (nexp ops (tr_number a))).
Definition tw_ln (a : trace R) : trace R :=
  mkTrace (nln ops (tr_number a)) (ndiv ops (tr_derivative a) (tr_number a)).
Definition tw_sqrt (a : trace R) : trace R :=
  mkTrace (nsqrt ops (tr_number a))
          (ndiv ops (tr_derivative a) (nmul ops (nadd ops (none_ ops) (none_ ops)) (nsqrt ops (tr_number a)))).
Definition tw_pow (a b : trace R) : trace R :=
  mkTrace (npow ops (tr_number a) (tr_number b))
          (nadd ops
             (nmul ops (nmul ops (tr_derivative a) (tr_number b))
                       (npow ops (tr_number a) (nsub ops (tr_number b) (none_ ops))))
             (nmul ops (nmul ops (tr_derivative b) (npow ops (tr_number a) (tr_number b)))
                       (nln ops (tr_number a)))).

Definition wrapper_numops : numops (trace R) := {|
  nzero := trace_zero ops; none_ := trace_one ops;
  nadd := trace_rr ops 0; nsub := trace_rr ops 1; nmul := trace_rr ops 2; ndiv := trace_rr ops 3;
  nneg := trace_neg_r ops;
  neqb := fun a b => neqb ops (tr_number a) (tr_number b);
  nltb := fun a b => nltb ops (tr_number a) (tr_number b);
  nleb := fun a b => nleb ops (tr_number a) (tr_number b);
  nsqrt := tw_sqrt; nexp := tw_exp; nln := tw_ln; nsin := tw_sin; ncos := tw_cos;
  npow := tw_pow; npi := trace_constant ops (npi ops);
  nof_N := trace_from_usize ops;
  nenc := fun a => SL [nenc ops (tr_number a); nenc ops (tr_derivative a)];
  ndec := fun s => match s with
                   | SL [n; d] => match ndec ops n, ndec ops d with
                                  | Some x, Some y => Some (mkTrace x y)
                                  | _, _ => None
                                  end
                   | _ => None
                   end
|}.
End W.
