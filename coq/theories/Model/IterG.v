(* Iterators over ANY source (property C09, second extension wave).
   Every tensor and matrix iterator of the crate has the same form: a PLACE iterator that knows
   only the source's size (ShapeIterator for the four tensor iterators, src/tensors/indexing.rs;
   the row/column counters of `row_major_iter` / `column_major_iter` and the `Range<usize>` of the
   column / row / diagonal iterators, src/matrices/iterators.rs) and, per item,
        places.next().map(|place| unsafe { source.get_reference_unchecked(place) })        copy / & / &mut
        places.next().map(|place| mem::replace(source.get_reference_unchecked_mut(place), producer()))   owned
   and they are generic in `S: TensorRef / TensorMut` resp. `S: MatrixRef / MatrixMut`.
   Model/ShapeIter.v and Model/MatrixIter.v instantiate this form for the source TERMS of
   Model/TSource.v / Model/MatrixIter.v; here it is written once against an abstract source
   (`get` = get_reference_unchecked, `set` = a write through get_reference_unchecked_mut) so that
   the same transcription runs over
     - every constructed view of the C02 algebra (Model/Views.v: TensorIndex, TensorExpansion,
       TensorStack, TensorChain, TensorRefMatrix leaves, wrappers, any depth) — `cview_ops`;
     - every matrix view of the C12 algebra (Model/MatrixViews.v: partition parts / quadrants,
       ranges, reversals, tensor round trips, MatrixRefTensor over any tensor view), accessed
       through ITS unchecked getters (Model/MatrixAccess.v) — `mview_ops`.
   Executable definitions only; facts in Proofs/C09GenP.v. *)
From Coq Require Import List ZArith NArith Bool Arith.
From EasyML Require Import Base.Sx Model.Shape Model.Tensor Model.TSource Model.ShapeIter
  Model.MatrixIter Model.MatrixViews Model.MatrixAccess.
From EasyML Require Model.Views.
Import ListNotations.
Open Scope N_scope.

(* ---------- an iterator = a place iterator + a source ---------- *)
Section OverPlaces.
Context {C Pl St A : Type}.
Variable step : C -> option Pl * C.        (* places.next() *)
Variable len : C -> N.                     (* the exact remaining length (size_hint) *)
Variable index_of : C -> Pl.               (* what WithIndex reads BEFORE calling next() *)
Variable get : St -> Pl -> option A.       (* source.get_reference_unchecked(place) *)
Variable set : St -> Pl -> A -> option St. (* *source.get_reference_unchecked_mut(place) = v *)

Record giter : Type := mkGI { gi_places : C; gi_source : St }.

Definition gi_len (it : giter) : N := len (gi_places it).

(* copy / reference / mutable reference: the item is the place handed to the source together with
   the element found there (None would be an out-of-bounds unchecked access) *)
Definition gi_next (it : giter) : option (Pl * option A) * giter :=
  match step (gi_places it) with
  | (Some p, c') => (Some (p, get (gi_source it) p), mkGI c' (gi_source it))
  | (None, c') => (None, mkGI c' (gi_source it))
  end.

(* owned: mem::replace(source.get_reference_unchecked_mut(place), producer()) *)
Definition gi_next_owned (dflt : A) (it : giter) : option (Pl * option A) * giter :=
  match step (gi_places it) with
  | (Some p, c') =>
      let v := get (gi_source it) p in
      let s' := match set (gi_source it) p dflt with Some s' => s' | None => gi_source it end in
      (Some (p, v), mkGI c' s')
  | (None, c') => (None, mkGI c' (gi_source it))
  end.

(* WithIndex<..>::next: let index = <the place iterator's current counters>;
                         self.iterator.next().map(|x| (index, x)) *)
Definition gi_with_index {I} (next : giter -> option I * giter) (it : giter)
  : option (Pl * I) * giter :=
  let index := index_of (gi_places it) in
  match next it with
  | (Some x, it') => (Some (index, x), it')
  | (None, it') => (None, it')
  end.

(* the caller writing through a reference a mutable iterator handed out *)
Definition gi_write (it : giter) (p : Pl) (v : A) : giter :=
  match set (gi_source it) p v with
  | Some s' => mkGI (gi_places it) s'
  | None => it
  end.

End OverPlaces.
Arguments giter : clear implicits.

(* ---------- the place iterators ---------- *)
(* tensors: ShapeIterator (Model/ShapeIter.v: shape_iter, iter_next, iter_len, si_indexes) *)

(* matrices, row-major / column-major: the counters of {Row,Column}Major*Iterator *)
Record mcounters : Type :=
  mkMC { mc_row_major : bool; mc_column_counter : N; mc_columns : N; mc_row_counter : N;
         mc_rows : N; mc_finished : bool }.

(* {Column,Row}Major*Iterator::from: counters 0, rows / columns = the source's view size,
   finished: !source.index_is_valid(0, 0) *)
Definition mc_from (row_major : bool) (rows cols : N) : mcounters :=
  mkMC row_major 0 cols 0 rows (negb ((0 <? rows) && (0 <? cols))).

Definition mc_step (c : mcounters) : option (N * N) * mcounters :=
  let '(p, (fin, rc, cc)) :=
    (if mc_row_major c then row_major_step else column_major_step)
      (mc_finished c) (mc_rows c) (mc_columns c) (mc_row_counter c) (mc_column_counter c) in
  (p, mkMC (mc_row_major c) cc (mc_columns c) rc (mc_rows c) fin).

Definition mc_len (c : mcounters) : N :=
  (if mc_row_major c then row_major_size_hint else column_major_size_hint)
    (mc_rows c) (mc_columns c) (mc_row_counter c) (mc_column_counter c).

Definition mc_index (c : mcounters) : N * N := (mc_row_counter c, mc_column_counter c).

(* matrices, single column / single row / main diagonal: a Range<usize> and the fixed coordinate *)
Record lcounters : Type := mkLC { lc_kind : line_kind; lc_fixed : N; lc_range : N * N }.

Definition lc_place (c : lcounters) (i : N) : N * N :=
  match lc_kind c with
  | LColumn => (i, lc_fixed c)
  | LRow => (lc_fixed c, i)
  | LDiagonal => (i, i)
  end.

Definition lc_step (c : lcounters) : option (N * N) * lcounters :=
  match range_next (lc_range c) with
  | (Some i, rg') => (Some (lc_place c i), mkLC (lc_kind c) (lc_fixed c) rg')
  | (None, rg') => (None, mkLC (lc_kind c) (lc_fixed c) rg')
  end.
Definition lc_len (c : lcounters) : N := range_len (lc_range c).

(* ColumnIterator::from: assert!(source.index_is_valid(0, column)); range 0..view_rows *)
Definition lc_column (rows cols column : N) : outcome lcounters :=
  if (0 <? rows) && (column <? cols) then Ok (mkLC LColumn column (0, rows)) else Panic.
(* RowIterator::from: assert!(source.index_is_valid(row, 0)); range 0..view_columns *)
Definition lc_row (rows cols row : N) : outcome lcounters :=
  if (row <? rows) && (0 <? cols) then Ok (mkLC LRow row (0, cols)) else Panic.
(* DiagonalIterator::from: range 0..min(view_rows, view_columns) *)
Definition lc_diagonal (rows cols : N) : lcounters := mkLC LDiagonal 0 (0, N.min rows cols).

(* ---------- sources ---------- *)
(* the TensorRef / TensorMut face of a source *)
Record tsource (St A : Type) : Type :=
  mkTS { ts_shape : St -> shape;
         ts_get : St -> list N -> option A;
         ts_set : St -> list N -> A -> option St }.
Arguments mkTS {St A}. Arguments ts_shape {St A}. Arguments ts_get {St A}. Arguments ts_set {St A}.

(* the MatrixRef / MatrixMut face of a source *)
Record msource (St A : Type) : Type :=
  mkMS { mo_rows : St -> N;
         mo_cols : St -> N;
         mo_get : St -> N * N -> option A;
         mo_set : St -> N * N -> A -> option St }.
Arguments mkMS {St A}. Arguments mo_rows {St A}. Arguments mo_cols {St A}. Arguments mo_get {St A}. Arguments mo_set {St A}.

Section Iterators.
Context {St A : Type}.

(* Tensor{,Reference,ReferenceMut,Owned}Iterator::from(source):
   shape_iterator = ShapeIterator::from(source.view_shape()) *)
Definition gti_from (o : tsource St A) (s : St) : giter shape_iter St :=
  mkGI (shape_iter_from (ts_shape o s)) s.
Definition gti_len : giter shape_iter St -> N := gi_len iter_len.
Definition gti_next (o : tsource St A) := gi_next iter_next (ts_get o).
Definition gti_next_owned (o : tsource St A) := gi_next_owned iter_next (ts_get o) (ts_set o).
Definition gti_with_index {I} (next : giter shape_iter St -> option I * giter shape_iter St) :=
  gi_with_index si_indexes next.
Definition gti_write (o : tsource St A) := gi_write (C := shape_iter) (ts_set o).

Definition gmi_from (o : msource St A) (row_major : bool) (s : St) : giter mcounters St :=
  mkGI (mc_from row_major (mo_rows o s) (mo_cols o s)) s.
Definition gmi_len : giter mcounters St -> N := gi_len mc_len.
Definition gmi_next (o : msource St A) := gi_next mc_step (mo_get o).
Definition gmi_next_owned (o : msource St A) := gi_next_owned mc_step (mo_get o) (mo_set o).
Definition gmi_with_index {I} (next : giter mcounters St -> option I * giter mcounters St) :=
  gi_with_index mc_index next.
Definition gmi_write (o : msource St A) := gi_write (C := mcounters) (mo_set o).

Definition gli_column (o : msource St A) (s : St) (column : N) : outcome (giter lcounters St) :=
  omap (fun c => mkGI c s) (lc_column (mo_rows o s) (mo_cols o s) column).
Definition gli_row (o : msource St A) (s : St) (row : N) : outcome (giter lcounters St) :=
  omap (fun c => mkGI c s) (lc_row (mo_rows o s) (mo_cols o s) row).
Definition gli_diagonal (o : msource St A) (s : St) : giter lcounters St :=
  mkGI (lc_diagonal (mo_rows o s) (mo_cols o s)) s.
Definition gli_len : giter lcounters St -> N := gi_len lc_len.
Definition gli_next (o : msource St A) := gi_next lc_step (mo_get o).
Definition gli_write (o : msource St A) := gi_write (C := lcounters) (mo_set o).

End Iterators.

(* ---------- instances ---------- *)
(* the source terms of Model/TSource.v and Model/MatrixIter.v *)
Definition tsrc_source {A} : tsource (tsrc A) A := mkTS src_shape src_get src_set.
Definition msrc_source {A} : msource (msrc A) A :=
  mkMS ms_rows ms_cols (fun s p => ms_get s (fst p) (snd p)) (fun s p v => ms_set s (fst p) (snd p) v).

(* a constructed C02 view `c` over leaf storage: the state is the store (leaf id, offset) ->
   element; the view object itself never changes *)
Definition store_set {A} (st : N * N -> option A) (e : N * N) (v : A) : N * N -> option A :=
  fun e' => if (fst e' =? fst e) && (snd e' =? snd e) then Some v else st e'.

Definition cview_source {A} (c : Views.cview) : tsource (N * N -> option A) A :=
  mkTS (fun _ => Views.c_shape c)
       (fun st idx => match Views.c_get c idx with Some e => st e | None => None end)
       (fun st idx v => match Views.c_get c idx with
                        | Some e => Some (store_set st e v)
                        | None => None
                        end).

(* a C12 matrix view `v` over the flat storage of its root: the iterators reach it through the
   UNCHECKED getters (Model/MatrixAccess.v) *)
Definition mview_source {T} (v : mview) : msource (list T) T :=
  mkMS (fun _ => view_rows v) (fun _ => view_cols v)
       (fun data p => match read_unchecked data (get_unchecked v (fst p) (snd p)) with
                      | Ok (Some x) => Some x
                      | _ => None
                      end)
       (fun data p x => let '(data', fine) := write_unchecked data v (fst p) (snd p) x in
                        if fine then Some data' else None).
