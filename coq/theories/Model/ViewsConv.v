(* Tensor view adaptors, part 2 (property C02): the code AROUND the adaptors of Model/Views.v.
   1. The convenience constructors of Tensor and TensorView
        src/tensors/mod.rs    Tensor::{range, range_mut, mask, mask_mut, reverse, reverse_mut,
                              rename_view, transpose_view, index_by, index_by_mut,
                              select, select_mut, expand, expand_mut}
        src/tensors/views.rs  TensorView::{the same, plus the _owned forms}
      each of which is `TensorView::from(Adaptor::from(SOURCE, args))` with SOURCE = self /
      &self.source / &mut self.source / self.source: the adaptor constructor of Model/Views.v over
      the source itself (owned forms) or over a reference wrapper of it (`&S` / `&mut S`, an
      index-transparent `VWrap`).  `TensorView` is not itself a TensorRef; `TensorView::source`
      hands the adaptor back.
   2. data_layout of the adaptors that derive their layout from the source's, as functions of the
      SOURCE's (view_shape, data_layout) alone, so that they also apply to sources outside the view
      algebra (a user-implemented TensorRef, possibly breaking clause 5 of the contract):
        src/tensors/views/renamed.rs   TensorRename::data_layout (panics when a layout name is
                                       not in the view_shape)
        src/tensors/dimensions.rs      map_linear_data_layout_to_transposed (keeps such a name)
        src/tensors/indexing.rs        TensorAccess::from_memory_order (panics unless the layout
                                       names are a permutation of the view_shape's)
   3. src/interop/mod.rs  MatrixRefTensor::data_layout and TensorRefMatrix::data_layout: a
      2-dimensional tensor view used as a matrix, and that matrix used as a tensor again.
   Executable definitions only. *)
From Coq Require Import List ZArith NArith Bool Arith.
From EasyML Require Import Base.Sx Model.Shape Model.Views.
Import ListNotations.
Open Scope N_scope.

(* ---------- 1. convenience constructors ---------- *)
(* how the convenience method reaches its source *)
Inductive conv_form : Type :=
| ByOwned      (* TensorView::xxx_owned(self, ..): Adaptor::from(self.source, ..) *)
| ByMut        (* Tensor / TensorView::xxx_mut(&mut self, ..): Adaptor::from(&mut source, ..) *)
| ByRef.       (* Tensor / TensorView::xxx(&self, ..): Adaptor::from(&source, ..) *)

Definition conv_source (f : conv_form) (src : view) : view :=
  match f with ByOwned => src | ByMut | ByRef => VWrap src end.

(* range / mask take `[(Dimension, R); P]` and call Adaptor::from (named, lenient);
   select / expand exist for exactly one pair; reverse takes `&[Dimension]`;
   rename_view, transpose_view exist by reference only (transpose_view and index_by* call the
   panicking `from`: a rejected name list is a panic there, Err for the `try_from` of Views.v) *)
Definition conv_range (f : conv_form) (src : view) (named : list (name * irange)) : view :=
  VRange (conv_source f src) (PNamed false named).
Definition conv_mask (f : conv_form) (src : view) (named : list (name * irange)) : view :=
  VMask (conv_source f src) (PNamed false named).
Definition conv_select (f : conv_form) (src : view) (p : name * N) : view :=
  VIndex (conv_source f src) [p].
Definition conv_expand (f : conv_form) (src : view) (e : nat * name) : view :=
  VExpand (conv_source f src) [e].
Definition conv_reverse (f : conv_form) (src : view) (ns : list name) : view :=
  VReverse (conv_source f src) ns.
Definition conv_rename_view (src : view) (ns : list name) : view := VRename (VWrap src) ns.
Definition conv_transpose_view (src : view) (ns : list name) : view := VTranspose (VWrap src) ns.
Definition conv_index_by (f : conv_form) (src : view) (ns : list name) : view :=
  VAccess (conv_source f src) ns.

(* ---------- 2. layouts derived from the source's (view_shape, data_layout) ---------- *)

(* TensorRename::data_layout *)
Definition rename_layout (sh : shape) (ns : list name) (lay : layout) : outcome layout :=
  match lay with
  | Linear order =>
      match sequence (map (position_of sh) order) with
      | Some order_d => Ok (Linear (map (fun p => nth p ns 0%nat) order_d))
      | None => Panic
      end
  | other => Ok other
  end.

(* TensorTranspose::data_layout *)
Definition transposed_layout (sh : shape) (tbl : list (nat * nat)) (lay : layout) : layout :=
  match lay with
  | Linear order => Linear (transpose_layout sh tbl order)
  | other => other
  end.

(* TensorAccess::from_memory_order: None unless Linear; TensorAccess::try_from(source, order)
   .unwrap_or_else(panic) *)
Definition memory_order_tbl (sh : shape) (lay : layout) : outcome (option (list (nat * nat))) :=
  match lay with
  | Linear order =>
      if negb (Nat.eqb (length order) (length sh)) then Panic     (* [Dimension; D]: a type error *)
      else match dm_new (names_of sh) order with
           | Some tbl => Ok (Some tbl)
           | None => Panic
           end
  | _ => Ok None
  end.

(* a source outside the view algebra: a user-implemented TensorRef reporting `sh` and `lay`.
   What the adaptors above it report: *)
Definition foreign_rename (sh : shape) (lay : layout) (ns : list name) : outcome layout :=
  (* TensorRename::from(source, ns).data_layout() *)
  if negb (Nat.eqb (length ns) (length sh)) then Panic
  else if has_duplicates ns then Panic
  else rename_layout sh ns lay.
Definition foreign_transpose (sh : shape) (lay : layout) (req : list name) : outcome layout :=
  (* TensorTranspose::try_from(source, req).map(|t| t.data_layout()) *)
  if negb (Nat.eqb (length req) (length sh)) then Panic
  else match dm_new (names_of sh) req with
       | Some tbl => Ok (transposed_layout sh tbl lay)
       | None => Err (e_access sh req)
       end.
Definition foreign_memory_order (sh : shape) (lay : layout) : outcome (option shape) :=
  (* TensorAccess::from_memory_order(source).map(|a| a.shape()) *)
  omap (option_map (fun tbl => map_shape_to_requested tbl sh)) (memory_order_tbl sh lay).

(* ---------- 3. interop: tensor view -> matrix -> tensor ---------- *)
Inductive mlayout : Type := RowMajor | ColumnMajor | MOther.

Definition names_eqb (a b : list name) : bool :=
  Nat.eqb (length a) (length b) && forallb (fun p => Nat.eqb (fst p) (snd p)) (combine a b).

(* MatrixRefTensor::data_layout: compares the source's layout with Linear([rows, columns]) and
   Linear([columns, rows]) of its view_shape names *)
Definition matrix_ref_tensor_layout (sh : shape) (lay : layout) : mlayout :=
  let r := fst (nth 0 sh (0%nat, 0)) in
  let k := fst (nth 1 sh (0%nat, 0)) in
  match lay with
  | Linear order =>
      if names_eqb order [r; k] then RowMajor
      else if names_eqb order [k; r] then ColumnMajor
      else MOther
  | _ => MOther
  end.

(* TensorRefMatrix::data_layout over a matrix reporting `ml`, with names [n0, n1] *)
Definition tensor_ref_matrix_layout (ml : mlayout) (n0 n1 : name) : layout :=
  match ml with
  | RowMajor => Linear [n0; n1]
  | ColumnMajor => Linear [n1; n0]
  | MOther => Other
  end.

(* TensorRefMatrix::with_names(MatrixRefTensor::from(view), [n0, n1]) over a constructed
   2-dimensional view: validation (InvalidShapeError for equal names; lengths are the view's),
   then an index-transparent view named [n0, n1].  The result is what the trip exposes:
   (shape, layout, get). *)
Definition matrix_trip (c : cview) (n0 n1 : name)
  : outcome (shape * layout * (list N -> option (N * N))) :=
  match c_shape c with
  | [(_, rows); (_, cols)] =>
      let sh := [(n0, rows); (n1, cols)] in
      if valid_shape_b sh then
        match c_layout c with
        | Ok lay =>
            Ok (sh, tensor_ref_matrix_layout (matrix_ref_tensor_layout (c_shape c) lay) n0 n1,
                c_get c)
        | Err e => Err e
        | Panic => Panic
        end
      else Err (e_shape sh)
  | _ => Panic       (* S: TensorRef<T, 2> is a type requirement *)
  end.
