(* The operator impls of src/tensors/operations.rs and src/matrices/operations.rs ONE BY ONE:
   every `macro_rules!` that generates an `impl Op<Rhs> for Lhs` is transcribed as one
   definition carrying the macro's name, with the arguments the macro body hands to the shared
   implementation:

     a TensorView operand   self.iter_reference() / self.shape() / self.source_ref()
     a Tensor operand       self.direct_iter_reference() / self.shape() / self (as a TensorRef)
     a MatrixView operand   RowMajorReferenceIterator::from(self.source_ref()) / self.size()
     a Matrix operand       self.direct_row_major_reference_iter() / self.size() / self

   (owned and borrowed receivers run the same body: `self` against `&self`; the macro for each
   ownership combination is transcribed all the same, so that every one of the 16 impls of an
   operator is an entry point of the model that the correspondence can exercise on its own).
   `*_form16` dispatches on the form number of the case language

       form = 8 * lk + 4 * rk + 2 * lb + rb      lk rk : 0 container, 1 view
                                                 lb rb : 0 by value,  1 by reference

   Scalar operators (`tensor_scalar!`, `tensor_view_scalar!`, `matrix_scalar!`,
   `matrix_view_scalar!`: 4 impls each) : form = 4 * k + 2 * lb + sb, sb : 0 `T`, 1 `&T`.
   Neg (matrices only): form = 2 * k + lb.

   Second part: PartialEq of Matrix / MatrixView (src/matrices/mod.rs `impl PartialEq for Matrix`,
   src/matrices/views.rs `matrix_equality` with its column-major fast path) and the
   `data_layout()` answers that select the path.
   Executable definitions only; proofs live in Proofs/C03F.v. *)
From Coq Require Import List ZArith NArith Bool Arith.
From EasyML Require Import Base.Sx Model.Shape Model.Tensor Model.Num Model.Arith.
Import ListNotations.
Open Scope N_scope.

(* ================================================================ tensors *)
Section TensorForms.
Context {R : Type}.

(* an element iterator, collected (None: an unchecked read outside the source) *)
Definition eiter : Type := option (list R).

(* tensor_view_addition_iter / tensor_view_subtraction_iter (f = the element operator):
   assert_same_dimensions(left_shape, right_shape);
   Tensor::from(left_shape, left_iter.zip(right_iter).map(f).collect()) *)
Definition tensor_view_zip_iter (f : R -> R -> R) (left_iter : eiter) (left_shape : shape)
           (right_iter : eiter) (right_shape : shape) : outcome (tensor R) :=
  if shape_eqb left_shape right_shape then
    match left_iter, right_iter with
    | Some lx, Some ly => tensor_from left_shape (map2 f lx ly)
    | _, _ => Panic
    end
  else Panic.

Definition impl_iter : Type := eiter -> shape -> eiter -> shape -> outcome (tensor R).
Definition impl_ref : Type := tview R -> tview R -> outcome (tensor R).

(* ---- TensorView op TensorView ---- *)
Definition tensor_view_reference_tensor_view_reference_operation_iter (impl : impl_iter)
  (self rhs : tview R) := impl (view_elems self) (v_shape self) (view_elems rhs) (v_shape rhs).
Definition tensor_view_reference_tensor_view_value_operation_iter (impl : impl_iter)
  (self rhs : tview R) := impl (view_elems self) (v_shape self) (view_elems rhs) (v_shape rhs).
Definition tensor_view_value_tensor_view_reference_operation_iter (impl : impl_iter)
  (self rhs : tview R) := impl (view_elems self) (v_shape self) (view_elems rhs) (v_shape rhs).
Definition tensor_view_value_tensor_view_value_operation_iter (impl : impl_iter)
  (self rhs : tview R) := impl (view_elems self) (v_shape self) (view_elems rhs) (v_shape rhs).
(* $implementation(self.source_ref(), rhs.source_ref()) *)
Definition tensor_view_reference_tensor_view_reference_operation (impl : impl_ref)
  (self rhs : tview R) := impl self rhs.
Definition tensor_view_reference_tensor_view_value_operation (impl : impl_ref)
  (self rhs : tview R) := impl self rhs.
Definition tensor_view_value_tensor_view_reference_operation (impl : impl_ref)
  (self rhs : tview R) := impl self rhs.
Definition tensor_view_value_tensor_view_value_operation (impl : impl_ref)
  (self rhs : tview R) := impl self rhs.

(* ---- TensorView op Tensor: rhs.direct_iter_reference(), rhs.shape() ---- *)
Definition tensor_view_reference_tensor_reference_operation_iter (impl : impl_iter)
  (self : tview R) (rhs : tensor R) :=
  impl (view_elems self) (v_shape self) (Some (t_data rhs)) (t_shape rhs).
Definition tensor_view_reference_tensor_value_operation_iter (impl : impl_iter)
  (self : tview R) (rhs : tensor R) :=
  impl (view_elems self) (v_shape self) (Some (t_data rhs)) (t_shape rhs).
Definition tensor_view_value_tensor_reference_operation_iter (impl : impl_iter)
  (self : tview R) (rhs : tensor R) :=
  impl (view_elems self) (v_shape self) (Some (t_data rhs)) (t_shape rhs).
Definition tensor_view_value_tensor_value_operation_iter (impl : impl_iter)
  (self : tview R) (rhs : tensor R) :=
  impl (view_elems self) (v_shape self) (Some (t_data rhs)) (t_shape rhs).
(* $implementation(self.source_ref(), rhs) *)
Definition tensor_view_reference_tensor_reference_operation (impl : impl_ref)
  (self : tview R) (rhs : tensor R) := impl self (view_of_tensor rhs).
Definition tensor_view_reference_tensor_value_operation (impl : impl_ref)
  (self : tview R) (rhs : tensor R) := impl self (view_of_tensor rhs).
Definition tensor_view_value_tensor_reference_operation (impl : impl_ref)
  (self : tview R) (rhs : tensor R) := impl self (view_of_tensor rhs).
Definition tensor_view_value_tensor_value_operation (impl : impl_ref)
  (self : tview R) (rhs : tensor R) := impl self (view_of_tensor rhs).

(* ---- Tensor op TensorView: self.direct_iter_reference(), self.shape() ---- *)
Definition tensor_reference_tensor_view_reference_operation_iter (impl : impl_iter)
  (self : tensor R) (rhs : tview R) :=
  impl (Some (t_data self)) (t_shape self) (view_elems rhs) (v_shape rhs).
Definition tensor_reference_tensor_view_value_operation_iter (impl : impl_iter)
  (self : tensor R) (rhs : tview R) :=
  impl (Some (t_data self)) (t_shape self) (view_elems rhs) (v_shape rhs).
Definition tensor_value_tensor_view_reference_operation_iter (impl : impl_iter)
  (self : tensor R) (rhs : tview R) :=
  impl (Some (t_data self)) (t_shape self) (view_elems rhs) (v_shape rhs).
Definition tensor_value_tensor_view_value_operation_iter (impl : impl_iter)
  (self : tensor R) (rhs : tview R) :=
  impl (Some (t_data self)) (t_shape self) (view_elems rhs) (v_shape rhs).
(* $implementation(self, rhs.source_ref()) *)
Definition tensor_reference_tensor_view_reference_operation (impl : impl_ref)
  (self : tensor R) (rhs : tview R) := impl (view_of_tensor self) rhs.
Definition tensor_reference_tensor_view_value_operation (impl : impl_ref)
  (self : tensor R) (rhs : tview R) := impl (view_of_tensor self) rhs.
Definition tensor_value_tensor_view_reference_operation (impl : impl_ref)
  (self : tensor R) (rhs : tview R) := impl (view_of_tensor self) rhs.
Definition tensor_value_tensor_view_value_operation (impl : impl_ref)
  (self : tensor R) (rhs : tview R) := impl (view_of_tensor self) rhs.

(* ---- Tensor op Tensor ---- *)
Definition tensor_reference_tensor_reference_operation_iter (impl : impl_iter)
  (self rhs : tensor R) :=
  impl (Some (t_data self)) (t_shape self) (Some (t_data rhs)) (t_shape rhs).
Definition tensor_reference_tensor_value_operation_iter (impl : impl_iter)
  (self rhs : tensor R) :=
  impl (Some (t_data self)) (t_shape self) (Some (t_data rhs)) (t_shape rhs).
Definition tensor_value_tensor_reference_operation_iter (impl : impl_iter)
  (self rhs : tensor R) :=
  impl (Some (t_data self)) (t_shape self) (Some (t_data rhs)) (t_shape rhs).
Definition tensor_value_tensor_value_operation_iter (impl : impl_iter)
  (self rhs : tensor R) :=
  impl (Some (t_data self)) (t_shape self) (Some (t_data rhs)) (t_shape rhs).
(* $implementation(self, rhs) *)
Definition tensor_reference_tensor_reference_operation (impl : impl_ref)
  (self rhs : tensor R) := impl (view_of_tensor self) (view_of_tensor rhs).
Definition tensor_reference_tensor_value_operation (impl : impl_ref)
  (self rhs : tensor R) := impl (view_of_tensor self) (view_of_tensor rhs).
Definition tensor_value_tensor_reference_operation (impl : impl_ref)
  (self rhs : tensor R) := impl (view_of_tensor self) (view_of_tensor rhs).
Definition tensor_value_tensor_value_operation (impl : impl_ref)
  (self rhs : tensor R) := impl (view_of_tensor self) (view_of_tensor rhs).

(* an operand of a case: the container and the view holding the same elements *)
Definition tpair : Type := (tensor R * tview R)%type.

(* the 16 impls of Add / Sub *)
Definition t_form16_iter (impl : impl_iter) (form : N) (x y : tpair) : outcome (tensor R) :=
  match form with
  | 0 => tensor_value_tensor_value_operation_iter impl (fst x) (fst y)
  | 1 => tensor_value_tensor_reference_operation_iter impl (fst x) (fst y)
  | 2 => tensor_reference_tensor_value_operation_iter impl (fst x) (fst y)
  | 3 => tensor_reference_tensor_reference_operation_iter impl (fst x) (fst y)
  | 4 => tensor_value_tensor_view_value_operation_iter impl (fst x) (snd y)
  | 5 => tensor_value_tensor_view_reference_operation_iter impl (fst x) (snd y)
  | 6 => tensor_reference_tensor_view_value_operation_iter impl (fst x) (snd y)
  | 7 => tensor_reference_tensor_view_reference_operation_iter impl (fst x) (snd y)
  | 8 => tensor_view_value_tensor_value_operation_iter impl (snd x) (fst y)
  | 9 => tensor_view_value_tensor_reference_operation_iter impl (snd x) (fst y)
  | 10 => tensor_view_reference_tensor_value_operation_iter impl (snd x) (fst y)
  | 11 => tensor_view_reference_tensor_reference_operation_iter impl (snd x) (fst y)
  | 12 => tensor_view_value_tensor_view_value_operation_iter impl (snd x) (snd y)
  | 13 => tensor_view_value_tensor_view_reference_operation_iter impl (snd x) (snd y)
  | 14 => tensor_view_reference_tensor_view_value_operation_iter impl (snd x) (snd y)
  | 15 => tensor_view_reference_tensor_view_reference_operation_iter impl (snd x) (snd y)
  | _ => Panic
  end.

(* the 16 impls of Mul (2 dimensions) *)
Definition t_form16_ref (impl : impl_ref) (form : N) (x y : tpair) : outcome (tensor R) :=
  match form with
  | 0 => tensor_value_tensor_value_operation impl (fst x) (fst y)
  | 1 => tensor_value_tensor_reference_operation impl (fst x) (fst y)
  | 2 => tensor_reference_tensor_value_operation impl (fst x) (fst y)
  | 3 => tensor_reference_tensor_reference_operation impl (fst x) (fst y)
  | 4 => tensor_value_tensor_view_value_operation impl (fst x) (snd y)
  | 5 => tensor_value_tensor_view_reference_operation impl (fst x) (snd y)
  | 6 => tensor_reference_tensor_view_value_operation impl (fst x) (snd y)
  | 7 => tensor_reference_tensor_view_reference_operation impl (fst x) (snd y)
  | 8 => tensor_view_value_tensor_value_operation impl (snd x) (fst y)
  | 9 => tensor_view_value_tensor_reference_operation impl (snd x) (fst y)
  | 10 => tensor_view_reference_tensor_value_operation impl (snd x) (fst y)
  | 11 => tensor_view_reference_tensor_reference_operation impl (snd x) (fst y)
  | 12 => tensor_view_value_tensor_view_value_operation impl (snd x) (snd y)
  | 13 => tensor_view_value_tensor_view_reference_operation impl (snd x) (snd y)
  | 14 => tensor_view_reference_tensor_view_value_operation impl (snd x) (snd y)
  | 15 => tensor_view_reference_tensor_view_reference_operation impl (snd x) (snd y)
  | _ => Panic
  end.

(* which container / view combination a form number denotes *)
Definition form_left (form : N) (x : tpair) : operand R :=
  if form <? 8 then OT (fst x) else OV (snd x).
Definition form_right (form : N) (y : tpair) : operand R :=
  if (form mod 8) <? 4 then OT (fst y) else OV (snd y).
End TensorForms.
Arguments tpair R : clear implicits.

Section TensorOperators.
Context {R : Type} (ops : numops R).

Definition tensor_view_addition_iter := tensor_view_zip_iter (nadd ops).
Definition tensor_view_subtraction_iter := tensor_view_zip_iter (nsub ops).
(* tensor_view_matrix_product(left, right) over two TensorRef sources *)
Definition tensor_view_matrix_product (left right : tview R) : outcome (tensor R) :=
  t_matmul ops (OV left) (OV right).

Definition t_add16 := t_form16_iter tensor_view_addition_iter.
Definition t_sub16 := t_form16_iter tensor_view_subtraction_iter.
Definition t_mul16 := t_form16_ref tensor_view_matrix_product.

(* tensor_scalar! : 4 impls, all `self.map(|x| x.op(rhs.clone()))` with Tensor::map;
   tensor_view_scalar! : 4 impls with TensorView::map.  k: 0 + 1 - 2 * 3 / *)
Definition tensor_scalar_ref_ref (k : Z) (self : tensor R) (rhs : R) :=
  t_map (fun x => scalar_fn ops k x rhs) (OT self).
Definition tensor_scalar_value_ref (k : Z) (self : tensor R) (rhs : R) :=
  t_map (fun x => scalar_fn ops k x rhs) (OT self).
Definition tensor_scalar_ref_value (k : Z) (self : tensor R) (rhs : R) :=
  t_map (fun x => scalar_fn ops k x rhs) (OT self).
Definition tensor_scalar_value_value (k : Z) (self : tensor R) (rhs : R) :=
  t_map (fun x => scalar_fn ops k x rhs) (OT self).
Definition tensor_view_scalar_ref_ref (k : Z) (self : tview R) (rhs : R) :=
  t_map (fun x => scalar_fn ops k x rhs) (OV self).
Definition tensor_view_scalar_value_ref (k : Z) (self : tview R) (rhs : R) :=
  t_map (fun x => scalar_fn ops k x rhs) (OV self).
Definition tensor_view_scalar_ref_value (k : Z) (self : tview R) (rhs : R) :=
  t_map (fun x => scalar_fn ops k x rhs) (OV self).
Definition tensor_view_scalar_value_value (k : Z) (self : tview R) (rhs : R) :=
  t_map (fun x => scalar_fn ops k x rhs) (OV self).

Definition t_scalar8 (k : Z) (form : N) (x : tpair R) (s : R) : outcome (tensor R) :=
  match form with
  | 0 => tensor_scalar_value_value k (fst x) s
  | 1 => tensor_scalar_value_ref k (fst x) s
  | 2 => tensor_scalar_ref_value k (fst x) s
  | 3 => tensor_scalar_ref_ref k (fst x) s
  | 4 => tensor_view_scalar_value_value k (snd x) s
  | 5 => tensor_view_scalar_value_ref k (snd x) s
  | 6 => tensor_view_scalar_ref_value k (snd x) s
  | 7 => tensor_view_scalar_ref_ref k (snd x) s
  | _ => Panic
  end.
End TensorOperators.

(* ================================================================ matrices *)
Section MatrixForms.
Context {R : Type}.

(* matrix_view_addition_iter / matrix_view_subtraction_iter: assert!(left_size == right_size);
   Matrix::from_flat_row_major(left_size, left_iter.zip(right_iter).map(f).collect()) *)
Definition matrix_view_zip_iter (f : R -> R -> R) (left_iter : @eiter R) (left_size : N * N)
           (right_iter : @eiter R) (right_size : N * N) : outcome (matrix R) :=
  let '(lr, lc) := left_size in let '(rr, rc) := right_size in
  if (lr =? rr) && (lc =? rc) then
    match left_iter, right_iter with
    | Some lx, Some ly => from_flat_row_major lr lc (map2 f lx ly)
    | _, _ => Panic
    end
  else Panic.

Definition mimpl_iter : Type := @eiter R -> N * N -> @eiter R -> N * N -> outcome (matrix R).
Definition mimpl_ref : Type := mview R -> mview R -> outcome (matrix R).

Definition mv_size (v : mview R) : N * N := (mv_rows v, mv_cols v).
Definition m_size (m : matrix R) : N * N := (m_rows m, m_cols m).

(* ---- MatrixView op MatrixView:
        RowMajorReferenceIterator::from(self.source_ref()), self.size(), ... ---- *)
Definition matrix_view_reference_matrix_view_reference_operation_iter (impl : mimpl_iter)
  (self rhs : mview R) := impl (mv_row_major self) (mv_size self) (mv_row_major rhs) (mv_size rhs).
Definition matrix_view_reference_matrix_view_value_operation_iter (impl : mimpl_iter)
  (self rhs : mview R) := impl (mv_row_major self) (mv_size self) (mv_row_major rhs) (mv_size rhs).
Definition matrix_view_value_matrix_view_reference_operation_iter (impl : mimpl_iter)
  (self rhs : mview R) := impl (mv_row_major self) (mv_size self) (mv_row_major rhs) (mv_size rhs).
Definition matrix_view_value_matrix_view_value_operation_iter (impl : mimpl_iter)
  (self rhs : mview R) := impl (mv_row_major self) (mv_size self) (mv_row_major rhs) (mv_size rhs).
Definition matrix_view_reference_matrix_view_reference_operation (impl : mimpl_ref)
  (self rhs : mview R) := impl self rhs.
Definition matrix_view_reference_matrix_view_value_operation (impl : mimpl_ref)
  (self rhs : mview R) := impl self rhs.
Definition matrix_view_value_matrix_view_reference_operation (impl : mimpl_ref)
  (self rhs : mview R) := impl self rhs.
Definition matrix_view_value_matrix_view_value_operation (impl : mimpl_ref)
  (self rhs : mview R) := impl self rhs.

(* ---- MatrixView op Matrix: rhs.direct_row_major_reference_iter(), rhs.size() ---- *)
Definition matrix_view_reference_matrix_reference_operation_iter (impl : mimpl_iter)
  (self : mview R) (rhs : matrix R) :=
  impl (mv_row_major self) (mv_size self) (Some (m_data rhs)) (m_size rhs).
Definition matrix_view_reference_matrix_value_operation_iter (impl : mimpl_iter)
  (self : mview R) (rhs : matrix R) :=
  impl (mv_row_major self) (mv_size self) (Some (m_data rhs)) (m_size rhs).
Definition matrix_view_value_matrix_reference_operation_iter (impl : mimpl_iter)
  (self : mview R) (rhs : matrix R) :=
  impl (mv_row_major self) (mv_size self) (Some (m_data rhs)) (m_size rhs).
Definition matrix_view_value_matrix_value_operation_iter (impl : mimpl_iter)
  (self : mview R) (rhs : matrix R) :=
  impl (mv_row_major self) (mv_size self) (Some (m_data rhs)) (m_size rhs).
Definition matrix_view_reference_matrix_reference_operation (impl : mimpl_ref)
  (self : mview R) (rhs : matrix R) := impl self (mview_of_matrix rhs).
Definition matrix_view_reference_matrix_value_operation (impl : mimpl_ref)
  (self : mview R) (rhs : matrix R) := impl self (mview_of_matrix rhs).
Definition matrix_view_value_matrix_reference_operation (impl : mimpl_ref)
  (self : mview R) (rhs : matrix R) := impl self (mview_of_matrix rhs).
Definition matrix_view_value_matrix_value_operation (impl : mimpl_ref)
  (self : mview R) (rhs : matrix R) := impl self (mview_of_matrix rhs).

(* ---- Matrix op MatrixView ---- *)
Definition matrix_reference_matrix_view_reference_operation_iter (impl : mimpl_iter)
  (self : matrix R) (rhs : mview R) :=
  impl (Some (m_data self)) (m_size self) (mv_row_major rhs) (mv_size rhs).
Definition matrix_reference_matrix_view_value_operation_iter (impl : mimpl_iter)
  (self : matrix R) (rhs : mview R) :=
  impl (Some (m_data self)) (m_size self) (mv_row_major rhs) (mv_size rhs).
Definition matrix_value_matrix_view_reference_operation_iter (impl : mimpl_iter)
  (self : matrix R) (rhs : mview R) :=
  impl (Some (m_data self)) (m_size self) (mv_row_major rhs) (mv_size rhs).
Definition matrix_value_matrix_view_value_operation_iter (impl : mimpl_iter)
  (self : matrix R) (rhs : mview R) :=
  impl (Some (m_data self)) (m_size self) (mv_row_major rhs) (mv_size rhs).
Definition matrix_reference_matrix_view_reference_operation (impl : mimpl_ref)
  (self : matrix R) (rhs : mview R) := impl (mview_of_matrix self) rhs.
Definition matrix_reference_matrix_view_value_operation (impl : mimpl_ref)
  (self : matrix R) (rhs : mview R) := impl (mview_of_matrix self) rhs.
Definition matrix_value_matrix_view_reference_operation (impl : mimpl_ref)
  (self : matrix R) (rhs : mview R) := impl (mview_of_matrix self) rhs.
Definition matrix_value_matrix_view_value_operation (impl : mimpl_ref)
  (self : matrix R) (rhs : mview R) := impl (mview_of_matrix self) rhs.

(* ---- Matrix op Matrix ---- *)
Definition matrix_reference_matrix_reference_operation_iter (impl : mimpl_iter)
  (self rhs : matrix R) := impl (Some (m_data self)) (m_size self) (Some (m_data rhs)) (m_size rhs).
Definition matrix_reference_matrix_value_operation_iter (impl : mimpl_iter)
  (self rhs : matrix R) := impl (Some (m_data self)) (m_size self) (Some (m_data rhs)) (m_size rhs).
Definition matrix_value_matrix_reference_operation_iter (impl : mimpl_iter)
  (self rhs : matrix R) := impl (Some (m_data self)) (m_size self) (Some (m_data rhs)) (m_size rhs).
Definition matrix_value_matrix_value_operation_iter (impl : mimpl_iter)
  (self rhs : matrix R) := impl (Some (m_data self)) (m_size self) (Some (m_data rhs)) (m_size rhs).
Definition matrix_reference_matrix_reference_operation (impl : mimpl_ref)
  (self rhs : matrix R) := impl (mview_of_matrix self) (mview_of_matrix rhs).
Definition matrix_reference_matrix_value_operation (impl : mimpl_ref)
  (self rhs : matrix R) := impl (mview_of_matrix self) (mview_of_matrix rhs).
Definition matrix_value_matrix_reference_operation (impl : mimpl_ref)
  (self rhs : matrix R) := impl (mview_of_matrix self) (mview_of_matrix rhs).
Definition matrix_value_matrix_value_operation (impl : mimpl_ref)
  (self rhs : matrix R) := impl (mview_of_matrix self) (mview_of_matrix rhs).

Definition mpair : Type := (matrix R * mview R)%type.

Definition m_form16_iter (impl : mimpl_iter) (form : N) (x y : mpair) : outcome (matrix R) :=
  match form with
  | 0 => matrix_value_matrix_value_operation_iter impl (fst x) (fst y)
  | 1 => matrix_value_matrix_reference_operation_iter impl (fst x) (fst y)
  | 2 => matrix_reference_matrix_value_operation_iter impl (fst x) (fst y)
  | 3 => matrix_reference_matrix_reference_operation_iter impl (fst x) (fst y)
  | 4 => matrix_value_matrix_view_value_operation_iter impl (fst x) (snd y)
  | 5 => matrix_value_matrix_view_reference_operation_iter impl (fst x) (snd y)
  | 6 => matrix_reference_matrix_view_value_operation_iter impl (fst x) (snd y)
  | 7 => matrix_reference_matrix_view_reference_operation_iter impl (fst x) (snd y)
  | 8 => matrix_view_value_matrix_value_operation_iter impl (snd x) (fst y)
  | 9 => matrix_view_value_matrix_reference_operation_iter impl (snd x) (fst y)
  | 10 => matrix_view_reference_matrix_value_operation_iter impl (snd x) (fst y)
  | 11 => matrix_view_reference_matrix_reference_operation_iter impl (snd x) (fst y)
  | 12 => matrix_view_value_matrix_view_value_operation_iter impl (snd x) (snd y)
  | 13 => matrix_view_value_matrix_view_reference_operation_iter impl (snd x) (snd y)
  | 14 => matrix_view_reference_matrix_view_value_operation_iter impl (snd x) (snd y)
  | 15 => matrix_view_reference_matrix_view_reference_operation_iter impl (snd x) (snd y)
  | _ => Panic
  end.

Definition m_form16_ref (impl : mimpl_ref) (form : N) (x y : mpair) : outcome (matrix R) :=
  match form with
  | 0 => matrix_value_matrix_value_operation impl (fst x) (fst y)
  | 1 => matrix_value_matrix_reference_operation impl (fst x) (fst y)
  | 2 => matrix_reference_matrix_value_operation impl (fst x) (fst y)
  | 3 => matrix_reference_matrix_reference_operation impl (fst x) (fst y)
  | 4 => matrix_value_matrix_view_value_operation impl (fst x) (snd y)
  | 5 => matrix_value_matrix_view_reference_operation impl (fst x) (snd y)
  | 6 => matrix_reference_matrix_view_value_operation impl (fst x) (snd y)
  | 7 => matrix_reference_matrix_view_reference_operation impl (fst x) (snd y)
  | 8 => matrix_view_value_matrix_value_operation impl (snd x) (fst y)
  | 9 => matrix_view_value_matrix_reference_operation impl (snd x) (fst y)
  | 10 => matrix_view_reference_matrix_value_operation impl (snd x) (fst y)
  | 11 => matrix_view_reference_matrix_reference_operation impl (snd x) (fst y)
  | 12 => matrix_view_value_matrix_view_value_operation impl (snd x) (snd y)
  | 13 => matrix_view_value_matrix_view_reference_operation impl (snd x) (snd y)
  | 14 => matrix_view_reference_matrix_view_value_operation impl (snd x) (snd y)
  | 15 => matrix_view_reference_matrix_view_reference_operation impl (snd x) (snd y)
  | _ => Panic
  end.

Definition mform_left (form : N) (x : mpair) : moperand R :=
  if form <? 8 then OM (fst x) else OMV (snd x).
Definition mform_right (form : N) (y : mpair) : moperand R :=
  if (form mod 8) <? 4 then OM (fst y) else OMV (snd y).
End MatrixForms.
Arguments mpair R : clear implicits.

Section MatrixOperators.
Context {R : Type} (ops : numops R).

Definition matrix_view_addition_iter := matrix_view_zip_iter (nadd ops).
Definition matrix_view_subtraction_iter := matrix_view_zip_iter (nsub ops).
(* matrix_view_multiplication(left, right) over two MatrixRef sources *)
Definition matrix_view_multiplication (left right : mview R) : outcome (matrix R) :=
  m_matmul ops (OMV left) (OMV right).

Definition m_add16 := m_form16_iter matrix_view_addition_iter.
Definition m_sub16 := m_form16_iter matrix_view_subtraction_iter.
Definition m_mul16 := m_form16_ref matrix_view_multiplication.

(* matrix_scalar! / matrix_view_scalar!: self.map(|x| x.op(rhs.clone())) *)
Definition matrix_scalar_ref_ref (k : Z) (self : matrix R) (rhs : R) :=
  m_map (fun x => scalar_fn ops k x rhs) (OM self).
Definition matrix_scalar_value_ref (k : Z) (self : matrix R) (rhs : R) :=
  m_map (fun x => scalar_fn ops k x rhs) (OM self).
Definition matrix_scalar_ref_value (k : Z) (self : matrix R) (rhs : R) :=
  m_map (fun x => scalar_fn ops k x rhs) (OM self).
Definition matrix_scalar_value_value (k : Z) (self : matrix R) (rhs : R) :=
  m_map (fun x => scalar_fn ops k x rhs) (OM self).
Definition matrix_view_scalar_ref_ref (k : Z) (self : mview R) (rhs : R) :=
  m_map (fun x => scalar_fn ops k x rhs) (OMV self).
Definition matrix_view_scalar_value_ref (k : Z) (self : mview R) (rhs : R) :=
  m_map (fun x => scalar_fn ops k x rhs) (OMV self).
Definition matrix_view_scalar_ref_value (k : Z) (self : mview R) (rhs : R) :=
  m_map (fun x => scalar_fn ops k x rhs) (OMV self).
Definition matrix_view_scalar_value_value (k : Z) (self : mview R) (rhs : R) :=
  m_map (fun x => scalar_fn ops k x rhs) (OMV self).

Definition m_scalar8 (k : Z) (form : N) (x : mpair R) (s : R) : outcome (matrix R) :=
  match form with
  | 0 => matrix_scalar_value_value k (fst x) s
  | 1 => matrix_scalar_value_ref k (fst x) s
  | 2 => matrix_scalar_ref_value k (fst x) s
  | 3 => matrix_scalar_ref_ref k (fst x) s
  | 4 => matrix_view_scalar_value_value k (snd x) s
  | 5 => matrix_view_scalar_value_ref k (snd x) s
  | 6 => matrix_view_scalar_ref_value k (snd x) s
  | 7 => matrix_view_scalar_ref_ref k (snd x) s
  | _ => Panic
  end.

(* impl Neg for Matrix / &Matrix / MatrixView / &MatrixView: self.map(|v| -v) *)
Definition neg_matrix_value (self : matrix R) := m_map (nneg ops) (OM self).
Definition neg_matrix_ref (self : matrix R) := m_map (nneg ops) (OM self).
Definition neg_matrix_view_value (self : mview R) := m_map (nneg ops) (OMV self).
Definition neg_matrix_view_ref (self : mview R) := m_map (nneg ops) (OMV self).
Definition m_neg4 (form : N) (x : mpair R) : outcome (matrix R) :=
  match form with
  | 0 => neg_matrix_value (fst x)
  | 1 => neg_matrix_ref (fst x)
  | 2 => neg_matrix_view_value (snd x)
  | 3 => neg_matrix_view_ref (snd x)
  | _ => Panic
  end.
End MatrixOperators.

(* ================================================================ equality *)
Section Equality.
Context {A : Type} (eqb : A -> A -> bool).

(* enum DataLayout { RowMajor, ColumnMajor, Other } (src/matrices/views.rs) *)
Inductive mlayout : Type := RowMajor | ColumnMajor | OtherLayout.

(* MatrixRef::data_layout() of the sources the checks build:
   Matrix: RowMajor;  MatrixRange: the source's;  MatrixReverse: Other;
   MatrixRefTensor(TensorAccess(TensorRefMatrix(source), ["column", "row"])):
     TensorRefMatrix maps RowMajor -> Linear([row, column]), ColumnMajor -> Linear([column, row]),
     Other -> Other; TensorAccess keeps the layout; MatrixRefTensor, whose view shape is now
     [("column", _), ("row", _)], answers RowMajor for Linear([column, row]), ColumnMajor for
     Linear([row, column]) and Other otherwise *)
Definition layout_of_matrix : mlayout := RowMajor.
Definition layout_range (source : mlayout) : mlayout := source.
Definition layout_reverse (source : mlayout) : mlayout := OtherLayout.
Definition layout_transpose (source : mlayout) : mlayout :=
  match source with
  | RowMajor => ColumnMajor
  | ColumnMajor => RowMajor
  | OtherLayout => OtherLayout
  end.

(* ColumnMajorReferenceIterator collected *)
Definition mv_column_major (v : mview A) : option (list A) :=
  sequence (flat_map (fun j => map (fun i => mv_get v i j) (nrange (mv_rows v)))
                     (nrange (mv_cols v))).

(* left.zip(right).all(|(x, y)| x == y) *)
Definition zip_all (l r : list A) : bool :=
  forallb (fun xy => eqb (fst xy) (snd xy)) (combine l r).

(* matrix_equality(left, right): sizes first, then the elementwise comparison in column-major
   order when both sides say ColumnMajor and in row-major order otherwise *)
Definition matrix_equality (left : mview A) (ll : mlayout) (right : mview A) (rl : mlayout)
  : outcome bool :=
  if negb (mv_rows left =? mv_rows right) then Ok false
  else if negb (mv_cols left =? mv_cols right) then Ok false
  else match ll, rl with
       | ColumnMajor, ColumnMajor =>
           match mv_column_major left, mv_column_major right with
           | Some a, Some b => Ok (zip_all a b)
           | _, _ => Panic
           end
       | _, _ =>
           match mv_row_major left, mv_row_major right with
           | Some a, Some b => Ok (zip_all a b)
           | _, _ => Panic
           end
       end.

(* impl PartialEq for Matrix: rows, columns, then self.data.iter().zip(other.data.iter()).all *)
Definition matrix_eq (a b : matrix A) : outcome bool :=
  if negb (m_rows a =? m_rows b) then Ok false
  else if negb (m_cols a =? m_cols b) then Ok false
  else Ok (zip_all (m_data a) (m_data b)).

(* a matrix operand of an equality case: the container, the view and the view's layout *)
Definition epair : Type := (matrix A * mview A * mlayout)%type.

(* the four PartialEq impls: Matrix == Matrix, Matrix == MatrixView, MatrixView == Matrix,
   MatrixView == MatrixView *)
Definition m_eq4 (form : N) (x y : epair) : outcome bool :=
  let '(mx, vx, lx) := x in let '(my, vy, ly) := y in
  match form with
  | 0 => matrix_eq mx my
  | 1 => matrix_equality (mview_of_matrix mx) layout_of_matrix vy ly
  | 2 => matrix_equality vx lx (mview_of_matrix my) layout_of_matrix
  | 3 => matrix_equality vx lx vy ly
  | _ => Panic
  end.

(* TensorRefMatrix::with_names(source, [n0, n1]): the matrix source seen through the tensor API *)
Definition tensor_ref_matrix (v : mview A) (n0 n1 : name) : tview A :=
  mkView [(n0, mv_rows v); (n1, mv_cols v)]
         (fun idx => match idx with [i; j] => mv_get v i j | _ => None end).

(* tensor_equality (src/tensors/operations.rs): left.view_shape() == right.view_shape() &&
   iter(left).zip(iter(right)).all(==) *)
Definition tensor_equality2 (l r : tview A) : outcome bool :=
  if shape_eqb (v_shape l) (v_shape r) then
    match view_elems l, view_elems r with
    | Some a, Some b => Ok (zip_all a b)
    | _, _ => Panic
    end
  else Ok false.
End Equality.
