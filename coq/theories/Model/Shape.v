(* Shared index algebra: transcription of src/tensors/dimensions.rs and the private helpers of
   src/tensors/mod.rs (compute_strides, get_index_direct, InvalidShapeError::validate_dimensions).
   Executable definitions only; proofs live in Proofs/ShapeP.v. *)
From Coq Require Import List ZArith NArith Bool Arith.
From EasyML Require Import Base.Sx.
Import ListNotations.
Open Scope N_scope.

Notation name := nat (only parsing).   (* dimension names: the harness maps n to "d<n>" *)
Definition shape := list (name * N).

Definition names_of (sh : shape) : list name := map fst sh.
Definition lens_of (sh : shape) : list N := map snd sh.

Definition prod (l : list N) : N := fold_right N.mul 1 l.

(* dimensions::elements — product of the lengths (ideal arithmetic) *)
Definition elements (sh : shape) : N := prod (lens_of sh).

(* The overflow-checked element count used by the validating constructors (fix F7):
   shape.iter().try_fold(1usize, |acc, d| acc.checked_mul(d.1)) *)
Fixpoint checked_prod_from (acc : N) (l : list N) : option N :=
  match l with
  | [] => Some acc
  | x :: r => if acc * x <=? usize_max then checked_prod_from (acc * x) r else None
  end.
Definition checked_elements (sh : shape) : option N := checked_prod_from 1 (lens_of sh).

(* dimensions::has_duplicates: for i in 1..len { name = shape[i-1]; shape[i..].any(== name) } *)
Fixpoint has_duplicates (l : list name) : bool :=
  match l with
  | [] => false
  | x :: r => existsb (Nat.eqb x) r || has_duplicates r
  end.

Definition has_zero (sh : shape) : bool := existsb (fun d => snd d =? 0) sh.

(* InvalidShapeError::is_valid *)
Definition valid_shape_b (sh : shape) : bool :=
  negb (has_duplicates (names_of sh)) && negb (has_zero sh).

(* InvalidShapeError::validate_dimensions(shape, data_len) *)
Definition validate_dimensions (sh : shape) (data_len : N) : bool :=
  match checked_elements sh with
  | Some e => (data_len =? e) && negb (has_duplicates (names_of sh)) && negb (has_zero sh)
  | None => false
  end.

(* compute_strides: from_fn(|d| shape.iter().skip(d + 1).map(|d| d.1).product()) *)
Definition compute_strides (sh : shape) : list N :=
  map (fun d => prod (skipn (S d) (lens_of sh))) (seq 0 (length sh)).

(* get_index_direct: for d in 0..D { n = indexes[d]; if n >= shape[d].1 { return None };
   index += n * strides[d] } *)
Fixpoint gid (idx st lens : list N) (acc : N) : option N :=
  match idx, st, lens with
  | [], [], [] => Some acc
  | i :: idx', s :: st', l :: lens' => if l <=? i then None else gid idx' st' lens' (acc + i * s)
  | _, _, _ => None
  end.
Definition get_index_direct (idx st : list N) (sh : shape) : option N := gid idx st (lens_of sh) 0.

(* dimensions::position_of / length_of / contains *)
Fixpoint index_of (n : name) (l : list name) : option nat :=
  match l with
  | [] => None
  | x :: r => if Nat.eqb x n then Some 0%nat else option_map S (index_of n r)
  end.
Definition position_of (sh : shape) (n : name) : option nat := index_of n (names_of sh).
Definition length_of (sh : shape) (n : name) : option N :=
  option_map snd (find (fun d => Nat.eqb (fst d) n) sh).
Definition contains (sh : shape) (n : name) : bool := existsb (fun d => Nat.eqb (fst d) n) sh.

(* ---- DimensionMappings ---- *)
(* one iteration of the loop of DimensionMappings::new for position d *)
Definition dm_step (src req : list name) (d : nat) : option (nat * nat) :=
  let dimension := nth d src 0%nat in
  if Nat.eqb (nth d req 0%nat) dimension then Some (d, d)
  else match index_of dimension req, index_of (nth d req 0%nat) src with
       | Some a, Some b => Some (a, b)
       | _, _ => None
       end.

(* the list of (source_to_requested[d], requested_to_source[d]) *)
Definition dm_new (src req : list name) : option (list (nat * nat)) :=
  sequence (map (dm_step src req) (seq 0 (length src))).

Definition dm_s2r (tbl : list (nat * nat)) : list nat := map fst tbl.
Definition dm_r2s (tbl : list (nat * nat)) : list nat := map snd tbl.
Definition dm_no_op (D : nat) : list (nat * nat) := map (fun d => (d, d)) (seq 0 D).

(* map_dimensions_to_source: from_fn(|d| indexes[source_to_requested[d]]) *)
Definition map_dimensions_to_source {A} (tbl : list (nat * nat)) (idx : list A) (dflt : A) : list A :=
  map (fun p => nth p idx dflt) (dm_s2r tbl).
(* map_shape_to_requested: from_fn(|d| source[requested_to_source[d]]) *)
Definition map_shape_to_requested (tbl : list (nat * nat)) (src : shape) : shape :=
  map (fun p => nth p src (0%nat, 0)) (dm_r2s tbl).
(* map_linear_data_layout_to_transposed as it was BEFORE fix 6660492 (kept because
   Model/Views.v carries a refutation witness about it): from_fn(|d| order[source_to_requested[d]]) *)
Definition map_linear_data_layout_to_transposed (tbl : list (nat * nat)) (order : list name)
  : list name := map (fun p => nth p order 0%nat) (dm_s2r tbl).

(* map_linear_data_layout_to_transposed(source, order) as it is now: each name of the source's
   memory order is looked up in the source shape (position p) and renamed to the name at position
   source_to_requested[p]; a name that is not in the shape is kept *)
Definition map_linear_data_layout_to_transposed_fixed (tbl : list (nat * nat)) (source : shape)
           (order : list name) : list name :=
  map (fun n => match index_of n (names_of source) with
                | Some p => fst (nth (nth p (dm_s2r tbl) 0%nat) source (0%nat, 0))
                | None => n
                end) order.

(* ---- encoders ---- *)
Definition sshape (sh : shape) : sx := slist (spair snat sN) sh.
Definition snames (l : list name) : sx := slist snat l.
Definition dshape (s : sx) : option shape := dlist (dpair dnat dN) s.
Definition dnames (s : sx) : option (list name) := dlist dnat s.
Definition didx (s : sx) : option (list N) := dlist dN s.
