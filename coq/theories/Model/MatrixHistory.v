(* Histories of a Matrix<T> in which resizing operations (Model/Matrix.v) are interleaved with
   mutation through the parts of Matrix::partition (Model/MatrixViews.v): the mutable borrow of
   the parts ends before the next operation, so the matrix can be resized again afterwards.
   Executable definitions only; proofs live in Proofs/C11Part.v. *)
From Coq Require Import List ZArith NArith Bool Arith.
From EasyML Require Import Base.Sx Model.Matrix Model.MatrixViews.
Import ListNotations.
Open Scope N_scope.

Section History.
Context {T : Type}.

(* `part.map_mut(|_| v)` / part.set(i, j, v) for every (i, j) of the part, in row-major order:
   each write goes through MatrixPart::try_get_reference_mut *)
Definition fill_part (data : list T) (p : part) (v : T) : list T :=
  fold_left (fun d rc => fst (write d (VPart p) (fst rc) (snd rc) v)) (grid (p_rows p) (p_cols p)) data.

(* { let mut parts = m.partition(&rp, &cp); if let Some(p) = parts.get_mut(k) { fill p with v } }
   false = partition panicked (nothing was borrowed, nothing written) *)
Definition partition_fill (m : matrix T) (rp cp : list N) (k : nat) (v : T) : matrix T * bool :=
  match partition (m_rows m) (m_cols m) rp cp with
  | Ok parts =>
      match nth_error parts k with
      | Some p => (mkM (fill_part (m_data m) p v) (m_rows m) (m_cols m), true)
      | None => (m, true)
      end
  | _ => (m, false)
  end.

Inductive xop : Type :=
| XOp (o : op T)
| XPartitionFill (rp cp : list N) (k : nat) (v : T).

Definition xstep (m : matrix T) (o : xop) : matrix T * bool :=
  match o with
  | XOp o => impl_step m o
  | XPartitionFill rp cp k v => partition_fill m rp cp k v
  end.

Fixpoint xtrace (m : matrix T) (ops : list xop) : list (matrix T * bool) :=
  match ops with
  | [] => []
  | o :: rest => let r := xstep m o in r :: xtrace (fst r) rest
  end.

End History.
Arguments xop T : clear implicits.
