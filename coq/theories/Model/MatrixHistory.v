(* Histories of a Matrix<T> in which resizing operations (Model/Matrix.v) are interleaved with
   mutation through the parts of Matrix::partition (Model/MatrixViews.v): the mutable borrow of
   the parts ends before the next operation, so the matrix can be resized again afterwards.
   Executable definitions only; proofs live in Proofs/C11Part.v. *)
From Coq Require Import List ZArith NArith Bool Arith.
From EasyML Require Import Base.Sx Model.Matrix Model.MatrixViews.
Import ListNotations.
Open Scope N_scope.

Section History.
Context {T : Type}.

(* writing g(i, j) to every cell (i, j) of a part, in row-major order of the PART's own indexes:
   `part.map_mut_with_index(|_, i, j| g(i, j))` / part.set(i, j, g(i, j)) /
   `*part.get_reference_mut(i, j) = g(i, j)` / the part's row_major_reference_mut_iter().with_index();
   each write goes through MatrixPart's mutable getters (MatrixPart::try_get_reference_mut) *)
Definition write_part (data : list T) (p : part) (g : N -> N -> T) : list T :=
  fold_left (fun d rc => fst (write d (VPart p) (fst rc) (snd rc) (g (fst rc) (snd rc))))
            (grid (p_rows p) (p_cols p)) data.

(* `part.map_mut(|_| v)`: the same value everywhere *)
Definition fill_part (data : list T) (p : part) (v : T) : list T := write_part data p (fun _ _ => v).

(* { let mut parts = m.partition(&rp, &cp); if let Some(p) = parts.get_mut(k) { write g to p } }
   false = partition panicked (nothing was borrowed, nothing written) *)
Definition partition_write (m : matrix T) (rp cp : list N) (k : nat) (g : N -> N -> T) : matrix T * bool :=
  match partition (m_rows m) (m_cols m) rp cp with
  | Ok parts =>
      match nth_error parts k with
      | Some p => (mkM (write_part (m_data m) p g) (m_rows m) (m_cols m), true)
      | None => (m, true)
      end
  | _ => (m, false)
  end.

Definition partition_fill (m : matrix T) (rp cp : list N) (k : nat) (v : T) : matrix T * bool :=
  partition_write m rp cp k (fun _ _ => v).

Inductive xop : Type :=
| XOp (o : op T)
| XPartitionFill (rp cp : list N) (k : nat) (v : T)
| XPartitionWrite (rp cp : list N) (k : nat) (g : N -> N -> T).

Definition xstep (m : matrix T) (o : xop) : matrix T * bool :=
  match o with
  | XOp o => impl_step m o
  | XPartitionFill rp cp k v => partition_fill m rp cp k v
  | XPartitionWrite rp cp k g => partition_write m rp cp k g
  end.

Fixpoint xtrace (m : matrix T) (ops : list xop) : list (matrix T * bool) :=
  match ops with
  | [] => []
  | o :: rest => let r := xstep m o in r :: xtrace (fst r) rest
  end.

End History.
Arguments xop T : clear implicits.
