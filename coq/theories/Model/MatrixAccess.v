(* The THREE access forms of every matrix view, each transcribed from its OWN code path
   (property C12, second extension wave).  Model/MatrixViews.v has `try_get` =
   MatrixRef::try_get_reference; here:
     try_get_mut        MatrixMut::try_get_reference_mut
     get_unchecked      MatrixRef::get_reference_unchecked
     get_unchecked_mut  MatrixMut::get_reference_unchecked_mut
   of  Matrix (src/matrices/mod.rs: _try_get_reference_mut, _get_reference_unchecked(_mut)),
       MatrixPart (views/partitions.rs), MatrixRange (views/ranges.rs), MatrixReverse
       (views/reverse.rs), MatrixMap (views/map.rs: MatrixRef ONLY), MatrixRefTensor over
       TensorRefMatrix and over any tensor view (src/interop/mod.rs).
   The unchecked forms do not answer "absent": what the code does with an index that is not
   present is a panic of its own (`IndexRange::map(..).unwrap()`, the `length - 1` of
   reverse_indexes on an empty source in a build with overflow checks), an access the language
   leaves undefined (`get_unchecked` beyond a slice / Vec), or — worst — a DEFINED read of a
   different cell (Matrix: column + row * columns still inside the Vec).  `uaccess` keeps these
   apart.  The verification hooks (`#[cfg(feature = "verif-hooks")]`) are not part of the code
   modelled here.  Executable definitions only; facts in Proofs/C12Access.v. *)
From Coq Require Import List ZArith NArith Bool Arith.
From EasyML Require Import Base.Sx Model.Shape Model.MatrixViews.
From EasyML Require Model.Views Model.Matrix.
Import ListNotations.
Open Scope N_scope.

(* ---- MatrixMut::try_get_reference_mut ---- *)
Fixpoint try_get_mut (v : mview) (row column : N) : access :=
  match v with
  | VMatrix rows cols =>
      (* _try_get_reference_mut: if row < self.rows() && column < self.columns()
           { let index = self.get_index(row, column); Some(&mut self.data[index]) } else { None } *)
      if (row <? rows) && (column <? cols)
      then let index := column + row * cols in Cell index
      else Absent
  | VPart p =>
      (* if row >= self.rows || column >= self.columns { return None; }
         Some(&mut self.data[row][column]) *)
      if (p_rows p <=? row) || (p_cols p <=? column) then Absent
      else match nth_error (p_slices p) (N.to_nat row) with
           | Some (offset, length) => if column <? length then Cell (offset + column) else AccessPanic
           | None => AccessPanic
           end
  | VRange rows cols src =>
      (* let row = self.rows.map(row)?; let column = self.columns.map(column)?;
         self.source.try_get_reference_mut(row, column) *)
      match ir_map rows row with
      | None => Absent
      | Some row' => match ir_map cols column with
                     | None => Absent
                     | Some column' => try_get_mut src row' column'
                     end
      end
  | VReverse rr rc src =>
      (* the empty-source guard, then reverse_indexes, then source.try_get_reference_mut *)
      if (view_rows src =? 0) || (view_cols src =? 0) then Absent
      else try_get_mut src (reverse_index rr (view_rows src) row) (reverse_index rc (view_cols src) column)
  | VMap _ => AccessPanic           (* MatrixMap implements MatrixRef only: no such call exists *)
  | VViaTensor _ _ src =>
      (* MatrixRefTensor::try_get_reference_mut -> TensorRefMatrix::get_reference_mut([row, column])
         -> self.source.try_get_reference_mut(indexes[0], indexes[1]) *)
      try_get_mut src row column
  | VOverTensor c =>
      (* self.source.get_reference_mut([row, column]); the tensor views' own mutable getters are
         property C02's (one index computation there, Model/Views.v) *)
      match Views.c_get c [row; column] with
      | Some (leaf, offset) =>
          match leaf_base (Views.c_leaves c) leaf with
          | Some base => Cell (base + offset)
          | None => AccessPanic
          end
      | None => Absent
      end
  end.

(* stacks the mutable forms exist for *)
Fixpoint has_mut (v : mview) : bool :=
  match v with
  | VMatrix _ _ | VPart _ | VOverTensor _ => true
  | VRange _ _ src | VReverse _ _ src | VViaTensor _ _ src => has_mut src
  | VMap _ => false
  end.

(* ---- the unchecked forms ---- *)
Inductive uaccess : Type :=
| UCell (position : N)      (* a reference to this cell of the root *)
| UPanic                    (* the code panics before touching memory *)
| UUndefined.               (* an out-of-bounds get_unchecked: undefined behaviour *)

(* what reverse_indexes computes WITHOUT the empty-source guard of the checked getters:
   `let last_index = length - 1` underflows for a reversed dimension of length 0 (a panic in a
   build with overflow checks; without them it wraps to usize::MAX and the index passed on is
   usize::MAX - index) *)
Definition reverse_underflows (rr rc : bool) (src : mview) : bool :=
  (rr && (view_rows src =? 0)) || (rc && (view_cols src =? 0)).

(* MatrixRef::get_reference_unchecked *)
Fixpoint get_unchecked (v : mview) (row column : N) : uaccess :=
  match v with
  | VMatrix rows cols =>
      (* self.data.get_unchecked(self.get_index(row, column)): defined exactly when the flat index
         is inside the Vec, whatever (row, column) was *)
      let index := column + row * cols in
      if index <? rows * cols then UCell index else UUndefined
  | VPart p =>
      (* self.data.get_unchecked(row).get_unchecked(column) *)
      match nth_error (p_slices p) (N.to_nat row) with
      | Some (offset, length) => if column <? length then UCell (offset + column) else UUndefined
      | None => UUndefined
      end
  | VRange rows cols src =>
      (* let row = self.rows.map(row).unwrap(); let column = self.columns.map(column).unwrap();
         self.source.get_reference_unchecked(row, column) *)
      match ir_map rows row with
      | None => UPanic
      | Some row' => match ir_map cols column with
                     | None => UPanic
                     | Some column' => get_unchecked src row' column'
                     end
      end
  | VReverse rr rc src =>
      (* reverse_indexes(..) with no guard, then self.source.get_reference_unchecked *)
      if reverse_underflows rr rc src then UPanic
      else get_unchecked src (reverse_index rr (view_rows src) row) (reverse_index rc (view_cols src) column)
  | VMap src => get_unchecked src row column      (* (self.f)(self.source.get_reference_unchecked(..)) *)
  | VViaTensor _ _ src =>
      (* MatrixRefTensor -> TensorRefMatrix::get_reference_unchecked(indexes)
         -> self.source.get_reference_unchecked(indexes[0], indexes[1]) *)
      get_unchecked src row column
  | VOverTensor c =>
      (* self.source.get_reference_unchecked([row, column]) of a tensor view: C02's model has the
         checked index computation only; an index it does not resolve is outside this model *)
      match Views.c_get c [row; column] with
      | Some (leaf, offset) =>
          match leaf_base (Views.c_leaves c) leaf with
          | Some base => UCell (base + offset)
          | None => UUndefined
          end
      | None => UUndefined
      end
  end.

(* MatrixMut::get_reference_unchecked_mut *)
Fixpoint get_unchecked_mut (v : mview) (row column : N) : uaccess :=
  match v with
  | VMatrix rows cols =>
      (* let index = self.get_index(row, column); self.data.get_unchecked_mut(index) *)
      let index := column + row * cols in
      if index <? rows * cols then UCell index else UUndefined
  | VPart p =>
      (* self.data.get_unchecked_mut(row).get_unchecked_mut(column) *)
      match nth_error (p_slices p) (N.to_nat row) with
      | Some (offset, length) => if column <? length then UCell (offset + column) else UUndefined
      | None => UUndefined
      end
  | VRange rows cols src =>
      match ir_map rows row with
      | None => UPanic
      | Some row' => match ir_map cols column with
                     | None => UPanic
                     | Some column' => get_unchecked_mut src row' column'
                     end
      end
  | VReverse rr rc src =>
      if reverse_underflows rr rc src then UPanic
      else get_unchecked_mut src (reverse_index rr (view_rows src) row)
                                 (reverse_index rc (view_cols src) column)
  | VMap _ => UPanic                 (* no MatrixMut implementation: no such call exists *)
  | VViaTensor _ _ src => get_unchecked_mut src row column
  | VOverTensor c =>
      match Views.c_get c [row; column] with
      | Some (leaf, offset) =>
          match leaf_base (Views.c_leaves c) leaf with
          | Some base => UCell (base + offset)
          | None => UUndefined
          end
      | None => UUndefined
      end
  end.

(* ---- reading / writing the root through each form ---- *)
Section Forms.
Context {T : Type}.

Definition read_unchecked (data : list T) (a : uaccess) : outcome (option T) :=
  match a with
  | UCell p => match nth_error data (N.to_nat p) with Some x => Ok (Some x) | None => Panic end
  | _ => Panic
  end.

(* MatrixView::set / try_get_reference_mut(..).map(|cell| *cell = x) / *get_reference_mut = x:
   all go through try_get_reference_mut *)
Definition write_mut (data : list T) (v : mview) (row column : N) (x : T) : list T * bool :=
  match try_get_mut v row column with
  | Cell p => if p <? N.of_nat (length data) then (replace_nth data (N.to_nat p) x, true)
              else (data, false)
  | _ => (data, false)
  end.

(* *get_reference_unchecked_mut(row, column) = x *)
Definition write_unchecked (data : list T) (v : mview) (row column : N) (x : T) : list T * bool :=
  match get_unchecked_mut v row column with
  | UCell p => if p <? N.of_nat (length data) then (replace_nth data (N.to_nat p) x, true)
               else (data, false)
  | _ => (data, false)
  end.

End Forms.

(* ---- a view object whose SOURCE is mutated through `source_ref_mut()` ----
   MatrixReverse is the one public matrix adaptor that hands out its source mutably (MatrixRange
   and MatrixPart do not; MatrixView::source_ref_mut reaches the adaptor).  It stores its two
   flags and nothing else, so after the matrix underneath was resized the same object is this
   term over the matrix as it is NOW: *)
Definition rev_stack {T} (m : Matrix.matrix T) (revs : list (bool * bool)) : mview :=
  fold_left (fun v r => VReverse (fst r) (snd r) v) revs (VMatrix (Matrix.m_rows m) (Matrix.m_cols m)).
