(* Tensor<T, D> and TensorAccess<T, S, D> over a Tensor source: transcription of
   src/tensors/mod.rs (from / try_from / get_reference / get_reference_mut) and
   src/tensors/indexing.rs (TensorAccess::try_from / shape / try_get_reference(_mut)).
   Executable definitions only. *)
From Coq Require Import List ZArith NArith Bool Arith.
From EasyML Require Import Base.Sx Model.Shape.
Import ListNotations.
Open Scope N_scope.

Section Tensor.
Context {A : Type}.

Record tensor : Type := mkTensor { t_data : list A; t_shape : shape; t_strides : list N }.

(* Tensor::try_from *)
Definition tensor_try_from (sh : shape) (data : list A) : outcome tensor :=
  if validate_dimensions sh (N.of_nat (length data))
  then Ok (mkTensor data sh (compute_strides sh))
  else Err (sshape sh).

(* Tensor::from (panics where try_from errs) *)
Definition tensor_from (sh : shape) (data : list A) : outcome tensor :=
  if validate_dimensions sh (N.of_nat (length data))
  then Ok (mkTensor data sh (compute_strides sh))
  else Panic.

(* TensorRef::get_reference for Tensor *)
Definition t_get (t : tensor) (idx : list N) : option A :=
  match get_index_direct idx (t_strides t) (t_shape t) with
  | Some i => nth_error (t_data t) (N.to_nat i)
  | None => None
  end.

Fixpoint list_set (l : list A) (n : nat) (v : A) : option (list A) :=
  match l, n with
  | [], _ => None
  | _ :: r, O => Some (v :: r)
  | x :: r, S n' => option_map (cons x) (list_set r n' v)
  end.

(* TensorMut::get_reference_mut then a write through the reference *)
Definition t_set (t : tensor) (idx : list N) (v : A) : option tensor :=
  match get_index_direct idx (t_strides t) (t_shape t) with
  | Some i => option_map (fun d => mkTensor d (t_shape t) (t_strides t))
                         (list_set (t_data t) (N.to_nat i) v)
  | None => None
  end.

(* TensorAccess over a tensor *)
Record access : Type := mkAccess { a_src : tensor; a_tbl : list (nat * nat) }.

(* TensorAccess::try_from: Err(InvalidDimensionsError { actual, requested }) *)
Definition access_try_from (t : tensor) (req : list name) : outcome access :=
  match dm_new (names_of (t_shape t)) req with
  | Some tbl => Ok (mkAccess t tbl)
  | None => Err (SL [sshape (t_shape t); snames req])
  end.
(* TensorAccess::from / Tensor::index_by *)
Definition access_from (t : tensor) (req : list name) : outcome access :=
  match dm_new (names_of (t_shape t)) req with
  | Some tbl => Ok (mkAccess t tbl)
  | None => Panic
  end.

Definition access_shape (a : access) : shape := map_shape_to_requested (a_tbl a) (t_shape (a_src a)).
Definition access_get (a : access) (idx : list N) : option A :=
  t_get (a_src a) (map_dimensions_to_source (a_tbl a) idx 0).
Definition access_set (a : access) (idx : list N) (v : A) : option access :=
  option_map (fun t => mkAccess t (a_tbl a))
             (t_set (a_src a) (map_dimensions_to_source (a_tbl a) idx 0) v).

End Tensor.
Arguments tensor A : clear implicits.
Arguments access A : clear implicits.
