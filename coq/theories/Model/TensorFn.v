(* Further Tensor / TensorAccess constructors observed by C01: transcription of
     src/tensors/mod.rs      Tensor::from_fn (326): `for index in ShapeIterator::from(shape)
                             { data.push(producer(index)) }; Tensor::from(shape, data)`
     src/tensors/indexing.rs TensorAccess::from_source_order (Tensor::index): the no-op mapping;
                             TensorAccess::from_memory_order: try_from(source, order) for a
                             Linear data layout (a Tensor's layout is its own name order).
   `shape_iter_all` (Model/Transform.v) is the list of indexes the transcribed ShapeIterator
   odometer (Model/ShapeIter.v) yields.  Not modelled: `dimensions::elements(&shape)` used for
   Vec::with_capacity — for an element count above usize::MAX it panics in a dev build and the
   loop would run 2^64 times in a release build; the case language keeps such shapes out.
   Executable definitions only. *)
From Coq Require Import List ZArith NArith Bool Arith.
From EasyML Require Import Base.Sx Model.Shape Model.Tensor Model.TSource Model.ShapeIter
     Model.Transform.
Import ListNotations.
Open Scope N_scope.

Section TensorFn.
Context {A : Type}.

(* Tensor::from_fn *)
Definition tensor_from_fn (sh : shape) (producer : list N -> A) : outcome (tensor A) :=
  tensor_from sh (map producer (shape_iter_all sh)).

(* TensorAccess::from_source_order / Tensor::index / index_mut / index_owned *)
Definition access_from_source_order (t : tensor A) : access A :=
  mkAccess t (dm_no_op (length (t_shape t))).

(* TensorAccess::from_memory_order over a Tensor: data_layout() = Linear(names of the shape) *)
Definition access_from_memory_order (t : tensor A) : outcome (option (access A)) :=
  match access_try_from t (names_of (t_shape t)) with
  | Ok a => Ok (Some a)
  | _ => Panic
  end.

(* the panicking accessors get / get_ref / get_ref_mut: `.expect(..)` of the fallible ones *)
Definition access_get_or_panic (a : access A) (idx : list N) : outcome A :=
  of_option (access_get a idx).

End TensorFn.
