(* C10: what a matrix / tensor is left holding when a user-supplied closure or iterator panics
   in the middle of a mutating call and the panic is caught (catch_unwind).  Transcribes
   src/matrices/mod.rs map_mut / map_mut_with_index (row-major element loop), insert_row_with
   (values are collected BEFORE the matrix is touched), insert_column_with (collect, assert,
   truncate, reverse insertion) and src/tensors/mod.rs map_mut / map_mut_with_index.
   State: (rows, cols, data) resp. (shape, data).  Executable only. *)
From Coq Require Import List ZArith NArith Bool Arith.
From EasyML Require Import Base.Sx.
Import ListNotations.

Record mstate := mkM { m_rows : nat; m_cols : nat; m_data : list Z }.

Definition f_map (x : Z) : Z := (x + 1000)%Z.

(* the closure panics on its (k+1)-th call (k calls succeed); k >= number of elements: no panic *)
Definition map_mut_panic (data : list Z) (k : nat) : list Z * bool :=
  (map f_map (firstn k data) ++ skipn k data, Nat.ltb k (length data)).

(* an iterator that yields vals and panics on its (k+1)-th next() *)
(* insert_row_with: assert row <= rows; take(columns).collect(); assert len == columns; insert *)
Fixpoint insert_at {A} (l : list A) (n : nat) (v : list A) : list A :=
  match n, l with
  | O, _ => v ++ l
  | S n', x :: r => x :: insert_at r n' v
  | S _, [] => v
  end.

Definition insert_row_with_panic (s : mstate) (row : nat) (vals : list Z) (k : nat) : mstate * bool :=
  if Nat.ltb (m_rows s) row then (s, true)                        (* assertion *)
  else
    (* next() is called until `columns` values were taken or the iterator ends *)
    let calls := Nat.min (m_cols s) (S (length vals)) in
    if Nat.ltb k calls then (s, true)                             (* the iterator panicked *)
    else if Nat.ltb (length vals) (m_cols s) then (s, true)       (* too few values *)
    else (mkM (S (m_rows s)) (m_cols s)
              (insert_at (m_data s) (row * m_cols s) (firstn (m_cols s) vals)), false).

(* insert a value at `column` in every row *)
Fixpoint insert_col_rows (data : list Z) (cols column : nat) (vals : list Z) (fuel : nat) : list Z :=
  match fuel, vals with
  | S f, v :: vs =>
      insert_at (firstn cols data) column [v] ++ insert_col_rows (skipn cols data) cols column vs f
  | _, _ => data
  end.

Definition insert_column_with_panic (s : mstate) (column : nat) (vals : list Z) (k : nat) : mstate * bool :=
  if Nat.ltb (m_cols s) column then (s, true)
  else
    (* collect() drains the whole iterator: length vals + 1 calls of next() *)
    if Nat.ltb k (S (length vals)) then (s, true)
    else if Nat.ltb (length vals) (m_rows s) then (s, true)
    else (mkM (m_rows s) (S (m_cols s))
              (insert_col_rows (m_data s) (m_cols s) column (firstn (m_rows s) vals) (m_rows s)), false).

Definition m_inv (s : mstate) : bool :=
  Nat.eqb (length (m_data s)) (m_rows s * m_cols s) && Nat.leb 1 (m_rows s) && Nat.leb 1 (m_cols s).
