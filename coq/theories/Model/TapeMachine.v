(* Scripts over several WengertLists: the state machine behind C15.
   state = the tapes (a WengertList is identified by its position in the list, its content is
   the list of entries: WengertList::new() and a list after clear() are both the empty list)
   + registers holding the live objects (scalar Records and record containers, each with its
   history identifier and index / indices).  Every operation names its destination register,
   so a script can overwrite a variable the way a training loop does.
   One step = one public API call; a panicking call leaves the state unchanged (all the
   assertions of the operators run before the first append) - with ONE exception: `impl Sum for
   Record` (TSum) is a loop whose same-list assertion sits inside the loop body, so a sum that
   panics at its k-th record has already appended the partial sums of the first k - 1 records
   and those entries stay on the list (no register is written).
   Executable definitions only. *)
From Coq Require Import List Arith Bool ZArith.
From EasyML Require Import Base.Sx Model.Num Model.Tape Model.Container.
Import ListNotations.

Section TapeMachine.
Context {R : Type} (ops : numops R).
Notation tape := (tape R).
Notation rec := (rec R).
Notation cont := (cont R).

Inductive obj : Type :=
| ORec (r : rec)
| OCont (c : cont)
| ODead.

Record state : Type := mkState { tapes : list tape; regs : list obj }.

Fixpoint set_nth {A} (d : A) (l : list A) (k : nat) (v : A) : list A :=
  match k, l with
  | O, [] => [v]
  | O, _ :: r => v :: r
  | S k', [] => d :: set_nth d [] k' v
  | S k', x :: r => x :: set_nth d r k' v
  end.

Definition get (st : state) (r : nat) : obj := nth r (regs st) ODead.
Definition put (st : state) (r : nat) (o : obj) : state := mkState (tapes st) (set_nth ODead (regs st) r o).
Definition tape_of (st : state) (t : nat) : option tape := nth_error (tapes st) t.
Definition set_tape (st : state) (t : nat) (tp : tape) : state := mkState (set_nth [] (tapes st) t tp) (regs st).

Definition obj_hist (o : obj) : hist :=
  match o with ORec r => r_hist r | OCont c => c_hist c | ODead => None end.

Inductive tm_op : Type :=
| TNewTape                                                         (* WengertList::new() *)
| TVar (dst t : nat) (x : R)                                       (* Record::variable *)
| TConst (dst : nat) (x : R)                                       (* Record::constant *)
| TCVar (dst t : nat) (tensor : bool) (sh : shape) (data : list R) (* RecordTensor/Matrix::variables *)
| TCConst (dst : nat) (tensor : bool) (sh : shape) (data : list R)
| TUn (dst : nat) (assign : bool) (code : nat) (c : R) (a : nat)   (* unary operator kinds *)
| TBin (dst mode code a b : nat)                                   (* binary operator kinds *)
| TMatmul (dst a b : nat)
| TDerivs (a elem : nat)                                           (* try_derivatives / derivatives_for *)
| TClear (t : nat)                                                 (* WengertList::clear *)
| TReset (a : nat)                                                 (* Record::reset / container reset *)
| TResetAll (t : nat)                                              (* reset of every live object of list t *)
| TSum (dst : nat) (rs : list nat).                                (* registers.into_iter().sum::<Record<T>>() *)

Inductive tm_val : Type :=
| VUnit
| VRec (r : rec)
| VCont (c : cont)
| VDerivs (d : option (list R))
| VIdx (l : list nat).

(* run an operation that records on the list `h` (None: no list is involved) *)
Definition on_tape {A} (st : state) (h : hist) (f : tape -> outcome (tape * A)) : option (outcome (state * A)) :=
  match h with
  | None => Some (omap (fun p => (st, snd p)) (f []))
  | Some t =>
      match tape_of st t with
      | None => None
      | Some tp => Some (omap (fun p => (set_tape st t (fst p), snd p)) (f tp))
      end
  end.

(* store the produced object, report it *)
Definition finish (st : state) (dst : nat) (r : option (outcome (state * obj))) : option (state * outcome tm_val) :=
  match r with
  | None => None
  | Some (Ok (st', o)) =>
      Some (put st' dst o,
            Ok (match o with ORec x => VRec x | OCont c => VCont c | ODead => VUnit end))
  | Some (Err e) => Some (st, Err e)
  | Some Panic => Some (st, Panic)
  end.

Definition obj_reset (tp : tape) (o : obj) : tape * obj * list nat :=
  match o with
  | ORec r => let '(tp', r') := rec_reset ops tp r in
              (tp', ORec r', match r_hist r with Some _ => [r_idx r'] | None => [] end)
  | OCont c => let '(tp', c') := c_reset ops tp c in
               (tp', OCont c', match c_hist c with Some _ => map snd (c_data c') | None => [] end)
  | ODead => (tp, ODead, [])
  end.

(* reset of every register on list t, in register order *)
Fixpoint reset_all (tp : tape) (t : nat) (os : list obj) : tape * list obj * list nat :=
  match os with
  | [] => (tp, [], [])
  | o :: r =>
      if match obj_hist o with Some h => Nat.eqb h t | None => false end then
        let '(tp1, o', idx) := obj_reset tp o in
        let '(tp2, r', idxs) := reset_all tp1 t r in
        (tp2, o' :: r', idx ++ idxs)
      else
        let '(tp2, r', idxs) := reset_all tp t r in (tp2, o :: r', idxs)
  end.

Definition un_code_ok (code : nat) (c : R) : bool :=
  match code with
  | 0 => true
  | _ => match unfn_of ops code c with Some _ => true | None => false end
  end.
Definition rec_un (tp : tape) (code : nat) (c : R) (x : rec) : outcome (tape * rec) :=
  match rec_unary_code ops tp code c x with Some r => r | None => Panic end.
Definition cont_un (tp : tape) (assign : bool) (code : nat) (c : R) (x : cont) : outcome (tape * cont) :=
  match unfn_of ops code c with Some f => Ok (c_unary ops tp assign f x) | None => Panic end.
Definition cont_bin (tp : tape) (mode : nat) (f : binfn R) (x y : cont) : outcome (tape * cont) :=
  match c_binop ops tp mode f x y with Some r => r | None => Panic end.

Definition as_rec {A} (r : outcome (A * rec)) : outcome (A * obj) := omap (fun p => (fst p, ORec (snd p))) r.
Definition as_cont {A} (r : outcome (A * cont)) : outcome (A * obj) := omap (fun p => (fst p, OCont (snd p))) r.

(* an operand register that is empty (its producer panicked) or holds the wrong kind of object:
   the step is skipped and reported as such *)
Definition skipped (st : state) : option (state * outcome tm_val) := Some (st, Err (SZ 9%Z)).

(* ---- impl Sum for Record (record_operations.rs, `impl<'a, T> Sum for Record<'a, T>`).
   One iteration of the loop: the four-arm match on the histories of the running total and the
   next record (every derivative is T::one(); the same-list assertion is in the fourth arm only) *)
Definition sum_step (t : tape) (total next : rec) : outcome (tape * rec) :=
  let z := nadd ops (r_num total) (r_num next) in
  match r_hist total, r_hist next with
  | None, None => Ok (t, mkRec z None 0)
  | Some h, None =>
      let '(t', i) := append_unary ops t (r_idx total) (none_ ops) in Ok (t', mkRec z (Some h) i)
  | None, Some h =>
      let '(t', i) := append_unary ops t (r_idx next) (none_ ops) in Ok (t', mkRec z (Some h) i)
  | Some h, Some _ =>
      if negb (same_list (r_hist total) (r_hist next)) then Panic else
      let '(t', i) := append_binary t (r_idx total) (none_ ops) (r_idx next) (none_ ops) in
      Ok (t', mkRec z (Some h) i)
  end.

(* the loop: returns the tape WITH everything appended so far, also when an iteration panics *)
Fixpoint sum_fold (t : tape) (total : rec) (rs : list rec) : tape * outcome rec :=
  match rs with
  | [] => (t, Ok total)
  | next :: rest =>
      match sum_step t total next with
      | Ok (t1, s) => sum_fold t1 s rest
      | Err e => (t, Err e)
      | Panic => (t, Panic)
      end
  end.

(* the list every append of the loop goes to: the list of the first record that has one (the
   total takes its history from there and keeps it) *)
Definition sum_hist (xs : list rec) : hist := fold_right (fun x h => first_hist (r_hist x) h) None xs.

(* the records held by a list of registers (None: a register is empty or holds a container) *)
Fixpoint get_recs (st : state) (rs : list nat) : option (list rec) :=
  match rs with
  | [] => Some []
  | a :: r =>
      match get st a, get_recs st r with
      | ORec x, Some l => Some (x :: l)
      | _, _ => None
      end
  end.

(* total = Record::zero(); the fold runs on the list named by sum_hist; whatever it appended
   stays there *)
Definition sum_on (st : state) (xs : list rec) : option (state * outcome rec) :=
  match sum_hist xs with
  | None => Some (st, snd (sum_fold [] (rec_constant (nzero ops)) xs))
  | Some t =>
      match tape_of st t with
      | None => None
      | Some tp =>
          let p := sum_fold tp (rec_constant (nzero ops)) xs in Some (set_tape st t (fst p), snd p)
      end
  end.

Definition sum_finish (dst : nat) (r : option (state * outcome rec)) : option (state * outcome tm_val) :=
  match r with
  | None => None
  | Some (st1, Ok z) => Some (put st1 dst (ORec z), Ok (VRec z))
  | Some (st1, Err e) => Some (st1, Err e)
  | Some (st1, Panic) => Some (st1, Panic)
  end.

Definition step (st : state) (o : tm_op) : option (state * outcome tm_val) :=
  match o with
  | TNewTape => Some (mkState (tapes st ++ [[]]) (regs st), Ok VUnit)
  | TVar dst t x =>
      finish st dst (on_tape st (Some t) (fun tp => as_rec (Ok (rec_variable ops tp t x))))
  | TConst dst x => finish st dst (Some (Ok (st, ORec (rec_constant x))))
  | TCVar dst t tensor sh data =>
      if negb (shape_valid sh (length data)) || negb (tensor || Nat.eqb (length sh) 2) then None else
      finish st dst (on_tape st (Some t) (fun tp => as_cont (Ok (c_variables ops tp t tensor sh data))))
  | TCConst dst tensor sh data =>
      if negb (shape_valid sh (length data)) || negb (tensor || Nat.eqb (length sh) 2) then None else
      finish st dst (Some (Ok (st, OCont (c_constants tensor sh data))))
  | TUn dst assign code c a =>
      if negb (un_code_ok code c) then None else
      match get st a with
      | ORec x => finish st dst (on_tape st (r_hist x) (fun tp => as_rec (rec_un tp code c x)))
      | OCont x => finish st dst (on_tape st (c_hist x) (fun tp => as_cont (cont_un tp assign code c x)))
      | ODead => skipped st
      end
  | TBin dst mode code a b =>
      match binfn_of ops code with
      | None => None
      | Some f =>
          match get st a, get st b with
          | ORec x, ORec y =>
              finish st dst (on_tape st (first_hist (r_hist x) (r_hist y)) (fun tp => as_rec (rec_binary ops tp f x y)))
          | OCont x, OCont y =>
              if negb (Bool.eqb (c_tensor x) (c_tensor y)) then skipped st else
              if Nat.ltb 3 mode || (Nat.eqb mode 0 && Nat.ltb 1 code) then None else
              finish st dst (on_tape st (if Nat.eqb mode 3 then first_hist (c_hist y) (c_hist x)
                                         else first_hist (c_hist x) (c_hist y))
                                     (fun tp => as_cont (cont_bin tp mode f x y)))
          | _, _ => skipped st
          end
      end
  | TMatmul dst a b =>
      match get st a, get st b with
      | OCont x, OCont y =>
          if negb (Bool.eqb (c_tensor x) (c_tensor y)) then skipped st else
          if negb (Nat.eqb (length (c_shape x)) 2) || negb (Nat.eqb (length (c_shape y)) 2) then None else
          finish st dst (on_tape st (first_hist (c_hist x) (c_hist y)) (fun tp => as_cont (c_matmul ops tp x y)))
      | _, _ => skipped st
      end
  | TDerivs a elem =>
      match get st a with
      | ORec x =>
          match r_hist x with
          | None => Some (st, Ok (VDerivs None))
          | Some t =>
              match tape_of st t with
              | None => None
              | Some tp => Some (st, omap (fun d => VDerivs (Some d)) (derivs_checked ops tp (r_idx x)))
              end
          end
      | OCont x =>
          match nth_error (c_data x) elem, c_hist x with
          | None, _ => Some (st, Ok (VDerivs None))          (* derivatives_for: no such element *)
          | Some _, None => Some (st, Ok (VDerivs None))
          | Some p, Some t =>
              match tape_of st t with
              | None => None
              | Some tp => Some (st, omap (fun d => VDerivs (Some d)) (derivs_checked ops tp (snd p)))
              end
          end
      | ODead => skipped st
      end
  | TClear t =>
      match tape_of st t with
      | None => None
      | Some _ => Some (set_tape st t [], Ok VUnit)
      end
  | TReset a =>
      match get st a with
      | ODead => skipped st
      | o =>
          match obj_hist o with
          | None => Some (st, Ok (VIdx []))
          | Some t =>
              match tape_of st t with
              | None => None
              | Some tp =>
                  let '(tp', o', idx) := obj_reset tp o in
                  Some (put (set_tape st t tp') a o', Ok (VIdx idx))
              end
          end
      end
  | TResetAll t =>
      match tape_of st t with
      | None => None
      | Some tp =>
          let '(tp', os, idx) := reset_all tp t (regs st) in
          Some (mkState (set_nth [] (tapes st) t tp') os, Ok (VIdx idx))
      end
  | TSum dst rs =>
      match get_recs st rs with
      | None => skipped st
      | Some xs => sum_finish dst (sum_on st xs)
      end
  end.

Fixpoint tm_run (st : state) (script : list tm_op) : option (state * list (outcome tm_val)) :=
  match script with
  | [] => Some (st, [])
  | o :: r =>
      match step st o with
      | None => None
      | Some (st1, v) =>
          match tm_run st1 r with
          | None => None
          | Some (st2, vs) => Some (st2, v :: vs)
          end
      end
  end.

Definition init (ntapes : nat) : state := mkState (repeat [] ntapes) [].

End TapeMachine.
