(* API-level transcription (machine arithmetic, mode m) of the fallible constructors and
   checked getters of TensorRange / TensorMask / TensorReverse over a Tensor source and of
   MatrixRange / MatrixReverse over a Matrix source, plus the small Result-returning
   conversions.  Sources: src/tensors/views/ranges.rs (from_named_to_all, from, from_strict,
   clip_from, clip_range_shape, clip_masked_shape, map_indexes_by_range/mask),
   src/tensors/views/reverse.rs, src/matrices/views/{ranges,reverse}.rs, src/interop/mod.rs
   (with_names), src/matrices/mod.rs (try_into_scalar).  The source tensor / matrix stores
   its own flat positions (data[k] = k), so a value identifies the element.  Executable only. *)
From Coq Require Import List ZArith NArith Bool Arith.
From EasyML Require Import Base.Sx Model.Shape Model.U64 Model.Fallible.
Import ListNotations.
Open Scope N_scope.

Definition srange (r : index_range) : sx := SL [sN (r_start r); sN (r_length r)].
Definition drange (s : sx) : option index_range :=
  match s with SL [a; b] => match dN a, dN b with Some x, Some y => Some (mkRange x y) | _, _ => None end | _ => None end.

Fixpoint set_nth {A} (l : list A) (n : nat) (v : A) : list A :=
  match l, n with
  | [], _ => []
  | _ :: r, O => v :: r
  | x :: r, S n' => x :: set_nth r n' v
  end.

(* a monadic map over a list in the outcome monad *)
Fixpoint omapM {A B} (f : A -> outcome B) (l : list A) : outcome (list B) :=
  match l with
  | [] => Ok []
  | x :: r => obind (f x) (fun y => obind (omapM f r) (fun ys => Ok (y :: ys)))
  end.

Section Api.
Variable m : mode.

(* from_named_to_all: InvalidDimensions { provided, valid } on duplicates or unknown names *)
Definition invalid_dimensions (sh : shape) (rs : list (nat * index_range)) : sx :=
  SL [SZ 0; snames (map fst rs); snames (names_of sh)].
Fixpoint assign_ranges (sh : shape) (rs all_rs : list (nat * index_range))
         (acc : list (option index_range)) : outcome (list (option index_range)) :=
  match rs with
  | [] => Ok acc
  | (n, r) :: rest =>
      match position_of sh n with
      | Some d => assign_ranges sh rest all_rs (set_nth acc d (Some r))
      | None => Err (invalid_dimensions sh all_rs)
      end
  end.
Definition from_named_to_all (sh : shape) (rs : list (nat * index_range))
  : outcome (list (option index_range)) :=
  if has_duplicates (map fst rs) then Err (invalid_dimensions sh rs)
  else assign_ranges sh rs rs (repeat None (length sh)).

(* range_exceeds_bounds / mask_exceeds_bounds *)
Fixpoint exceeds_bounds (lens : list N) (rs : list (option index_range)) : outcome bool :=
  match lens, rs with
  | l :: lens', Some r :: rs' =>
      obind (ir_exceeds r l) (fun b => if b then Ok true else exceeds_bounds lens' rs')
  | _ :: lens', None :: rs' => exceeds_bounds lens' rs'
  | _, _ => Ok false
  end.

Definition outside_shape (sh : shape) (rs : list (option index_range)) : sx :=
  SL [SZ 2; sshape sh; slist (sopt srange) rs].

(* TensorRange::from (strict = false) / from_strict (strict = true) *)
Definition tensor_range (strict : bool) (sh : shape) (rs : list (nat * index_range))
  : outcome (shape * list index_range) :=
  obind (from_named_to_all sh rs) (fun all =>
  obind (if strict then exceeds_bounds (lens_of sh) all else Ok false) (fun ex =>
  if ex then Err (outside_shape sh all) else
  let defaulted := map (fun p => match snd p with Some r => r | None => mkRange 0 (snd (fst p)) end)
                       (combine sh all) in
  obind (omapM (fun p => ir_clip (snd p) (snd (fst p))) (combine sh defaulted)) (fun clipped =>
  let sh' := map (fun p => (fst (fst p), r_length (snd p))) (combine sh clipped) in
  if valid_shape_b sh' then Ok (sh', clipped) else Err (SL [SZ 1; sshape sh'])))).

(* TensorMask::from / from_strict: the remaining length is len - clipped mask length *)
Definition tensor_mask (strict : bool) (sh : shape) (rs : list (nat * index_range))
  : outcome (shape * list index_range) :=
  obind (from_named_to_all sh rs) (fun all =>
  obind (if strict then exceeds_bounds (lens_of sh) all else Ok false) (fun ex =>
  if ex then Err (outside_shape sh all) else
  let defaulted := map (fun o => match o with Some r => r | None => mkRange 0 0 end) all in
  obind (omapM (fun p => ir_clip (snd p) (snd (fst p))) (combine sh defaulted)) (fun clipped =>
  obind (omapM (fun p => omap (fun l => (fst (fst p), l)) (u_sub m (snd (fst p)) (r_length (snd p))))
               (combine sh clipped)) (fun sh' =>
  if valid_shape_b sh' then Ok (sh', clipped) else Err (SL [SZ 1; sshape sh']))))).

(* the source tensor's checked getter, machine arithmetic; data[k] = k *)
Definition leaf_get (sh : shape) (idx : list N) : outcome (option N) :=
  gid_m m idx (compute_strides sh) (lens_of sh) 0.

(* map_indexes_by_range: r.map(i)? for every dimension *)
Fixpoint map_by_range (rs : list index_range) (idx : list N) : outcome (option (list N)) :=
  match rs, idx with
  | r :: rs', i :: idx' =>
      obind (ir_map m r i) (fun o =>
        match o with
        | None => Ok None
        | Some j => omap (option_map (cons j)) (map_by_range rs' idx')
        end)
  | _, _ => Ok (Some [])
  end.
Definition tensor_range_get (sh : shape) (clipped : list index_range) (idx : list N)
  : outcome (option N) :=
  obind (map_by_range clipped idx) (fun o =>
    match o with Some j => leaf_get sh j | None => Ok None end).

Definition tensor_mask_get (sh : shape) (clipped : list index_range) (idx : list N)
  : outcome (option N) :=
  obind (omapM (fun p => ir_mask (fst p) (snd p)) (combine clipped idx)) (fun j => leaf_get sh j).

(* TensorReverse::from(source, dimensions): panics on duplicates / names not in the shape *)
Definition tensor_reverse (sh : shape) (names : list nat) : outcome (list bool) :=
  if has_duplicates names then Panic
  else if forallb (contains sh) names
       then Ok (map (fun d => existsb (Nat.eqb (fst d)) names) sh)
       else Panic.
Definition tensor_reverse_get (sh : shape) (reversed : list bool) (idx : list N)
  : outcome (option N) :=
  obind (omapM (fun p => let '(l, (b, i)) := p in if (b : bool) then rev_index m l i else Ok i)
               (combine (lens_of sh) (combine reversed idx)))
        (fun j => leaf_get sh j).

(* ---- matrices: the source is rows x cols (both >= 1) with data[k] = k ---- *)
Definition matrix_range_get (rows cols : N) (rr cr : index_range) (row col : N)
  : outcome (N * N * option N) :=
  obind (ir_clip rr rows) (fun rr' => obind (ir_clip cr cols) (fun cr' =>
  obind (ir_map m rr' row) (fun orow => obind (ir_map m cr' col) (fun ocol =>
  match orow, ocol with
  | Some r, Some c => omap (fun v => (r_length rr', r_length cr', v)) (matrix_try_index m rows cols r c)
  | _, _ => Ok (r_length rr', r_length cr', None)
  end)))).

(* MatrixReverse over a MatrixRange source (so that 0-sized sources are reachable) *)
Definition matrix_reverse_get (rows cols : N) (rr cr : index_range) (rrev crev : bool) (row col : N)
  : outcome (option N) :=
  obind (ir_clip rr rows) (fun rr' => obind (ir_clip cr cols) (fun cr' =>
  let vr := r_length rr' in let vc := r_length cr' in
  if (vr =? 0) || (vc =? 0) then Ok None else
  obind (if rrev then rev_index m vr row else Ok row) (fun r1 =>
  obind (if crev then rev_index m vc col else Ok col) (fun c1 =>
  obind (ir_map m rr' r1) (fun orow => obind (ir_map m cr' c1) (fun ocol =>
  match orow, ocol with
  | Some r, Some c => matrix_try_index m rows cols r c
  | _, _ => Ok None
  end)))))).

(* TensorRefMatrix::with_names over a MatrixRange source: Err(InvalidShapeError) unless the two
   names differ and neither length is 0 *)
Definition with_names (rows cols : N) (rr cr : index_range) (n0 n1 : nat) : outcome shape :=
  obind (ir_clip rr rows) (fun rr' => obind (ir_clip cr cols) (fun cr' =>
  let sh := [(n0, r_length rr'); (n1, r_length cr')] in
  if valid_shape_b sh then Ok sh else Err (sshape sh))).

(* Matrix::try_into_scalar *)
Definition try_into_scalar (rows cols : N) : outcome N :=
  if (rows =? 1) && (cols =? 1) then Ok 0 else Err (SL []).

End Api.
