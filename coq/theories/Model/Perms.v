(* Transcription of src/linear_algebra.rs::heaps_permutations threaded with the `even_swaps`
   toggle of with_each_permutation.  The state is (the list being permuted in place, (the calls
   of the consumer so far in order, the current value of even_swaps)).
     fn heaps_permutations(k, list, consumer) {
         if k == 1 { consumer(list); return; }
         for i in 0..k {
             heaps_permutations(k - 1, list, consumer);
             if i < k - 1 { if k % 2 == 0 { list.swap(i, k - 1) } else { list.swap(0, k - 1) } }
         } }
     with_each_permutation: even_swaps = true; consumer(permuted, even_swaps); even_swaps = !even_swaps
   Executable definitions only. *)
From Coq Require Import List Arith Bool.
Import ListNotations.

(* Vec::swap(i, j) *)
Definition swap (l : list nat) (i j : nat) : list nat :=
  let a := nth i l 0 in let b := nth j l 0 in
  map (fun k => if Nat.eqb k i then b else if Nat.eqb k j then a else nth k l 0) (seq 0 (length l)).

Definition heap_state : Type := (list nat * (list (list nat * bool) * bool))%type.

(* fuel bounds the recursion depth (k decreases by one per level) *)
Fixpoint heaps (fuel k : nat) (st : heap_state) : heap_state :=
  match fuel with
  | 0 => st
  | S fuel' =>
    if Nat.eqb k 1 then
      let '(l, (acc, ev)) := st in (l, (acc ++ [(l, ev)], negb ev))
    else
      fold_left (fun st i =>
        let st1 := heaps fuel' (k - 1) st in
        if Nat.ltb i (k - 1) then
          let '(l, r) := st1 in
          ((if Nat.even k then swap l i (k - 1) else swap l 0 (k - 1)), r)
        else st1) (seq 0 k) st
  end.

(* with_each_permutation(&mut (0..n).collect(), consumer): the consumer's arguments in call order *)
Definition heap_perms (n : nat) : list (list nat * bool) :=
  fst (snd (heaps (S n) n (seq 0 n, ([], true)))).
