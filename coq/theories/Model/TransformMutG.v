(* The MUTABLE TensorView methods over ANY TensorMut source (property C13, third extension wave).
     src/tensors/views.rs:1017  TensorView::map_mut
         self.iter_reference_mut().for_each(|x| *x = mapping_function(x.clone()))
     src/tensors/views.rs:1026  TensorView::map_mut_with_index
         self.iter_reference_mut().with_index().for_each(|(i, x)| *x = mapping_function(i, x.clone()))
     src/tensors/views.rs:984   TensorView::<_, _, 0>::scalar        source.get_reference([]).unwrap().clone()
     src/tensors/views.rs:1000  TensorView::<_, _, 0>::into_scalar   TensorOwnedIterator::from(source).next().unwrap()
   Model/Transform.v has these loops over the source TERMS of Model/TSource.v; here they are written
   once against the abstract mutable source face `tsource St A` of Model/IterG.v (view_shape,
   get_reference_unchecked, a write through get_reference_unchecked_mut) and the generic mutable
   iterator `gti_next` / `gti_with_index` / `gti_write`, so that the same transcription runs over
   every constructed view of the C02 algebra (`cview_source c` over leaf storage: TensorIndex,
   TensorExpansion, TensorStack, TensorChain, wrappers, matrix-backed leaves, any depth) reached
   through `TensorView::from(&mut source)` / an owned source.
   Executable definitions only; facts in Proofs/C13MutGenP.v. *)
From Coq Require Import List ZArith NArith Bool Arith.
From EasyML Require Import Base.Sx Model.Shape Model.Tensor Model.TSource Model.ShapeIter
  Model.Transform Model.TransformG Model.IterG.
From EasyML Require Model.Views.
Import ListNotations.
Open Scope N_scope.

Section MutG.
Context {St A : Type}.
Variable o : tsource St A.

(* iter_reference_mut().for_each(|x| *x = f(x.clone())): the item of the mutable iterator is the
   place (the reference) with the element found there; the closure writes through the place *)
Fixpoint gm_for_each (f : A -> A) (fuel : nat) (it : giter shape_iter St) : giter shape_iter St :=
  match fuel with
  | O => it
  | S fl => match gti_next o it with
            | (Some (place, Some v), it') => gm_for_each f fl (gti_write o it' place (f v))
            | (Some (_, None), it') => gm_for_each f fl it'
            | (None, it') => it'
            end
  end.

(* iter_reference_mut().with_index().for_each(|(i, x)| *x = f(i, x.clone())) *)
Fixpoint gm_for_each_wi (f : list N -> A -> A) (fuel : nat) (it : giter shape_iter St)
  : giter shape_iter St :=
  match fuel with
  | O => it
  | S fl => match gti_with_index (gti_next o) it with
            | (Some (i, (place, Some v)), it') => gm_for_each_wi f fl (gti_write o it' place (f i v))
            | (Some (_, (_, None)), it') => gm_for_each_wi f fl it'
            | (None, it') => it'
            end
  end.

Definition gm_fuel (s : St) : nat := S (N.to_nat (elements (ts_shape o s))).

(* TensorView::map_mut / map_mut_with_index: the state of the source afterwards *)
Definition gm_map_mut (f : A -> A) (s : St) : St :=
  gi_source (gm_for_each f (gm_fuel s) (gti_from o s)).
Definition gm_map_mut_with_index (f : list N -> A -> A) (s : St) : St :=
  gi_source (gm_for_each_wi f (gm_fuel s) (gti_from o s)).

(* the shared face of a mutable source in state s, as a TensorRef source *)
Definition gm_ref (s : St) : gsrc A := mkG (ts_shape o s) (ts_get o s).

(* TensorView::scalar (D = 0): source.get_reference([]).unwrap().clone() *)
Definition gm_scalar (s : St) : outcome A := of_option (ts_get o s []).

(* TensorView::into_scalar (D = 0): TensorOwnedIterator::from(source).next().unwrap() - the value
   moved out and the source left behind (the placeholder T::default() in the slot) *)
Definition gm_into_scalar (dflt : A) (s : St) : outcome A * St :=
  match gti_next_owned o dflt (gti_from o s) with
  | (Some (_, Some v), it') => (Ok v, gi_source it')
  | (_, it') => (Panic, gi_source it')
  end.

End MutG.

(* TensorView::scalar over a TensorRef source (D = 0) *)
Definition g_scalar {A} (g : gsrc A) : outcome A := of_option (gs_get g []).
