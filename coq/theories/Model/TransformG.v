(* Tensor transformations over ANY TensorRef source (property C13, session 3).
   The TensorView methods of src/tensors/views.rs and tensor_equality / tensor_similarity of
   src/tensors/operations.rs are generic in `S: TensorRef<T, D>`: they observe the source only
   through view_shape and get_reference(_unchecked), via TensorIterator / TensorReferenceIterator
   (`shape_iterator.next().map(|i| source.get_reference_unchecked(i))`) and TensorAccess.
   Model/Transform.v instantiates them for the source terms of Model/TSource.v; here the same
   transcriptions are written against an abstract source `gsrc` = (view_shape, get_reference), so
   that they also run over every view term of the C02 development (Model/Views.v: TensorIndex,
   TensorExpansion, TensorStack, TensorChain, wrappers, matrix-backed leaves, any depth).
   Executable definitions only. *)
From Coq Require Import List ZArith NArith Bool Arith.
From EasyML Require Import Base.Sx Model.Shape Model.Tensor Model.TSource Model.ShapeIter Model.Transform.
From EasyML Require Model.Views.
Import ListNotations.
Open Scope N_scope.

Section Generic.
Context {A : Type}.

Record gsrc : Type := mkG { gs_shape : shape; gs_get : list N -> option A }.

(* a source term of Model/TSource.v as an abstract source *)
Definition of_tsrc (s : tsrc A) : gsrc := mkG (src_shape s) (src_get s).

(* a constructed C02 view over leaf storage `store` (leaf id, offset) -> element *)
Definition of_cview (c : Views.cview) (store : N * N -> option A) : gsrc :=
  mkG (Views.c_shape c)
      (fun idx => match Views.c_get c idx with Some e => store e | None => None end).

(* Tensor(Reference)Iterator over the source, run to exhaustion: every index of the
   ShapeIterator (the odometer as written, Model/ShapeIter.v) with the element found there *)
Definition g_iter (g : gsrc) : list (list N * option A) :=
  map (fun idx => (idx, gs_get g idx)) (shape_iter_all (gs_shape g)).
(* source.iter().collect() *)
Definition g_iter_values (g : gsrc) : list A := somes (map snd (g_iter g)).
(* source.iter().with_index().collect() *)
Definition g_iter_indexed (g : gsrc) : list (list N * A) :=
  somes (map (fun x => option_map (fun v => (fst x, v)) (snd x)) (g_iter g)).

(* TensorAccess { source, dimension_mapping } as a source *)
Definition g_access (g : gsrc) (tbl : list (nat * nat)) : gsrc :=
  mkG (map_shape_to_requested tbl (gs_shape g))
      (fun idx => gs_get g (map_dimensions_to_source tbl idx 0)).

(* TensorView::reorder *)
Definition g_reorder (g : gsrc) (dims : list name) : outcome (tensor A) :=
  match dm_new (names_of (gs_shape g)) dims with
  | None => Panic
  | Some tbl => let acc := g_access g tbl in tensor_from (gs_shape acc) (g_iter_values acc)
  end.
(* TensorView::transpose *)
Definition g_transpose (g : gsrc) (dims : list name) : outcome (tensor A) :=
  omap (fun r => mkTensor (t_data r) (with_names_of (gs_shape g) (t_shape r)) (t_strides r))
       (g_reorder g dims).

Section Maps.
Context {B : Type}.
(* TensorView::map / map_with_index *)
Definition g_map (f : A -> B) (g : gsrc) : outcome (tensor B) :=
  tensor_from (gs_shape g) (map f (g_iter_values g)).
Definition g_map_with_index (f : list N -> A -> B) (g : gsrc) : outcome (tensor B) :=
  tensor_from (gs_shape g) (map (fun p => f (fst p) (snd p)) (g_iter_indexed g)).
End Maps.

(* TensorView::elementwise / elementwise_with_index *)
Definition g_elementwise (f : A -> A -> A) (l r : gsrc) : outcome (tensor A) :=
  if shape_eqb (gs_shape l) (gs_shape r)
  then tensor_from (gs_shape l)
         (map (fun p => f (fst p) (snd p)) (combine (g_iter_values l) (g_iter_values r)))
  else Panic.
Definition g_elementwise_with_index (f : list N -> A -> A -> A) (l r : gsrc) : outcome (tensor A) :=
  if shape_eqb (gs_shape l) (gs_shape r)
  then tensor_from (gs_shape l)
         (map (fun p => f (fst (fst p)) (snd (fst p)) (snd p))
              (combine (g_iter_indexed l) (g_iter_values r)))
  else Panic.

(* TensorView::first: self.iter().next().expect(..) *)
Definition g_first (g : gsrc) : outcome A :=
  match g_iter g with
  | (_, Some v) :: _ => Ok v
  | _ => Panic
  end.

Variable eqb : A -> A -> bool.

(* tensor_equality *)
Definition g_equality (l r : gsrc) : bool :=
  shape_eqb (gs_shape l) (gs_shape r)
  && forallb (fun p => eqb (fst p) (snd p)) (combine (g_iter_values l) (g_iter_values r)).

(* tensor_similarity *)
Definition g_similarity (l r : gsrc) : bool :=
  let left_shape := gs_shape l in
  let access_order := names_of left_shape in
  let left_access := g_access l (dm_no_op (length left_shape)) in
  match dm_new (names_of (gs_shape r)) access_order with
  | None => false
  | Some tbl =>
      let right_access := g_access r tbl in
      if negb (shape_eqb left_shape (gs_shape right_access)) then false
      else forallb (fun p => eqb (fst p) (snd p))
                   (combine (g_iter_values left_access) (g_iter_values right_access))
  end.

End Generic.
Arguments gsrc A : clear implicits.
