(* C18 model of formatted output, part 2 (wave 2): DERIVED `Debug` text and the `Display` of every
   error type.  Executable definitions only; theorems in Proofs/C18ErrTextP.v.

   1. std's Debug builders, as written in core::fmt::builders: a value's Debug output is described
      by a tree (`dbg`): an atom (integer, string literal, unit struct / unit variant name), a
      struct `Name { field: value, .. }` (Formatter::debug_struct), a tuple / tuple variant
      `Name(value, ..)` (debug_tuple; the name is empty for plain tuples, and a 1-tuple prints a
      trailing comma), a list `[value, ..]` (debug_list; arrays, slices, Vec).  `dbg_c` is the `{:?}`
      text; `dbg_p` the pretty `{:#?}` text: every field / entry on its own line, terminated by
      ",\n", written through a PadAdapter (`pad`), which puts four blanks at the start of every line.
   2. the trees that `#[derive(Debug)]` gives the crate's plain data types: shapes
      [(Dimension, usize); D], name arrays, tensors::views::IndexRange and matrices::views::IndexRange,
      DataLayout, Tensor { data, shape, strides }, Matrix { data, rows, columns }, WengertList
      { operations: RefCell { value: [Operation {..}, ..] } } and every error struct / enum.
   3. the Display of every error type, as written (file:line in the comments), from exact payloads.
      NOTE `fmt_err_access` (tensors/indexing.rs:196-203) passes its two arguments in the order
      (actual, requested) to a format string that labels the FIRST as the requested order and the
      SECOND as the shape in the source: modelled as written (see notes/C18_C20.md, candidate
      finding).
   4. Display of QRDecomposition, QRDecompositionTensor, LDLTDecompositionTensor and MatrixQuadrants.

   Fixed pieces of text (character codes below):
     t_invalid_shape          'Dimensions must all be at least length 1 with unique names: '
     t_dimnames               'Dimensions names '
     t_were_incorrect_valid   ' were incorrect, valid dimensions in this context are: '
     t_were_incorrect         ' were incorrect'
     t_requested_order        'Requested dimension order: '
     t_not_match_source       ' does not match the shape in the source: '
     t_indexrange_array       'IndexRange array '
     t_out_of_bounds_of_shape ' is out of bounds of shape '
     t_scalar_conv            'Matrix cannot be converted to a scalar because it is not 1x1'
     t_shape_sp               'Shape '
     t_not_match_size         ' does not match size of data '
     t_iter_empty             'Iterator was empty but all tensors and matrices must contain at least one element'
     t_first_hist_iter        'First history in iterator of records was '
     t_first_hist             'First history was '
     t_but_later              ' but a later history in iterator was '
     t_cannot_support         ', record container cannot support different histories for a single tensor or matrix.'
     t_cov_not_square         'Covariance matrix is not square: '
     t_mean_diff_len          'Mean vector has a different length '
     t_to_cov_size            ' to the covariance matrix size: '
     t_q                      'Q:\n'
     t_r                      'R:\n'
     t_top_left               'Top Left:\n'
     t_top_right              '\nTop Right:\n'
     t_bottom_left            '\nBottom Left:\n'
     t_bottom_right           '\nBottom Right:\n' *)
From Coq Require Import List NArith ZArith Bool Arith.
From EasyML Require Import Model.Format.
Import ListNotations.

Definition t_invalid_shape : text := [68;105;109;101;110;115;105;111;110;115;32;109;117;115;116;32;97;108;108;32;98;101;32;97;116;32;108;101;97;115;116;32;108;101;110;103;116;104;32;49;32;119;105;116;104;32;117;110;105;113;117;101;32;110;97;109;101;115;58;32]%N.
Definition t_dimnames : text := [68;105;109;101;110;115;105;111;110;115;32;110;97;109;101;115;32]%N.
Definition t_were_incorrect_valid : text := [32;119;101;114;101;32;105;110;99;111;114;114;101;99;116;44;32;118;97;108;105;100;32;100;105;109;101;110;115;105;111;110;115;32;105;110;32;116;104;105;115;32;99;111;110;116;101;120;116;32;97;114;101;58;32]%N.
Definition t_were_incorrect : text := [32;119;101;114;101;32;105;110;99;111;114;114;101;99;116]%N.
Definition t_requested_order : text := [82;101;113;117;101;115;116;101;100;32;100;105;109;101;110;115;105;111;110;32;111;114;100;101;114;58;32]%N.
Definition t_not_match_source : text := [32;100;111;101;115;32;110;111;116;32;109;97;116;99;104;32;116;104;101;32;115;104;97;112;101;32;105;110;32;116;104;101;32;115;111;117;114;99;101;58;32]%N.
Definition t_indexrange_array : text := [73;110;100;101;120;82;97;110;103;101;32;97;114;114;97;121;32]%N.
Definition t_out_of_bounds_of_shape : text := [32;105;115;32;111;117;116;32;111;102;32;98;111;117;110;100;115;32;111;102;32;115;104;97;112;101;32]%N.
Definition t_scalar_conv : text := [77;97;116;114;105;120;32;99;97;110;110;111;116;32;98;101;32;99;111;110;118;101;114;116;101;100;32;116;111;32;97;32;115;99;97;108;97;114;32;98;101;99;97;117;115;101;32;105;116;32;105;115;32;110;111;116;32;49;120;49]%N.
Definition t_shape_sp : text := [83;104;97;112;101;32]%N.
Definition t_not_match_size : text := [32;100;111;101;115;32;110;111;116;32;109;97;116;99;104;32;115;105;122;101;32;111;102;32;100;97;116;97;32]%N.
Definition t_iter_empty : text := [73;116;101;114;97;116;111;114;32;119;97;115;32;101;109;112;116;121;32;98;117;116;32;97;108;108;32;116;101;110;115;111;114;115;32;97;110;100;32;109;97;116;114;105;99;101;115;32;109;117;115;116;32;99;111;110;116;97;105;110;32;97;116;32;108;101;97;115;116;32;111;110;101;32;101;108;101;109;101;110;116]%N.
Definition t_first_hist_iter : text := [70;105;114;115;116;32;104;105;115;116;111;114;121;32;105;110;32;105;116;101;114;97;116;111;114;32;111;102;32;114;101;99;111;114;100;115;32;119;97;115;32]%N.
Definition t_first_hist : text := [70;105;114;115;116;32;104;105;115;116;111;114;121;32;119;97;115;32]%N.
Definition t_but_later : text := [32;98;117;116;32;97;32;108;97;116;101;114;32;104;105;115;116;111;114;121;32;105;110;32;105;116;101;114;97;116;111;114;32;119;97;115;32]%N.
Definition t_cannot_support : text := [44;32;114;101;99;111;114;100;32;99;111;110;116;97;105;110;101;114;32;99;97;110;110;111;116;32;115;117;112;112;111;114;116;32;100;105;102;102;101;114;101;110;116;32;104;105;115;116;111;114;105;101;115;32;102;111;114;32;97;32;115;105;110;103;108;101;32;116;101;110;115;111;114;32;111;114;32;109;97;116;114;105;120;46]%N.
Definition t_cov_not_square : text := [67;111;118;97;114;105;97;110;99;101;32;109;97;116;114;105;120;32;105;115;32;110;111;116;32;115;113;117;97;114;101;58;32]%N.
Definition t_mean_diff_len : text := [77;101;97;110;32;118;101;99;116;111;114;32;104;97;115;32;97;32;100;105;102;102;101;114;101;110;116;32;108;101;110;103;116;104;32]%N.
Definition t_to_cov_size : text := [32;116;111;32;116;104;101;32;99;111;118;97;114;105;97;110;99;101;32;109;97;116;114;105;120;32;115;105;122;101;58;32]%N.
Definition t_q : text := [81;58;10]%N.
Definition t_r : text := [82;58;10]%N.
Definition t_top_left : text := [84;111;112;32;76;101;102;116;58;10]%N.
Definition t_top_right : text := [10;84;111;112;32;82;105;103;104;116;58;10]%N.
Definition t_bottom_left : text := [10;66;111;116;116;111;109;32;76;101;102;116;58;10]%N.
Definition t_bottom_right : text := [10;66;111;116;116;111;109;32;82;105;103;104;116;58;10]%N.
Definition n_InvalidShapeError : text := [73;110;118;97;108;105;100;83;104;97;112;101;69;114;114;111;114]%N.
Definition n_shape : text := [115;104;97;112;101]%N.
Definition n_InvalidDimensionsError : text := [73;110;118;97;108;105;100;68;105;109;101;110;115;105;111;110;115;69;114;114;111;114]%N.
Definition n_valid : text := [118;97;108;105;100]%N.
Definition n_provided : text := [112;114;111;118;105;100;101;100]%N.
Definition n_actual : text := [97;99;116;117;97;108]%N.
Definition n_requested : text := [114;101;113;117;101;115;116;101;100]%N.
Definition n_InvalidShape : text := [73;110;118;97;108;105;100;83;104;97;112;101]%N.
Definition n_InvalidDimensions : text := [73;110;118;97;108;105;100;68;105;109;101;110;115;105;111;110;115]%N.
Definition n_OutsideShape : text := [79;117;116;115;105;100;101;83;104;97;112;101]%N.
Definition n_index_range : text := [105;110;100;101;120;95;114;97;110;103;101]%N.
Definition n_Error : text := [69;114;114;111;114]%N.
Definition n_IndexRange : text := [73;110;100;101;120;82;97;110;103;101]%N.
Definition n_start : text := [115;116;97;114;116]%N.
Definition n_length : text := [108;101;110;103;116;104]%N.
Definition n_Some : text := [83;111;109;101]%N.
Definition n_None : text := [78;111;110;101]%N.
Definition n_ScalarConversionError : text := [83;99;97;108;97;114;67;111;110;118;101;114;115;105;111;110;69;114;114;111;114]%N.
Definition n_Shape : text := [83;104;97;112;101]%N.
Definition n_Empty : text := [69;109;112;116;121]%N.
Definition n_InconsistentHistory : text := [73;110;99;111;110;115;105;115;116;101;110;116;72;105;115;116;111;114;121]%N.
Definition n_first : text := [102;105;114;115;116]%N.
Definition n_later : text := [108;97;116;101;114]%N.
Definition n_WengertList : text := [87;101;110;103;101;114;116;76;105;115;116]%N.
Definition n_operations : text := [111;112;101;114;97;116;105;111;110;115]%N.
Definition n_RefCell : text := [82;101;102;67;101;108;108]%N.
Definition n_value : text := [118;97;108;117;101]%N.
Definition n_Operation : text := [79;112;101;114;97;116;105;111;110]%N.
Definition n_left_parent : text := [108;101;102;116;95;112;97;114;101;110;116]%N.
Definition n_right_parent : text := [114;105;103;104;116;95;112;97;114;101;110;116]%N.
Definition n_left_derivative : text := [108;101;102;116;95;100;101;114;105;118;97;116;105;118;101]%N.
Definition n_right_derivative : text := [114;105;103;104;116;95;100;101;114;105;118;97;116;105;118;101]%N.
Definition n_NotCovarianceMatrix : text := [78;111;116;67;111;118;97;114;105;97;110;99;101;77;97;116;114;105;120]%N.
Definition n_MeanVectorWrongLength : text := [77;101;97;110;86;101;99;116;111;114;87;114;111;110;103;76;101;110;103;116;104]%N.
Definition n_mean : text := [109;101;97;110]%N.
Definition n_covariance : text := [99;111;118;97;114;105;97;110;99;101]%N.
Definition n_Tensor : text := [84;101;110;115;111;114]%N.
Definition n_data : text := [100;97;116;97]%N.
Definition n_strides : text := [115;116;114;105;100;101;115]%N.
Definition n_Matrix : text := [77;97;116;114;105;120]%N.
Definition n_rows : text := [114;111;119;115]%N.
Definition n_columns : text := [99;111;108;117;109;110;115]%N.
Definition n_Linear : text := [76;105;110;101;97;114]%N.
Definition n_NonLinear : text := [78;111;110;76;105;110;101;97;114]%N.
Definition n_Other : text := [79;116;104;101;114]%N.
Definition n_requested_f : text := [114;101;113;117;101;115;116;101;100]%N.

(* ---------------------------------------------------------------- std::fmt Debug builders *)
Inductive dbg :=
| DAtom (t : text)
| DStruct (name : text) (fields : list (text * dbg))
| DTuple (name : text) (items : list dbg)
| DList (items : list dbg).

(* `first` before the first item, `other` before every later one *)
Definition sep_items (first other : text) (items : list text) : text :=
  match items with
  | [] => []
  | x :: r => first ++ x ++ concat (map (fun y => other ++ y) r)
  end.

Definition is_nil {A} (l : list A) : bool := match l with [] => true | _ => false end.

(* PadAdapter::write_str: four blanks whenever the previous character ended a line *)
Fixpoint pad_go (on_newline : bool) (s : text) : text :=
  match s with
  | [] => []
  | c :: r => (if on_newline then [32; 32; 32; 32]%N else []) ++ c :: pad_go (N.eqb c 10) r
  end.
Definition pad (s : text) : text := pad_go true s.

(* {:?} *)
Fixpoint dbg_c (d : dbg) : text :=
  match d with
  | DAtom t => t
  | DStruct name fields =>
      name ++ sep_items [32; 123; 32]%N t_comma
                (map (fun nv => fst nv ++ [58; 32]%N ++ dbg_c (snd nv)) fields)
           ++ (if is_nil fields then [] else [32; 125]%N)
  | DTuple name items =>
      name ++ sep_items [40]%N t_comma (map dbg_c items)
           ++ (if is_nil items then []
               else (if is_nil name && Nat.eqb (length items) 1 then [44]%N else []) ++ [41]%N)
  | DList items => [91]%N ++ sep_items [] t_comma (map dbg_c items) ++ [93]%N
  end.

(* {:#?} *)
Fixpoint dbg_p (d : dbg) : text :=
  match d with
  | DAtom t => t
  | DStruct name fields =>
      name ++ (if is_nil fields then []
               else [32; 123; 10]%N
                    ++ concat (map (fun nv => pad (fst nv ++ [58; 32]%N ++ dbg_p (snd nv) ++ [44; 10]%N)) fields)
                    ++ [125]%N)
  | DTuple name items =>
      name ++ (if is_nil items then []
               else [40; 10]%N ++ concat (map (fun v => pad (dbg_p v ++ [44; 10]%N)) items) ++ [41]%N)
  | DList items =>
      [91]%N ++ (if is_nil items then []
                 else [10]%N ++ concat (map (fun v => pad (dbg_p v ++ [44; 10]%N)) items))
      ++ [93]%N
  end.

(* the three forms of the case language: 0 = Display (errors only), 1 = {:?}, 2 = {:#?} *)
Definition dbg_form (pretty : bool) (d : dbg) : text := if pretty then dbg_p d else dbg_c d.

(* ---------------------------------------------------------------- derived Debug trees *)
Definition d_nat (n : nat) : dbg := DAtom (dec_nat n).
Definition d_N (n : N) : dbg := DAtom (dec_N n).
Definition d_Z (z : Z) : dbg := DAtom (dec_Z z).
Definition d_name (n : nat) : dbg := DAtom (dbg_name n).
Definition d_names (ns : list nat) : dbg := DList (map d_name ns).
Definition d_shape (sh : list (nat * N)) : dbg :=
  DList (map (fun p => DTuple [] [d_name (fst p); d_N (snd p)]) sh).
Definition d_opt (o : option dbg) : dbg :=
  match o with None => DAtom n_None | Some d => DTuple n_Some [d] end.
(* IndexRange { start, length } (both the tensor and the matrix one) *)
Definition d_index_range (r : N * N) : dbg :=
  DStruct n_IndexRange [(n_start, d_N (fst r)); (n_length, d_N (snd r))].

(* tensors::InvalidShapeError { shape } *)
Definition d_invalid_shape (sh : list (nat * N)) : dbg :=
  DStruct n_InvalidShapeError [(n_shape, d_shape sh)].
(* tensors::InvalidDimensionsError { valid, provided }  (declaration order) *)
Definition d_invalid_dims (provided valid : list nat) : dbg :=
  DStruct n_InvalidDimensionsError [(n_valid, d_names valid); (n_provided, d_names provided)].
(* tensors::indexing::InvalidDimensionsError { actual, requested } *)
Definition d_invalid_access (actual : list (nat * N)) (requested : list nat) : dbg :=
  DStruct n_InvalidDimensionsError [(n_actual, d_shape actual); (n_requested, d_names requested)].

(* IndexRangeValidationError: InvalidShape(e) | InvalidDimensions(e) *)
Inductive irv_error :=
| IrvShape (sh : list (nat * N))
| IrvDims (provided valid : list nat).
Definition d_irv (e : irv_error) : dbg :=
  match e with
  | IrvShape sh => DTuple n_InvalidShape [d_invalid_shape sh]
  | IrvDims p v => DTuple n_InvalidDimensions [d_invalid_dims p v]
  end.

(* StrictIndexRangeValidationError: OutsideShape { shape, index_range } | Error(e) *)
Inductive strict_error :=
| StrictOutside (sh : list (nat * N)) (ranges : list (option (N * N)))
| StrictError (e : irv_error).
Definition d_strict (e : strict_error) : dbg :=
  match e with
  | StrictOutside sh rs =>
      DStruct n_OutsideShape
        [(n_shape, d_shape sh); (n_index_range, DList (map (fun r => d_opt (option_map d_index_range r)) rs))]
  | StrictError e => DTuple n_Error [d_irv e]
  end.

(* WengertList<i64> holding k variables: operations = RefCell { value: [Operation {..}; k] } with
   both parents = the entry's own index and both derivatives = 0 (append_nullary) *)
Definition d_tape (k : nat) : dbg :=
  DStruct n_WengertList
    [(n_operations,
      DStruct n_RefCell
        [(n_value, DList (map (fun i => DStruct n_Operation
                                          [(n_left_parent, d_nat i); (n_right_parent, d_nat i);
                                           (n_left_derivative, d_Z 0); (n_right_derivative, d_Z 0)])
                              (seq 0 k)))])].
Definition d_history (h : option nat) : dbg := d_opt (option_map d_tape h).

(* InvalidRecordIteratorError: Shape { requested, length } | Empty | InconsistentHistory(h) *)
Inductive rec_iter_error :=
| RieShape (sh : list (nat * N)) (len : N)
| RieEmpty
| RieHistory (first later : option nat).
Definition d_inconsistent (first later : option nat) : dbg :=
  DStruct n_InconsistentHistory [(n_first, d_history first); (n_later, d_history later)].
Definition d_rie (e : rec_iter_error) : dbg :=
  match e with
  | RieShape sh len => DStruct n_Shape [(n_requested, d_invalid_shape sh); (n_length, d_N len)]
  | RieEmpty => DAtom n_Empty
  | RieHistory f l => DTuple n_InconsistentHistory [d_inconsistent f l]
  end.

(* row-major strides of a shape (tensors/dimensions.rs compute_strides) *)
Fixpoint d_strides (lens : list N) : list N :=
  match lens with
  | [] => []
  | _ :: rest => fold_left N.mul rest 1%N :: d_strides rest
  end.
(* Tensor { data, shape, strides } *)
Definition d_tensor (sh : list (nat * N)) (data : list Z) : dbg :=
  DStruct n_Tensor [(n_data, DList (map d_Z data)); (n_shape, d_shape sh);
                    (n_strides, DList (map d_N (d_strides (map snd sh))))].
(* Matrix { data, rows, columns } *)
Definition d_matrix (rows cols : N) (data : list Z) : dbg :=
  DStruct n_Matrix [(n_data, DList (map d_Z data)); (n_rows, d_N rows); (n_columns, d_N cols)].

(* tensors::views::DataLayout: Linear([names]) | NonLinear | Other *)
Inductive layout_v := LayLinear (names : list nat) | LayNonLinear | LayOther.
Definition d_layout (l : layout_v) : dbg :=
  match l with
  | LayLinear ns => DTuple n_Linear [d_names ns]
  | LayNonLinear => DAtom n_NonLinear
  | LayOther => DAtom n_Other
  end.

(* MultivariateGaussianError<i64>: NotCovarianceMatrix { mean, covariance } | MeanVectorWrongLength { .. } *)
Record mvg_payload := { mg_wrong_length : bool;
                        mg_mean_shape : list (nat * N); mg_mean : list Z;
                        mg_cov_shape : list (nat * N); mg_cov : list Z }.
Definition d_mvg (e : mvg_payload) : dbg :=
  DStruct (if mg_wrong_length e then n_MeanVectorWrongLength else n_NotCovarianceMatrix)
    [(n_mean, d_tensor (mg_mean_shape e) (mg_mean e)); (n_covariance, d_tensor (mg_cov_shape e) (mg_cov e))].

(* ---------------------------------------------------------------- Display of the error types *)
(* tensors/mod.rs:134 *)
Definition fmt_err_shape (sh : list (nat * N)) : text := t_invalid_shape ++ dbg_c (d_shape sh).
(* tensors/mod.rs:194: `if P > 0 { .. provided .. valid } else { .. provided }` *)
Definition fmt_err_dims (provided valid : list nat) : text :=
  if Nat.ltb 0 (length provided)
  then t_dimnames ++ dbg_c (d_names provided) ++ t_were_incorrect_valid ++ dbg_c (d_names valid)
  else t_dimnames ++ dbg_c (d_names provided) ++ t_were_incorrect.
(* tensors/indexing.rs:196: write!(f, "Requested dimension order: {:?} does not match the shape in
   the source: {:?}", &self.actual, &self.requested) -- arguments in THIS order *)
Definition fmt_err_access (actual : list (nat * N)) (requested : list nat) : text :=
  t_requested_order ++ dbg_c (d_shape actual) ++ t_not_match_source ++ dbg_c (d_names requested).
(* tensors/views/ranges.rs:177: both arms `write!(f, "{:?}", error)` *)
Definition fmt_err_irv (e : irv_error) : text :=
  match e with
  | IrvShape sh => dbg_c (d_invalid_shape sh)
  | IrvDims p v => dbg_c (d_invalid_dims p v)
  end.
(* tensors/views/ranges.rs:214 *)
Definition fmt_err_strict (e : strict_error) : text :=
  match e with
  | StrictOutside sh rs =>
      t_indexrange_array ++ dbg_c (DList (map (fun r => d_opt (option_map d_index_range r)) rs))
      ++ t_out_of_bounds_of_shape ++ dbg_c (d_shape sh)
  | StrictError e => dbg_c (d_irv e)
  end.
(* matrices/errors.rs:12 *)
Definition fmt_err_scalar : text := t_scalar_conv.
(* differentiation/container_record/iterators.rs:402 *)
Definition fmt_err_rie (e : rec_iter_error) : text :=
  match e with
  | RieShape sh len => t_shape_sp ++ dbg_c (d_shape sh) ++ t_not_match_size ++ dec_N len
  | RieEmpty => t_iter_empty
  | RieHistory f l => t_first_hist_iter ++ dbg_c (d_history f) ++ t_but_later ++ dbg_c (d_history l)
                      ++ t_cannot_support
  end.
(* differentiation/container_record/iterators.rs:428 *)
Definition fmt_err_inconsistent (f l : option nat) : text :=
  t_first_hist ++ dbg_c (d_history f) ++ t_but_later ++ dbg_c (d_history l) ++ t_cannot_support.
(* distributions.rs:395 *)
Definition fmt_err_mvg (e : mvg_payload) : text :=
  if mg_wrong_length e
  then t_mean_diff_len ++ dbg_c (d_shape (mg_mean_shape e)) ++ t_to_cov_size ++ dbg_c (d_shape (mg_cov_shape e))
  else t_cov_not_square ++ dbg_c (d_tensor (mg_cov_shape e) (mg_cov e)).

(* ---------------------------------------------------------------- decompositions, quadrants *)
(* linear_algebra.rs:1324 QRDecomposition: writeln!("Q:\n{}", q); write!("R:\n{}", r) -- inner `{}`:
   the caller's precision is not forwarded *)
Definition fmt_qr {E} (re : option N -> E -> text) (_prec : option N)
           (qr qc : nat) (q : nat -> nat -> E) (rr rc : nat) (r : nat -> nat -> E) : text :=
  t_q ++ fmt_matrix re None qr qc q ++ t_nl ++ t_r ++ fmt_matrix re None rr rc r.
(* linear_algebra.rs:1430 / 1182: the tensor versions print two Tensor<T, 2> *)
Definition fmt_two_tensors {E} (re : option N -> E -> text) (_prec : option N) (h1 h2 : text)
           (sh1 : list (nat * nat)) (g1 : list nat -> E) (sh2 : list (nat * nat)) (g2 : list nat -> E) : option text :=
  match fmt_tensor re None sh1 g1, fmt_tensor re None sh2 g2 with
  | Some a, Some b => Some (h1 ++ a ++ t_nl ++ h2 ++ b)
  | _, _ => None
  end.
(* matrices/views/partitions.rs:139 *)
Definition fmt_quadrants {E} (re : option N -> E -> text) (_prec : option N) (tl tr bl br : text) : text :=
  t_top_left ++ tl ++ t_top_right ++ tr ++ t_bottom_left ++ bl ++ t_bottom_right ++ br ++ t_nl.
