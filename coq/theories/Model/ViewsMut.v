(* Mutating the SOURCE of a view through the public `source_ref_mut()` accessors
   (TensorReverse::source_ref_mut, TensorRename::source_ref_mut, TensorView::source_ref_mut) and
   then `Tensor::reshape_mut` on the tensor reached that way: the adaptors keep their stored
   fields (the `reversed` flags, the new names) and must answer every later call against the
   source as it is NOW.  Executable definitions only (used by Run/RunC02.v op 3; facts in
   Proofs/C02Mut.v). *)
From Coq Require Import List ZArith NArith Bool Arith.
From EasyML Require Import Base.Sx Model.Shape Model.Views.
Import ListNotations.
Open Scope N_scope.

(* the tensor reached by view.source_ref_mut().source_ref_mut()...: only rename and reversal
   expose source_ref_mut *)
Fixpoint mutable_leaf (c : cview) : option shape :=
  match c with
  | CTensor _ sh _ => Some sh
  | CRename c _ | CReverse c _ => mutable_leaf c
  | _ => None
  end.

(* the same view object after the leaf was reshaped: stored fields unchanged *)
Fixpoint c_reshape (c : cview) (sh' : shape) : cview :=
  match c with
  | CTensor id _ _ => CTensor id sh' (compute_strides sh')
  | CRename c ns => CRename (c_reshape c sh') ns
  | CReverse c rev => CReverse (c_reshape c sh') rev
  | other => other
  end.

(* Tensor::reshape_mut: validate_dimensions_or_panic(&shape, self.data.len()), then replace shape
   and strides.  None: not expressible (no source_ref_mut path / different dimensionality). *)
Definition reshape_mut (c : cview) (sh' : shape) : option (outcome cview) :=
  match mutable_leaf c with
  | Some sh =>
      if Nat.eqb (length sh') (length sh) then
        Some (if validate_dimensions sh' (elements sh) then Ok (c_reshape c sh') else Panic)
      else None
  | None => None
  end.
