(* The builder side of src/matrices/slices.rs: the combinator methods Slice::not / and / or
   (slices.rs:78-94), the two orders of the Slice2D builder (EmptySlice2DBuilder ->
   RowSlice2DBuilder / ColumnSlice2DBuilder -> Slice2D, slices.rs:160-200) and the sizing loop of
   retain_mut.  The enum itself and Slice::accepts / Slice2D::accepts are in Model/Matrix.v.
   Executable definitions only; the algebra laws are proved in Proofs/C11Slices.v.

   As the code is written today every combinator boxes its arguments into the enum variant of the
   same name.  They are nevertheless FUNCTIONS here (not the constructors), so that a builder
   which starts to "simplify" has a place to be transcribed to, and the laws of
   Proofs/C11Slices.v (accepts (a.or(b)) i = accepts a i || accepts b i, ...) are then proof
   obligations about that transcription. *)
From Coq Require Import List ZArith NArith Bool.
From EasyML Require Import Base.Sx Model.Matrix.
Import ListNotations.
Open Scope N_scope.

(* pub fn not(self) -> Slice { Slice::Not(Box::new(self)) } *)
Definition slice_not (s : slice) : slice := SNot s.
(* pub fn and(self, other: Slice) -> Slice { Slice::And(Box::new(self), Box::new(other)) } *)
Definition slice_and (s other : slice) : slice := SAnd s other.
(* pub fn or(self, other: Slice) -> Slice { Slice::Or(Box::new(self), Box::new(other)) } *)
Definition slice_or (s other : slice) : slice := SOr s other.

(* Slice2D::new().rows(r).columns(c)  and  Slice2D::new().columns(c).rows(r)
   (slices::new() is Slice2D::new()) *)
Definition slice2d_rows_then_columns (rows columns : slice) : slice2d :=
  mkSlice2D rows columns.
Definition slice2d_columns_then_rows (columns rows : slice) : slice2d :=
  mkSlice2D rows columns.

(* an expression written with the combinator methods instead of the enum variants: every
   Not / And / Or node of the tree is produced by the method of that name, the leaves directly *)
Fixpoint by_methods (s : slice) : slice :=
  match s with
  | SNot a => slice_not (by_methods a)
  | SAnd a b => slice_and (by_methods a) (by_methods b)
  | SOr a b => slice_or (by_methods a) (by_methods b)
  | atom => atom
  end.

(* NOT code of the crate: what a "simplifying" `or` of two ranges would have to compute (the
   law range_or_merge of Proofs/C11Slices.v) and the classic slip (the end of the later-starting
   range instead of the larger end).  Used by the laws / the refutation only. *)
Definition merged_range (a1 b1 a2 b2 : N) : slice :=
  if a1 <=? a2 then SRange a1 (N.max b1 b2) else SRange a2 (N.max b1 b2).
Definition merged_range_slip (a1 b1 a2 b2 : N) : slice :=
  if a1 <=? a2 then SRange a1 b2 else SRange a2 b1.
