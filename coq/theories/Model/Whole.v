(* A user-defined WHOLE-NUMBER element type (the BigInt wrapper of src/using_custom_types.rs):
   unbounded integers with division truncating toward zero.  It supplies every operation the
   Numeric trait asks for but is not a field: a / n and a * (1 / n) differ, so a generic routine
   evaluated on it must follow the documented formula in the documented order of operations.
   Division is total (x / 0 = 0, Coq's Z.quot; the harness type does the same).
   The same dictionary models plain i64 on inputs that do not overflow (the generator's duty).
   Executable definitions only. *)
From Coq Require Import List ZArith NArith QArith Bool.
From EasyML Require Import Base.Sx Model.Num.
Import ListNotations.
Open Scope Z_scope.

Definition wh_k (z : Z) : Z := z.

Definition Wholeops : numops Z := {|
  nzero := 0; none_ := 1;
  nadd := Z.add; nsub := Z.sub; nmul := Z.mul; ndiv := Z.quot; nneg := Z.opp;
  neqb := Z.eqb; nltb := Z.ltb; nleb := Z.leb;
  nsqrt := uf_sqrt Z.add Z.mul wh_k; nexp := uf_exp Z.add Z.mul wh_k;
  nln := uf_ln Z.add Z.mul wh_k; nsin := uf_sin Z.add Z.mul wh_k;
  ncos := uf_cos Z.add Z.mul wh_k; npow := uf_pow Z.add Z.mul wh_k; npi := 31415926;
  nof_N := fun n => Some (Z.of_N n);
  nenc := fun a => SZ a;
  ndec := fun s => match s with SZ z => Some z | SL _ => None end
|}.

(* ---------------- Pi for f32 / f64 (src/numeric.rs `impl Pi`) ----------------
   std::f32::consts::PI and std::f64::consts::PI as IEEE-754 bit patterns *)
Definition pi_bits_f32 : Z := 1078530011.              (* 0x40490FDB *)
Definition pi_bits_f64 : Z := 4614256656552045848.     (* 0x400921FB54442D18 *)

(* the rational denoted by the bit pattern of a positive normal binary float with `mant`
   explicit mantissa bits and exponent bias `bias` *)
Definition ieee_value (mant bias bits : Z) : Q :=
  let e := bits / 2 ^ mant in
  let m := bits mod 2 ^ mant in
  let sig := 2 ^ mant + m in
  let sh := e - bias - mant in
  if 0 <=? sh then inject_Z (sig * 2 ^ sh) else Qmake sig (Z.to_pos (2 ^ (- sh))).
