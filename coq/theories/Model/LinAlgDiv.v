(* Division-instrumented transcription of `inverse` / `inverse_less_generic`
   (src/linear_algebra.rs:79-243).  The SAME routines as Model/LinAlg.v (inverse_general,
   inverse_matrix, inverse_tensor, inverse_tensor2), with the two divisions of the source
        T::one() / element                (1 x 1 special case, lines 93 / 205)
        T::one() / det                    (general case, lines 102 / 214)
   made through a partial division `pd` (Model/DivOutcome.v) at the place where the source
   evaluates them: AFTER the `== T::zero()` test of the element / the determinant and BEFORE the
   cofactor loop.  A failing division is the outcome Panic.  The determinant routines and the
   minors contain no division (Model/LinAlg.v is used as it is).  Executable definitions only. *)
From Coq Require Import List Arith Bool.
From EasyML Require Import Base.Sx Model.Num Model.Perms Model.LinAlg Model.DivOutcome.
Import ListNotations.

Section LinAlgDiv.
Context {R : Type} (ops : numops R) (pd : R -> R -> option R).
Notation zero := (nzero ops).
Notation one := (none_ ops).
Notation mat := (@mat R).

Definition inverse_general_i (det : mat -> option R) (minor : mat -> nat -> nat -> option R)
           (m : mat) : outcome (option mat) :=
  match det m with
  | None => Ok None
  | Some d =>
      if neqb ops d zero then Ok None
      else obind (of_option (pd one d)) (fun determinant_reciprocal =>
           Ok (match cofactors ops minor m with
               | None => None
               | Some c =>
                   Some (map (map (fun element => nmul ops element determinant_reciprocal))
                             (transpose ops (mrows m) c))
               end))
  end.

(* inverse (Matrix) *)
Definition inverse_matrix_i (m : mat) : outcome (option mat) :=
  if negb (Nat.eqb (mrows m) (mcols m)) then Ok None
  else if Nat.eqb (mrows m) 1 then
    let element := mget ops m 0 0 in
    if neqb ops element zero then Ok None
    else obind (of_option (pd one element)) (fun q => Ok (Some [[q]]))
  else inverse_general_i (det_matrix ops) (minor_matrix ops) m.

(* inverse_less_generic *)
Definition inverse_tensor_i (m : mat) : outcome (option mat) :=
  if negb (is_square m) then Ok None
  else if Nat.eqb (mrows m) 1 then
    let element := mget ops m 0 0 in
    if neqb ops element zero then Ok None
    else obind (of_option (pd one element)) (fun q => Ok (Some [[q]]))
  else inverse_general_i (det_tensor ops) (minor_tensor ops) m.

Definition inverse_tensor2_i (t : tensor2) : outcome (option tensor2) :=
  omap (fun r => match r with
                 | None => None
                 | Some x => Some (mkT2 (t2_names t) x)
                 end) (inverse_tensor_i (t2_mat t)).
End LinAlgDiv.
