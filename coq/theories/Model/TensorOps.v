(* C10: Tensor<T, D> as a state machine over its safe mutators (src/tensors/mod.rs), so that
   "the representation invariant holds in every state any call sequence reaches, panicking
   calls included" can be stated for tensors the way Model/Matrix.v (C11) states it for matrices.
   Every operation is the transcription already used by C13 (Model/Transform.v: reshape_mut,
   rename, reorder_mut, transpose_mut, for_each_mut_wi) or C09 (Model/TSource.v: the adaptor
   constructors and TensorMut::get_reference_mut through an adaptor stack); this file only adds
   (i) what the tensor holds AFTER the call, also when the call panics, and (ii) user closures
   that panic on their (k+1)-th call.

     reshape_mut   validate_dimensions_or_panic BEFORE shape / strides are assigned
     rename        has_duplicates_names panic BEFORE the names are assigned
     reorder_mut   D == 2 && square: DimensionMappings::new or panic, then the swap loop through
                   get_reference(..).unwrap(), then shape / strides assigned; otherwise
                   *self = self.reorder(dimensions)   (panics before the assignment)
     transpose_mut reorder_mut, then the old names written back
     map_mut       for value in data.iter_mut() { *value = f(value.clone()) }: a panic of f
                   leaves the first k elements mapped
     map_mut_with_index   iter_reference_mut().with_index().for_each(..): likewise, in index order
     get_reference_mut(idx).map(|r| *r = v)          (absent index: nothing happens)
     a write through an adaptor stack built over &mut tensor (TensorReverse / Range / Access /
                   Transpose / Mask / Rename ::from in any order; a constructor may err / panic)

   Result code of a step: 0 done, 1 a constructor returned Err, 2 panicked, 3 index absent,
   4 the operation is not expressible for this tensor (array length <> D) and is skipped.
   Executable definitions only. *)
From Coq Require Import List ZArith NArith Bool Arith.
From EasyML Require Import Base.Sx Model.Shape Model.Tensor Model.TSource Model.ShapeIter
  Model.Transform.
Import ListNotations.
Open Scope N_scope.

Section TensorOps.
Context {A : Type}.

Inductive vstep : Type :=
| VRev (dims : list name)
| VRange (rg : list (N * N))
| VAccess (dims : list name)
| VTranspose (dims : list name)
| VMask (mk : list (N * N))
| VRename (dims : list name).

(* one adaptor constructor over the source built so far (arrays of the wrong length are not
   expressible: Panic, as in the shared term language of Model/TSource.v) *)
Definition apply_vstep (s : tsrc A) (v : vstep) : outcome (tsrc A) :=
  let D := length (src_shape s) in
  match v with
  | VRev dims => trev_from s dims
  | VRange rg => if Nat.eqb (length rg) D then trange_from_all s rg else Panic
  | VAccess dims => if Nat.eqb (length dims) D then taccess_from s dims else Panic
  | VTranspose dims => if Nat.eqb (length dims) D then ttranspose_from s dims else Panic
  | VMask mk => if Nat.eqb (length mk) D then tmask_from_all s mk else Panic
  | VRename dims => if Nat.eqb (length dims) D then trename_from s dims else Panic
  end.

Fixpoint apply_vsteps (s : tsrc A) (vs : list vstep) : outcome (tsrc A) :=
  match vs with
  | [] => Ok s
  | v :: r => obind (apply_vstep s v) (fun s' => apply_vsteps s' r)
  end.

Inductive top : Type :=
| TReshapeMut (sh : shape)
| TRenameMut (dims : list name)
| TTransposeMut (dims : list name)
| TReorderMut (dims : list name)
| TMapMut (f : A -> A) (k : nat)                       (* f panics on its (k+1)-th call *)
| TMapMutWithIndex (f : list N -> A -> A) (k : nat)
| TSet (idx : list N) (v : A)
| TWriteVia (vs : list vstep) (idx : list N) (v : A).

(* what `self` holds after a call with the given outcome: the new tensor, or — the panic /
   error having happened before anything was assigned — the old one *)
Definition settle (t : tensor A) (o : outcome (tensor A)) : tensor A * nat :=
  match o with
  | Ok t' => (t', 0%nat)
  | Err _ => (t, 1%nat)
  | Panic => (t, 2%nat)
  end.

Definition map_prefix (f : A -> A) (k : nat) (data : list A) : list A :=
  map f (firstn k data) ++ skipn k data.

Definition tstep (t : tensor A) (o : top) : tensor A * nat :=
  let D := length (t_shape t) in
  match o with
  | TReshapeMut sh =>
      if Nat.eqb (length sh) D then settle t (reshape_mut t sh) else (t, 4%nat)
  | TRenameMut dims =>
      if Nat.eqb (length dims) D then settle t (rename t dims) else (t, 4%nat)
  | TTransposeMut dims =>
      if Nat.eqb (length dims) D then settle t (transpose_mut t dims) else (t, 4%nat)
  | TReorderMut dims =>
      if Nat.eqb (length dims) D then settle t (reorder_mut t dims) else (t, 4%nat)
  | TMapMut f k =>
      (mkTensor (map_prefix f k (t_data t)) (t_shape t) (t_strides t),
       if Nat.ltb k (length (t_data t)) then 2%nat else 0%nat)
  | TMapMutWithIndex f k =>
      (src_base (ti_source (for_each_mut_wi f k (tensor_iter_from (TBase t)))),
       if N.of_nat k <? elements (t_shape t) then 2%nat else 0%nat)
  | TSet idx v =>
      if Nat.eqb (length idx) D then
        match t_set t idx v with
        | Some t' => (t', 0%nat)
        | None => (t, 3%nat)
        end
      else (t, 4%nat)
  | TWriteVia vs idx v =>
      if Nat.eqb (length idx) D then
        match apply_vsteps (TBase t) vs with
        | Ok s =>
            match src_set s idx v with
            | Some s' => (src_base s', 0%nat)
            | None => (t, 3%nat)
            end
        | Err _ => (t, 1%nat)
        | Panic => (t, 2%nat)
        end
      else (t, 4%nat)
  end.

(* the state and result code after every step of a history *)
Fixpoint ttrace (t : tensor A) (ops : list top) : list (tensor A * nat) :=
  match ops with
  | [] => []
  | o :: r => let st := tstep t o in st :: ttrace (fst st) r
  end.

Definition trun (t : tensor A) (ops : list top) : tensor A :=
  fold_left (fun t o => fst (tstep t o)) ops t.

End TensorOps.
Arguments top A : clear implicits.
