(* C17 — transcription of src/distributions.rs: Gaussian::probability / draw / generate_pair,
   MultivariateGaussian::new / draw, MultivariateGaussianTensor::new / draw, draw_tensor_samples,
   plus the routines of other files those call: cholesky_decomposition_tensor
   (src/linear_algebra.rs:1048, transcribed HERE independently of Model/Decomp.v — the lead
   unifies later) and the 2-dimensional tensor product / sum (src/tensors/operations.rs).
   Executable definitions only; specification and proofs live in Proofs/C17P.v.

   Data representation
     a source iterator  : list R, the numbers it will still yield, in order; every function that
                          reads from it returns the remaining list as second component
     a matrix / tensor  : list (list R), the list of rows
     dimension names    : nat (Model/Shape.v convention)
   Known finding K1: draw_tensor_samples with max_samples = 0 panics in the library (a tensor
   cannot have a 0-length dimension) although the API is Option-valued; the model returns None
   (the documented 0-row result is not representable). *)
From Coq Require Import List ZArith NArith Bool.
From EasyML Require Import Base.Sx Model.Num Model.Stats.
Import ListNotations.

Section Gaussian.
Context {R : Type} (ops : numops R).

Record gaussian : Type := mkGaussian { g_mean : R; g_variance : R }.

(* let two = T::one() + T::one(); *)
Definition two : R := nadd ops (none_ ops) (none_ ops).

(* ---- Gaussian::probability (src/distributions.rs:177) ----
     let standard_deviation = self.variance.clone().sqrt();
     let two = T::one() + T::one();
     let two_pi = &two * T::pi();
     let fraction = T::one() / (&standard_deviation * (&two_pi.sqrt()));
     let exponent = (-T::one() / &two) * ((x - &self.mean) / &standard_deviation).pow(&two);
     fraction * exponent.exp() *)
Definition probability (g : gaussian) (x : R) : R :=
  let standard_deviation := nsqrt ops (g_variance g) in
  let two_pi := nmul ops two (npi ops) in
  let fraction := ndiv ops (none_ ops) (nmul ops standard_deviation (nsqrt ops two_pi)) in
  let exponent :=
    nmul ops (ndiv ops (nneg ops (none_ ops)) two)
         (npow ops (ndiv ops (nsub ops x (g_mean g)) standard_deviation) two) in
  nmul ops fraction (nexp ops exponent).

(* ---- the body of the draw loop for one pair (u, v) (src/distributions.rs:219-228) ----
     let z1 = (&minus_two * u.clone().ln()).sqrt() * ((&two_pi * &v).cos());
     let z2 = (&minus_two * u.clone().ln()).sqrt() * ((&two_pi * &v).sin());
     let sample1 = (z1 * &standard_deviation) + &self.mean;
     let sample2 = (z2 * &standard_deviation) + &self.mean; *)
Definition box_muller (g : gaussian) (u v : R) : R * R :=
  let minus_two := nneg ops two in
  let two_pi := nmul ops two (npi ops) in
  let standard_deviation := nsqrt ops (g_variance g) in
  let z1 := nmul ops (nsqrt ops (nmul ops minus_two (nln ops u))) (ncos ops (nmul ops two_pi v)) in
  let z2 := nmul ops (nsqrt ops (nmul ops minus_two (nln ops u))) (nsin ops (nmul ops two_pi v)) in
  (nadd ops (nmul ops z1 standard_deviation) (g_mean g),
   nadd ops (nmul ops z2 standard_deviation) (g_mean g)).

(* ---- Gaussian::draw (src/distributions.rs:205) ----
     while samples.len() < max_samples {
         let (u, v) = self.generate_pair(source)?;      // Some((source.next()?, source.next()?))
         ...; samples.push(sample1); samples.push(sample2);
     }
     if samples.len() > max_samples { samples.pop(); return Some(samples); }
     Some(samples)
   A failing generate_pair has consumed whatever was left (zero or one number). *)
Fixpoint draw_loop (g : gaussian) (max_samples : N) (samples : list R) (source : list R)
  {struct source} : option (list R) * list R :=
  if (N.of_nat (length samples) <? max_samples)%N then
    match source with
    | [] => (None, [])
    | u :: t =>
        match t with
        | [] => (None, [])
        | v :: source' =>
            let s := box_muller g u v in
            draw_loop g max_samples (samples ++ [fst s; snd s]) source'
        end
    end
  else (Some samples, source).

Definition draw (g : gaussian) (source : list R) (max_samples : N) : option (list R) * list R :=
  match draw_loop g max_samples [] source with
  | (Some samples, rest) =>
      if (max_samples <? N.of_nat (length samples))%N then (Some (removelast samples), rest)
      else (Some samples, rest)
  | (None, rest) => (None, rest)
  end.

(* ---- cholesky_decomposition_tensor (src/linear_algebra.rs:1048) ----
     if !is_square(&shape) { return None; }
     for i in 0..n { for j in 0..=i {
         let sum = { let mut sum = T::zero();
                     for k in 0..j { sum = &sum + (L[i,k] * L[j,k]); } sum };
         L[i,j] = if i == j {
             let entry_squared = A[i,j] - sum;
             if entry_squared <= T::zero() { return None; }
             entry_squared.sqrt()
         } else { (A[i,j] - sum) * (T::one() / L[j,j]) };
     } }
   `rows` are the finished rows 0..i-1 (each padded with zeros to length n, as in the zero
   initialised tensor), `rowi` the entries 0..j-1 of the row being computed. *)
Definition mentry (m : list (list R)) (i j : nat) : R := nth j (nth i m []) (nzero ops).

Definition chol_sum (rowi rowj : list R) (j : nat) : R :=
  fold_left (fun sum k => nadd ops sum (nmul ops (nth k rowi (nzero ops)) (nth k rowj (nzero ops))))
            (seq 0 j) (nzero ops).

Fixpoint chol_row (a rows : list (list R)) (i : nat) (js : list nat) (rowi : list R)
  : option (list R) :=
  match js with
  | [] => Some rowi
  | j :: js' =>
      let rowj := if Nat.eqb i j then rowi else nth j rows [] in
      let sum := chol_sum rowi rowj j in
      if Nat.eqb i j then
        let entry_squared := nsub ops (mentry a i j) sum in
        if nleb ops entry_squared (nzero ops) then None
        else chol_row a rows i js' (rowi ++ [nsqrt ops entry_squared])
      else
        chol_row a rows i js'
          (rowi ++ [nmul ops (nsub ops (mentry a i j) sum)
                         (ndiv ops (none_ ops) (nth j rowj (nzero ops)))])
  end.

Fixpoint chol_rows (a : list (list R)) (n : nat) (is_ : list nat) (rows : list (list R))
  : option (list (list R)) :=
  match is_ with
  | [] => Some rows
  | i :: is' =>
      match chol_row a rows i (seq 0 (S i)) [] with
      | None => None
      | Some r => chol_rows a n is' (rows ++ [r ++ repeat (nzero ops) (n - length r)])
      end
  end.

Definition cholesky (a : list (list R)) : option (list (list R)) :=
  let n := length a in
  if Nat.eqb n (length (hd [] a)) then chol_rows a n (seq 0 n) [] else None.

(* ---- tensor_view_matrix_product with a column vector on the right, and the element-wise sum
   (src/tensors/operations.rs:378-466): each entry is
   scalar_product = zip.map(|(x, y)| x * y).reduce(|x, y| x + y).unwrap() *)
Definition scalar_product (xs ys : list R) : R :=
  match map (fun xy => nmul ops (fst xy) (snd xy)) (combine xs ys) with
  | [] => nzero ops        (* not reached: lengths are at least 1 *)
  | p :: ps => fold_left (nadd ops) ps p
  end.
Definition mat_vec (l : list (list R)) (z : list R) : list R := map (fun row => scalar_product row z) l.
Definition vec_add (xs ys : list R) : list R := map (fun xy => nadd ops (fst xy) (snd xy)) (combine xs ys).

(* ---- draw_tensor_samples (src/distributions.rs:485) ----
     if samples == features { return None; }
     let normal_distribution = Gaussian::new(T::zero(), T::one());
     let mut lower_triangular = cholesky_decomposition(&covariance)?;
     let number_of_features = mean.shape()[0].1;
     let mut drawn_samples = Tensor::empty([(samples, max_samples), (features, number_of_features)], ..);
                                               // K1: panics for max_samples = 0; modelled as None
     for _sample_row in 0..number_of_samples {
         let standard_normals = normal_distribution.draw(source, number_of_features)?;
         let random_vector = &column_vector_mean + (&lower_triangular * standard_normals);
         ... write the row ...
     }
     Some(drawn_samples) *)
Definition standard_normal : gaussian := mkGaussian (nzero ops) (none_ ops).

Fixpoint draw_rows (mean : list R) (l : list (list R)) (rows_left : nat) (source : list R)
         (acc : list (list R)) : option (list (list R)) * list R :=
  match rows_left with
  | O => (Some acc, source)
  | S k =>
      match draw standard_normal source (N.of_nat (length mean)) with
      | (None, rest) => (None, rest)
      | (Some standard_normals, rest) =>
          draw_rows mean l k rest (acc ++ [vec_add mean (mat_vec l standard_normals)])
      end
  end.

Definition draw_tensor_samples (mean : list R) (covariance : list (list R)) (source : list R)
           (max_samples : N) (samples features : nat)
  : option ((nat * N) * (nat * N) * list (list R)) * list R :=
  if Nat.eqb samples features then (None, source) else
  match cholesky covariance with
  | None => (None, source)
  | Some lower_triangular =>
      if (max_samples =? 0)%N then (None, source)      (* K1 *)
      else
        match draw_rows mean lower_triangular (N.to_nat max_samples) source [] with
        | (Some rows, rest) =>
            (Some ((samples, max_samples), (features, N.of_nat (length mean)), rows), rest)
        | (None, rest) => (None, rest)
        end
  end.

(* ---- MultivariateGaussianTensor::new (src/distributions.rs:433): Err 0 = NotCovarianceMatrix,
   Err 1 = MeanVectorWrongLength; the validated value is the pair (mean, covariance) ---- *)
Definition mvt_new (mean : list R) (covariance : list (list R)) : outcome (list R * list (list R)) :=
  if negb (Nat.eqb (length covariance) (length (hd [] covariance))) then Err (SZ 0)
  else if negb (Nat.eqb (length mean) (length covariance)) then Err (SZ 1)
  else Ok (mean, covariance).

Definition mvt_draw (g : list R * list (list R)) (source : list R) (max_samples : N)
           (samples features : nat) :=
  draw_tensor_samples (fst g) (snd g) source max_samples samples features.

(* ---- MultivariateGaussian::new (src/distributions.rs:284): the mean is an r x c matrix that
   must be a column vector; three assertions ---- *)
Definition mv_new (mean : list (list R)) (covariance : list (list R))
  : outcome (list (list R) * list (list R)) :=
  if negb (Nat.eqb (length (hd [] mean)) 1) then Panic
  else if negb (Nat.eqb (length covariance) (length (hd [] covariance))) then Panic
  else if negb (Nat.eqb (length mean) (length covariance)) then Panic
  else Ok (mean, covariance).

(* MultivariateGaussian::draw (src/distributions.rs:346): the sole column of the mean, the fixed
   names "samples" / "features" (any two distinct names), then Tensor::into_matrix *)
Definition name_samples : nat := 0.
Definition name_features : nat := 1.
Definition mv_draw (g : list (list R) * list (list R)) (source : list R) (max_samples : N)
  : option (list (list R)) * list R :=
  let mean := map (fun row => nth 0 row (nzero ops)) (fst g) in
  match draw_tensor_samples mean (snd g) source max_samples name_samples name_features with
  | (Some t, rest) => (Some (snd t), rest)
  | (None, rest) => (None, rest)
  end.

(* ---- Gaussian::approximating (src/distributions.rs:151) ----
     let mut copy: Vec<T> = data.collect();
     Gaussian { mean: linear_algebra::mean(copy.iter().cloned()),
                variance: linear_algebra::variance(copy.drain(..)) }
   (linear_algebra::mean / variance: Model/Stats.v; both panic on empty data) *)
Definition approximating (data : list R) : outcome gaussian :=
  obind (mean ops data) (fun m => omap (fun v => mkGaussian m v) (variance ops data)).

End Gaussian.
