(* Transcription of the determinant / inverse routines of src/linear_algebra.rs, both routes:
     Matrix route:  determinant, minor / minor_mut (remove_row, remove_column), inverse
     Tensor route:  determinant_less_generic (used for Tensor, &Tensor, every TensorView source),
                    minor_tensor (TensorMask hiding row i and column j), inverse_less_generic
   A matrix / the content of a 2-D tensor or tensor view is a list of rows.  Sizes are `nat`
   (the routines are factorial-time: sizes are tiny).  The Leibniz sum is the fold
        sum = sum + signature * product        (product = product * element, row by row)
   over Model/Perms.heap_perms in generation order.  Executable definitions only. *)
From Coq Require Import List Arith Bool.
From EasyML Require Import Base.Sx Model.Num Model.Perms.
Import ListNotations.

Definition del {A} (i : nat) (s : list A) : list A := firstn i s ++ skipn (S i) s.

Fixpoint traverse {A B} (f : A -> option B) (l : list A) : option (list B) :=
  match l with
  | [] => Some []
  | a :: r => match f a with
              | None => None
              | Some b => match traverse f r with None => None | Some r' => Some (b :: r') end
              end
  end.

Section LinAlg.
Context {R : Type} (ops : numops R).
Notation zero := (nzero ops).
Notation one := (none_ ops).

Definition mat : Type := list (list R).
Definition mrows (m : mat) : nat := length m.
Definition mcols (m : mat) : nat := length (hd [] m).
Definition mget (m : mat) (i j : nat) : R := nth j (nth i m []) zero.
Definition is_square (m : mat) : bool := Nat.eqb (mrows m) (mcols m).

(* Matrix::remove_row / remove_column ; TensorMask over [(rows, i..i+1), (columns, j..j+1)] *)
Definition remove_row (i : nat) (m : mat) : mat := del i m.
Definition remove_column (j : nat) (m : mat) : mat := map (del j) m.
Definition mask (i j : nat) (m : mat) : mat := map (del j) (del i m).

(* +1 for an even number of swaps, otherwise 0 - 1 *)
Definition signature (even_swap : bool) : R := if even_swap then one else nsub ops zero one.

(* for (n, i) in permutation.iter().enumerate() { product = product * matrix[n, i] } *)
Definition product (m : mat) (p : list nat) : R :=
  fold_left (fun prod ni => nmul ops prod (mget m (fst ni) (snd ni)))
            (combine (seq 0 (length p)) p) one.

Definition leibniz_fold (m : mat) (n : nat) : R :=
  fold_left (fun sum pe => nadd ops sum (nmul ops (signature (snd pe)) (product m (fst pe))))
            (heap_perms n) zero.

(* determinant_less_generic *)
Definition det_tensor (m : mat) : option R :=
  if negb (is_square m) then None
  else let length := mrows m in
       if Nat.eqb length 0 then None
       else if Nat.eqb length 1 then Some (mget m 0 0)
       else Some (leibniz_fold m length).

(* determinant (Matrix) : its own early returns, then the tensor routine through TensorRefMatrix *)
Definition det_matrix (m : mat) : option R :=
  if negb (Nat.eqb (mrows m) (mcols m)) then None
  else match mrows m with
       | 0 => None
       | 1 => Some (mget m 0 0)
       | _ => det_tensor m
       end.

(* minor / minor_mut *)
Definition minor_matrix (m : mat) (i j : nat) : option R :=
  if Nat.eqb (mrows m) 1 || Nat.eqb (mcols m) 1 then None
  else if negb (Nat.eqb (mrows m) (mcols m)) then None
  else det_matrix (remove_column j (remove_row i m)).

(* minor_tensor *)
Definition minor_tensor (m : mat) (i j : nat) : option R :=
  if Nat.eqb (mrows m) 1 || Nat.eqb (mcols m) 1 then None
  else if negb (is_square m) then None
  else det_tensor (mask i j m).

(* i8::pow(-1, (i % 2 + j % 2)) == 1 ? one : zero - one *)
Definition cofactor_sign (i j : nat) : R :=
  if Nat.even (i mod 2 + j mod 2) then one else nsub ops zero one.

Definition transpose (n : nat) (m : mat) : mat :=
  map (fun i => map (fun j => mget m j i) (seq 0 n)) (seq 0 n).

(* the cofactor loop, row-major, leaving with None at the first absent minor (`?`) *)
Definition cofactors (minor : mat -> nat -> nat -> option R) (m : mat) : option mat :=
  traverse (fun i =>
    traverse (fun j =>
      match minor m i j with
      | None => None
      | Some ij_minor => Some (nmul ops (cofactor_sign i j) ij_minor)
      end) (seq 0 (mcols m))) (seq 0 (mrows m)).

Definition inverse_general (det : mat -> option R) (minor : mat -> nat -> nat -> option R)
           (m : mat) : option mat :=
  match det m with
  | None => None
  | Some d =>
      if neqb ops d zero then None
      else let determinant_reciprocal := ndiv ops one d in
           match cofactors minor m with
           | None => None
           | Some c =>
               Some (map (map (fun element => nmul ops element determinant_reciprocal))
                         (transpose (mrows m) c))
           end
  end.

(* inverse (Matrix) *)
Definition inverse_matrix (m : mat) : option mat :=
  if negb (Nat.eqb (mrows m) (mcols m)) then None
  else if Nat.eqb (mrows m) 1 then
    let element := mget m 0 0 in
    if neqb ops element zero then None else Some [[ndiv ops one element]]
  else inverse_general det_matrix minor_matrix m.

(* inverse_less_generic: the result tensor is created with the input's shape (names included),
   transposed in place keeping the order of the names *)
Definition inverse_tensor (m : mat) : option mat :=
  if negb (is_square m) then None
  else if Nat.eqb (mrows m) 1 then
    let element := mget m 0 0 in
    if neqb ops element zero then None else Some [[ndiv ops one element]]
  else inverse_general det_tensor minor_tensor m.

(* a named 2-D tensor: dimension names and content *)
Record tensor2 : Type := mkT2 { t2_names : nat * nat; t2_mat : mat }.
Definition t2_shape (t : tensor2) : list (nat * nat) :=
  [(fst (t2_names t), mrows (t2_mat t)); (snd (t2_names t), mcols (t2_mat t))].
Definition determinant_tensor2 (t : tensor2) : option R := det_tensor (t2_mat t).
Definition inverse_tensor2 (t : tensor2) : option tensor2 :=
  match inverse_tensor (t2_mat t) with
  | None => None
  | Some x => Some (mkT2 (t2_names t) x)
  end.
End LinAlg.
