(* Programs of Iterator::nth calls (property C09, second extension wave).
   `nth`, `skip`, `step_by` ... are PROVIDED methods of std::iter::Iterator, defined through next():
        fn nth(&mut self, n: usize) -> Option<Self::Item> { self.advance_by(n).ok()?; self.next() }
        advance_by(n): calls next() up to n times and stops at the first None
   None of the crate's iterators overrides them, so for every iterator of the crate a call of
   nth(n) IS this function of its next().  An override (e.g. a constant-time skip for
   ShapeIterator) has to be observationally the same function, including what it leaves behind
   when it runs past the end: an exhausted iterator.  `drive_prog` runs a program of nth(n) calls
   (n = 0 is next()) and records, like `drive`, the item and the exact length reported after
   each call.  Executable definitions only; facts in Proofs/C09ProgP.v. *)
From Coq Require Import List ZArith NArith Bool Arith.
From EasyML Require Import Base.Sx Model.ShapeIter.
Import ListNotations.
Open Scope N_scope.

Section Prog.
Context {St I : Type}.
Variable next : St -> option I * St.
Variable len : St -> N.

(* Iterator::advance_by(n): true = all n steps were taken *)
Fixpoint advance (n : nat) (s : St) : bool * St :=
  match n with
  | O => (true, s)
  | S n' => match next s with
            | (Some _, s') => advance n' s'
            | (None, s') => (false, s')
            end
  end.

(* the provided Iterator::nth *)
Definition nth_default (n : nat) (s : St) : option I * St :=
  let '(fine, s') := advance n s in
  if fine then next s' else (None, s').

Fixpoint drive_prog (prog : list nat) (s : St) : list (option I * N) * St :=
  match prog with
  | [] => ([], s)
  | n :: rest =>
      let '(x, s') := nth_default n s in
      let '(out, s'') := drive_prog rest s' in
      ((x, len s') :: out, s'')
  end.

(* ---- scripts over the provided methods of Iterator that a type may override ----
     PNth n        it.nth(n)                                   -> item, length after
     PSkip n       it.by_ref().skip(n).next()                  -> item, length after
                   (Skip::next: `self.iter.nth(n)` on the first call when n > 0, else next())
     PStepBy k j   it.by_ref().step_by(k).take(j).collect()    -> items, length after
                   (StepBy::next: next() for the first item, then nth(k - 1); collect stops at the
                    first None; Take yields nothing and calls nothing once j items were asked for)
     PTake j       it.by_ref().take(j).collect()               -> items, length after
     PCount        it.count()      PLast  it.last()     PFold  it.fold(vec, push)   (terminal: the
                   iterator is consumed; count / last / fold call next() until the first None) *)
Inductive pstep : Type :=
| PNth (n : nat) | PSkip (n : nat) | PStepBy (k j : nat) | PTake (j : nat) | PCount | PLast | PFold.

Inductive pout : Type :=
| OItem (x : option I) (l : N)
| OItems (tag : nat) (xs : list I) (l : N)
| OCount (c : nat)
| OLast (x : option I)
| OFold (xs : list I).

(* up to j calls of f, stopping at the first None *)
Fixpoint collect_upto (f : St -> option I * St) (j : nat) (s : St) : list I * St :=
  match j with
  | O => ([], s)
  | S j' => match f s with
            | (Some x, s') => let '(xs, s'') := collect_upto f j' s' in (x :: xs, s'')
            | (None, s') => ([], s')
            end
  end.

(* next() until the first None; `fuel` bounds the loop (len + 2 calls are more than enough for an
   iterator that honours its exact length) *)
Definition drain (s : St) : list I * St := collect_upto next (S (S (N.to_nat (len s)))) s.

Definition step_by_collect (k j : nat) (s : St) : list I * St :=
  match j with
  | O => ([], s)
  | S j' => match next s with
            | (Some x, s') => let '(xs, s'') := collect_upto (nth_default (k - 1)) j' s' in (x :: xs, s'')
            | (None, s') => ([], s')
            end
  end.

Fixpoint run_script (script : list pstep) (s : St) : list pout * St :=
  match script with
  | [] => ([], s)
  | PNth n :: rest | PSkip n :: rest =>
      let '(x, s') := nth_default n s in
      let '(out, s'') := run_script rest s' in (OItem x (len s') :: out, s'')
  | PStepBy k j :: rest =>
      let '(xs, s') := step_by_collect k j s in
      let '(out, s'') := run_script rest s' in (OItems 7 xs (len s') :: out, s'')
  | PTake j :: rest =>
      let '(xs, s') := collect_upto next j s in
      let '(out, s'') := run_script rest s' in (OItems 8 xs (len s') :: out, s'')
  | PCount :: _ => let '(xs, s') := drain s in ([OCount (length xs)], s')
  | PLast :: _ => let '(xs, s') := drain s in ([OLast (last (map Some xs) None)], s')
  | PFold :: _ => let '(xs, s') := drain s in ([OFold xs], s')
  end.

(* the items handed to the caller, in order (count hands out none, last only the last one) *)
Definition pout_items (o : pout) : list I :=
  match o with
  | OItem (Some x) _ => [x]
  | OItem None _ => []
  | OItems _ xs _ => xs
  | OCount _ => []
  | OLast (Some x) => [x]
  | OLast None => []
  | OFold xs => xs
  end.

(* k calls of next(), or a program of nth calls *)
Definition gdrive (prog : option (list nat)) (k : nat) (s : St) : list (option I * N) * St :=
  match prog with
  | Some p => drive_prog p s
  | None => drive next len k s
  end.

End Prog.
Arguments pout : clear implicits.

(* the call numbers (0-based, counted in next() calls of an iterator that never ends early) at
   which the items of a program are read: nth(n) skips n and reads the next one *)
Fixpoint positions (prog : list nat) (p : nat) : list nat :=
  match prog with
  | [] => []
  | n :: rest => (p + n)%nat :: positions rest (p + n + 1)%nat
  end.
