(* C18 model of FORMATTED OUTPUT: the text that the crate's Display implementations produce, as a
   list of character codes (`text := list N`; strings travel through the s-expression protocol as
   lists of integers).  Executable definitions only; theorems in Proofs/C18FormatP.v.

   Transcribed, loop by loop and in the code's order of writes:
   * matrices/views.rs:855 format_view (behind Display for Matrix, matrices/mod.rs:1533, and for
     MatrixView, matrices/views.rs:899): "[ ", every row after the first indented by two blanks,
     ", " after every column but the last, a newline after every row but the last, " ]"; each
     element rendered with the caller's precision when there is one ({:.*}), else with {}.
   * tensors/display.rs:5 format_view (behind Display for Tensor, TensorView, and the first part
     of Display for TensorAccess / TensorTranspose): header "D = <D>", a newline when D > 0, the
     shape as ("name", len) pairs separated by ", ", a newline, then the D = 0 / 1 / 2 / 3 layouts.
     The D >= 4 arm (wave 2): fmt_general -- driven, like the code, by the row-major enumeration of
     ALL indexes (TensorAccess::from_source_order(view).iter_reference().with_index()); per element
     the indent when the column is 0, the element, ", " unless it is the last column, a newline
     at the end of a non-final row, and at the end of a block (unless the index is the last one) a
     newline plus one newline for every dimension n-2, n-3, .., 1 that is at its end, stopping at
     the first that is not.  Proofs/C18FormatGP.v proves it equal to the layout defined by
     RECURSION ON THE DIMENSIONALITY (blocks of k dimensions are joined by k-1 newlines).
   * tensors/indexing.rs:654 Display for TensorAccess: format_view, newline, "Data Layout = " and
     the Debug text of the access' data layout (for an access over a Tensor: Linear([names in the
     TENSOR's order])).
   * differentiation/record_operations.rs:50 and trace_operations.rs:46: a Record / Trace is
     displayed as `write!(f, "{}", self.number)` -- the caller's precision is NOT forwarded.
   * differentiation/container_record/container_operations.rs:23,43: a RecordMatrix /
     RecordTensor is displayed as `write!(f, "{}", view of the numbers)` -- precision not forwarded.
   * linear_algebra.rs:1113 Display for LDLTDecomposition: "L:\n{}\nD:\n{}" -- precision not forwarded.

   Element renderers (`re prec v`): the element type's own Display.  Two exact element types are
   used by the correspondence: i64 (std ignores a precision for integers: decimal digits with a
   leading '-') and the harness-local `Tok(i64)` whose Display writes "<v>" without and
   "<v>p<k>" with a precision k -- which makes the precision that reaches EACH element visible. *)
From Coq Require Import List NArith ZArith Bool Arith.
Import ListNotations.

Definition text := list N.

(* ---------------------------------------------------------------- decimal numerals *)
Fixpoint pos_fuel (p : positive) : nat :=
  match p with xH => 1 | xO q => S (pos_fuel q) | xI q => S (pos_fuel q) end.
Definition n_fuel (n : N) : nat := match n with N0 => 1 | Npos p => pos_fuel p end.

Fixpoint dec_fuel (f : nat) (n : N) (acc : text) : text :=
  match f with
  | O => acc
  | S f' => if N.ltb n 10 then (48 + n)%N :: acc
            else dec_fuel f' (n / 10)%N ((48 + n mod 10)%N :: acc)
  end.
Definition dec_N (n : N) : text := dec_fuel (n_fuel n) n [].
Definition dec_nat (n : nat) : text := dec_N (N.of_nat n).
Definition dec_Z (z : Z) : text :=
  match z with Zneg p => 45%N :: dec_N (Npos p) | _ => dec_N (Z.to_N z) end.

(* the two exact element types of the correspondence *)
Inductive elty := ElInt | ElTok.
Definition render (e : elty) (prec : option N) (v : Z) : text :=
  match e, prec with
  | ElTok, Some k => dec_Z v ++ [112%N] ++ dec_N k          (* "<v>p<k>" *)
  | _, _ => dec_Z v
  end.

(* ---------------------------------------------------------------- fixed pieces of text *)
Definition t_open : text := [91; 32]%N.          (* "[ " *)
Definition t_close : text := [32; 93]%N.         (* " ]" *)
Definition t_comma : text := [44; 32]%N.         (* ", " *)
Definition t_indent : text := [32; 32]%N.        (* "  " *)
Definition t_nl : text := [10]%N.                (* "\n" *)
Definition t_d_eq : text := [68; 32; 61; 32]%N.  (* "D = " *)
Definition t_l : text := [76; 58; 10]%N.         (* "L:\n" *)
Definition t_d : text := [68; 58; 10]%N.         (* "D:\n" *)
Definition t_layout : text := [68;97;116;97;32;76;97;121;111;117;116;32;61;32]%N.   (* "Data Layout = " *)
Definition t_linear : text := [76;105;110;101;97;114;40]%N.                          (* "Linear(" *)

(* Debug text of a dimension name: the harness names dimension n "d<n>" *)
Definition dbg_name (n : nat) : text := [34; 100]%N ++ dec_nat n ++ [34]%N.

(* every index of a shape with these lengths, row-major (the order of ShapeIterator) *)
Fixpoint all_idx (lens : list nat) : list (list nat) :=
  match lens with
  | [] => [[]]
  | l :: rest => concat (map (fun i => map (cons i) (all_idx rest)) (seq 0 l))
  end.

Section Fmt.
Context {E : Type} (re : option N -> E -> text) (prec : option N).

(* `for column in 0..columns { write value; if column < columns - 1 { write ", " } }` *)
Definition fmt_cells (cols : nat) (get : nat -> E) : text :=
  concat (map (fun c => re prec (get c) ++ (if Nat.ltb c (cols - 1) then t_comma else []))
              (seq 0 cols)).

(* matrices/views.rs format_view; also the D = 2 arm of tensors/display.rs *)
Definition fmt_matrix (rows cols : nat) (get : nat -> nat -> E) : text :=
  t_open
  ++ concat (map (fun r => (if Nat.ltb 0 r then t_indent else [])
                           ++ fmt_cells cols (get r)
                           ++ (if Nat.ltb r (rows - 1) then t_nl else []))
                 (seq 0 rows))
  ++ t_close.

(* tensors/display.rs: the header *)
Definition fmt_shape (shape : list (nat * nat)) : text :=
  let D := length shape in
  concat (map (fun dk => let '(d, (name, len)) := dk in
                         [40%N] ++ dbg_name name ++ t_comma ++ dec_nat len ++ [41%N]
                         ++ (if Nat.ltb d (D - 1) then t_comma else []))
              (combine (seq 0 D) shape)).

Definition fmt_header (shape : list (nat * nat)) : text :=
  let D := length shape in
  t_d_eq ++ dec_nat D ++ (if Nat.ltb 0 D then t_nl else []) ++ fmt_shape shape ++ t_nl.

(* the D = 3 arm *)
Definition fmt_blocks (blocks rows cols : nat) (get : nat -> nat -> nat -> E) : text :=
  [91; 10]%N
  ++ concat (map (fun b =>
       concat (map (fun r => t_indent ++ fmt_cells cols (get b r)
                             ++ (if Nat.ltb r (rows - 1) then t_nl else []))
                   (seq 0 rows))
       ++ (if Nat.ltb b (blocks - 1) then t_nl ++ t_nl else []))
       (seq 0 blocks))
  ++ [10; 93]%N.

(* ---- the D >= 4 arm `n => { .. }` of tensors/display.rs format_view.
   `rds` is the index zipped with the lengths, REVERSED: (index[n-1], columns) :: (index[n-2], rows)
   :: the outer dimensions n-3, .., 0.  `index != last_index` is "not every dimension at its end";
   `for dimension in (1..(n - 1)).rev()` visits (row, rows) and then the outer dimensions without
   dimension 0 (`removelast`). *)
Definition at_end (p : nat * nat) : bool := Nat.eqb (fst p) (snd p - 1).

Fixpoint fmt_trail (ds : list (nat * nat)) : text :=
  match ds with
  | p :: rest => if at_end p then t_nl ++ fmt_trail rest else []      (* `else { break }` *)
  | [] => []
  end.

Definition fmt_gpiece (get : list nat -> E) (lens idx : list nat) : text :=
  let rds := rev (combine idx lens) in
  match rds with
  | (column, columns) :: (row, rows) :: outer =>
      (if Nat.eqb column 0 then t_indent else [])
      ++ re prec (get idx)
      ++ (if Nat.ltb column (columns - 1) then t_comma else [])
      ++ (if Nat.ltb row (rows - 1) && Nat.eqb column (columns - 1) then t_nl else [])
      ++ (if Nat.eqb row (rows - 1) && Nat.eqb column (columns - 1) && negb (forallb at_end rds)
          then t_nl ++ fmt_trail ((row, rows) :: removelast outer) else [])
  | _ => []
  end.

Definition fmt_general (lens : list nat) (get : list nat -> E) : text :=
  [91; 10]%N ++ concat (map (fmt_gpiece get lens) (all_idx lens)) ++ [10; 93]%N.

Definition fmt_tensor (shape : list (nat * nat)) (get : list nat -> E) : option text :=
  match shape with
  | [] => Some (fmt_header shape ++ t_open ++ re prec (get []) ++ t_close)
  | [(_, n)] => Some (fmt_header shape ++ t_open ++ fmt_cells n (fun i => get [i]) ++ t_close)
  | [(_, r); (_, c)] => Some (fmt_header shape ++ fmt_matrix r c (fun i j => get [i; j]))
  | [(_, b); (_, r); (_, c)] => Some (fmt_header shape ++ fmt_blocks b r c (fun i j k => get [i; j; k]))
  | _ => Some (fmt_header shape ++ fmt_general (map snd shape) get)
  end.

(* Debug of DataLayout::Linear([names]) *)
Definition fmt_linear (names : list nat) : text :=
  let n := length names in
  t_linear ++ [91%N]
  ++ concat (map (fun dk => dbg_name (snd dk) ++ (if Nat.ltb (fst dk) (n - 1) then t_comma else []))
                 (combine (seq 0 n) names))
  ++ [93; 41]%N.

(* Display for TensorAccess over a source whose layout is Linear(order) *)
Definition fmt_access (shape : list (nat * nat)) (get : list nat -> E) (order : list nat) : option text :=
  match fmt_tensor shape get with
  | Some t => Some (t ++ t_nl ++ t_layout ++ fmt_linear order)
  | None => None
  end.
End Fmt.

(* Record / Trace: the number with `{}` -- whatever precision the caller asked for *)
Definition fmt_number {E} (re : option N -> E -> text) (_prec : option N) (v : E) : text := re None v.

(* RecordMatrix / RecordTensor: the numbers through `{}` *)
Definition fmt_record_matrix {E} (re : option N -> E -> text) (_prec : option N) rows cols get : text :=
  fmt_matrix re None rows cols get.
Definition fmt_record_tensor {E} (re : option N -> E -> text) (_prec : option N) shape get : option text :=
  fmt_tensor re None shape get.

(* LDLTDecomposition: writeln!("L:\n{}", l); write!("D:\n{}", d) *)
Definition fmt_ldlt {E} (re : option N -> E -> text) (_prec : option N) (n : nat)
           (l d : nat -> nat -> E) : text :=
  t_l ++ fmt_matrix re None n n l ++ t_nl ++ t_d ++ fmt_matrix re None n n d.

(* ---------------------------------------------------------------- row-major getters *)
Definition flat2 {E} (dflt : E) (cols : nat) (data : list E) (r c : nat) : E :=
  nth (r * cols + c) data dflt.

Fixpoint flat_index (lens idx : list nat) (acc : nat) : nat :=
  match lens, idx with
  | l :: ls, i :: is_ => flat_index ls is_ (acc * l + i)
  | _, _ => acc
  end.
Definition flatn {E} (dflt : E) (lens : list nat) (data : list E) (idx : list nat) : E :=
  nth (flat_index lens idx 0) data dflt.
