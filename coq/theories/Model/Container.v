(* Record containers (src/differentiation/container_record/{mod,container_operations,iterators}.rs
   and container_operations/swapped.rs) together with the minimal scalar Record operations
   (src/differentiation.rs, record_operations.rs, functions.rs) they are compared against.
   Everything runs on ONE tape value `t : tape R` that is threaded through; which WengertList a
   record / container belongs to is an abstract identifier `option nat` (None = constant) that
   is only ever COMPARED (std::ptr::eq in same_list / same_lists / are_same_list /
   are_exact_same_list).  Model/TapeMachine.v selects the tape for multi-tape scripts.
   Executable definitions only.  Shared by C06 and C15.

   Transcription notes (code as it is NOW, after the lead's repairs):
   * the batch helpers `unary`, `binary_both_history`, `binary_x_history`, `binary_y_history`
     perform one append per element in iteration order (row major); their `vec![..; total]`
     pre-allocation is modelled by the produced list (the callers pass total = elements()),
   * `record_scalar_product` maps lazily and reduces: the tape order per output element is
     p0, p1, (p0+p1), p2, (..+p2), ... ; a constant side is NOT recorded as a parent
     (append_unary on the variable side),
   * both matrix multiplications assert are_same_list first. *)
From Coq Require Import List Arith Bool ZArith.
From EasyML Require Import Base.Sx Model.Num Model.Tape.
Import ListNotations.

Section Container.
Context {R : Type} (ops : numops R).
Notation tape := (tape R).
Notation rO := (nzero ops).
Notation rI := (none_ ops).

(* ------------------------------------------------------------------ functions.rs *)
Record unfn : Type := mkUn { uf : R -> R; udx : R -> R }.
Record binfn : Type := mkBin { bf : R -> R -> R; bdx : R -> R -> R; bdy : R -> R -> R }.

Definition Addition : binfn := mkBin (fun x y => nadd ops x y) (fun _ _ => rI) (fun _ _ => rI).
Definition Subtraction : binfn :=
  mkBin (fun x y => nsub ops x y) (fun _ _ => rI) (fun _ _ => nneg ops rI).
Definition Multiplication : binfn := mkBin (fun x y => nmul ops x y) (fun _ y => y) (fun x _ => x).
Definition Division : binfn :=
  mkBin (fun x y => ndiv ops x y) (fun _ y => ndiv ops rI y)
        (fun x y => ndiv ops (nneg ops x) (nmul ops y y)).
Definition Power : binfn :=
  mkBin (fun x y => npow ops x y)
        (fun x y => nmul ops y (npow ops x (nsub ops y rI)))
        (fun x y => nmul ops (npow ops x y) (nln ops x)).
Definition Negation : unfn := mkUn (fun x => nneg ops x) (fun _ => nneg ops rI).
Definition Sine : unfn := mkUn (fun x => nsin ops x) (fun x => ncos ops x).
Definition Cosine : unfn := mkUn (fun x => ncos ops x) (fun x => nneg ops (nsin ops x)).
Definition Exponential : unfn := mkUn (fun x => nexp ops x) (fun x => nexp ops x).
Definition NaturalLogarithm : unfn := mkUn (fun x => nln ops x) (fun x => ndiv ops rI x).
Definition SquareRoot : unfn :=
  mkUn (fun x => nsqrt ops x) (fun x => ndiv ops rI (nmul ops (nadd ops rI rI) (nsqrt ops x))).

(* the fixed user-supplied functions of the case language (harness: same closures) *)
Definition two : R := nadd ops rI rI.
Definition three : R := nadd ops two rI.
Definition UserUnary : unfn :=
  mkUn (fun x => nadd ops (nmul ops (nmul ops x x) x) (nmul ops two x))
       (fun x => nadd ops (nmul ops three (nmul ops x x)) two).
Definition UserBinary : binfn :=
  mkBin (fun x y => nadd ops (nmul ops (nmul ops x x) y) y)
        (fun x y => nmul ops (nmul ops two x) y)
        (fun x y => nadd ops (nmul ops x x) rI).

(* record (+) number: the derivative with respect to x;  number (+) record: with respect to y *)
Definition un_of_bin_x (f : binfn) (c : R) : unfn := mkUn (fun x => bf f x c) (fun x => bdx f x c).
Definition un_of_bin_y (f : binfn) (c : R) : unfn := mkUn (fun x => bf f c x) (fun x => bdy f c x).

(* binary function codes of the case language *)
Definition binfn_of (code : nat) : option binfn :=
  match code with
  | 0 => Some Addition | 1 => Some Subtraction | 2 => Some Multiplication | 3 => Some Division
  | 4 => Some Power | 5 => Some UserBinary
  | _ => None
  end.
(* unary function codes: 0 neg 1 sin 2 cos 3 exp 4 ln 5 sqrt 6 user ;
   10.. (x op c): add sub mul div pow ; 15 c.pow(x) ; 16 sub_swapped (c - x) ; 17 div_swapped *)
Definition unfn_of (code : nat) (c : R) : option unfn :=
  match code with
  | 0 => Some Negation | 1 => Some Sine | 2 => Some Cosine | 3 => Some Exponential
  | 4 => Some NaturalLogarithm | 5 => Some SquareRoot | 6 => Some UserUnary
  | 10 => Some (un_of_bin_x Addition c) | 11 => Some (un_of_bin_x Subtraction c)
  | 12 => Some (un_of_bin_x Multiplication c) | 13 => Some (un_of_bin_x Division c)
  | 14 => Some (un_of_bin_x Power c) | 15 => Some (un_of_bin_y Power c)
  | 16 => Some (un_of_bin_y Subtraction c) | 17 => Some (un_of_bin_y Division c)
  | _ => None
  end.

(* ------------------------------------------------------------------ WengertList identity *)
Definition hist := option nat.
(* same_list / are_same_list *)
Definition same_list (a b : hist) : bool :=
  match a, b with Some x, Some y => Nat.eqb x y | _, _ => true end.
(* are_exact_same_list *)
Definition exact_same_list (a b : hist) : bool :=
  match a, b with
  | None, None => true
  | Some x, Some y => Nat.eqb x y
  | _, _ => false
  end.
(* the list an operation records on: (Some h, _) => h ; (_, Some h) => h *)
Definition first_hist (a b : hist) : hist := match a with Some _ => a | None => b end.

(* ------------------------------------------------------------------ scalar Records *)
Record rec : Type := mkRec { r_num : R; r_hist : hist; r_idx : nat }.

Definition rec_constant (c : R) : rec := mkRec c None 0.
(* Record::variable / WengertList::variable *)
Definition rec_variable (t : tape) (h : nat) (x : R) : tape * rec :=
  let '(t', i) := append_nullary ops t in (t', mkRec x (Some h) i).
(* Record::reset *)
Definition rec_reset (t : tape) (x : rec) : tape * rec :=
  match r_hist x with
  | None => (t, x)
  | Some h => let '(t', i) := append_nullary ops t in (t', mkRec (r_num x) (Some h) i)
  end.

(* every unary operator on a Record (sin cos exp ln sqrt, Record::unary, record (+) number,
   the swapped forms, number.pow(record)) *)
Definition rec_unary (t : tape) (f : unfn) (x : rec) : tape * rec :=
  match r_hist x with
  | None => (t, mkRec (uf f (r_num x)) None 0)
  | Some h =>
      let '(t', i) := append_unary ops t (r_idx x) (udx f (r_num x)) in
      (t', mkRec (uf f (r_num x)) (Some h) i)
  end.

(* every binary operator between two Records (+ - * / pow, Record::binary) *)
Definition rec_binary (t : tape) (f : binfn) (x y : rec) : outcome (tape * rec) :=
  if negb (same_list (r_hist x) (r_hist y)) then Panic else
  let z := bf f (r_num x) (r_num y) in
  match r_hist x, r_hist y with
  | None, None => Ok (t, mkRec z None 0)
  | Some h, None =>
      let '(t', i) := append_unary ops t (r_idx x) (bdx f (r_num x) (r_num y)) in
      Ok (t', mkRec z (Some h) i)
  | None, Some h =>
      let '(t', i) := append_unary ops t (r_idx y) (bdy f (r_num x) (r_num y)) in
      Ok (t', mkRec z (Some h) i)
  | Some h, Some _ =>
      let '(t', i) := append_binary t (r_idx x) (bdx f (r_num x) (r_num y))
                                      (r_idx y) (bdy f (r_num x) (r_num y)) in
      Ok (t', mkRec z (Some h) i)
  end.

(* Neg: a constant is negated, a variable is computed as Record::constant(0) - x *)
Definition rec_neg (t : tape) (x : rec) : outcome (tape * rec) :=
  match r_hist x with
  | None => Ok (t, mkRec (nneg ops (r_num x)) None 0)
  | Some _ => rec_binary t Subtraction (rec_constant rO) x
  end.

(* unary code dispatch on a Record: code 0 goes through Neg *)
Definition rec_unary_code (t : tape) (code : nat) (c : R) (x : rec) : option (outcome (tape * rec)) :=
  match code with
  | 0 => Some (rec_neg t x)
  | _ => match unfn_of code c with Some f => Some (Ok (rec_unary t f x)) | None => None end
  end.

(* ---- scalar expressions: the closures handed to map / map_mut / from_iters in the case
   language, evaluated with Record operators, operands left to right ---- *)
Inductive sexpr : Type :=
| SX                                   (* the element *)
| SK (c : R)                           (* Record::constant(c) *)
| SDetach (e : sexpr)                  (* Record::constant(e.number) *)
| SUn (code : nat) (c : R) (e : sexpr)
| SBin (code : nat) (e1 e2 : sexpr)
| SFirst (e1 e2 : sexpr)               (* with_index closures: e1 at the first index, else e2 *)
| SOther.                              (* a clone of a variable (number 1, index 0) that lives on
                                          ANOTHER WengertList (identifier 1) *)

Fixpoint rec_eval (t : tape) (e : sexpr) (x : rec) (first : bool) : option (outcome (tape * rec)) :=
  match e with
  | SX => Some (Ok (t, x))
  | SK c => Some (Ok (t, rec_constant c))
  | SDetach e1 =>
      match rec_eval t e1 x first with
      | Some (Ok (t1, r)) => Some (Ok (t1, rec_constant (r_num r)))
      | other => other
      end
  | SUn code c e1 =>
      match rec_eval t e1 x first with
      | Some (Ok (t1, r)) => rec_unary_code t1 code c r
      | other => other
      end
  | SBin code e1 e2 =>
      match binfn_of code with
      | None => None
      | Some f =>
          match rec_eval t e1 x first with
          | Some (Ok (t1, r1)) =>
              match rec_eval t1 e2 x first with
              | Some (Ok (t2, r2)) => Some (rec_binary t2 f r1 r2)
              | other => other
              end
          | other => other
          end
      end
  | SFirst e1 e2 => if first then rec_eval t e1 x first else rec_eval t e2 x first
  | SOther => Some (Ok (t, mkRec rI (Some 1) 0))
  end.

(* closures that only mention the element and constants (no record of another list) *)
Fixpoint local_expr (e : sexpr) : bool :=
  match e with
  | SX | SK _ => true
  | SDetach e1 | SUn _ _ e1 => local_expr e1
  | SBin _ e1 e2 | SFirst e1 e2 => local_expr e1 && local_expr e2
  | SOther => false
  end.

Fixpoint uses_index (e : sexpr) : bool :=
  match e with
  | SX | SK _ | SOther => false
  | SDetach e1 | SUn _ _ e1 => uses_index e1
  | SBin _ e1 e2 => uses_index e1 || uses_index e2
  | SFirst _ _ => true
  end.

(* ------------------------------------------------------------------ containers *)
(* numbers: row-major (value, index) pairs; tensors have named dimensions, matrices
   shape = [(0, rows); (1, columns)] *)
Definition shape := list (nat * nat).
Record cont : Type := mkCont { c_tensor : bool; c_shape : shape; c_data : list (R * nat); c_hist : hist }.

Definition elements (sh : shape) : nat := fold_right (fun d acc => snd d * acc) 1 sh.

Fixpoint has_duplicates (names : list nat) : bool :=
  match names with
  | [] => false
  | n :: r => existsb (Nat.eqb n) r || has_duplicates r
  end.
(* InvalidShapeError::validate_dimensions *)
Definition shape_valid (sh : shape) (len : nat) : bool :=
  negb (has_duplicates (map fst sh)) && forallb (fun d => negb (Nat.eqb (snd d) 0)) sh
  && Nat.eqb (elements sh) len.

Definition shape_eqb (tensor : bool) (a b : shape) : bool :=
  Nat.eqb (length a) (length b) &&
  forallb (fun p => (if tensor then Nat.eqb (fst (fst p)) (fst (snd p)) else true)
                    && Nat.eqb (snd (fst p)) (snd (snd p))) (combine a b).

(* calculate_incrementing_indexes *)
Definition incrementing_indexes (start total : nat) : list nat := seq start total.

(* RecordTensor::constants / RecordMatrix::constants *)
Definition c_constants (tensor : bool) (sh : shape) (data : list R) : cont :=
  mkCont tensor sh (map (fun x => (x, 0)) data) None.
(* RecordTensor::variables / RecordMatrix::variables *)
Definition c_variables (t : tape) (h : nat) (tensor : bool) (sh : shape) (data : list R) : tape * cont :=
  let total := elements sh in
  let start := length t in
  let t' := append_nullary_repeating ops t total in
  (t', mkCont tensor sh (combine data (incrementing_indexes start total)) (Some h)).
(* RecordTensor::reset / RecordMatrix::reset *)
Definition c_reset (t : tape) (x : cont) : tape * cont :=
  match c_hist x with
  | None => (t, x)
  | Some h =>
      let total := elements (c_shape x) in
      let start := length t in
      let t' := append_nullary_repeating ops t total in
      (t', mkCont (c_tensor x) (c_shape x)
                  (combine (map fst (c_data x)) (incrementing_indexes start total)) (Some h))
  end.

(* fn unary: Y = unary(X) *)
Fixpoint unary_loop (t : tape) (f : unfn) (records : list (R * nat)) : tape * list (R * nat) :=
  match records with
  | [] => (t, [])
  | (x, parent) :: r =>
      let '(t1, i) := append_unary ops t parent (udx f x) in
      let '(t2, ys) := unary_loop t1 f r in
      (t2, (uf f x, i) :: ys)
  end.
(* fn binary_both_history *)
Fixpoint binary_both_loop (t : tape) (f : binfn) (xs ys : list (R * nat)) : tape * list (R * nat) :=
  match xs, ys with
  | (x, p1) :: xr, (y, p2) :: yr =>
      let '(t1, i) := append_binary t p1 (bdx f x y) p2 (bdy f x y) in
      let '(t2, zs) := binary_both_loop t1 f xr yr in
      (t2, (bf f x y, i) :: zs)
  | _, _ => (t, [])
  end.
(* fn binary_x_history *)
Fixpoint binary_x_loop (t : tape) (f : binfn) (xs ys : list (R * nat)) : tape * list (R * nat) :=
  match xs, ys with
  | (x, p1) :: xr, (y, _) :: yr =>
      let '(t1, i) := append_unary ops t p1 (bdx f x y) in
      let '(t2, zs) := binary_x_loop t1 f xr yr in
      (t2, (bf f x y, i) :: zs)
  | _, _ => (t, [])
  end.
(* fn binary_y_history *)
Fixpoint binary_y_loop (t : tape) (f : binfn) (xs ys : list (R * nat)) : tape * list (R * nat) :=
  match xs, ys with
  | (x, _) :: xr, (y, p2) :: yr =>
      let '(t1, i) := append_unary ops t p2 (bdy f x y) in
      let '(t2, zs) := binary_y_loop t1 f xr yr in
      (t2, (bf f x y, i) :: zs)
  | _, _ => (t, [])
  end.

(* RecordTensor::unary / RecordMatrix::unary (allocating) and unary_assign / do_unary_assign
   (the constant case of the assign form keeps the stored indexes) *)
Definition c_unary (t : tape) (assign : bool) (f : unfn) (x : cont) : tape * cont :=
  match c_hist x with
  | None =>
      (t, mkCont (c_tensor x) (c_shape x)
                 (map (fun p => (uf f (fst p), if assign then snd p else 0)) (c_data x)) None)
  | Some h =>
      let '(t', ys) := unary_loop t f (c_data x) in
      (t', mkCont (c_tensor x) (c_shape x) ys (Some h))
  end.

(* RecordTensor::binary / RecordMatrix::binary and binary_left_assign (in both the left
   container's shape is kept; the constant x constant result has index 0 everywhere) *)
Definition c_binary (t : tape) (f : binfn) (x y : cont) : outcome (tape * cont) :=
  if negb (shape_eqb (c_tensor x) (c_shape x) (c_shape y)) then Panic else
  let mk zs h := mkCont (c_tensor x) (c_shape x) zs h in
  match c_hist x, c_hist y with
  | None, None =>
      Ok (t, mk (map (fun p => (bf f (fst (fst p)) (fst (snd p)), 0)) (combine (c_data x) (c_data y))) None)
  | Some h, None =>
      let '(t', zs) := binary_x_loop t f (c_data x) (c_data y) in Ok (t', mk zs (Some h))
  | None, Some h =>
      let '(t', zs) := binary_y_loop t f (c_data x) (c_data y) in Ok (t', mk zs (Some h))
  | Some h, Some h2 =>
      if negb (Nat.eqb h h2) then Panic else
      let '(t', zs) := binary_both_loop t f (c_data x) (c_data y) in Ok (t', mk zs (Some h))
  end.

Definition swap_binfn (f : binfn) : binfn :=
  mkBin (fun y x => bf f x y) (fun y x => bdy f x y) (fun y x => bdx f x y).

(* how a container binary operation is invoked:
     0  the operators + and - (record_*_add_allocate / _sub_allocate: are_same_list assert first)
     1  binary / elementwise_multiply / elementwise_divide
     2  binary_left_assign / do_binary_left_assign
     3  binary_right_assign / do_binary_right_assign: rhs.binary_left_assign(self, swapped) *)
Definition c_binop (t : tape) (mode : nat) (f : binfn) (x y : cont) : option (outcome (tape * cont)) :=
  match mode with
  | 0 => Some (if negb (same_list (c_hist x) (c_hist y)) then Panic else c_binary t f x y)
  | 1 | 2 => Some (c_binary t f x y)
  | 3 => Some (c_binary t (swap_binfn f) y x)
  | _ => None
  end.

(* record_scalar_product over the two (value, index) vectors; None for empty vectors
   (the Rust code unwraps: "this won't be called on 0 length iterators") *)
Definition product_step (t : tape) (lh rh : hist) (p : (R * nat) * (R * nat)) : tape * (R * nat) :=
  let '((x, xi), (y, yi)) := p in
  let z := bf Multiplication x y in
  match lh, rh with
  | Some _, None => let '(t', i) := append_unary ops t xi (bdx Multiplication x y) in (t', (z, i))
  | None, Some _ => let '(t', i) := append_unary ops t yi (bdy Multiplication x y) in (t', (z, i))
  | _, _ =>
      let '(t', i) := append_binary t xi (bdx Multiplication x y) yi (bdy Multiplication x y) in
      (t', (z, i))
  end.
Fixpoint scalar_product_rest (t : tape) (lh rh : hist) (acc : R * nat)
         (ps : list ((R * nat) * (R * nat))) : tape * (R * nat) :=
  match ps with
  | [] => (t, acc)
  | p :: r =>
      let '(t1, (y, yi)) := product_step t lh rh p in
      let '(x, xi) := acc in
      let '(t2, i) := append_binary t1 xi (bdx Addition x y) yi (bdy Addition x y) in
      scalar_product_rest t2 lh rh (bf Addition x y, i) r
  end.
Definition record_scalar_product (t : tape) (lh rh : hist) (left right : list (R * nat))
  : option (tape * (R * nat)) :=
  match first_hist lh rh with
  | None =>
      match combine left right with
      | [] => None
      | ((x, _), (y, _)) :: r =>
          Some (t, (fold_left (fun acc p => nadd ops acc (nmul ops (fst (fst p)) (fst (snd p)))) r
                              (nmul ops x y), 0))
      end
  | Some _ =>
      match combine left right with
      | [] => None
      | p :: r => let '(t1, acc) := product_step t lh rh p in Some (scalar_product_rest t1 lh rh acc r)
      end
  end.

(* row i / column j of a rows x columns row-major list *)
Definition row_of {A} (columns : nat) (l : list A) (i : nat) : list A := firstn columns (skipn (i * columns) l).
Definition column_of {A} (rows columns : nat) (l : list A) (j : nat) : list A :=
  flat_map (fun k => firstn 1 (skipn (k * columns + j) l)) (seq 0 rows).

Fixpoint matmul_cells (t : tape) (lh rh : hist) (rows inner columns : nat)
         (ldata rdata : list (R * nat)) (cells : list (nat * nat)) : option (tape * list (R * nat)) :=
  match cells with
  | [] => Some (t, [])
  | (i, j) :: r =>
      match record_scalar_product t lh rh (row_of inner ldata i) (column_of inner columns rdata j) with
      | None => None
      | Some (t1, z) =>
          match matmul_cells t1 lh rh rows inner columns ldata rdata r with
          | None => None
          | Some (t2, zs) => Some (t2, z :: zs)
          end
      end
  end.
Definition cells (rows columns : nat) : list (nat * nat) :=
  flat_map (fun i => map (fun j => (i, j)) (seq 0 columns)) (seq 0 rows).

(* record_tensor_matrix_multiply (D = 2) and record_matrix_matrix_multiply *)
Definition c_matmul (t : tape) (x y : cont) : outcome (tape * cont) :=
  if negb (same_list (c_hist x) (c_hist y)) then Panic else
  match c_shape x, c_shape y with
  | [(n0, rows); (_, inner)], [(_, inner2); (n3, columns)] =>
      if negb (Nat.eqb inner inner2) then Panic else
      if c_tensor x && Nat.eqb n0 n3 then Panic else
      match matmul_cells t (c_hist x) (c_hist y) rows inner columns (c_data x) (c_data y) (cells rows columns) with
      | None => Panic
      | Some (t', zs) =>
          Ok (t', mkCont (c_tensor x) [(n0, rows); (n3, columns)] zs (first_hist (c_hist x) (c_hist y)))
      end
  | _, _ => Panic
  end.

(* ---- iterators: iter_as_records / from_iter / from_iters / map / map_mut ---- *)
Definition as_records (x : cont) : list rec :=
  map (fun p => mkRec (fst p) (c_hist x) (snd p)) (c_data x).
(* iter_column_major_as_records of a matrix *)
Definition column_major {A} (sh : shape) (l : list A) : list A :=
  match sh with
  | [(_, rows); (_, columns)] => flat_map (fun j => column_of rows columns l j) (seq 0 columns)
  | _ => l
  end.

(* collect_into_components: every later history is compared with the first *)
Definition consistent_history (rs : list rec) : bool :=
  match rs with
  | [] => true
  | r :: rest => forallb (fun q => exact_same_list (r_hist r) (r_hist q)) rest
  end.
(* error payloads: 0 InconsistentHistory, 1 Empty, 2 Shape *)
Definition c_from_iter (tensor : bool) (sh : shape) (rs : list rec) : outcome cont :=
  if negb (consistent_history rs) then Err (SZ 0%Z) else
  match rs with
  | [] => Err (SZ 1%Z)
  | r :: _ =>
      let ok := if tensor then shape_valid sh (length rs) else Nat.eqb (elements sh) (length rs) in
      if ok then Ok (mkCont tensor sh (map (fun q => (r_num q, r_idx q)) rs) (r_hist r))
      else Err (SZ 2%Z)
  end.

(* the closure applied to each element in iteration order *)
Fixpoint eval_each (t : tape) (e : sexpr) (rs : list rec) (first : bool) : option (outcome (tape * list rec)) :=
  match rs with
  | [] => Some (Ok (t, []))
  | r :: rest =>
      match rec_eval t e r first with
      | Some (Ok (t1, y)) =>
          match eval_each t1 e rest false with
          | Some (Ok (t2, ys)) => Some (Ok (t2, y :: ys))
          | other => other
          end
      | Some (Err e0) => Some (Err e0)
      | Some Panic => Some Panic
      | None => None
      end
  end.

(* map / map_with_index (from_iter of the mapped iterator) and map_mut / map_mut_with_index
   (map_mut_base: same comparison with the first history); both give the same container *)
Definition c_map (t : tape) (e : sexpr) (x : cont) : option (outcome (tape * cont)) :=
  match eval_each t e (as_records x) true with
  | Some (Ok (t', ys)) =>
      Some (match c_from_iter (c_tensor x) (c_shape x) ys with
            | Ok c => Ok (t', c)
            | Err e0 => Err e0
            | Panic => Panic
            end)
  | Some (Err e0) => Some (Err e0)
  | Some Panic => Some Panic
  | None => None
  end.

(* from_iters::<_, 2>: [e1(x), e2(x)] per element *)
Fixpoint eval_each2 (t : tape) (e1 e2 : sexpr) (rs : list rec) (first : bool)
  : option (outcome (tape * (list rec * list rec))) :=
  match rs with
  | [] => Some (Ok (t, ([], [])))
  | r :: rest =>
      match rec_eval t e1 r first with
      | Some (Ok (t1, y1)) =>
          match rec_eval t1 e2 r first with
          | Some (Ok (t2, y2)) =>
              match eval_each2 t2 e1 e2 rest false with
              | Some (Ok (t3, (ys1, ys2))) => Some (Ok (t3, (y1 :: ys1, y2 :: ys2)))
              | other => other
              end
          | Some (Err e0) => Some (Err e0)
          | Some Panic => Some Panic
          | None => None
          end
      | Some (Err e0) => Some (Err e0)
      | Some Panic => Some Panic
      | None => None
      end
  end.

(* ------------------------------------------------------------------ derivatives *)
(* Record::try_derivatives on a tape that may contain stale parents (after clear without
   reset): the reverse loop indexes derivatives[left_parent] / [right_parent] of EVERY entry,
   and derivatives[self.index] before it *)
Definition derivs_checked (t : tape) (out : nat) : outcome (list R) :=
  if Nat.ltb out (length t)
     && forallb (fun e => Nat.ltb (lp e) (length t) && Nat.ltb (rp e) (length t)) t
  then Ok (sweep ops t out) else Panic.

(* ================================================================== C06: container programs
   The environment is a list of containers in creation order (operations never mutate an
   operand: the assign forms run on a clone, which does not touch the tape).  One tape. *)
Inductive cop : Type :=
| ODecl (tensor var : bool) (sh : shape) (data : list R)
| OUnary (assign : bool) (code : nat) (c : R) (a : nat)
| OBinary (mode code : nat) (a b : nat)
| OMatmul (a b : nat)
| OMap (mutating : bool) (e : sexpr) (a : nat)
| OFromIter (tensor : bool) (sh : shape) (colmajor : bool) (e : sexpr) (a : nat)
| OFromIters2 (e1 e2 : sexpr) (a : nat)
| OView (kind : nat) (a : nat)
| OSelect (f : list (bool * shape) -> option (bool * shape * list (nat * nat))) (srcs : list nat)
| OCollect (tensor : bool) (sh : shape) (colmajor : bool) (take : nat) (es : list sexpr) (a : nat).

(* how many containers an operation adds to the environment *)
Definition op_outputs (o : cop) : nat :=
  match o with
  | OFromIters2 _ _ _ => 2
  | OCollect _ _ _ _ es _ => length es
  | _ => 1
  end.

(* ---- generic source views (OSelect): a container whose SOURCE is a view over one or several
   other containers that share one history (RecordTensor / RecordMatrix ::from_existing over a
   range / mask / reverse / rename / access / transpose / chain / partition / ... of the sources'
   (number, index) elements).  Model-wise every such view is a relabelling of element
   positions: element i of the new container is element (snd p) of source (fst p), p = nth i pos.
   The position map is computed from the sources' kinds and shapes by the function carried in
   the constructor (Model/ContainerViews.view_map for the view kinds of the case language), so
   that the theorems about programs cover EVERY such map at once. *)
Definition select {A} (xs : list (list A)) (pos : list (nat * nat)) : option (list A) :=
  sequence (map (fun p => match nth_error xs (fst p) with
                          | Some l => nth_error l (snd p)
                          | None => None
                          end) pos).
Definition sel_shape_ok (tensor : bool) (sh : shape) (n : nat) : bool :=
  shape_valid sh n && (tensor || Nat.eqb (length sh) 2).

(* ---- from_iters::<N> with N closures: [e1(x), ..., eN(x)] per element, element by element;
   one list of records per closure *)
Fixpoint eval_list (t : tape) (es : list sexpr) (x : rec) (first : bool) : option (outcome (tape * list rec)) :=
  match es with
  | [] => Some (Ok (t, []))
  | e :: er =>
      match rec_eval t e x first with
      | Some (Ok (t1, y)) =>
          match eval_list t1 er x first with
          | Some (Ok (t2, ys)) => Some (Ok (t2, y :: ys))
          | other => other
          end
      | Some (Err e0) => Some (Err e0)
      | Some Panic => Some Panic
      | None => None
      end
  end.
Fixpoint push_row {A} (ys : list A) (cols : list (list A)) : list (list A) :=
  match ys, cols with
  | y :: yr, c :: cr => (y :: c) :: push_row yr cr
  | _, _ => []
  end.
Fixpoint eval_eachN (t : tape) (es : list sexpr) (rs : list rec) (first : bool)
  : option (outcome (tape * list (list rec))) :=
  match rs with
  | [] => Some (Ok (t, map (fun _ => []) es))
  | r :: rest =>
      match eval_list t es r first with
      | Some (Ok (t1, ys)) =>
          match eval_eachN t1 es rest false with
          | Some (Ok (t2, cols)) => Some (Ok (t2, push_row ys cols))
          | other => other
          end
      | Some (Err e0) => Some (Err e0)
      | Some Panic => Some Panic
      | None => None
      end
  end.
(* per-output result codes of from_iters: 0 InconsistentHistory, 1 Empty, 2 Shape, 3 this one is Ok *)
Definition collect_code (r : outcome cont) : sx :=
  match r with Ok _ => SZ 3%Z | Err e0 => e0 | Panic => SZ 4%Z end.
Definition collect_all (rs : list (outcome cont)) : option (list cont) :=
  sequence (map (fun r => match r with Ok c => Some c | _ => None end) rs).

Definition cstate : Type := tape * list cont.

(* result of one operation: the containers it adds; None = not in the case language *)
Definition cstep (st : cstate) (o : cop) : option (outcome (tape * list cont)) :=
  let '(t, env) := st in
  let get k := nth_error env k in
  match o with
  | ODecl tensor var sh data =>
      if negb (shape_valid sh (length data)) || negb (tensor || Nat.eqb (length sh) 2) then None else
      if var then let '(t', c) := c_variables t 0 tensor sh data in Some (Ok (t', [c]))
      else Some (Ok (t, [c_constants tensor sh data]))
  | OUnary assign code c a =>
      match get a, unfn_of code c with
      | Some x, Some f => let '(t', y) := c_unary t assign f x in Some (Ok (t', [y]))
      | _, _ => None
      end
  | OBinary mode code a b =>
      match get a, get b, binfn_of code with
      | Some x, Some y, Some f =>
          if negb (Bool.eqb (c_tensor x) (c_tensor y)) then None else
          if Nat.eqb mode 0 && Nat.ltb 1 code then None else      (* operators exist for + and - only *)
          match c_binop t mode f x y with
          | Some r => Some (omap (fun p => (fst p, [snd p])) r)
          | None => None
          end
      | _, _, _ => None
      end
  | OMatmul a b =>
      match get a, get b with
      | Some x, Some y =>
          if negb (Bool.eqb (c_tensor x) (c_tensor y)) || negb (Nat.eqb (length (c_shape x)) 2)
             || negb (Nat.eqb (length (c_shape y)) 2) then None
          else Some (omap (fun p => (fst p, [snd p])) (c_matmul t x y))
      | _, _ => None
      end
  | OMap _ e a =>
      match get a with
      | Some x => match c_map t e x with
                  | Some r => Some (omap (fun p => (fst p, [snd p])) r)
                  | None => None
                  end
      | None => None
      end
  | OFromIter tensor sh colmajor e a =>
      (* from_iter(shape, iter_as_records (row or column major) .map(e)) *)
      match get a with
      | Some x =>
          if colmajor && c_tensor x then None else
          if negb tensor && negb (Nat.eqb (length sh) 2) then None else
          let rs := as_records x in
          let rs := if colmajor then column_major (c_shape x) rs else rs in
          match eval_each t e rs true with
          | Some (Ok (t', ys)) => Some (omap (fun c => (t', [c])) (c_from_iter tensor sh ys))
          | Some (Err e0) => Some (Err e0)
          | Some Panic => Some Panic
          | None => None
          end
      | None => None
      end
  | OFromIters2 e1 e2 a =>
      match get a with
      | Some x =>
          match eval_each2 t e1 e2 (as_records x) true with
          | Some (Ok (t', (ys1, ys2))) =>
              Some (match c_from_iter (c_tensor x) (c_shape x) ys1, c_from_iter (c_tensor x) (c_shape x) ys2 with
                    | Ok c1, Ok c2 => Ok (t', [c1; c2])
                    | Err e0, _ => Err e0
                    | _, Err e0 => Err e0
                    | _, _ => Panic
                    end)
          | Some (Err e0) => Some (Err e0)
          | Some Panic => Some Panic
          | None => None
          end
      | None => None
      end
  | OView kind a =>
      (* a container whose SOURCE is a view of container a (from_existing over the view):
           0  RecordMatrix over a column-major MatrixRefTensor of the transposed TensorAccess of
              a 2-dimensional record tensor (interop): the transposed matrix
           1  RecordTensor over the TensorAccess with the two dimensions swapped
           3  a detached copy: from_existing(None, ..) with the numbers of a and relabelled,
              meaningless indexes (a constants container never has its indexes read)
         model-wise a permutation / relabelling of the element list *)
      match get a with
      | Some x =>
          match kind, c_tensor x, c_shape x with
          | 0, true, [(n0, r); (n1, c)] =>
              Some (Ok (t, [mkCont false [(0, c); (1, r)] (column_major (c_shape x) (c_data x)) (c_hist x)]))
          | 1, true, [(n0, r); (n1, c)] =>
              Some (Ok (t, [mkCont true [(n1, c); (n0, r)] (column_major (c_shape x) (c_data x)) (c_hist x)]))
          | 3, _, _ =>
              Some (Ok (t, [mkCont (c_tensor x) (c_shape x)
                                   (map (fun p => (fst p, snd p + 5000)) (c_data x)) None]))
          | _, _, _ => None
          end
      | None => None
      end
  | OSelect f srcs =>
      match sequence (map get srcs) with
      | Some (x0 :: xr) =>
          if negb (forallb (fun y => exact_same_list (c_hist x0) (c_hist y)) xr) then None else
          match f (map (fun c => (c_tensor c, c_shape c)) (x0 :: xr)) with
          | Some (tensor, sh, pos) =>
              if negb (sel_shape_ok tensor sh (length pos)) then None else
              match select (map c_data (x0 :: xr)) pos with
              | Some data => Some (Ok (t, [mkCont tensor sh data (c_hist x0)]))
              | None => None
              end
          | None => None
          end
      | _ => None
      end
  | OCollect tensor sh colmajor take es a =>
      (* from_iters::<N>(shape, iter_as_records (row or column major) .take(take) .map(|x| [e1 x, .., eN x]));
         for N = 1 also from_iter.  Every output that fails is reported. *)
      match get a with
      | Some x =>
          if colmajor && c_tensor x then None else
          if negb tensor && negb (Nat.eqb (length sh) 2) then None else
          if Nat.eqb (length es) 0 then None else
          let rs := as_records x in
          let rs := if colmajor then column_major (c_shape x) rs else rs in
          match eval_eachN t es (firstn take rs) true with
          | Some (Ok (t', cols)) =>
              let results := map (c_from_iter tensor sh) cols in
              Some (match collect_all results with
                    | Some cs => Ok (t', cs)
                    | None => Err (SL (map collect_code results))
                    end)
          | Some (Err e0) => Some (Err e0)
          | Some Panic => Some Panic
          | None => None
          end
      | None => None
      end
  end.

(* run: stops at the first operation that fails; returns how many operations completed *)
Fixpoint crun (st : cstate) (n : nat) (prog : list cop) : option (nat * outcome cstate) :=
  match prog with
  | [] => Some (n, Ok st)
  | o :: r =>
      match cstep st o with
      | None => None
      | Some (Ok (t', cs)) =>
          (* a container collected on a foreign list is outside the case language *)
          if forallb (fun c => match c_hist c with Some h => Nat.eqb h 0 | None => true end) cs
          then crun (t', snd st ++ cs) (S n) r else None
      | Some (Err e) => Some (n, Err e)
      | Some Panic => Some (n, Panic)
      end
  end.

(* ---- the element-by-element computation: every container is a list of individual Records,
   every operation is performed per element with Record operators on a tape ---- *)
Record econt : Type := mkECont { e_tensor : bool; e_shape : shape; e_recs : list rec }.

Fixpoint each_unary (t : tape) (code : nat) (c : R) (rs : list rec) : option (outcome (tape * list rec)) :=
  match rs with
  | [] => Some (Ok (t, []))
  | r :: rest =>
      match rec_unary_code t code c r with
      | Some (Ok (t1, y)) =>
          match each_unary t1 code c rest with
          | Some (Ok (t2, ys)) => Some (Ok (t2, y :: ys))
          | other => other
          end
      | Some (Err e0) => Some (Err e0)
      | Some Panic => Some Panic
      | None => None
      end
  end.
Fixpoint each_binary (t : tape) (f : binfn) (xs ys : list rec) : outcome (tape * list rec) :=
  match xs, ys with
  | x :: xr, y :: yr =>
      match rec_binary t f x y with
      | Ok (t1, z) =>
          match each_binary t1 f xr yr with
          | Ok (t2, zs) => Ok (t2, z :: zs)
          | other => other
          end
      | Err e0 => Err e0
      | Panic => Panic
      end
  | _, _ => Ok (t, [])
  end.
(* one cell of a matrix product with Records: all the products first, then their sum from the
   left (a different tape layout from record_scalar_product) *)
Fixpoint each_products (t : tape) (xs ys : list rec) : outcome (tape * list rec) :=
  match xs, ys with
  | x :: xr, y :: yr =>
      match rec_binary t Multiplication x y with
      | Ok (t1, z) =>
          match each_products t1 xr yr with
          | Ok (t2, zs) => Ok (t2, z :: zs)
          | other => other
          end
      | Err e0 => Err e0
      | Panic => Panic
      end
  | _, _ => Ok (t, [])
  end.
Fixpoint each_sum (t : tape) (acc : rec) (rs : list rec) : outcome (tape * rec) :=
  match rs with
  | [] => Ok (t, acc)
  | r :: rest =>
      match rec_binary t Addition acc r with
      | Ok (t1, s) => each_sum t1 s rest
      | other => other
      end
  end.
Fixpoint each_cells (t : tape) (rows inner columns : nat) (l r : list rec) (cs : list (nat * nat))
  : outcome (tape * list rec) :=
  match cs with
  | [] => Ok (t, [])
  | (i, j) :: rest =>
      match each_products t (row_of inner l i) (column_of inner columns r j) with
      | Ok (t1, p :: ps) =>
          match each_sum t1 p ps with
          | Ok (t2, z) =>
              match each_cells t2 rows inner columns l r rest with
              | Ok (t3, zs) => Ok (t3, z :: zs)
              | other => other
              end
          | Err e0 => Err e0
          | Panic => Panic
          end
      | Ok (_, []) => Panic
      | Err e0 => Err e0
      | Panic => Panic
      end
  end.

Definition estate : Type := tape * list econt.

Definition estep (st : estate) (o : cop) : option (outcome (tape * list econt)) :=
  let '(t, env) := st in
  let get k := nth_error env k in
  match o with
  | ODecl tensor var sh data =>
      if negb (shape_valid sh (length data)) || negb (tensor || Nat.eqb (length sh) 2) then None else
      if var then
        (* one Record::variable per element, in order *)
        let '(t', rs) := fold_left (fun acc x => let '(t1, r) := rec_variable (fst acc) 0 x in (t1, snd acc ++ [r]))
                                   data (t, []) in
        Some (Ok (t', [mkECont tensor sh rs]))
      else Some (Ok (t, [mkECont tensor sh (map rec_constant data)]))
  | OUnary _ code c a =>
      match get a with
      | Some x =>
          match each_unary t code c (e_recs x) with
          | Some r => Some (omap (fun p => (fst p, [mkECont (e_tensor x) (e_shape x) (snd p)])) r)
          | None => None
          end
      | None => None
      end
  | OBinary mode code a b =>
      match get a, get b, binfn_of code with
      | Some x, Some y, Some f =>
          if negb (Bool.eqb (e_tensor x) (e_tensor y)) then None else
          if Nat.ltb 3 mode then None else
          if Nat.eqb mode 0 && Nat.ltb 1 code then None else
          if negb (shape_eqb (e_tensor x) (e_shape x) (e_shape y)) then Some Panic else
          Some (omap (fun p => (fst p, [mkECont (e_tensor x) (if Nat.eqb mode 3 then e_shape y else e_shape x) (snd p)]))
                     (each_binary t f (e_recs x) (e_recs y)))
      | _, _, _ => None
      end
  | OMatmul a b =>
      match get a, get b with
      | Some x, Some y =>
          if negb (Bool.eqb (e_tensor x) (e_tensor y)) then None else
          match e_shape x, e_shape y with
          | [(n0, rows); (_, inner)], [(_, inner2); (n3, columns)] =>
              if negb (Nat.eqb inner inner2) then Some Panic else
              if e_tensor x && Nat.eqb n0 n3 then Some Panic else
              Some (omap (fun p => (fst p, [mkECont (e_tensor x) [(n0, rows); (n3, columns)] (snd p)]))
                         (each_cells t rows inner columns (e_recs x) (e_recs y) (cells rows columns)))
          | _, _ => None
          end
      | _, _ => None
      end
  | OMap _ e a =>
      match get a with
      | Some x =>
          match eval_each t e (e_recs x) true with
          | Some r => Some (omap (fun p => (fst p, [mkECont (e_tensor x) (e_shape x) (snd p)])) r)
          | None => None
          end
      | None => None
      end
  | OFromIter tensor sh colmajor e a =>
      match get a with
      | Some x =>
          if colmajor && e_tensor x then None else
          if negb tensor && negb (Nat.eqb (length sh) 2) then None else
          let rs := e_recs x in
          let rs := if colmajor then column_major (e_shape x) rs else rs in
          match eval_each t e rs true with
          | Some r => Some (omap (fun p => (fst p, [mkECont tensor sh (snd p)])) r)
          | None => None
          end
      | None => None
      end
  | OFromIters2 e1 e2 a =>
      match get a with
      | Some x =>
          match eval_each2 t e1 e2 (e_recs x) true with
          | Some r => Some (omap (fun p => (fst p, [mkECont (e_tensor x) (e_shape x) (fst (snd p));
                                                    mkECont (e_tensor x) (e_shape x) (snd (snd p))])) r)
          | None => None
          end
      | None => None
      end
  | OView kind a =>
      match get a with
      | Some x =>
          match kind, e_tensor x, e_shape x with
          | 0, true, [(n0, r); (n1, c)] =>
              Some (Ok (t, [mkECont false [(0, c); (1, r)] (column_major (e_shape x) (e_recs x))]))
          | 1, true, [(n0, r); (n1, c)] =>
              Some (Ok (t, [mkECont true [(n1, c); (n0, r)] (column_major (e_shape x) (e_recs x))]))
          | 3, _, _ =>
              Some (Ok (t, [mkECont (e_tensor x) (e_shape x) (map (fun q => rec_constant (r_num q)) (e_recs x))]))
          | _, _, _ => None
          end
      | None => None
      end
  | OSelect f srcs =>
      match sequence (map get srcs) with
      | Some (x0 :: xr) =>
          match f (map (fun c => (e_tensor c, e_shape c)) (x0 :: xr)) with
          | Some (tensor, sh, pos) =>
              match select (map e_recs (x0 :: xr)) pos with
              | Some rs => Some (Ok (t, [mkECont tensor sh rs]))
              | None => None
              end
          | None => None
          end
      | _ => None
      end
  | OCollect tensor sh colmajor take es a =>
      match get a with
      | Some x =>
          if colmajor && e_tensor x then None else
          if negb tensor && negb (Nat.eqb (length sh) 2) then None else
          if Nat.eqb (length es) 0 then None else
          let rs := e_recs x in
          let rs := if colmajor then column_major (e_shape x) rs else rs in
          match eval_eachN t es (firstn take rs) true with
          | Some r => Some (omap (fun p => (fst p, map (mkECont tensor sh) (snd p))) r)
          | None => None
          end
      | None => None
      end
  end.

Fixpoint erun (st : estate) (n : nat) (prog : list cop) : option (nat * outcome estate) :=
  match prog with
  | [] => Some (n, Ok st)
  | o :: r =>
      match estep st o with
      | None => None
      | Some (Ok (t', cs)) => erun (t', snd st ++ cs) (S n) r
      | Some (Err e) => Some (n, Err e)
      | Some Panic => Some (n, Panic)
      end
  end.

(* which environment entries are inputs: the variable declarations, in order *)
Fixpoint input_ids (k : nat) (prog : list cop) : list nat :=
  match prog with
  | [] => []
  | ODecl _ true _ _ :: r => k :: input_ids (S k) r
  | o :: r => input_ids (k + op_outputs o) r
  end.

End Container.
Arguments rec R : clear implicits.
Arguments cont R : clear implicits.
Arguments econt R : clear implicits.
Arguments unfn R : clear implicits.
Arguments binfn R : clear implicits.
Arguments sexpr R : clear implicits.
Arguments cop R : clear implicits.
