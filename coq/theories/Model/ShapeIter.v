(* ShapeIterator and the four tensor iterators (+ WithIndex): transcription of
   src/tensors/indexing.rs (ShapeIterator::from, iter, size_hint, Tensor{,Reference,ReferenceMut,
   Owned}Iterator::next, WithIndex<..>::next).  Executable definitions only. *)
From Coq Require Import List ZArith NArith Bool Arith.
From EasyML Require Import Base.Sx Model.Shape Model.Tensor Model.TSource.
Import ListNotations.
Open Scope N_scope.

(* indexes[d] = v *)
Fixpoint upd (l : list N) (d : nat) (v : N) : list N :=
  match l, d with
  | [], _ => []
  | _ :: r, O => v :: r
  | x :: r, S d' => x :: upd r d' v
  end.

Record shape_iter : Type := mkSI { si_shape : shape; si_indexes : list N; si_finished : bool }.

(* ShapeIterator::from: starting_index_valid = shape.iter().all(|(_, l)| *l > 0);
   indexes: [0; D], finished: !starting_index_valid *)
Definition shape_iter_from (sh : shape) : shape_iter :=
  mkSI sh (repeat 0 (length sh)) (negb (forallb (fun d => 0 <? snd d) sh)).

(* body of `for d in (1..D).rev()`:
     if indexes[d] == shape[d].1 { indexes[d] = 0; indexes[d - 1] += 1; } *)
Definition carry_step (lens idx : list N) (d : nat) : list N :=
  if nth d idx 0 =? nth d lens 0
  then let idx' := upd idx d 0 in upd idx' (d - 1) (nth (d - 1) idx' 0 + 1)
  else idx.

(* the loop, for d = top, top-1, ..., 1 *)
Fixpoint carry_loop (lens idx : list N) (top : nat) : list N :=
  match top with
  | O => idx
  | S top' => carry_loop lens (carry_step lens idx top) top'
  end.

(* fn iter(finished, indexes, shape) -> Option<[usize; D]> *)
Definition iter_next (it : shape_iter) : option (list N) * shape_iter :=
  if si_finished it then (None, it)
  else
    let sh := si_shape it in
    let idx := si_indexes it in
    match length sh with
    | O => (Some idx, mkSI sh idx true)
    | S last =>
        let idx1 := upd idx last (nth last idx 0 + 1) in
        let idx2 := carry_loop (lens_of sh) idx1 last in
        (Some idx, mkSI sh idx2 (nth 0 idx2 0 =? nth 0 (lens_of sh) 0))
    end.

(* get_index_direct_unchecked: index += indexes[d] * strides[d] for d in 0..D *)
Fixpoint gidu (idx st : list N) (acc : N) : N :=
  match idx, st with
  | i :: idx', s :: st' => gidu idx' st' (acc + i * s)
  | _, _ => acc
  end.

(* fn size_hint(finished, indexes, shape): the exact remaining length (both bounds equal) *)
Definition iter_len (it : shape_iter) : N :=
  if si_finished it then 0
  else match length (si_shape it) with
       | O => 1
       | S _ => elements (si_shape it) - gidu (si_indexes it) (compute_strides (si_shape it)) 0
       end.

(* ---- tensor iterators over a source ---- *)
Section TensorIter.
Context {A : Type}.

Record tensor_iter : Type := mkTI { ti_shape_iter : shape_iter; ti_source : tsrc A }.

(* Tensor*Iterator::from(source): shape_iterator = ShapeIterator::from(source.view_shape()) *)
Definition tensor_iter_from (s : tsrc A) : tensor_iter := mkTI (shape_iter_from (src_shape s)) s.

Definition ti_len (it : tensor_iter) : N := iter_len (ti_shape_iter it).

(* TensorIterator / TensorReferenceIterator / TensorReferenceMutIterator ::next:
     self.shape_iterator.next().map(|indexes| source.get_reference_unchecked(_mut)(indexes))
   The item is modelled as the place handed out (the indexes passed to the source) together with
   the element found there (None would be an out-of-bounds unchecked access). *)
Definition ti_next (it : tensor_iter) : option (list N * option A) * tensor_iter :=
  match iter_next (ti_shape_iter it) with
  | (Some idx, si') => (Some (idx, src_get (ti_source it) idx), mkTI si' (ti_source it))
  | (None, si') => (None, mkTI si' (ti_source it))
  end.

(* TensorOwnedIterator::next: mem::replace(source.get_reference_unchecked_mut(indexes), producer()) *)
Definition ti_next_owned (dflt : A) (it : tensor_iter) : option (list N * option A) * tensor_iter :=
  match iter_next (ti_shape_iter it) with
  | (Some idx, si') =>
      let v := src_get (ti_source it) idx in
      let s' := match src_set (ti_source it) idx dflt with Some s' => s' | None => ti_source it end in
      (Some (idx, v), mkTI si' s')
  | (None, si') => (None, mkTI si' (ti_source it))
  end.

(* WithIndex<..>::next: let index = self.iterator.shape_iterator.indexes;
                         self.iterator.next().map(|x| (index, x)) *)
Definition ti_with_index {I} (next : tensor_iter -> option I * tensor_iter) (it : tensor_iter)
  : option (list N * I) * tensor_iter :=
  let index := si_indexes (ti_shape_iter it) in
  match next it with
  | (Some x, it') => (Some (index, x), it')
  | (None, it') => (None, it')
  end.

(* the caller writing through a reference handed out by the mutable iterator *)
Definition ti_write (it : tensor_iter) (place : list N) (v : A) : tensor_iter :=
  match src_set (ti_source it) place v with
  | Some s' => mkTI (ti_shape_iter it) s'
  | None => it
  end.

End TensorIter.
Arguments tensor_iter A : clear implicits.

(* ---- driving an iterator: k calls of next, recording the item and the length reported after
   each call ---- *)
Section Drive.
Context {St I : Type}.
Variable next : St -> option I * St.
Variable len : St -> N.

Fixpoint drive (k : nat) (s : St) : list (option I * N) * St :=
  match k with
  | O => ([], s)
  | S k' =>
      let '(x, s') := next s in
      let '(rest, s'') := drive k' s' in
      ((x, len s') :: rest, s'')
  end.
End Drive.
