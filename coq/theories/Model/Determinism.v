(* C18 model: a machine with SEVERAL tapes (WengertLists) and records that refer to them, with the
   one place where the crate looks at an address made explicit.

   In the crate a Record holds `history: Option<&'a WengertList<T>>`; the only operations on that
   reference are (1) dereferencing it to append to / read the tape and (2) `std::ptr::eq` in
   differentiation::record_operations::same_lists (used by same_list, are_same_list,
   are_exact_same_list).  Here a reference is an abstract tape identity `tid` (allocation order);
   dereferencing is `nth tid tapes`; and (2) is a parameter `sl : tid -> tid -> bool` of the whole
   machine.  The implementation's `sl` is "equality of the ADDRESSES the allocator happened to hand
   out": sl_of eqA addr a b = eqA (addr a) (addr b).  Executable definitions only; the theorems are
   in Proofs/C18P.v.

   Transcribed: Record::variable / WengertList::variable (append_nullary), Record::constant,
   the Add / Mul impls for &Record (record_operations.rs:150-200, 344-377: assert same_list, then
   the four history cases; a constant operand goes through `self op &rhs.number` resp.
   `rhs op &self.number`, i.e. append_unary), collect_into_components
   (container_record/iterators.rs:452-497: first history wins, are_exact_same_list against every
   later one, the LAST mismatch is reported, Empty when there is no record), WengertList::clear,
   Record::derivatives (Model/Tape.v sweep). *)
From Coq Require Import List Arith Bool.
From EasyML Require Import Base.Sx Model.Num Model.Tape.
Import ListNotations.

Definition tid := nat.

Section Machine.
Context {R : Type} (ops : numops R).
Variable sl : tid -> tid -> bool.          (* same_lists: ptr::eq on the two tape references *)

Record rcd := mkR { r_val : R; r_hist : option tid; r_idx : nat }.

Record st := mkSt { tapes : list (tape R); regs : list rcd }.

Inductive instr :=
| INewTape                         (* WengertList::new() *)
| IVar (t : tid) (v : R)           (* Record::variable(v, &tape_t) *)
| IConst (v : R)                   (* Record::constant(v) *)
| IAdd (a b : nat)                 (* &reg_a + &reg_b *)
| IMul (a b : nat)                 (* &reg_a * &reg_b *)
| ICollect (rs : list nat)         (* RecordTensor::from_iter([("x", n)], regs rs) *)
| IClear (t : tid)                 (* tape_t.clear() *)
| IDeriv (a : nat).                (* reg_a.derivatives() *)

Inductive event :=
| ERec (r : rcd)                   (* a record was produced: value, history, position *)
| EPanic
| EUnit
| ECollected (h : option tid) (ns : list (R * nat))
| EInconsistent (first later : option tid)
| EEmpty
| EDerivs (d : list R)
| EBad.                            (* the program refers to a register / tape that does not exist *)

(* record_operations.rs:106 same_list *)
Definition same_list (x y : option tid) : bool :=
  match x, y with
  | Some a, Some b => sl a b
  | _, _ => true
  end.

(* record_operations.rs:135 are_exact_same_list *)
Definition are_exact_same_list (x y : option tid) : bool :=
  match x, y with
  | None, None => true
  | Some a, Some b => sl a b
  | _, _ => false
  end.

Fixpoint set_nth {A} (l : list A) (n : nat) (x : A) : list A :=
  match l, n with
  | [], _ => []
  | _ :: r, O => x :: r
  | y :: r, S n' => y :: set_nth r n' x
  end.

Definition tape_at (s : st) (t : tid) : tape R := nth t (tapes s) [].

Definition push (s : st) (ts : list (tape R)) (r : rcd) : st * event :=
  (mkSt ts (regs s ++ [r]), ERec r).

(* the four history cases of a binary operator; f = the function, dx dy = its partial derivatives *)
Definition binop (f dx dy : R -> R -> R) (s : st) (x y : rcd) : st * event :=
  if same_list (r_hist x) (r_hist y) then
    match r_hist x, r_hist y with
    | None, None => push s (tapes s) (mkR (f (r_val x) (r_val y)) None 0)
    | Some h, None =>                      (* self op &rhs.number *)
        let '(t', i) := append_unary ops (tape_at s h) (r_idx x) (dx (r_val x) (r_val y)) in
        push s (set_nth (tapes s) h t') (mkR (f (r_val x) (r_val y)) (Some h) i)
    | None, Some h =>                      (* rhs op &self.number *)
        let '(t', i) := append_unary ops (tape_at s h) (r_idx y) (dx (r_val y) (r_val x)) in
        push s (set_nth (tapes s) h t') (mkR (f (r_val y) (r_val x)) (Some h) i)
    | Some h, Some _ =>                    (* the LEFT operand's tape is the one appended to *)
        let '(t', i) := append_binary (tape_at s h) (r_idx x) (dx (r_val x) (r_val y))
                                      (r_idx y) (dy (r_val x) (r_val y)) in
        push s (set_nth (tapes s) h t') (mkR (f (r_val x) (r_val y)) (Some h) i)
    end
  else (s, EPanic).

(* collect_into_components: returns (first history, last mismatch if any) *)
Fixpoint collect (first : option tid) (err : option (option tid * option tid)) (rs : list rcd)
  : option (option tid * option tid) :=
  match rs with
  | [] => err
  | r :: rest =>
      collect first
              (if are_exact_same_list first (r_hist r) then err else Some (first, r_hist r))
              rest
  end.

Definition lookup_regs (s : st) (rs : list nat) : option (list rcd) :=
  sequence (map (fun k => nth_error (regs s) k) rs).

Definition machine_step (s : st) (i : instr) : st * event :=
  match i with
  | INewTape => (mkSt (tapes s ++ [[]]) (regs s), EUnit)
  | IVar t v =>
      if Nat.ltb t (length (tapes s)) then
        let '(t', k) := append_nullary ops (tape_at s t) in
        push s (set_nth (tapes s) t t') (mkR v (Some t) k)
      else (s, EBad)
  | IConst v => push s (tapes s) (mkR v None 0)
  | IAdd a b =>
      match nth_error (regs s) a, nth_error (regs s) b with
      | Some x, Some y => binop (nadd ops) (fun _ _ => none_ ops) (fun _ _ => none_ ops) s x y
      | _, _ => (s, EBad)
      end
  | IMul a b =>
      match nth_error (regs s) a, nth_error (regs s) b with
      | Some x, Some y => binop (nmul ops) (fun _ y => y) (fun x _ => x) s x y
      | _, _ => (s, EBad)
      end
  | ICollect rs =>
      match lookup_regs s rs with
      | None => (s, EBad)
      | Some [] => (s, EEmpty)
      | Some (r :: rest) =>
          match collect (r_hist r) None rest with
          | Some (f, l) => (s, EInconsistent f l)
          | None => (s, ECollected (r_hist r) (map (fun q => (r_val q, r_idx q)) (r :: rest)))
          end
      end
  | IClear t =>
      if Nat.ltb t (length (tapes s)) then (mkSt (set_nth (tapes s) t []) (regs s), EUnit)
      else (s, EBad)
  | IDeriv a =>
      match nth_error (regs s) a with
      | None => (s, EBad)
      | Some x =>
          match r_hist x with
          | None => (s, EPanic)               (* "Record has no WengertList to find derivatives from" *)
          | Some h =>
              match derivatives ops (tape_at s h) (r_idx x) with
              | Ok d => (s, EDerivs d)
              | _ => (s, EPanic)
              end
          end
      end
  end.

Fixpoint machine_run (s : st) (p : list instr) : st * list event :=
  match p with
  | [] => (s, [])
  | i :: rest =>
      let '(s', e) := machine_step s i in
      let '(s'', es) := machine_run s' rest in
      (s'', e :: es)
  end.

Definition machine_init : st := mkSt [] [].

End Machine.

Arguments rcd R : clear implicits.
Arguments st R : clear implicits.
Arguments instr R : clear implicits.
Arguments event R : clear implicits.

(* the implementation's same_lists: equality of the addresses of the two tapes *)
Definition sl_of {A} (eqA : A -> A -> bool) (addr : tid -> A) : tid -> tid -> bool :=
  fun a b => eqA (addr a) (addr b).

(* the reference semantics: tape identity *)
Definition sl_id : tid -> tid -> bool := Nat.eqb.

(* ---------------------------------------------------------------- two clients, one heap of tapes
   "No result depends on previously executed unrelated library calls": two independent pieces of
   client code (owner true / owner false), each with its OWN registers (its local variables),
   executed in some interleaving against the SAME collection of tapes.  The registers of the
   single-client machine above are exactly such local variables, so each owner's instructions run
   through machine_step on (shared tapes, own registers). *)
Section Two.
Context {R : Type} (ops : numops R).
Variable sl : tid -> tid -> bool.

Record st2 := mkSt2 { tapes2 : list (tape R); regsL : list (rcd R); regsR : list (rcd R) }.

Definition step2 (s : st2) (oi : bool * instr R) : st2 * event R :=
  if fst oi then
    let '(s', e) := machine_step ops sl (mkSt (tapes2 s) (regsL s)) (snd oi) in
    (mkSt2 (tapes s') (regs s') (regsR s), e)
  else
    let '(s', e) := machine_step ops sl (mkSt (tapes2 s) (regsR s)) (snd oi) in
    (mkSt2 (tapes s') (regsL s) (regs s'), e).

Fixpoint run2 (s : st2) (p : list (bool * instr R)) : st2 * list (bool * event R) :=
  match p with
  | [] => (s, [])
  | oi :: rest =>
      let '(s', e) := step2 s oi in
      let '(s'', es) := run2 s' rest in
      (s'', (fst oi, e) :: es)
  end.
End Two.

Arguments st2 R : clear implicits.

(* what one owner contributed to / saw of an interleaving *)
Definition proj {X} (o : bool) (l : list (bool * X)) : list X :=
  map snd (filter (fun x => Bool.eqb (fst x) o) l).
