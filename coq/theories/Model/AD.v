(* Reverse-mode automatic differentiation with Record (src/differentiation.rs,
   src/differentiation/record_operations.rs, src/differentiation/functions.rs), over an arbitrary
   dictionary of numeric operations.  Executable definitions only.

   Transcription notes (what is kept "as written"):
   * a Record is (number, history : Option<&WengertList>, index); the property is about ONE tape,
     so `history` is a bool (has a tape / has none) and the tape is threaded through every
     operator as state; constants carry index 0;
   * functions.rs: each FunctionDerivative struct is a triple (function, d_function_dx,
     d_function_dy), each UnaryFunctionDerivative a pair; the operator impls of
     record_operations.rs are five copies of the same four-way match instantiated with
     Addition / Subtraction / Multiplication / Division / Power; they differ ONLY in the
     (None, Some) arm: `rhs + &self.number` and `rhs * &self.number` (operands commuted, d/dx of the
     commuted call) for + and *, `rhs.sub_swapped(self.number)`, `rhs.div_swapped(self.number)`,
     `(&self.number).pow(rhs)` (constant stays on the left, d/dy) for - / pow.  The model keeps
     exactly that: `rec_rec F commuted`;
   * Neg: `-number` without a tape, `Record::constant(zero) - self` with one;
   * Sum: the loop with its own four-way match and weights `one`;
   * Record::unary / Record::binary with caller-supplied functions;
   * every by-value / by-reference form delegates to the &Record (op) &Record / &Record (op) &T
     impl, so one model function per operator KIND; that all forms agree is cross-checked on the
     Rust side by the harness.
   Shared by C04, C05 (program syntax), C06, C15. *)
From Coq Require Import List Arith ZArith.
From EasyML Require Import Base.Sx Model.Num Model.Tape.
Import ListNotations.

Section AD.
Context {R : Type} (ops : numops R).
Notation zero := (nzero ops).
Notation one := (none_ ops).
Notation tape := (tape R).

(* ---------------- functions.rs ---------------- *)
(* trait FunctionDerivative { function, d_function_dx, d_function_dy } *)
Record fd2 : Type := mkFd2 { f2 : R -> R -> R; f2dx : R -> R -> R; f2dy : R -> R -> R }.
(* trait UnaryFunctionDerivative { function, d_function_dx } *)
Record fd1 : Type := mkFd1 { f1 : R -> R; f1dx : R -> R }.

Definition Addition : fd2 :=
  mkFd2 (fun x y => nadd ops x y) (fun _ _ => one) (fun _ _ => one).
Definition Subtraction : fd2 :=
  mkFd2 (fun x y => nsub ops x y) (fun _ _ => one) (fun _ _ => nneg ops one).
Definition Multiplication : fd2 :=
  mkFd2 (fun x y => nmul ops x y) (fun _ y => y) (fun x _ => x).
(* d/dx = one / y ; d/dy = -x / (y * y)   [unary minus binds tighter than / in Rust] *)
Definition Division : fd2 :=
  mkFd2 (fun x y => ndiv ops x y) (fun _ y => ndiv ops one y)
        (fun x y => ndiv ops (nneg ops x) (nmul ops y y)).
(* d/dx = y * x.pow(y - one) ; d/dy = x.pow(y) * x.ln() *)
Definition Power : fd2 :=
  mkFd2 (fun x y => npow ops x y)
        (fun x y => nmul ops y (npow ops x (nsub ops y one)))
        (fun x y => nmul ops (npow ops x y) (nln ops x)).
Definition Sine : fd1 := mkFd1 (fun x => nsin ops x) (fun x => ncos ops x).
Definition Cosine : fd1 := mkFd1 (fun x => ncos ops x) (fun x => nneg ops (nsin ops x)).
Definition Exponential : fd1 := mkFd1 (fun x => nexp ops x) (fun x => nexp ops x).
Definition NaturalLogarithm : fd1 := mkFd1 (fun x => nln ops x) (fun x => ndiv ops one x).
(* one / ((one + one) * x.sqrt()) *)
Definition SquareRoot : fd1 :=
  mkFd1 (fun x => nsqrt ops x) (fun x => ndiv ops one (nmul ops (nadd ops one one) (nsqrt ops x))).

(* ---------------- Record ---------------- *)
Record rec : Type := mkRec { number : R; history : bool; index : nat }.

(* Record::constant *)
Definition constant (c : R) : rec := mkRec c false 0.
(* Record::variable / WengertList::variable *)
Definition variable (t : tape) (x : R) : rec * tape :=
  let '(t', i) := append_nullary ops t in (mkRec x true i, t').

(* impl Op<&T> for &Record  (Add, Sub, Mul, Div, Pow): record (op) number *)
Definition rec_num (F : fd2) (t : tape) (a : rec) (c : R) : rec * tape :=
  if history a then
    let '(t', i) := append_unary ops t (index a) (f2dx F (number a) c) in
    (mkRec (f2 F (number a) c) true i, t')
  else (mkRec (f2 F (number a) c) false 0, t).

(* SwappedOperations::sub_swapped / div_swapped and impl Pow<&Record> for &T:
   number (op) record, the constant is the LEFT operand, derivative with respect to y *)
Definition num_rec (F : fd2) (t : tape) (c : R) (b : rec) : rec * tape :=
  if history b then
    let '(t', i) := append_unary ops t (index b) (f2dy F c (number b)) in
    (mkRec (f2 F c (number b)) true i, t')
  else (mkRec (f2 F c (number b)) false 0, t).

(* impl Op<&Record> for &Record: the four-way match on (self.history, rhs.history) *)
Definition rec_rec (F : fd2) (commuted : bool) (t : tape) (a b : rec) : rec * tape :=
  match history a, history b with
  | false, false => (mkRec (f2 F (number a) (number b)) false 0, t)
  | true, false => rec_num F t a (number b)
  | false, true => if commuted then rec_num F t b (number a) else num_rec F t (number a) b
  | true, true =>
      let '(t', i) := append_binary t (index a) (f2dx F (number a) (number b))
                                      (index b) (f2dy F (number a) (number b)) in
      (mkRec (f2 F (number a) (number b)) true i, t')
  end.

Definition rec_add := rec_rec Addition true.
Definition rec_mul := rec_rec Multiplication true.
Definition rec_sub := rec_rec Subtraction false.
Definition rec_div := rec_rec Division false.
Definition rec_pow := rec_rec Power false.

(* impl Neg for &Record / Record *)
Definition rec_neg (t : tape) (a : rec) : rec * tape :=
  if history a then rec_sub t (constant zero) a
  else (mkRec (nneg ops (number a)) false 0, t).

(* impl Sin/Cos/Exp/Ln/Sqrt for &Record, and Record::unary(fx, dfx_dx) *)
Definition rec_un (F : fd1) (t : tape) (a : rec) : rec * tape :=
  if history a then
    let '(t', i) := append_unary ops t (index a) (f1dx F (number a)) in
    (mkRec (f1 F (number a)) true i, t')
  else (mkRec (f1 F (number a)) false 0, t).

(* Record::binary(rhs, fxy, dfxy_dx, dfxy_dy): its own four-way match *)
Definition rec_binary (F : fd2) (t : tape) (a b : rec) : rec * tape :=
  match history a, history b with
  | false, false => (mkRec (f2 F (number a) (number b)) false 0, t)
  | true, false =>
      let '(t', i) := append_unary ops t (index a) (f2dx F (number a) (number b)) in
      (mkRec (f2 F (number a) (number b)) true i, t')
  | false, true =>
      let '(t', i) := append_unary ops t (index b) (f2dy F (number a) (number b)) in
      (mkRec (f2 F (number a) (number b)) true i, t')
  | true, true =>
      let '(t', i) := append_binary t (index a) (f2dx F (number a) (number b))
                                      (index b) (f2dy F (number a) (number b)) in
      (mkRec (f2 F (number a) (number b)) true i, t')
  end.

(* impl Sum for Record: one iteration of the loop, total = match (total.history, next.history) *)
Definition sum_step (st : rec * tape) (next : rec) : rec * tape :=
  let '(total, t) := st in
  let n := nadd ops (number total) (number next) in
  match history total, history next with
  | false, false => (mkRec n false 0, t)
  | true, false => let '(t', i) := append_unary ops t (index total) one in (mkRec n true i, t')
  | false, true => let '(t', i) := append_unary ops t (index next) one in (mkRec n true i, t')
  | true, true =>
      let '(t', i) := append_binary t (index total) one (index next) one in (mkRec n true i, t')
  end.
Definition rec_sum (t : tape) (l : list rec) : rec * tape :=
  fold_left sum_step l (constant zero, t).

(* ---------------- straight-line programs (the case language of C04 / C05) ---------------- *)
Inductive bop : Type := BAdd | BSub | BMul | BDiv | BPow.
(* number (op) record exists only as sub_swapped, div_swapped and number.pow(record) *)
Inductive cop : Type := CSub | CDiv | CPow.
Inductive uop : Type := UNeg | USin | UCos | UExp | ULn | USqrt.

(* operands are the positions of EARLIER instructions (any reuse / fan-out) *)
Inductive instr : Type :=
| IVar (x : R)                              (* Record::variable(x, &list) *)
| IConst (c : R)                            (* Record::constant(c) *)
| IBin (o : bop) (a b : nat)                (* record (op) record *)
| IBinC (o : bop) (a : nat) (c : R)         (* record (op) number *)
| ICBin (o : cop) (c : R) (b : nat)         (* number (op) record *)
| IUn (o : uop) (a : nat)                   (* -x, x.sin() ... x.sqrt() *)
| ISum (l : list nat)                       (* [..].into_iter().sum() *)
| IUser1 (f df : R -> R) (a : nat)          (* a.unary(f, df) *)
| IUser2 (f dx dy : R -> R -> R) (a b : nat)   (* a.binary(&b, f, dx, dy) *).

Definition bop_fd (o : bop) : fd2 :=
  match o with
  | BAdd => Addition | BSub => Subtraction | BMul => Multiplication | BDiv => Division
  | BPow => Power
  end.
Definition cop_fd (o : cop) : fd2 :=
  match o with CSub => Subtraction | CDiv => Division | CPow => Power end.
Definition bop_commuted (o : bop) : bool :=
  match o with BAdd | BMul => true | _ => false end.
Definition uop_fd (o : uop) : fd1 :=
  match o with
  | UNeg => mkFd1 (fun x => nneg ops x) (fun _ => nneg ops one)   (* not used: rec_neg *)
  | USin => Sine | UCos => Cosine | UExp => Exponential | ULn => NaturalLogarithm
  | USqrt => SquareRoot
  end.

(* state of a run: the record produced by every instruction so far, and the tape *)
Definition state : Type := (list rec * tape)%type.
Definition getr (nodes : list rec) (n : nat) : rec := nth n nodes (constant zero).

Definition exec_op (nodes : list rec) (t : tape) (ins : instr) : rec * tape :=
  match ins with
  | IVar x => variable t x
  | IConst c => (constant c, t)
  | IBin o a b => rec_rec (bop_fd o) (bop_commuted o) t (getr nodes a) (getr nodes b)
  | IBinC o a c => rec_num (bop_fd o) t (getr nodes a) c
  | ICBin o c b => num_rec (cop_fd o) t c (getr nodes b)
  | IUn UNeg a => rec_neg t (getr nodes a)
  | IUn o a => rec_un (uop_fd o) t (getr nodes a)
  | ISum l => rec_sum t (map (getr nodes) l)
  | IUser1 f df a => rec_un (mkFd1 f df) t (getr nodes a)
  | IUser2 f dx dy a b => rec_binary (mkFd2 f dx dy) t (getr nodes a) (getr nodes b)
  end.

Definition exec (st : state) (ins : instr) : state :=
  let '(nodes, t) := st in
  let '(r, t') := exec_op nodes t ins in (nodes ++ [r], t').

Definition run_prog (prog : list instr) : state := fold_left exec prog ([], []).

(* Record::try_derivatives (None without a tape) of the record of instruction `out`, read after
   the WHOLE program has run (the tape contains every later entry as well) *)
Definition try_derivatives (st : state) (out : nat) : option (list R) :=
  let r := getr (fst st) out in
  if history r then Some (sweep ops (snd st) (index r)) else None.
(* Derivatives::at(&x) = derivatives[x.index] *)
Definition at_ (d : list R) (x : rec) : R := nth (index x) d zero.

(* well-formed programs: every operand refers to an earlier instruction *)
Definition instr_refs (ins : instr) : list nat :=
  match ins with
  | IVar _ | IConst _ => []
  | IBin _ a b | IUser2 _ _ _ a b => [a; b]
  | IBinC _ a _ | IUn _ a | IUser1 _ _ a => [a]
  | ICBin _ _ b => [b]
  | ISum l => l
  end.
Fixpoint prog_ok_from (n : nat) (prog : list instr) : bool :=
  match prog with
  | [] => true
  | ins :: r => forallb (fun a => Nat.ltb a n) (instr_refs ins) && prog_ok_from (S n) r
  end.
Definition prog_ok (prog : list instr) : bool := prog_ok_from 0 prog.

Definition is_var (ins : instr) : bool := match ins with IVar _ => true | _ => false end.
(* positions of the IVar instructions *)
Fixpoint var_nodes_from (n : nat) (prog : list instr) : list nat :=
  match prog with
  | [] => []
  | ins :: r => (if is_var ins then [n] else []) ++ var_nodes_from (S n) r
  end.
Definition var_nodes (prog : list instr) : list nat := var_nodes_from 0 prog.

(* ---------------- the caller-supplied functions used by the correspondence ----------------
   (identical table in harness/src/c04/prog.rs).  Entries 3 are deliberately NOT the derivative
   of their function: the API records whatever the caller supplies. *)
Definition two : R := nadd ops one one.
Definition user1_table (k : Z) : option (fd1) :=
  match k with
  | 0%Z => Some (mkFd1 (fun x => nmul ops x x) (fun x => nadd ops x x))
  | 1%Z => Some (mkFd1 (fun x => nadd ops (nmul ops (nmul ops x x) x) (nmul ops two x))
                       (fun x => nadd ops (nmul ops (nadd ops two one) (nmul ops x x)) two))
  | 2%Z => Some (mkFd1 (fun x => ndiv ops one x) (fun x => nneg ops (ndiv ops one (nmul ops x x))))
  | 3%Z => Some (mkFd1 (fun x => nadd ops x one) (fun x => x))
  | _ => None
  end.
Definition user2_table (k : Z) : option (fd2) :=
  match k with
  | 0%Z => Some (mkFd2 (fun x y => nadd ops (nmul ops x y) x) (fun _ y => nadd ops y one) (fun x _ => x))
  | 1%Z => Some (mkFd2 (fun x y => ndiv ops x y) (fun _ y => ndiv ops one y)
                       (fun x y => nneg ops (ndiv ops x (nmul ops y y))))
  | 2%Z => Some (mkFd2 (fun x y => nsub ops x (nmul ops y y)) (fun _ _ => one)
                       (fun _ y => nneg ops (nadd ops y y)))
  | 3%Z => Some (mkFd2 (fun x y => nmul ops x y) (fun x _ => x) (fun _ y => y))
  | _ => None
  end.

End AD.
Arguments rec R : clear implicits.
Arguments instr R : clear implicits.
Arguments fd1 R : clear implicits.
Arguments fd2 R : clear implicits.
Arguments state R : clear implicits.
