(* C20 model: a deep embedding of Rust type declarations (what tools/gen_types.py emits into
   Gen/Types.v from /repo/src on every run) and rustc's structural auto-trait rules for
   Send / Sync as an executable evaluator.  Executable definitions only.

   The rules transcribed (core::marker, alloc, core::cell; rustc's auto-trait candidate assembly):
     - a struct / enum / tuple / array / slice is Send (Sync) iff every field / element type is,
       unless an explicit `unsafe impl` (then: exactly when that impl's Send/Sync conditions hold)
       or a negative impl (then: never) exists for it;
     - &T : Send <-> T : Sync          &T : Sync <-> T : Sync
     - &mut T : Send <-> T : Send      &mut T : Sync <-> T : Sync
     - *const T, *mut T, NonNull<T>    : neither
     - RefCell<T>, Cell<T>, UnsafeCell<T> : Send <-> T : Send ; never Sync
     - Vec / Box / Option / Range / PhantomData<T> : as T
     - Rc<T> : neither ;  Arc<T> : Send, Sync <-> T : Send + Sync ;  Mutex<T> : Send, Sync <-> T : Send
     - RwLock<T>, OnceLock<T> : Send <-> T : Send ; Sync <-> T : Send + Sync
     - OnceCell<T> : as Cell<T> (Send <-> T : Send ; never Sync)
     - fn pointers, primitives, str, String : both
     - dyn Trait (+ Send) (+ Sync) : exactly the listed auto traits
     - a type the translator could not read (TOpaque) : neither (conservative)
     - auto-trait goals are coinductive: a goal met again while it is being solved holds
       (needed for the recursive enum matrices::slices::Slice). *)
From Coq Require Import List Arith Bool Strings.Byte.
Import ListNotations.

(* Names are byte strings of our own (not Coq's `string`: the extracted type would be called
   `string` and shadow OCaml's inside ocaml/modelrun.ml).  Literals "..." in str_scope. *)
Inductive str := Str (bytes : list byte).
Definition mk_str (l : list byte) : str := Str l.
Definition str_bytes (s : str) : list byte := match s with Str l => l end.
Declare Scope str_scope.
Delimit Scope str_scope with str.
String Notation str mk_str str_bytes : str_scope.
Open Scope str_scope.

Fixpoint bytes_eqb (a b : list byte) : bool :=
  match a, b with
  | [], [] => true
  | x :: a', y :: b' => Byte.eqb x y && bytes_eqb a' b'
  | _, _ => false
  end.
Definition str_eqb (a b : str) : bool := bytes_eqb (str_bytes a) (str_bytes b).
Definition str_app (a b : str) : str := Str (str_bytes a ++ str_bytes b).
Infix "+++" := str_app (at level 60, right associativity).

Inductive lifetime :=
| LStatic
| LParam (n : nat)            (* n-th lifetime parameter of the enclosing declaration *)
| LAnon                       (* elided *)
| LOther (name : str).     (* a lifetime name that is not a parameter of the declaration *)

Inductive trait := Send | Sync.

Inductive ty :=
| TParam (n : nat)            (* n-th TYPE parameter of the enclosing declaration *)
| TPrim (name : str)       (* usize, bool, f64, str, String ... *)
| TRef (l : lifetime) (mutable : bool) (t : ty)
| TRaw (mutable : bool) (t : ty)
| TRawNN (t : ty)             (* NonNull<T> *)
| TRefCell (t : ty)
| TCell (t : ty)              (* Cell / UnsafeCell / OnceCell *)
| TVec (t : ty) | TBox (t : ty) | TOption (t : ty) | TRange (t : ty)
| TArray (t : ty) | TSlice (t : ty)
| TPhantom (t : ty)
| TRc (t : ty) | TArc (t : ty) | TMutex (t : ty)
| TRwLock (t : ty)            (* RwLock / OnceLock *)
| TTuple (ts : list ty)
| TFnPtr
| TDyn (send sync : bool)
| TOpaque (what : str)
| TApp (name : str) (lts : list lifetime) (args : list ty).

Inductive kind := KStruct | KEnum | KUnion.
(* explicit marker impls: Explicit conds = `unsafe impl<..> Tr for X<..>` whose where-clauses put
   (trait, n) : "the n-th type argument implements trait" *)
Inductive marker := Auto | Explicit (conds : list (trait * nat)) | Negative.

Record decl := {
  dname : str; dkind : kind; dpub : bool;
  dlts : nat; dtys : nat; dconsts : nat;            (* numbers of lifetime / type / const parameters *)
  dfields : list (str * ty);                    (* enum: the fields of all variants, "Variant.field" *)
  dsend : marker; dsync : marker }.

Record alias := { aname : str; alts : nat; atys : nat; abody : ty }.
(* tparams: the trait's own type parameters; tsupers: each supertrait as written, (path, generic
   arguments) -- `trait Similar<Rhs>: private::Sealed` is ("private::Sealed", []) *)
Record trait_decl := { tname : str; tunsafe : bool; tpub : bool; tparams : list str;
                       tsupers : list (str * list str) }.
(* the syntactic form of a type in an impl header: a bare type parameter of the impl, an application
   of a named type constructor (local = it is a struct / enum declared in this crate), anything else *)
Inductive tform := FParam (name : str) | FApp (name : str) (local : bool) | FOther (text : str).
(* `impl<params> Trait<args> for Self where lhs: bound, ...`; ti_args = [] is the default (Rhs = Self) *)
Record trait_impl := { ti_trait : str; ti_mod : str; ti_params : list str; ti_self : tform;
                       ti_args : list tform; ti_where : list (str * str) }.
Record mod_decl := { mname : str; mpub : bool; minline : bool }.
Record reexport := { rmod : str; rvis : str; rpath : list str }.
Record marker_impl := { mi_trait : trait; mi_unsafe : bool; mi_negative : bool; mi_target : str }.

(* ---------------------------------------------------------------- substitution *)

Definition subst_lt (ls : list lifetime) (l : lifetime) : lifetime :=
  match l with LParam n => nth n ls LAnon | _ => l end.

Fixpoint subst (ls : list lifetime) (args : list ty) (t : ty) : ty :=
  match t with
  | TParam n => nth n args (TOpaque "unbound parameter")
  | TPrim s => TPrim s
  | TRef l m t => TRef (subst_lt ls l) m (subst ls args t)
  | TRaw m t => TRaw m (subst ls args t)
  | TRawNN t => TRawNN (subst ls args t)
  | TRefCell t => TRefCell (subst ls args t)
  | TCell t => TCell (subst ls args t)
  | TVec t => TVec (subst ls args t) | TBox t => TBox (subst ls args t)
  | TOption t => TOption (subst ls args t) | TRange t => TRange (subst ls args t)
  | TArray t => TArray (subst ls args t) | TSlice t => TSlice (subst ls args t)
  | TPhantom t => TPhantom (subst ls args t)
  | TRc t => TRc (subst ls args t) | TArc t => TArc (subst ls args t)
  | TMutex t => TMutex (subst ls args t)
  | TRwLock t => TRwLock (subst ls args t)
  | TTuple ts => TTuple (map (subst ls args) ts)
  | TFnPtr => TFnPtr
  | TDyn a b => TDyn a b
  | TOpaque s => TOpaque s
  | TApp n l ts => TApp n (map (subst_lt ls) l) (map (subst ls args) ts)
  end.

(* ---------------------------------------------------------------- equality (for the cycle check) *)

Definition lifetime_eqb (a b : lifetime) : bool :=
  match a, b with
  | LStatic, LStatic | LAnon, LAnon => true
  | LParam n, LParam m => Nat.eqb n m
  | LOther s, LOther t => str_eqb s t
  | _, _ => false
  end.

Definition trait_eqb (a b : trait) : bool :=
  match a, b with Send, Send | Sync, Sync => true | _, _ => false end.

Fixpoint ty_eqb (a b : ty) : bool :=
  match a, b with
  | TParam n, TParam m => Nat.eqb n m
  | TPrim s, TPrim t => str_eqb s t
  | TRef l m t, TRef l' m' t' => lifetime_eqb l l' && Bool.eqb m m' && ty_eqb t t'
  | TRaw m t, TRaw m' t' => Bool.eqb m m' && ty_eqb t t'
  | TRawNN t, TRawNN t' | TRefCell t, TRefCell t' | TCell t, TCell t' | TVec t, TVec t'
  | TBox t, TBox t' | TOption t, TOption t' | TRange t, TRange t' | TArray t, TArray t'
  | TSlice t, TSlice t' | TPhantom t, TPhantom t' | TRc t, TRc t' | TArc t, TArc t'
  | TMutex t, TMutex t' | TRwLock t, TRwLock t' => ty_eqb t t'
  | TTuple ts, TTuple ts' =>
      (fix go (xs ys : list ty) : bool :=
         match xs, ys with
         | [], [] => true
         | x :: xs', y :: ys' => ty_eqb x y && go xs' ys'
         | _, _ => false
         end) ts ts'
  | TFnPtr, TFnPtr => true
  | TDyn a1 b1, TDyn a2 b2 => Bool.eqb a1 a2 && Bool.eqb b1 b2
  | TOpaque s, TOpaque t => str_eqb s t
  | TApp n l ts, TApp n' l' ts' =>
      str_eqb n n' &&
      (fix go (xs ys : list ty) : bool :=
         match xs, ys with
         | [], [] => true
         | x :: xs', y :: ys' => ty_eqb x y && go xs' ys'
         | _, _ => false
         end) ts ts'                       (* lifetimes are irrelevant to auto traits *)
  | _, _ => false
  end.

(* ---------------------------------------------------------------- the evaluator *)

Definition lookup (ds : list decl) (n : str) : option decl :=
  find (fun d => str_eqb (dname d) n) ds.

Definition marker_of (tr : trait) (d : decl) : marker :=
  match tr with Send => dsend d | Sync => dsync d end.

(* asm tr n = "the n-th type parameter of the type under study implements tr"
   (rustc's parameter environment).  `seen` = the nominal goals being solved (coinduction). *)
Fixpoint holds_in (fuel : nat) (ds : list decl) (asm : trait -> nat -> bool)
         (seen : list (trait * ty)) (tr : trait) (t : ty) : bool :=
  match fuel with
  | O => false
  | S f =>
    let rec := holds_in f ds asm seen in
    match t with
    | TParam n => asm tr n
    | TPrim _ | TFnPtr => true
    | TRef _ false t' => rec Sync t'
    | TRef _ true t' => rec tr t'
    | TRaw _ _ | TRawNN _ | TRc _ | TOpaque _ => false
    | TRefCell t' | TCell t' => match tr with Send => rec Send t' | Sync => false end
    | TVec t' | TBox t' | TOption t' | TRange t' | TArray t' | TSlice t' | TPhantom t' => rec tr t'
    | TArc t' => rec Send t' && rec Sync t'
    | TMutex t' => rec Send t'
    | TRwLock t' => match tr with Send => rec Send t' | Sync => rec Send t' && rec Sync t' end
    | TTuple ts => forallb (rec tr) ts
    | TDyn s y => match tr with Send => s | Sync => y end
    | TApp n ls args =>
        match lookup ds n with
        | None => false
        | Some d =>
            match marker_of tr d with
            | Negative => false
            | Explicit conds =>
                forallb (fun c => rec (fst c) (nth (snd c) args (TOpaque "missing argument"))) conds
            | Auto =>
                if existsb (fun g => trait_eqb (fst g) tr && ty_eqb (snd g) t) seen then true
                else forallb (fun fld => holds_in f ds asm ((tr, t) :: seen) tr (subst ls args (snd fld)))
                             (dfields d)
            end
        end
    end
  end.

Definition FUEL := 40.    (* deeper than any nesting of the declarations; see C20_fuel_stable *)

Definition holds (ds : list decl) (asm : trait -> nat -> bool) (tr : trait) (t : ty) : bool :=
  holds_in FUEL ds asm [] tr t.

(* the generic instance of a declaration: Name<'p0.., T0, T1, ..> *)
Definition generic (d : decl) : ty :=
  TApp (dname d) (map LParam (seq 0 (dlts d))) (map TParam (seq 0 (dtys d))).

Definition generic_of (ds : list decl) (n : str) : ty :=
  match lookup ds n with Some d => generic d | None => TOpaque n end.

(* ---------------------------------------------------------------- syntactic queries *)

Definition field_ty (ds : list decl) (n fld : str) : option ty :=
  match lookup ds n with
  | None => None
  | Some d => option_map snd (find (fun f => str_eqb (fst f) fld) (dfields d))
  end.

(* no raw pointer, NonNull, Rc or unreadable type anywhere inside t *)
Fixpoint clean (t : ty) : bool :=
  match t with
  | TRaw _ _ | TRawNN _ | TRc _ | TOpaque _ => false
  | TParam _ | TPrim _ | TFnPtr | TDyn _ _ => true
  | TRef _ _ t | TRefCell t | TCell t | TVec t | TBox t | TOption t | TRange t | TArray t
  | TSlice t | TPhantom t | TArc t | TMutex t | TRwLock t => clean t
  | TTuple ts => forallb clean ts
  | TApp _ _ ts => forallb clean ts
  end.

(* every lifetime written in t is 'static or one of the first n lifetime parameters *)
Definition lt_scoped (n : nat) (l : lifetime) : bool :=
  match l with LStatic => true | LParam k => Nat.ltb k n | LAnon | LOther _ => false end.

Fixpoint lts_scoped (n : nat) (t : ty) : bool :=
  match t with
  | TRef l _ t => lt_scoped n l && lts_scoped n t
  | TParam _ | TPrim _ | TFnPtr | TDyn _ _ | TOpaque _ => true
  | TRaw _ t | TRawNN t | TRefCell t | TCell t | TVec t | TBox t | TOption t | TRange t | TArray t
  | TSlice t | TPhantom t | TRc t | TArc t | TMutex t | TRwLock t => lts_scoped n t
  | TTuple ts => forallb (lts_scoped n) ts
  | TApp _ ls ts => forallb (lt_scoped n) ls && forallb (lts_scoped n) ts
  end.

(* t mentions the lifetime parameter k (so a value of the enclosing type cannot outlive it) *)
Fixpoint mentions_lt (k : nat) (t : ty) : bool :=
  match t with
  | TRef l _ t => lifetime_eqb l (LParam k) || mentions_lt k t
  | TParam _ | TPrim _ | TFnPtr | TDyn _ _ | TOpaque _ => false
  | TRaw _ t | TRawNN t | TRefCell t | TCell t | TVec t | TBox t | TOption t | TRange t | TArray t
  | TSlice t | TPhantom t | TRc t | TArc t | TMutex t | TRwLock t => mentions_lt k t
  | TTuple ts => existsb (mentions_lt k) ts
  | TApp _ ls ts => existsb (lifetime_eqb (LParam k)) ls || existsb (mentions_lt k) ts
  end.

(* all TApp names resolve in ds *)
Fixpoint resolved (ds : list decl) (t : ty) : bool :=
  match t with
  | TParam _ | TPrim _ | TFnPtr | TDyn _ _ | TOpaque _ => true
  | TRef _ _ t | TRaw _ t | TRawNN t | TRefCell t | TCell t | TVec t | TBox t | TOption t
  | TRange t | TArray t | TSlice t | TPhantom t | TRc t | TArc t | TMutex t | TRwLock t => resolved ds t
  | TTuple ts => forallb (resolved ds) ts
  | TApp n _ ts =>
      match lookup ds n with
      | Some d => Nat.eqb (List.length ts) (dtys d) && forallb (resolved ds) ts
      | None => false
      end
  end.

Definition decl_ok (ds : list decl) (d : decl) : bool :=
  forallb (fun f => clean (snd f) && lts_scoped (dlts d) (snd f) && resolved ds (snd f)) (dfields d).

(* the borrow a type carries: the named field is (Option of / Vec of) a reference whose lifetime is
   the declaration's own first lifetime parameter; returns (mutable?, referent) *)
Definition borrow_of (t : ty) : option (bool * ty) :=
  match t with
  | TRef (LParam 0) m s => Some (m, s)
  | TOption (TRef (LParam 0) m s) => Some (m, s)
  | TVec (TRef (LParam 0) m s) => Some (m, s)
  | _ => None
  end.

Definition carries (ds : list decl) (n fld : str) : option (bool * ty) :=
  match lookup ds n with
  | None => None
  | Some d => if Nat.ltb 0 (dlts d)
              then match field_ty ds n fld with Some t => borrow_of t | None => None end
              else None
  end.

(* any field at all that pins the first lifetime parameter (used by the probe predictions) *)
Definition pins (ds : list decl) (n : str) : bool :=
  match lookup ds n with
  | None => false
  | Some d => Nat.ltb 0 (dlts d) && existsb (fun f => mentions_lt 0 (snd f)) (dfields d)
  end.

(* a value of the CONCRETE type t stores a non-'static reference (directly, inside a std wrapper, inside
   PhantomData, or in a field of a declared struct / enum after substituting the type arguments):
   `TensorRange<f64, &Tensor<f64>>` does (field `source : S`), `TensorRange<f64, Tensor<f64>>` does
   not.  Such a value cannot outlive the referent and excludes conflicting uses of it while alive.
   `seen` = the applied types being unfolded (recursive enums). *)
Fixpoint stores_ref_in (fuel : nat) (ds : list decl) (seen : list ty) (t : ty) : bool :=
  match fuel with
  | O => false
  | S f =>
    match t with
    | TRef LStatic _ t' => stores_ref_in f ds seen t'      (* a 'static reference bounds nothing *)
    | TRef _ _ _ => true
    | TParam _ | TPrim _ | TFnPtr | TDyn _ _ | TOpaque _ => false
    | TRaw _ t' | TRawNN t' | TRefCell t' | TCell t' | TVec t' | TBox t' | TOption t' | TRange t'
    | TArray t' | TSlice t' | TPhantom t' | TRc t' | TArc t' | TMutex t' | TRwLock t' =>
        stores_ref_in f ds seen t'
    | TTuple ts => existsb (stores_ref_in f ds seen) ts
    | TApp n ls args =>
        if existsb (ty_eqb t) seen then false
        else match lookup ds n with
             | None => false
             | Some d => existsb (fun fld => stores_ref_in f ds (t :: seen) (subst ls args (snd fld)))
                                 (dfields d)
             end
    end
  end.
Definition stores_ref (ds : list decl) (t : ty) : bool := stores_ref_in FUEL ds [] t.

(* the by-value view adaptors keep their source as a field of the parameter's own type: the k-th
   type parameter S is stored as `fld : S` -- so Adaptor<.., &'a X, ..> carries the borrow &'a X
   and Adaptor<.., X, ..> owns X *)
Definition stores_param (ds : list decl) (n fld : str) (k : nat) : bool :=
  match field_ty ds n fld with Some (TParam j) => Nat.eqb j k | _ => false end.

Definition lookup_trait (ts : list trait_decl) (n : str) : option trait_decl :=
  find (fun t => str_eqb (tname t) n) ts.
Definition lookup_mod (ms : list mod_decl) (n : str) : option mod_decl :=
  find (fun m => str_eqb (mname m) n) ms.

(* the sealed-trait pattern: `tr` has the supertrait `<m>::<s>` as written, the module
   `<parent>::<m>` exists and is private, the trait `<parent>::<m>::<s>` is declared there, and no
   `pub use` anywhere names that module *)
Definition sealed (ts : list trait_decl) (ms : list mod_decl) (rs : list reexport)
           (parent tr m s : str) : bool :=
  match lookup_trait ts (parent +++ "::" +++ tr), lookup_mod ms (parent +++ "::" +++ m),
        lookup_trait ts (parent +++ "::" +++ m +++ "::" +++ s) with
  | Some t, Some md, Some _ =>
      existsb (fun sp => str_eqb (m +++ "::" +++ s) (fst sp)) (tsupers t) && negb (mpub md) &&
      forallb (fun r => negb (existsb (str_eqb m) (rpath r))) rs
  | _, _, _ => false
  end.

(* does the seal also cover the trait's parameters?  `trait Tr<Rhs>: m::S` seals the Self type
   only (S's own parameter defaults to Self): a client may still write `impl Tr<Mine> for X` for a
   crate type X.  `trait Tr<Rhs>: m::S<Rhs>` seals the pair. *)
Fixpoint strs_eqb (a b : list str) : bool :=
  match a, b with
  | [], [] => true
  | x :: a', y :: b' => str_eqb x y && strs_eqb a' b'
  | _, _ => false
  end.
Definition seal_covers_params (ts : list trait_decl) (parent tr m s : str) : bool :=
  match lookup_trait ts (parent +++ "::" +++ tr) with
  | Some t => existsb (fun sp => str_eqb (m +++ "::" +++ s) (fst sp) && strs_eqb (snd sp) (tparams t)) (tsupers t)
  | None => false
  end.
(* a seal is only a seal if the sealing trait is implemented for a CLOSED set of (Self, Rhs) pairs:
   every impl's Self and every explicit trait argument is an application of a type constructor
   declared in this crate -- never a bare type parameter (which a downstream type could inhabit
   through whatever public bound the where-clause puts on it), never a foreign or structural type;
   there is at least one impl and all of them live in the sealing module *)
Definition form_closed (f : tform) : bool :=
  match f with FApp _ true => true | _ => false end.
Definition seal_impls_closed (is : list trait_impl) (parent m s : str) : bool :=
  let mine := filter (fun i => str_eqb (ti_trait i) (parent +++ "::" +++ m +++ "::" +++ s)) is in
  negb (Nat.eqb (List.length mine) 0) &&
  forallb (fun i => form_closed (ti_self i) && forallb form_closed (ti_args i) &&
                    str_eqb (ti_mod i) (parent +++ "::" +++ m)) mine.

Definition has_super (ts : list trait_decl) (tr sup : str) : bool :=
  match lookup_trait ts tr with
  | Some t => existsb (fun sp => str_eqb sup (fst sp)) (tsupers t)
  | None => false
  end.

Definition is_unsafe_trait (ts : list trait_decl) (n : str) : bool :=
  match lookup_trait ts n with Some t => tunsafe t | None => false end.
