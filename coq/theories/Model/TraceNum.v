(* The dictionary of the element type Trace<T> (dual numbers) over the dictionary of T, built from
   the transcribed operators of Model/Numeric.v (trace_rr: + - * / on number and derivative;
   PartialEq / PartialOrd of Trace compare ONLY the number parts).  Used to run the determinant /
   inverse models at element type Trace<Rat>: a routine that is generic over Numeric must be the
   same sequence of operations in the element type's own arithmetic, derivatives included.
   Executable definitions only. *)
From Coq Require Import List ZArith NArith Bool.
From EasyML Require Import Base.Sx Model.Num Model.Numeric.
Import ListNotations.

Definition trace_numops {R : Type} (ops : numops R) : numops (trace R) := {|
  nzero := trace_zero ops; none_ := trace_one ops;
  nadd := trace_rr ops 0; nsub := trace_rr ops 1; nmul := trace_rr ops 2; ndiv := trace_rr ops 3;
  nneg := fun a => trace_rr ops 1 (trace_zero ops) a;
  neqb := fun a b => neqb ops (tr_number a) (tr_number b);
  nltb := fun a b => nltb ops (tr_number a) (tr_number b);
  nleb := fun a b => nleb ops (tr_number a) (tr_number b);
  nsqrt := fun a => a; nexp := fun a => a; nln := fun a => a; nsin := fun a => a; ncos := fun a => a;
  npow := fun a _ => a; npi := trace_zero ops;
  nof_N := trace_from_usize ops;
  nenc := fun a => SL [nenc ops (tr_number a); nenc ops (tr_derivative a)];
  ndec := fun s => match s with
                   | SL [n; d] => match ndec ops n, ndec ops d with
                                  | Some x, Some y => Some (mkTrace x y)
                                  | _, _ => None
                                  end
                   | _ => None
                   end
|}.
