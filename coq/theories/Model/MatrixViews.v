(* Matrix views: transcription of src/matrices/views/ranges.rs (IndexRange::map / clip,
   From<Range<usize>>, MatrixRange), views/reverse.rs (MatrixReverse) with
   tensors/views/reverse.rs (reverse_indexes), views/partitions.rs (MatrixPart), views/map.rs
   (MatrixMap), Matrix::partition / partition_quadrants (src/matrices/mod.rs) and
   src/interop/mod.rs (TensorRefMatrix::from / with_names, MatrixRefTensor).
   A view never owns data here: it RESOLVES an index (row, column) to the position of a cell in
   the flat row-major storage of the matrix at the bottom of the stack of views (the "root").
   Reading through the view = nth of the root's data at that position, writing = replacing it.
   Executable definitions only; proofs live in Proofs/C12P.v. *)
From Coq Require Import List ZArith NArith Bool Arith.
From EasyML Require Import Base.Sx Model.Shape.
From EasyML Require Model.Views.   (* the tensor view adaptors of property C02, used qualified *)
Import ListNotations.
Open Scope N_scope.

(* usize::saturating_add / saturating_sub *)
Definition sat_add (a b : N) : N := N.min (a + b) usize_max.
Definition sat_sub (a b : N) : N := a - b.

(* ---- IndexRange ---- *)
Record index_range : Type := mkIR { ir_start : N; ir_length : N }.

(* IndexRange::map *)
Definition ir_map (r : index_range) (index : N) : option N :=
  if index <? ir_length r then Some (index + ir_start r) else None.

(* IndexRange::clip *)
Definition ir_clip (r : index_range) (max_index : N) : index_range :=
  let end_ := sat_add (ir_start r) (ir_length r) in
  let end_ := N.min end_ max_index in
  mkIR (ir_start r) (sat_sub end_ (ir_start r)).

(* From<Range<usize>> for IndexRange *)
Definition ir_of_range (a b : N) : index_range := mkIR a (sat_sub b a).

(* ---- MatrixPart: `data: Vec<&mut [T]>` — one (offset, length) slice of the root's storage per
   row of the part —, rows, columns ---- *)
Record part : Type := mkPart { p_slices : list (N * N); p_rows : N; p_cols : N }.

(* ---- views as constructed objects ---- *)
Inductive mview : Type :=
| VMatrix (rows cols : N)                         (* Matrix<T> (or a reference to / box of one) *)
| VPart (p : part)
| VRange (rows cols : index_range) (src : mview)  (* the stored ranges are the CLIPPED ones *)
| VReverse (rows cols : bool) (src : mview)
| VMap (src : mview)                              (* MatrixMap: only the element is projected *)
| VViaTensor (n0 n1 : name) (src : mview)         (* MatrixRefTensor(TensorRefMatrix(src, names)) *)
| VOverTensor (c : Views.cview).                  (* MatrixRefTensor::from(any 2-dimensional tensor view);
                                                     the root is then the tensor view's leaf store *)

(* the flat root of a tensor-rooted stack: the stores of the tensor view's leaves one after the
   other, in the order of Views.c_leaves; the base offset of the leaf with a given id *)
Fixpoint leaf_base (leaves : list (N * N)) (id : N) : option N :=
  match leaves with
  | [] => None
  | (i, n) :: rest => if i =? id then Some 0
                      else match leaf_base rest id with Some b => Some (n + b) | None => None end
  end.

Fixpoint view_rows (v : mview) : N :=
  match v with
  | VMatrix rows _ => rows
  | VPart p => p_rows p
  | VRange rows _ _ => ir_length rows
  | VReverse _ _ src => view_rows src
  | VMap src => view_rows src
  | VViaTensor _ _ src => view_rows src      (* view_shape()[0].1 of the tensor = source.view_rows() *)
  | VOverTensor c => Views.len_at (Views.c_shape c) 0      (* self.source.view_shape()[0].1 *)
  end.

Fixpoint view_cols (v : mview) : N :=
  match v with
  | VMatrix _ cols => cols
  | VPart p => p_cols p
  | VRange _ cols _ => ir_length cols
  | VReverse _ _ src => view_cols src
  | VMap src => view_cols src
  | VViaTensor _ _ src => view_cols src
  | VOverTensor c => Views.len_at (Views.c_shape c) 1      (* self.source.view_shape()[1].1 *)
  end.

(* one dimension of reverse_indexes *)
Definition reverse_index (reversed : bool) (length index : N) : N :=
  if reversed then
    let last_index := length - 1 in
    if last_index <? index then index else last_index - index
  else index.

(* result of a checked access: the position in the root's storage, absent, or a panic *)
Inductive access : Type := Cell (position : N) | Absent | AccessPanic.

(* MatrixRef::try_get_reference / MatrixMut::try_get_reference_mut (same index computation) *)
Fixpoint try_get (v : mview) (row column : N) : access :=
  match v with
  | VMatrix rows cols =>
      if (row <? rows) && (column <? cols) then Cell (column + row * cols) else Absent
  | VPart p =>
      if (p_rows p <=? row) || (p_cols p <=? column) then Absent
      else match nth_error (p_slices p) (N.to_nat row) with      (* self.data[row][column] *)
           | Some (offset, length) => if column <? length then Cell (offset + column) else AccessPanic
           | None => AccessPanic
           end
  | VRange rows cols src =>
      match ir_map rows row with
      | None => Absent
      | Some row' => match ir_map cols column with
                     | None => Absent
                     | Some column' => try_get src row' column'
                     end
      end
  | VReverse rr rc src =>
      if (view_rows src =? 0) || (view_cols src =? 0) then Absent
      else try_get src (reverse_index rr (view_rows src) row) (reverse_index rc (view_cols src) column)
  | VMap src => try_get src row column
  | VViaTensor _ _ src => try_get src row column
  | VOverTensor c =>                                  (* self.source.get_reference([row, column]) *)
      match Views.c_get c [row; column] with
      | Some (leaf, offset) =>
          match leaf_base (Views.c_leaves c) leaf with
          | Some base => Cell (base + offset)
          | None => AccessPanic
          end
      | None => Absent
      end
  end.

(* ---- construction ---- *)
(* MatrixRange::from(source, rows, columns): both requests are clipped to the source's size *)
Definition range_from (src : mview) (rows cols : index_range) : mview :=
  VRange (ir_clip rows (view_rows src)) (ir_clip cols (view_cols src)) src.

(* TensorRefMatrix::with_names: Err(shape) unless the names differ and both lengths are non zero;
   MatrixRefTensor::from never fails *)
Definition via_tensor (src : mview) (n0 n1 : name) : outcome mview :=
  let sh := [(n0, view_rows src); (n1, view_cols src)] in
  if valid_shape_b sh then Ok (VViaTensor n0 n1 src) else Err (sshape sh).

(* MatrixRefTensor::from(tensor view): any TensorRef<T, 2>; the constructor never fails *)
Definition over_tensor (c : Views.cview) : option mview :=
  if Nat.eqb (length (Views.c_shape c)) 2 then Some (VOverTensor c) else None.

(* the initial contents of the flat root of a tensor-rooted stack *)
Definition tensor_root (c : Views.cview) : list Z :=
  flat_map (fun e => map (fun k => Views.leaf_value (fst e, N.of_nat k)) (seq 0 (N.to_nat (snd e))))
           (Views.c_leaves c).

(* the names of RowAndColumn ("row", "column") in the harness' numbering *)
Definition name_row : name := 1000%nat.
Definition name_column : name := 1001%nat.

(* the shape the intermediate TensorRefMatrix reports *)
Definition tensor_shape (n0 n1 : name) (src : mview) : shape :=
  [(n0, view_rows src); (n1, view_cols src)].

(* ---- Matrix::partition ---- *)
(* check_axis: every index <= length, and every index after the first greater than THE FIRST
   (previous is never advanced: `Some(i) => { assert!(index > i); Some(i) }`) *)
Fixpoint check_axis_from (previous : option N) (partitions : list N) (length : N) : bool :=
  match partitions with
  | [] => true
  | index :: rest =>
      if index <=? length then
        match previous with
        | None => check_axis_from (Some index) rest length
        | Some i => if i <? index then check_axis_from (Some i) rest length else false
        end
      else false
  end.
Definition check_axis (partitions : list N) (length : N) : bool :=
  check_axis_from None partitions length.

(* one row of the matrix cut along the columns: `bounds` = column_partitions then `columns`;
   columns_included = column_index - index (underflow: panic in a debug build, and in a release
   build the wrapped value makes split_at_mut panic); split_at_mut(columns_included) panics past
   the end of what is left.  Returns the slices and the advanced (cursor, remaining). *)
Fixpoint split_row (bounds : list N) (index cursor remaining : N)
  : option (list (N * N) * (N * N)) :=
  match bounds with
  | [] => Some ([], (cursor, remaining))
  | column_index :: rest =>
      if column_index <? index then None
      else let columns_included := column_index - index in
           if remaining <? columns_included then None
           else match split_row rest column_index (cursor + columns_included)
                                (remaining - columns_included) with
                | Some (l, cr) => Some ((cursor, columns_included) :: l, cr)
                | None => None
                end
  end.

(* `rows_included` rows, each cut by split_row *)
Fixpoint split_band (rows_included : nat) (bounds : list N) (cursor remaining : N)
  : option (list (list (N * N)) * (N * N)) :=
  match rows_included with
  | O => Some ([], (cursor, remaining))
  | S n => match split_row bounds 0 cursor remaining with
           | None => None
           | Some (row, (cursor', remaining')) =>
               match split_band n bounds cursor' remaining' with
               | Some (l, cr) => Some (row :: l, cr)
               | None => None
               end
           end
  end.

(* slices[(r * column_slices) + c] receives the c-th slice of every row of band r *)
Definition band_parts (column_slices : nat) (band : list (list (N * N))) : list (list (N * N)) :=
  map (fun c => map (fun row => nth c row (0, 0)) band) (seq 0 column_slices).

(* the loop over r: `bounds` = row_partitions then `rows`; rows_included = row_index - index
   (underflow: debug panic; release: Vec::with_capacity(wrapped) panics with capacity overflow) *)
Fixpoint split_bands (row_bounds : list N) (col_bounds : list N) (index cursor remaining : N)
  : option (list (list (N * N))) :=
  match row_bounds with
  | [] => Some []
  | row_index :: rest =>
      if row_index <? index then None
      else match split_band (N.to_nat (row_index - index)) col_bounds cursor remaining with
           | None => None
           | Some (band, (cursor', remaining')) =>
               match split_bands rest col_bounds row_index cursor' remaining' with
               | Some l => Some (band_parts (length col_bounds) band ++ l)
               | None => None
               end
           end
  end.

(* the final map: rows = slices.len(); columns = slices.first().len() or 0; a part without
   columns is reported as 0 x 0 *)
Definition make_part (slices : list (N * N)) : part :=
  let rows := N.of_nat (length slices) in
  let columns := match slices with [] => 0 | (_, l) :: _ => l end in
  if columns =? 0 then mkPart slices 0 0 else mkPart slices rows columns.

Definition partition (rows cols : N) (row_partitions column_partitions : list N)
  : outcome (list part) :=
  if check_axis row_partitions rows then
    if check_axis column_partitions cols then
      match split_bands (row_partitions ++ [rows]) (column_partitions ++ [cols]) 0 0 (rows * cols) with
      | Some l => Ok (map make_part l)
      | None => Panic
      end
    else Panic
  else Panic.

(* partition_quadrants(row, column) = partition(&[row], &[column]), four parts *)
Definition partition_quadrants (rows cols row column : N) : outcome (list part) :=
  partition rows cols [row] [column].

(* ---- reading and writing the root through a view ---- *)
Section Access.
Context {T : Type}.

Definition read (data : list T) (a : access) : outcome (option T) :=
  match a with
  | Cell p => match nth_error data (N.to_nat p) with Some x => Ok (Some x) | None => Panic end
  | Absent => Ok None
  | AccessPanic => Panic
  end.

Fixpoint replace_nth (l : list T) (k : nat) (v : T) : list T :=
  match l, k with
  | [], _ => []
  | _ :: r, O => v :: r
  | x :: r, S k' => x :: replace_nth r k' v
  end.

(* MatrixView::set: writes when present, panics (root unchanged) when absent *)
Definition write (data : list T) (v : mview) (row column : N) (x : T) : list T * bool :=
  match try_get v row column with
  | Cell p => if p <? N.of_nat (length data) then (replace_nth data (N.to_nat p) x, true)
              else (data, false)
  | _ => (data, false)
  end.

End Access.

(* all (row, column) pairs of a rows x cols grid in row-major order *)
Definition grid (rows cols : N) : list (N * N) :=
  list_prod (map N.of_nat (seq 0 (N.to_nat rows))) (map N.of_nat (seq 0 (N.to_nat cols))).

(* ---- Matrix::partition as compiled WITHOUT overflow checks (release profile) ----
   The two subtractions `row_index - index` / `column_index - index` wrap instead of panicking.
   What then stops a decreasing list:
     - columns: `data.split_at_mut(columns_included)` panics when columns_included exceeds what is
       left of the storage;
     - rows: `Vec::<&mut [T]>::with_capacity(rows_included)` (one per column slice, at least one)
       panics with a capacity overflow when rows_included * 16 bytes (a `&mut [T]` is a fat
       pointer) exceeds isize::MAX.  [This check is the same in a debug build; the debug model
       above leaves it out: it cannot fire for a matrix of fewer than 2^59 rows.  A request below
       that limit is assumed to be served by the allocator — an allocation failure aborts the
       process, it is not a panic.] *)
Definition wrapping_sub (a b : N) : N := if b <=? a then a - b else a + (usize_max + 1) - b.
Definition isize_max_bytes : N := 9223372036854775807.
Definition part_rows_capacity_max : N := 576460752303423487.      (* isize::MAX / 16 *)

Fixpoint split_row_release (bounds : list N) (index cursor remaining : N)
  : option (list (N * N) * (N * N)) :=
  match bounds with
  | [] => Some ([], (cursor, remaining))
  | column_index :: rest =>
      let columns_included := wrapping_sub column_index index in
      if remaining <? columns_included then None
      else match split_row_release rest column_index (cursor + columns_included)
                                   (remaining - columns_included) with
           | Some (l, cr) => Some ((cursor, columns_included) :: l, cr)
           | None => None
           end
  end.

Fixpoint split_band_release (rows_included : nat) (bounds : list N) (cursor remaining : N)
  : option (list (list (N * N)) * (N * N)) :=
  match rows_included with
  | O => Some ([], (cursor, remaining))
  | S n => match split_row_release bounds 0 cursor remaining with
           | None => None
           | Some (row, (cursor', remaining')) =>
               match split_band_release n bounds cursor' remaining' with
               | Some (l, cr) => Some (row :: l, cr)
               | None => None
               end
           end
  end.

Fixpoint split_bands_release (row_bounds : list N) (col_bounds : list N) (index cursor remaining : N)
  : option (list (list (N * N))) :=
  match row_bounds with
  | [] => Some []
  | row_index :: rest =>
      let rows_included := wrapping_sub row_index index in
      if part_rows_capacity_max <? rows_included then None
      else match split_band_release (N.to_nat rows_included) col_bounds cursor remaining with
           | None => None
           | Some (band, (cursor', remaining')) =>
               match split_bands_release rest col_bounds row_index cursor' remaining' with
               | Some l => Some (band_parts (length col_bounds) band ++ l)
               | None => None
               end
           end
  end.

Definition partition_release (rows cols : N) (row_partitions column_partitions : list N)
  : outcome (list part) :=
  if check_axis row_partitions rows then
    if check_axis column_partitions cols then
      match split_bands_release (row_partitions ++ [rows]) (column_partitions ++ [cols]) 0 0 (rows * cols) with
      | Some l => Ok (map make_part l)
      | None => Panic
      end
    else Panic
  else Panic.

(* ---- MatrixRef::data_layout: the hint a view gives about its memory order ----
   Matrix and MatrixPart: RowMajor; MatrixRange, MatrixMap, Box<S>, Box<dyn MatrixRef / MatrixMut>:
   the source's; MatrixReverse: Other; MatrixRefTensor: RowMajor / ColumnMajor when the tensor
   source reports Linear([rows name, columns name]) / Linear([columns name, rows name]), else
   Other; TensorRefMatrix reports Linear([n0, n1]) over a RowMajor source, Linear([n1, n0]) over
   a ColumnMajor one, else Other — so the round trip MatrixRefTensor(TensorRefMatrix(src)) keeps
   src's layout (the names differ, with_names checked it). *)
(* LPanics: the call panics (only a TensorRename source whose layout names are not in its shape) *)
Inductive mlayout : Type := LRowMajor | LColumnMajor | LOther | LPanics.

Definition layout_of_tensor (c : Views.cview) : mlayout :=
  match Views.c_layout c, Views.c_shape c with
  | Ok (Views.Linear [a; b]), [(rn, _); (cn, _)] =>
      if Nat.eqb a rn && Nat.eqb b cn then LRowMajor
      else if Nat.eqb a cn && Nat.eqb b rn then LColumnMajor
      else LOther
  | Ok _, _ => LOther
  | _, _ => LPanics
  end.

Fixpoint data_layout (v : mview) : mlayout :=
  match v with
  | VMatrix _ _ => LRowMajor
  | VPart _ => LRowMajor
  | VRange _ _ src => data_layout src
  | VReverse _ _ _ => LOther
  | VMap src => data_layout src
  | VViaTensor _ _ src => data_layout src
  | VOverTensor c => layout_of_tensor c
  end.

(* `impl MatrixRef for &S` and `for &mut S` (views/traits.rs) do NOT ask S: they answer RowMajor
   whatever the source is (the tensor counterparts forward to the source) *)
Definition data_layout_through_reference (v : mview) : mlayout := LRowMajor.
