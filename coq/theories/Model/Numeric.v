(* Numeric trait contracts: transcription of src/numeric.rs (ZeroOne, FromUsize for the
   primitive types and the Wrapping / Saturating wrappers), of std's integer arithmetic as far
   as the property observes it (plain, wrapping and saturating + - * / and unary minus on the
   twelve primitive integer types) and of the ZeroOne / FromUsize impls of Trace and Record
   (src/differentiation/trace_operations.rs:55-71, record_operations.rs:57-75).
   Values of every integer type are modelled by the mathematical integer they denote (Z).
   Executable definitions only; proofs live in Proofs/C19P.v. *)
From Coq Require Import List ZArith NArith QArith Bool.
From EasyML Require Import Base.Sx Model.Num Model.Tape.
Import ListNotations.
Open Scope Z_scope.

(* ---------------- the primitive integer types ---------------- *)
Record ity : Type := mkIty { ibits : Z; isigned : bool }.

Definition U8 := mkIty 8 false.     Definition I8 := mkIty 8 true.
Definition U16 := mkIty 16 false.   Definition I16 := mkIty 16 true.
Definition U32 := mkIty 32 false.   Definition I32 := mkIty 32 true.
Definition U64 := mkIty 64 false.   Definition I64 := mkIty 64 true.
Definition U128 := mkIty 128 false. Definition I128 := mkIty 128 true.
Definition USIZE := mkIty 64 false. Definition ISIZE := mkIty 64 true.

(* the type tags of the case language: 12 = f32 and 13 = f64 have no integer model *)
Definition ity_of_tag (tag : Z) : option ity :=
  match tag with
  | 0 => Some U8 | 1 => Some I8 | 2 => Some U16 | 3 => Some I16 | 4 => Some U32 | 5 => Some I32
  | 6 => Some U64 | 7 => Some I64 | 8 => Some U128 | 9 => Some I128 | 10 => Some USIZE
  | 11 => Some ISIZE | _ => None
  end.
Definition all_ity : list ity := [U8; I8; U16; I16; U32; I32; U64; I64; U128; I128; USIZE; ISIZE].

Definition imod (t : ity) : Z := 2 ^ ibits t.
Definition ihalf (t : ity) : Z := 2 ^ (ibits t - 1).
(* <$T>::max_value() / min_value() *)
Definition imax (t : ity) : Z := if isigned t then ihalf t - 1 else imod t - 1.
Definition imin (t : ity) : Z := if isigned t then - ihalf t else 0.
Definition in_range (t : ity) (z : Z) : bool := (imin t <=? z) && (z <=? imax t).

(* `z as $T` between integer types: keep the low `bits` bits, reinterpret (two's complement) *)
Definition cast (t : ity) (z : Z) : Z :=
  let m := z mod imod t in
  if isigned t && (ihalf t <=? m) then m - imod t else m.
(* `z as usize` (64-bit target) *)
Definition as_usize (z : Z) : Z := cast USIZE z.

(* ---------------- ZeroOne ---------------- *)
(* zero_one_integral!: fn zero() -> $T { 0 }  fn one() -> $T { 1 } *)
Definition int_zero (t : ity) : Z := 0.
Definition int_one (t : ity) : Z := 1.
(* impl<T: ZeroOne> ZeroOne for Wrapping<T> / Saturating<T>: Wrapping(T::zero()) ... *)
Definition wrapper_zero (t : ity) : Z := int_zero t.
Definition wrapper_one (t : ity) : Z := int_one t.

(* ---------------- FromUsize ---------------- *)
(* from_usize_integral!:  if n <= (<$T>::max_value() as usize) { Some(n as $T) } else { None } *)
Definition from_usize (t : ity) (n : N) : option Z :=
  if Z.of_N n <=? as_usize (imax t) then Some (cast t (Z.of_N n)) else None.
(* impl FromUsize for Wrapping<T> / Saturating<T>:  Some(Wrapping(T::from_usize(n)?)) *)
Definition from_usize_wrapper (t : ity) (n : N) : option Z :=
  match from_usize t n with Some v => Some v | None => None end.
(* from_usize_float!: Some(n as $T) — always succeeds; the value is the float nearest to n
   (rounding is outside the model: the float is represented by the count it was made from) *)
Definition from_usize_float (n : N) : option N := Some n.

(* ---------------- arithmetic ---------------- *)
(* operators of the case language: 0 + ; 1 - ; 2 * ; 3 / ; 4 unary minus (second operand unused) *)
Definition exact_op (op : Z) (a b : Z) : Z :=
  match op with
  | 0 => a + b | 1 => a - b | 2 => a * b | 3 => Z.quot a b | _ => - a
  end.

(* plain integers: the result when it is representable; overflow panics (debug builds; the
   check never feeds overflowing plain operations, whose release behaviour differs) and so do
   division by zero and MIN / -1 in every build *)
Definition plain_op (t : ity) (op : Z) (a b : Z) : outcome Z :=
  if (op =? 3) && (b =? 0) then Panic
  else let r := exact_op op a b in if in_range t r then Ok r else Panic.

(* Wrapping<$T>: wrapping_add / wrapping_sub / wrapping_mul / wrapping_div / wrapping_neg *)
Definition wrapping_op (t : ity) (op : Z) (a b : Z) : outcome Z :=
  if (op =? 3) && (b =? 0) then Panic else Ok (cast t (exact_op op a b)).

(* Saturating<$T>: saturating_add / _sub / _mul / _div / _neg *)
Definition sat (t : ity) (z : Z) : Z := Z.max (imin t) (Z.min (imax t) z).
Definition saturating_op (t : ity) (op : Z) (a b : Z) : outcome Z :=
  if (op =? 3) && (b =? 0) then Panic else Ok (sat t (exact_op op a b)).

(* wrapper kind of the case language: 0 plain, 1 Wrapping, 2 Saturating *)
Definition arith (kind : Z) (t : ity) (op a b : Z) : outcome Z :=
  match kind with
  | 0 => plain_op t op a b
  | 1 => wrapping_op t op a b
  | _ => saturating_op t op a b
  end.

(* ---------------- Trace / Record ---------------- *)
Section Wrappers.
Context {R : Type} (ops : numops R).

(* struct Trace { number, derivative } ; Trace::constant(c) = Trace { c, T::zero() } *)
Record trace : Type := mkTrace { tr_number : R; tr_derivative : R }.
Definition trace_constant (c : R) : trace := mkTrace c (nzero ops).
Definition trace_zero : trace := trace_constant (nzero ops).
Definition trace_one : trace := trace_constant (none_ ops).
(* Some(Trace::constant(T::from_usize(n)?)) *)
Definition trace_from_usize (n : N) : option trace :=
  match nof_N ops n with Some c => Some (trace_constant c) | None => None end.

(* struct Record { number, history: Option<&WengertList>, index } ;
   Record::constant(c) = Record { c, None, 0 }.  The tape is identified by a number. *)
Record record : Type := mkRecord { rc_number : R; rc_history : option nat; rc_index : nat }.
Definition record_constant (c : R) : record := mkRecord c None 0%nat.
Definition record_zero : record := record_constant (nzero ops).
Definition record_one : record := record_constant (none_ ops).
Definition record_from_usize (n : N) : option record :=
  match nof_N ops n with Some c => Some (record_constant c) | None => None end.
(* ---- operators of Trace: src/differentiation/trace_operations.rs ----
   op: 0 + ; 1 - ; 2 * ; 3 /.  One function per impl: the `&Trace op &Trace` impl carries the
   arithmetic, the three other operand forms are the macros operator_impl_value_value!
   `(&self).op(&rhs)`, operator_impl_value_reference! `(&self).op(rhs)` and
   operator_impl_reference_value! `self.op(&rhs)`. *)
Definition trace_rr (op : Z) (a b : trace) : trace :=
  let an := tr_number a in let ad := tr_derivative a in
  let bn := tr_number b in let bd := tr_derivative b in
  match op with
  | 0 => mkTrace (nadd ops an bn) (nadd ops ad bd)
  | 1 => mkTrace (nsub ops an bn) (nsub ops ad bd)
  (* u'v + uv' *)
  | 2 => mkTrace (nmul ops an bn) (nadd ops (nmul ops ad bn) (nmul ops an bd))
  (* (u'v - uv') / v^2 *)
  | _ => mkTrace (ndiv ops an bn)
                 (ndiv ops (nsub ops (nmul ops ad bn) (nmul ops an bd)) (nmul ops bn bn))
  end.
Definition trace_vv (op : Z) (a b : trace) : trace := trace_rr op a b.
Definition trace_vr (op : Z) (a b : trace) : trace := trace_rr op a b.
Definition trace_rv (op : Z) (a b : trace) : trace := trace_rr op a b.
(* impl Neg for &Trace: Trace::zero() - self   (Trace - &Trace) *)
Definition trace_neg_r (a : trace) : trace := trace_vr 1 trace_zero a.
(* impl Neg for Trace: Trace::zero() - self    (Trace - Trace) *)
Definition trace_neg_v (a : trace) : trace := trace_vv 1 trace_zero a.

(* ---- operators of Record: src/differentiation/record_operations.rs ----
   The tape (Model/Tape.v) of the records that have one is threaded through as state; a
   record's `history` is the identity of its tape. *)
(* functions.rs: Addition / Subtraction / Multiplication / Division *)
Definition fn_of (op : Z) (x y : R) : R :=
  match op with 0 => nadd ops x y | 1 => nsub ops x y | 2 => nmul ops x y | _ => ndiv ops x y end.
Definition dx_of (op : Z) (x y : R) : R :=
  match op with 0 => none_ ops | 1 => none_ ops | 2 => y | _ => ndiv ops (none_ ops) y end.
Definition dy_of (op : Z) (x y : R) : R :=
  match op with
  | 0 => none_ ops | 1 => nneg ops (none_ ops) | 2 => x
  | _ => ndiv ops (nneg ops x) (nmul ops y y)
  end.

(* same_list: both tapes present => the same tape *)
Definition same_list (a b : record) : bool :=
  match rc_history a, rc_history b with
  | Some x, Some y => Nat.eqb x y
  | _, _ => true
  end.

(* impl Op<&T> for &Record *)
Definition record_num (op : Z) (t : tape R) (a : record) (c : R) : record * tape R :=
  match rc_history a with
  | None => (mkRecord (fn_of op (rc_number a) c) None 0%nat, t)
  | Some h =>
      let '(t', i) := append_unary ops t (rc_index a) (dx_of op (rc_number a) c) in
      (mkRecord (fn_of op (rc_number a) c) (Some h) i, t')
  end.
(* SwappedOperations::sub_swapped / div_swapped: the constant is the left operand *)
Definition num_record (op : Z) (t : tape R) (c : R) (b : record) : record * tape R :=
  match rc_history b with
  | None => (mkRecord (fn_of op c (rc_number b)) None 0%nat, t)
  | Some h =>
      let '(t', i) := append_unary ops t (rc_index b) (dy_of op c (rc_number b)) in
      (mkRecord (fn_of op c (rc_number b)) (Some h) i, t')
  end.
(* impl Op<&Record> for &Record: the assertion, then the four-way match; its (None, Some) arm
   is `rhs + &self.number` / `rhs * &self.number` for + and *, rhs.sub_swapped(self.number) /
   rhs.div_swapped(self.number) for - and / *)
Definition record_rr (op : Z) (t : tape R) (a b : record) : outcome (record * tape R) :=
  if same_list a b then
    Ok match rc_history a, rc_history b with
       | None, None => (mkRecord (fn_of op (rc_number a) (rc_number b)) None 0%nat, t)
       | Some _, None => record_num op t a (rc_number b)
       | None, Some _ =>
           if (op =? 0) || (op =? 2) then record_num op t b (rc_number a)
           else num_record op t (rc_number a) b
       | Some h, Some _ =>
           let '(t', i) := append_binary t (rc_index a) (dx_of op (rc_number a) (rc_number b))
                                           (rc_index b) (dy_of op (rc_number a) (rc_number b)) in
           (mkRecord (fn_of op (rc_number a) (rc_number b)) (Some h) i, t')
       end
  else Panic.
(* record_operator_impl_value_value! / _value_reference! / _reference_value! *)
Definition record_vv (op : Z) (t : tape R) (a b : record) := record_rr op t a b.
Definition record_vr (op : Z) (t : tape R) (a b : record) := record_rr op t a b.
Definition record_rv (op : Z) (t : tape R) (a b : record) := record_rr op t a b.
(* impl Neg for &Record: -number without a tape, Record::constant(zero) - self with one *)
Definition record_neg_r (t : tape R) (a : record) : outcome (record * tape R) :=
  match rc_history a with
  | None => Ok (mkRecord (nneg ops (rc_number a)) None 0%nat, t)
  | Some _ => record_vr 1 t (record_constant (nzero ops)) a
  end.
(* impl Neg for Record *)
Definition record_neg_v (t : tape R) (a : record) : outcome (record * tape R) :=
  match rc_history a with
  | None => Ok (mkRecord (nneg ops (rc_number a)) None 0%nat, t)
  | Some _ => record_vv 1 t (record_constant (nzero ops)) a
  end.
(* WengertList::variable *)
Definition record_variable (tape_id : nat) (t : tape R) (x : R) : record * tape R :=
  let '(t', i) := append_nullary ops t in (mkRecord x (Some tape_id) i, t').
End Wrappers.
Arguments trace R : clear implicits.
Arguments record R : clear implicits.

(* ---------------- Wrapping<i64> as an element type (tag 2 of C03 / C19) ---------------- *)
Definition w64 (z : Z) : Z := cast I64 z.
Definition w64_add a b := w64 (a + b).
Definition w64_sub a b := w64 (a - b).
Definition w64_mul a b := w64 (a * b).
Definition w64_neg a := w64 (- a).
(* total stand-in: the checks never divide a Wrapping<i64> by zero (Rust panics there) *)
Definition w64_div a b := if b =? 0 then 0 else w64 (Z.quot a b).

Definition W64ops : numops Z := {|
  nzero := 0; none_ := 1;
  nadd := w64_add; nsub := w64_sub; nmul := w64_mul; ndiv := w64_div; nneg := w64_neg;
  neqb := Z.eqb; nltb := Z.ltb; nleb := Z.leb;
  nsqrt := uf_sqrt w64_add w64_mul w64; nexp := uf_exp w64_add w64_mul w64;
  nln := uf_ln w64_add w64_mul w64; nsin := uf_sin w64_add w64_mul w64;
  ncos := uf_cos w64_add w64_mul w64; npow := uf_pow w64_add w64_mul w64; npi := w64 31415926;
  nof_N := from_usize_wrapper I64;
  nenc := fun a => SZ a;
  ndec := fun s => match s with SZ z => Some (w64 z) | SL _ => None end
|}.

(* element-type tags: 0 = Rat, 1 = Fp (Model/Num.v), 2 = Wrapping<i64> *)
Definition with_ty3 (ty : Z) (f : forall R, numops R -> sx) : sx :=
  match ty with
  | 0 => f Q Qops
  | 1 => f Z Fpops
  | 2 => f Z W64ops
  | _ => bad_case
  end.
