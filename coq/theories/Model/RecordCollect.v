(* Record-container collection: transcription of
     src/differentiation/container_record/iterators.rs
       collect_into_components / collect_into_n_components (the history bookkeeping:
         `history: Option<Option<&WengertList>>`, `error` overwritten at every mismatch,
         the final `history.unwrap()`),
       RecordTensor::from_iter / from_iters (then Tensor::try_from),
       RecordMatrix::from_iter / from_iters (then `Some(len) == rows.checked_mul(columns)`).
   A record is represented by its history tag only: 0 = constant (history None), k > 0 = a
   variable of WengertList number k.  The numbers / indexes are copied through unchanged and are
   C06's subject.  Executable definitions only. *)
From Coq Require Import List ZArith NArith Bool Arith.
From EasyML Require Import Base.Sx Model.Shape Model.U64.
Import ListNotations.
Open Scope N_scope.

(* are_exact_same_list on tags *)
Definition same_history (a b : N) : bool := a =? b.

(* the closure body: match history { None => history = Some(record.history),
   Some(h) => if !are_exact_same_list(h, record.history) { error = Some(Inconsistent{first: h, later}) } } *)
Definition collect_step (st : option N * option (N * N)) (h : N) : option N * option (N * N) :=
  match fst st with
  | None => (Some h, snd st)
  | Some f => if same_history f h then st else (Some f, Some (f, h))
  end.

Definition e_empty : sx := SL [SZ 0].
Definition e_shape_len (sh : shape) (n : N) : sx := SL [SZ 1; sshape sh; sN n].
Definition e_inconsistent (first later : N) : sx := SL [SZ 2; sN first; sN later].

(* collect_into_components: Ok(history) | Err(InconsistentHistory) | Err(Empty); the
   `history.unwrap()` of the code is a Panic here should it ever be reached with None *)
Definition collect_components (tags : list N) : outcome N :=
  let st := fold_left collect_step tags (None, None) in
  match snd st with
  | Some (f, l) => Err (e_inconsistent f l)
  | None =>
      if (N.of_nat (length tags) =? 0) then Err e_empty
      else match fst st with Some h => Ok h | None => Panic end
  end.

(* RecordTensor::from_iter(shape, iter) *)
Definition record_tensor_from_iter (sh : shape) (tags : list N) : outcome (shape * N) :=
  obind (collect_components tags) (fun h =>
    if validate_dimensions sh (N.of_nat (length tags)) then Ok (sh, h)
    else Err (e_shape_len sh (N.of_nat (length tags)))).

(* RecordMatrix::from_iter((rows, columns), iter) *)
Definition record_matrix_from_iter (rows cols : N) (tags : list N) : outcome (shape * N) :=
  let sh := [(0%nat, rows); (1%nat, cols)] in
  obind (collect_components tags) (fun h =>
    match checked_mul rows cols with
    | Some p => if p =? N.of_nat (length tags) then Ok (sh, h)
                else Err (e_shape_len sh (N.of_nat (length tags)))
    | None => Err (e_shape_len sh (N.of_nat (length tags)))
    end).

(* from_iters::<N>: stream n collects the n-th record of every item; the N results are
   independent of one another *)
Definition record_tensor_from_iters (sh : shape) (streams : list (list N)) : list (outcome (shape * N)) :=
  map (record_tensor_from_iter sh) streams.
Definition record_matrix_from_iters (rows cols : N) (streams : list (list N)) : list (outcome (shape * N)) :=
  map (record_matrix_from_iter rows cols) streams.
