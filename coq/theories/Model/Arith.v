(* Tensor and matrix arithmetic: transcription of src/tensors/operations.rs
   (tensor_view_addition_iter / tensor_view_subtraction_iter, scalar_product,
   tensor_view_vector_product_iter, tensor_view_matrix_product, the operand-form macros, the
   scalar macros), of Tensor::map / TensorView::map / elementwise(_with_index) /
   scalar_product (src/tensors/mod.rs, views.rs) and of src/matrices/operations.rs
   (matrix_view_addition_iter / _subtraction_iter / matrix_view_multiplication, Neg, the scalar
   macros), over an arbitrary dictionary of element operations.

   Operand forms.  Owned and borrowed operands run the same code, so the model distinguishes
   only what the 16 impls distinguish: a `Tensor` operand is iterated with
   direct_iter_reference() (its storage vector), a `TensorView` operand with iter_reference()
   (the row-major walk over view_shape() calling get_reference_unchecked); likewise `Matrix`
   (direct_row_major_reference_iter) and `MatrixView` (RowMajorReferenceIterator).
   The odometer of ShapeIterator is transcribed by its row-major enumeration `all_indexes`
   (the odometer itself is the subject of C09).

   Views are modelled by their observable interface { view_shape ; get_reference }, plus the
   adaptors the checks use as non-row-major sources (TensorAccess, TensorTranspose,
   TensorReverse, TensorRange, TensorMask, TensorRename; MatrixRange, MatrixReverse, and the
   column-major MatrixRefTensor(TensorAccess(TensorRefMatrix)) transposition).
   Executable definitions only; proofs live in Proofs/C03P.v. *)
From Coq Require Import List ZArith NArith Bool Arith.
From EasyML Require Import Base.Sx Model.Shape Model.Tensor Model.Num.
Import ListNotations.
Open Scope N_scope.

(* ---------------- iterator combinators ---------------- *)
(* left.zip(right).map(f) *)
Fixpoint map2 {A B C} (f : A -> B -> C) (l1 : list A) (l2 : list B) : list C :=
  match l1, l2 with
  | a :: r1, b :: r2 => f a b :: map2 f r1 r2
  | _, _ => []
  end.

(* Iterator::reduce: the first item is the accumulator, folded left to right *)
Definition reduce {A} (f : A -> A -> A) (l : list A) : option A :=
  match l with [] => None | x :: r => Some (fold_left f r x) end.

(* results.push(f(x)?) over a list: the first panic wins *)
Fixpoint otraverse {X Y} (f : X -> outcome Y) (l : list X) : outcome (list Y) :=
  match l with
  | [] => Ok []
  | x :: rest => obind (f x) (fun c => omap (cons c) (otraverse f rest))
  end.

(* 0 .. n *)
Definition nrange (n : N) : list N := map N.of_nat (seq 0 (N.to_nat n)).

(* ShapeIterator: every index tuple of the shape, last dimension fastest; none at all when a
   length is zero *)
Fixpoint all_indexes (lens : list N) : list (list N) :=
  match lens with
  | [] => [[]]
  | l :: r => flat_map (fun i => map (cons i) (all_indexes r)) (nrange l)
  end.

(* left_shape != right_shape on [(Dimension, usize); D]: names compared as strings *)
Definition dim_eqb (a b : name * N) : bool := Nat.eqb (fst a) (fst b) && (snd a =? snd b).
Fixpoint shape_eqb (a b : shape) : bool :=
  match a, b with
  | [], [] => true
  | x :: r, y :: s => dim_eqb x y && shape_eqb r s
  | _, _ => false
  end.

(* ---------------- index maps of the view adaptors ---------------- *)
(* reverse_indexes *)
Fixpoint reverse_indexes (idx : list N) (sh : shape) (reversed : list bool) : list N :=
  match idx, sh, reversed with
  | i :: idx', (_, len) :: sh', r :: reversed' =>
      (if r then (if len - 1 <? i then i else len - 1 - i) else i)
      :: reverse_indexes idx' sh' reversed'
  | _, _, _ => []
  end.
(* range_exceeds_bounds *)
Fixpoint exceeds_bounds (sh : shape) (rs : list (N * N)) : bool :=
  match sh, rs with
  | (_, len) :: sh', (start, l) :: rs' =>
      (usize_max <? start + l) || (len <? start + l) || exceeds_bounds sh' rs'
  | _, _ => false
  end.
(* map_indexes_by_range: IndexRange::map on every coordinate *)
Fixpoint map_by_range (idx : list N) (rs : list (N * N)) : option (list N) :=
  match idx, rs with
  | [], [] => Some []
  | i :: idx', (start, l) :: rs' =>
      if i <? l then option_map (cons (i + start)) (map_by_range idx' rs') else None
  | _, _ => None
  end.
(* map_indexes_by_mask: IndexRange::mask on every coordinate *)
Fixpoint map_by_mask (idx : list N) (ms : list (N * N)) : list N :=
  match idx, ms with
  | i :: idx', (start, l) :: ms' =>
      (if i <? start then i else N.min usize_max (i + l)) :: map_by_mask idx' ms'
  | _, _ => []
  end.

(* ================================================================ tensors *)
Section Views.
Context {A : Type}.

(* a TensorRef: view_shape() and get_reference() *)
Record tview : Type := mkView { v_shape : shape; v_get : list N -> option A }.

(* impl TensorRef for Tensor *)
Definition view_of_tensor (t : tensor A) : tview := mkView (t_shape t) (t_get t).

(* TensorReferenceIterator::from(source) collected: None would be an out-of-range unchecked
   access, which no well-formed view produces *)
Definition view_elems (v : tview) : option (list A) :=
  sequence (map (v_get v) (all_indexes (lens_of (v_shape v)))).

(* ---- view adaptors (None = the constructor rejects the arguments) ---- *)
(* TensorAccess::from(source, names): shape and indexes in the requested order *)
Definition v_access (v : tview) (req : list name) : option tview :=
  match dm_new (names_of (v_shape v)) req with
  | Some tbl => Some (mkView (map_shape_to_requested tbl (v_shape v))
                             (fun idx => v_get v (map_dimensions_to_source tbl idx 0)))
  | None => None
  end.

(* TensorTranspose::from(source, names): the names stay, the lengths and the data move *)
Definition v_transpose (v : tview) (req : list name) : option tview :=
  match dm_new (names_of (v_shape v)) req with
  | Some tbl => Some (mkView (combine (names_of (v_shape v))
                                      (lens_of (map_shape_to_requested tbl (v_shape v))))
                             (fun idx => v_get v (map_dimensions_to_source tbl idx 0)))
  | None => None
  end.

(* TensorReverse::from(source, names) *)
Definition v_reverse (v : tview) (names : list name) : option tview :=
  if has_duplicates names || negb (forallb (contains (v_shape v)) names) then None
  else let reversed := map (fun d => existsb (Nat.eqb (fst d)) names) (v_shape v) in
       Some (mkView (v_shape v) (fun idx => v_get v (reverse_indexes idx (v_shape v) reversed))).

(* TensorRange::from_all_strict(source, [Some((start, length)); D]) *)
Definition v_range (v : tview) (rs : list (N * N)) : option tview :=
  if negb (Nat.eqb (length rs) (length (v_shape v))) || exceeds_bounds (v_shape v) rs then None
  else let sh := combine (names_of (v_shape v)) (map snd rs) in
       if valid_shape_b sh
       then Some (mkView sh (fun idx => match map_by_range idx rs with
                                        | Some j => v_get v j | None => None end))
       else None.

(* TensorMask::from_all_strict(source, [Some((start, length)); D]) *)
Definition v_mask (v : tview) (ms : list (N * N)) : option tview :=
  if negb (Nat.eqb (length ms) (length (v_shape v))) || exceeds_bounds (v_shape v) ms then None
  else let sh := map2 (fun d m => (fst d, snd d - snd m)) (v_shape v) ms in
       if valid_shape_b sh
       then Some (mkView sh (fun idx => v_get v (map_by_mask idx ms)))
       else None.

(* TensorRename::from(source, names) *)
Definition v_rename (v : tview) (names : list name) : option tview :=
  if negb (Nat.eqb (length names) (length (v_shape v))) || has_duplicates names then None
  else Some (mkView (combine names (lens_of (v_shape v))) (v_get v)).

(* ---- operands of the operator impls ---- *)
Inductive operand : Type :=
| OT (t : tensor A)        (* Tensor / &Tensor *)
| OV (v : tview).          (* TensorView / &TensorView over any source *)

Definition op_shape (o : operand) : shape :=
  match o with OT t => t_shape t | OV v => v_shape v end.
(* what the impl hands to the shared implementation: direct_iter_reference() for a Tensor,
   iter_reference() for a TensorView *)
Definition op_iter (o : operand) : option (list A) :=
  match o with OT t => Some (t_data t) | OV v => view_elems v end.
(* the operand as a TensorRef (matrix product) or after `.into()` a TensorView
   (elementwise, scalar_product right hand sides) *)
Definition op_view (o : operand) : tview :=
  match o with OT t => view_of_tensor t | OV v => v end.

(* tensor_view_addition_iter / tensor_view_subtraction_iter with the element operation f:
   assert_same_dimensions, then Tensor::from(left_shape, zip.map.collect()) *)
Definition t_zip_with (f : A -> A -> A) (x y : operand) : outcome (tensor A) :=
  if shape_eqb (op_shape x) (op_shape y) then
    match op_iter x, op_iter y with
    | Some lx, Some ly => tensor_from (op_shape x) (map2 f lx ly)
    | _, _ => Panic
    end
  else Panic.

(* Tensor::map: data.iter().map(f) with the shape and strides kept (direct_from);
   TensorView::map: iter().map(f) into Tensor::from(self.shape(), ..) *)
Definition t_map (f : A -> A) (x : operand) : outcome (tensor A) :=
  match x with
  | OT t => Ok (mkTensor (map f (t_data t)) (t_shape t) (t_strides t))
  | OV v => match view_elems v with
            | Some l => tensor_from (v_shape v) (map f l)
            | None => Panic
            end
  end.

(* Tensor::elementwise / TensorView::elementwise (rhs: Into<TensorView>): shapes must be equal;
   left iterated directly (Tensor) or in view order (TensorView), right always in view order;
   result: direct_from(mapped, self.shape, self.strides) resp. Tensor::from(left_shape, mapped) *)
Definition t_elementwise (f : A -> A -> A) (x y : operand) : outcome (tensor A) :=
  if shape_eqb (op_shape x) (op_shape y) then
    match op_iter x, view_elems (op_view y) with
    | Some lx, Some ly =>
        match x with
        | OT t => Ok (mkTensor (map2 f lx ly) (t_shape t) (t_strides t))
        | OV v => tensor_from (v_shape v) (map2 f lx ly)
        end
    | _, _ => Panic
    end
  else Panic.

(* elementwise_with_index: the mapping function also receives the index of the pair *)
Definition t_elementwise_with_index (f : list N -> A -> A -> A) (x y : operand)
  : outcome (tensor A) :=
  if shape_eqb (op_shape x) (op_shape y) then
    match op_iter x, view_elems (op_view y) with
    | Some lx, Some ly =>
        let idxs := all_indexes (lens_of (op_shape x)) in
        let mapped := map2 (fun i xy => f i (fst xy) (snd xy)) idxs (combine lx ly) in
        match x with
        | OT t => Ok (mkTensor mapped (t_shape t) (t_strides t))
        | OV v => tensor_from (v_shape v) mapped
        end
    | _, _ => Panic
    end
  else Panic.

End Views.
Arguments tview A : clear implicits.
Arguments operand A : clear implicits.

Section TensorArith.
Context {R : Type} (ops : numops R).

Definition t_add : operand R -> operand R -> outcome (tensor R) := t_zip_with (nadd ops).
Definition t_sub : operand R -> operand R -> outcome (tensor R) := t_zip_with (nsub ops).

(* tensor_scalar! / tensor_view_scalar!: self.map(|x| x.op(rhs.clone())); op: 0 + 1 - 2 * 3 / *)
Definition scalar_fn (op : Z) : R -> R -> R :=
  match op with
  | 0%Z => nadd ops | 1%Z => nsub ops | 2%Z => nmul ops | _ => ndiv ops
  end.
Definition t_scalar (op : Z) (x : operand R) (s : R) : outcome (tensor R) :=
  t_map (fun e => scalar_fn op e s) x.
(* no Neg impl exists for Tensor / TensorView; negation is spelled map(|x| -x) *)
Definition t_neg (x : operand R) : outcome (tensor R) := t_map (nneg ops) x.

(* operations::scalar_product: zip.map(|(x, y)| x * y).reduce(|x, y| x + y).unwrap() *)
Definition scalar_product (lx ly : list R) : outcome R :=
  of_option (reduce (nadd ops) (map2 (nmul ops) lx ly)).

(* Tensor::scalar_product / TensorView::scalar_product (1 dimension, rhs: Into<TensorView>):
   assert_same_dimensions; tensor_view_vector_product_iter re-checks the lengths *)
Definition t_dot (x y : operand R) : outcome R :=
  if shape_eqb (op_shape x) (op_shape y) then
    match op_shape x, op_shape y with
    | [(_, ll)], [(_, rl)] =>
        if ll =? rl then
          match op_iter x, view_elems (op_view y) with
          | Some lx, Some ly => scalar_product lx ly
          | _, _ => Panic
          end
        else Panic
    | _, _ => Panic
    end
  else Panic.

(* TensorIndex::from(&left, [(left.view_shape()[0].0, i)]) iterated: the i'th row *)
Definition select_row (v : tview R) (i : N) (inner : N) : option (list R) :=
  sequence (map (fun k => v_get v [i; k]) (nrange inner)).
(* TensorIndex::from(&right, [(right.view_shape()[1].0, j)]) iterated: the j'th column *)
Definition select_column (v : tview R) (j : N) (inner : N) : option (list R) :=
  sequence (map (fun k => v_get v [k; j]) (nrange inner)).

(* tensor_view_matrix_product: checks in the code's order, then every [i, j] of the result in
   row-major order *)
Definition t_matmul (x y : operand R) : outcome (tensor R) :=
  let l := op_view x in let r := op_view y in
  match v_shape l, v_shape r with
  | [(ln0, m); (ln1, n)], [(rn0, n'); (rn1, k)] =>
      if negb (n =? n') then Panic
      else if Nat.eqb ln0 rn1 then Panic
      else
        let sh := [(ln0, m); (rn1, k)] in
        obind (tensor_from sh (repeat (nzero ops) (N.to_nat (elements sh)))) (fun _ =>
          let cell := fun idx =>
            match idx with
            | [i; j] => match select_row l i n, select_column r j n' with
                        | Some a, Some b => scalar_product a b
                        | _, _ => Panic
                        end
            | _ => Panic
            end in
          omap (fun data => mkTensor data sh (compute_strides sh))
               (otraverse cell (all_indexes [m; k])))
  | _, _ => Panic
  end.

End TensorArith.

(* ================================================================ matrices *)
Section Matrices.
Context {A : Type}.

(* struct Matrix { data (row major), rows, columns } *)
Record matrix : Type := mkMatrix { m_data : list A; m_rows : N; m_cols : N }.

(* a MatrixRef: view_rows(), view_columns(), try_get_reference() *)
Record mview : Type := mkMView { mv_rows : N; mv_cols : N; mv_get : N -> N -> option A }.

(* impl MatrixRef for Matrix: data.get(row * columns + column) inside the size *)
Definition m_get (m : matrix) (i j : N) : option A :=
  if (i <? m_rows m) && (j <? m_cols m) then nth_error (m_data m) (N.to_nat (i * m_cols m + j))
  else None.
Definition mview_of_matrix (m : matrix) : mview := mkMView (m_rows m) (m_cols m) (m_get m).

(* RowMajorReferenceIterator collected *)
Definition mv_row_major (v : mview) : option (list A) :=
  sequence (flat_map (fun i => map (fun j => mv_get v i j) (nrange (mv_cols v)))
                     (nrange (mv_rows v))).

(* Matrix::from_flat_row_major: size.0.checked_mul(size.1) == Some(len), values non-empty *)
Definition from_flat_row_major (rows cols : N) (values : list A) : outcome matrix :=
  if (rows * cols <=? usize_max) && (rows * cols =? N.of_nat (length values))
     && negb (N.of_nat (length values) =? 0)
  then Ok (mkMatrix values rows cols) else Panic.

(* ---- view adaptors ---- *)
(* MatrixRange::from(source, r0..r0+rl, c0..c0+cl), ranges clipped to the source *)
Definition clip (start len max : N) : N := N.min (N.min usize_max (start + len)) max - start.
Definition mv_range (v : mview) (r0 rl c0 cl : N) : mview :=
  let rl' := clip r0 rl (mv_rows v) in let cl' := clip c0 cl (mv_cols v) in
  mkMView rl' cl' (fun i j => if (i <? rl') && (j <? cl') then mv_get v (i + r0) (j + c0) else None).
(* MatrixReverse::from(source, Reverse { rows, columns }) *)
Definition mv_reverse (v : mview) (rr rc : bool) : mview :=
  mkMView (mv_rows v) (mv_cols v) (fun i j =>
    if (mv_rows v =? 0) || (mv_cols v =? 0) then None
    else match reverse_indexes [i; j] [(0%nat, mv_rows v); (1%nat, mv_cols v)] [rr; rc] with
         | [i'; j'] => mv_get v i' j'
         | _ => None
         end).
(* MatrixRefTensor::from(TensorAccess::from(TensorRefMatrix::from(source), ["column", "row"])):
   a column-major walk of the source *)
Definition mv_transpose (v : mview) : mview :=
  mkMView (mv_cols v) (mv_rows v) (fun i j => mv_get v j i).

Inductive moperand : Type :=
| OM (m : matrix)          (* Matrix / &Matrix *)
| OMV (v : mview).         (* MatrixView / &MatrixView *)

Definition mop_size (o : moperand) : N * N :=
  match o with OM m => (m_rows m, m_cols m) | OMV v => (mv_rows v, mv_cols v) end.
(* direct_row_major_reference_iter() for a Matrix, RowMajorReferenceIterator for a view *)
Definition mop_iter (o : moperand) : option (list A) :=
  match o with OM m => Some (m_data m) | OMV v => mv_row_major v end.
Definition mop_view (o : moperand) : mview :=
  match o with OM m => mview_of_matrix m | OMV v => v end.

(* matrix_view_addition_iter / matrix_view_subtraction_iter *)
Definition m_zip_with (f : A -> A -> A) (x y : moperand) : outcome matrix :=
  let '(lr, lc) := mop_size x in let '(rr, rc) := mop_size y in
  if (lr =? rr) && (lc =? rc) then
    match mop_iter x, mop_iter y with
    | Some lx, Some ly => from_flat_row_major lr lc (map2 f lx ly)
    | _, _ => Panic
    end
  else Panic.

(* Matrix::map (data.iter()) / MatrixView::map (row_major_iter()) into from_flat_row_major *)
Definition m_map (f : A -> A) (x : moperand) : outcome matrix :=
  match mop_iter x with
  | Some l => from_flat_row_major (fst (mop_size x)) (snd (mop_size x)) (map f l)
  | None => Panic
  end.
End Matrices.
Arguments matrix A : clear implicits.
Arguments mview A : clear implicits.
Arguments moperand A : clear implicits.

Section MatrixArith.
Context {R : Type} (ops : numops R).

Definition m_add : moperand R -> moperand R -> outcome (matrix R) := m_zip_with (nadd ops).
Definition m_sub : moperand R -> moperand R -> outcome (matrix R) := m_zip_with (nsub ops).
(* impl Neg: self.map(|v| -v) *)
Definition m_neg (x : moperand R) : outcome (matrix R) := m_map (nneg ops) x.
(* matrix_scalar! / matrix_view_scalar! *)
Definition m_scalar (op : Z) (x : moperand R) (s : R) : outcome (matrix R) :=
  m_map (fun e => scalar_fn ops op e s) x.

(* RowReferenceIterator::from(left, i) / ColumnReferenceIterator::from(right, j) collected *)
Definition row_iter (v : mview R) (i : N) : option (list R) :=
  sequence (map (fun k => mv_get v i k) (nrange (mv_cols v))).
Definition column_iter (v : mview R) (j : N) : option (list R) :=
  sequence (map (fun k => mv_get v k j) (nrange (mv_rows v))).

(* matrix_view_multiplication: the inner-length assertion, Matrix::empty (asserts a size of at
   least 1x1), then every (i, j) in row-major order *)
Definition m_matmul (x y : moperand R) : outcome (matrix R) :=
  let l := mop_view x in let r := mop_view y in
  if negb (mv_cols l =? mv_rows r) then Panic
  else if (mv_rows l =? 0) || (mv_cols r =? 0) then Panic
  else
    let cell := fun ij : N * N =>
      match row_iter l (fst ij), column_iter r (snd ij) with
      | Some a, Some b => scalar_product ops a b
      | _, _ => Panic
      end in
    omap (fun data => mkMatrix data (mv_rows l) (mv_cols r))
         (otraverse cell (flat_map (fun i => map (fun j => (i, j)) (nrange (mv_cols r)))
                          (nrange (mv_rows l)))).

End MatrixArith.
