(* Matrix sources and the matrix iterators: transcription of src/matrices/iterators.rs
   (Column/Row/Diagonal iterators over a Range, column_major_iter / row_major_iter and their size
   hints, reference / mutable / owned variants, WithIndex) over the sources
     MBase   Matrix<T>                                   src/matrices/mod.rs
     MRange  MatrixRange::from(source, rows, columns)    src/matrices/views/ranges.rs
     MRev    MatrixReverse::from(source, Reverse{..})    src/matrices/views/reverse.rs
   Executable definitions only. *)
From Coq Require Import List ZArith NArith Bool Arith.
From EasyML Require Import Base.Sx Model.Shape Model.Tensor Model.TSource.
Import ListNotations.
Open Scope N_scope.

Section MSource.
Context {A : Type}.

Record matrix : Type := mkMatrix { m_data : list A; m_rows : N; m_cols : N }.

(* Matrix::from_flat_row_major(size, values) *)
Definition matrix_from_flat (rows cols : N) (data : list A) : outcome matrix :=
  if negb ((rows * cols <=? usize_max) && (rows * cols =? N.of_nat (length data))) then Panic
  else if (length data =? 0)%nat then Panic
  else Ok (mkMatrix data rows cols).

(* Matrix::_try_get_reference: row < rows && column < columns, data[column + row * columns] *)
Definition m_get (m : matrix) (r c : N) : option A :=
  if (r <? m_rows m) && (c <? m_cols m)
  then nth_error (m_data m) (N.to_nat (c + r * m_cols m)) else None.

Definition m_set (m : matrix) (r c : N) (v : A) : option matrix :=
  if (r <? m_rows m) && (c <? m_cols m)
  then option_map (fun d => mkMatrix d (m_rows m) (m_cols m))
                  (list_set (m_data m) (N.to_nat (c + r * m_cols m)) v)
  else None.

Inductive msrc : Type :=
| MBase (m : matrix)
| MRange (s : msrc) (rows cols : N * N)      (* clipped (start, length) *)
| MRev (s : msrc) (rows cols : bool).

Fixpoint ms_rows (s : msrc) : N :=
  match s with
  | MBase m => m_rows m
  | MRange _ r _ => snd r
  | MRev s' _ _ => ms_rows s'
  end.
Fixpoint ms_cols (s : msrc) : N :=
  match s with
  | MBase m => m_cols m
  | MRange _ _ c => snd c
  | MRev s' _ _ => ms_cols s'
  end.

(* the two-element reverse_indexes call of MatrixReverse *)
Definition mrev_index (rev : bool) (len i : N) : N :=
  if rev then let last := len - 1 in if last <? i then i else last - i else i.

(* MatrixRef::try_get_reference *)
Fixpoint ms_get (s : msrc) (r c : N) : option A :=
  match s with
  | MBase m => m_get m r c
  | MRange s' rr cr =>
      match range_map rr r with
      | None => None
      | Some r' => match range_map cr c with
                   | None => None
                   | Some c' => ms_get s' r' c'
                   end
      end
  | MRev s' rv cv =>
      if (ms_rows s' =? 0) || (ms_cols s' =? 0) then None
      else ms_get s' (mrev_index rv (ms_rows s') r) (mrev_index cv (ms_cols s') c)
  end.

Fixpoint ms_set (s : msrc) (r c : N) (v : A) : option msrc :=
  match s with
  | MBase m => option_map MBase (m_set m r c v)
  | MRange s' rr cr =>
      match range_map rr r with
      | None => None
      | Some r' => match range_map cr c with
                   | None => None
                   | Some c' => option_map (fun x => MRange x rr cr) (ms_set s' r' c' v)
                   end
      end
  | MRev s' rv cv =>
      if (ms_rows s' =? 0) || (ms_cols s' =? 0) then None
      else option_map (fun x => MRev x rv cv)
             (ms_set s' (mrev_index rv (ms_rows s') r) (mrev_index cv (ms_cols s') c) v)
  end.

Fixpoint ms_base (s : msrc) : matrix :=
  match s with
  | MBase m => m
  | MRange s' _ _ | MRev s' _ _ => ms_base s'
  end.

(* MatrixRange::from(source, rows, columns): both ranges clipped to the source size *)
Definition mrange_from (s : msrc) (rows cols : N * N) : msrc :=
  MRange s (range_clip rows (ms_rows s)) (range_clip cols (ms_cols s)).

(* MatrixRefExtension::index_is_valid *)
Definition index_is_valid (s : msrc) (r c : N) : bool := (r <? ms_rows s) && (c <? ms_cols s).

(* ---- std::ops::Range<usize> as an iterator ---- *)
Definition range_next (rg : N * N) : option N * (N * N) :=
  if fst rg <? snd rg then (Some (fst rg), (fst rg + 1, snd rg)) else (None, rg).
Definition range_len (rg : N * N) : N := if fst rg <? snd rg then snd rg - fst rg else 0.

(* ---- Column / Row / Diagonal iterators (all access modes share this shape) ---- *)
Inductive line_kind := LColumn | LRow | LDiagonal.
Record line_iter : Type :=
  mkLI { li_kind : line_kind; li_fixed : N; li_range : N * N; li_source : msrc }.

(* ColumnIterator::from: assert!(source.index_is_valid(0, column)); range: 0..source.view_rows() *)
Definition column_iter_from (s : msrc) (column : N) : outcome line_iter :=
  if index_is_valid s 0 column then Ok (mkLI LColumn column (0, ms_rows s) s) else Panic.
(* RowIterator::from: assert!(source.index_is_valid(row, 0)); range: 0..source.view_columns() *)
Definition row_iter_from (s : msrc) (row : N) : outcome line_iter :=
  if index_is_valid s row 0 then Ok (mkLI LRow row (0, ms_cols s) s) else Panic.
(* DiagonalIterator::from: range: 0..min(view_rows, view_columns) *)
Definition diagonal_iter_from (s : msrc) : line_iter :=
  mkLI LDiagonal 0 (0, N.min (ms_rows s) (ms_cols s)) s.

Definition li_place (it : line_iter) (i : N) : N * N :=
  match li_kind it with
  | LColumn => (i, li_fixed it)
  | LRow => (li_fixed it, i)
  | LDiagonal => (i, i)
  end.

(* next: match self.range.next() { None => None, Some(i) => Some(get_reference_unchecked(..)) } *)
Definition li_next (it : line_iter) : option ((N * N) * option A) * line_iter :=
  match range_next (li_range it) with
  | (Some i, rg') =>
      let p := li_place it i in
      (Some (p, ms_get (li_source it) (fst p) (snd p)),
       mkLI (li_kind it) (li_fixed it) rg' (li_source it))
  | (None, rg') => (None, mkLI (li_kind it) (li_fixed it) rg' (li_source it))
  end.
Definition li_len (it : line_iter) : N := range_len (li_range it).
Definition li_write (it : line_iter) (p : N * N) (v : A) : line_iter :=
  match ms_set (li_source it) (fst p) (snd p) v with
  | Some s' => mkLI (li_kind it) (li_fixed it) (li_range it) s'
  | None => it
  end.

(* ---- ColumnMajor / RowMajor iterators ---- *)
Record major_iter : Type :=
  mkMI { mi_row_major : bool; mi_column_counter : N; mi_columns : N; mi_row_counter : N;
         mi_rows : N; mi_finished : bool; mi_source : msrc }.

(* {Column,Row}Major*Iterator::from: counters 0, finished: !source.index_is_valid(0, 0) *)
Definition major_iter_from (row_major : bool) (s : msrc) : major_iter :=
  mkMI row_major 0 (ms_cols s) 0 (ms_rows s) (negb (index_is_valid s 0 0)) s.

(* fn column_major_iter(finished, rows, columns, row_counter, column_counter):
   returns the place and the new (finished, row_counter, column_counter) *)
Definition column_major_step (fin : bool) (rows cols rc cc : N)
  : option (N * N) * (bool * N * N) :=
  if fin then (None, (fin, rc, cc))
  else
    let fin' := if (rc =? rows - 1) && (cc =? cols - 1) then true else fin in
    if rc =? rows - 1 then (Some (rc, cc), (fin', 0, cc + 1))
    else (Some (rc, cc), (fin', rc + 1, cc)).

(* fn row_major_iter(..) *)
Definition row_major_step (fin : bool) (rows cols rc cc : N)
  : option (N * N) * (bool * N * N) :=
  if fin then (None, (fin, rc, cc))
  else
    let fin' := if (cc =? cols - 1) && (rc =? rows - 1) then true else fin in
    if cc =? cols - 1 then (Some (rc, cc), (fin', rc + 1, 0))
    else (Some (rc, cc), (fin', rc, cc + 1)).

(* fn column_major_size_hint(rows, columns, row_counter, column_counter) *)
Definition column_major_size_hint (rows cols rc cc : N) : N :=
  let remaining_columns := cols - cc in
  if remaining_columns =? 0 then 0
  else if remaining_columns =? 1 then rows - rc
  else (rows - rc) + (remaining_columns - 1) * rows.

(* fn row_major_size_hint(..) *)
Definition row_major_size_hint (rows cols rc cc : N) : N :=
  let remaining_rows := rows - rc in
  if remaining_rows =? 0 then 0
  else if remaining_rows =? 1 then cols - cc
  else (cols - cc) + (remaining_rows - 1) * cols.

Definition mi_step (it : major_iter) : option (N * N) * major_iter :=
  let '(p, (fin, rc, cc)) :=
    (if mi_row_major it then row_major_step else column_major_step)
      (mi_finished it) (mi_rows it) (mi_columns it) (mi_row_counter it) (mi_column_counter it) in
  (p, mkMI (mi_row_major it) cc (mi_columns it) rc (mi_rows it) fin (mi_source it)).

Definition mi_len (it : major_iter) : N :=
  (if mi_row_major it then row_major_size_hint else column_major_size_hint)
    (mi_rows it) (mi_columns it) (mi_row_counter it) (mi_column_counter it).

(* copy / reference / mutable reference: .map(|(row, column)| get_reference_unchecked(row, column)) *)
Definition mi_next (it : major_iter) : option ((N * N) * option A) * major_iter :=
  match mi_step it with
  | (Some p, it') => (Some (p, ms_get (mi_source it) (fst p) (snd p)), it')
  | (None, it') => (None, it')
  end.

Definition mi_set_source (it : major_iter) (s : msrc) : major_iter :=
  mkMI (mi_row_major it) (mi_column_counter it) (mi_columns it) (mi_row_counter it) (mi_rows it)
       (mi_finished it) s.

(* owned: mem::replace(get_reference_unchecked_mut(row, column), producer()) *)
Definition mi_next_owned (dflt : A) (it : major_iter) : option ((N * N) * option A) * major_iter :=
  match mi_step it with
  | (Some p, it') =>
      let v := ms_get (mi_source it) (fst p) (snd p) in
      let s' := match ms_set (mi_source it) (fst p) (snd p) dflt with
                | Some s' => s' | None => mi_source it end in
      (Some (p, v), mi_set_source it' s')
  | (None, it') => (None, it')
  end.

(* WithIndex<..>::next: let (row, column) = (row_counter, column_counter);
                         self.iterator.next().map(|x| ((row, column), x)) *)
Definition mi_with_index {I} (next : major_iter -> option I * major_iter) (it : major_iter)
  : option ((N * N) * I) * major_iter :=
  let index := (mi_row_counter it, mi_column_counter it) in
  match next it with
  | (Some x, it') => (Some (index, x), it')
  | (None, it') => (None, it')
  end.

Definition mi_write (it : major_iter) (p : N * N) (v : A) : major_iter :=
  match ms_set (mi_source it) (fst p) (snd p) v with
  | Some s' => mi_set_source it s'
  | None => it
  end.

End MSource.
Arguments matrix A : clear implicits.
Arguments msrc A : clear implicits.
Arguments line_iter A : clear implicits.
Arguments major_iter A : clear implicits.

(* ---- the matrix source-term case language ----
     (0 rows cols data)                 Matrix::from_flat_row_major((rows, cols), data)
     (1 src (rstart rlen) (cstart clen)) MatrixRange::from(src, IndexRange, IndexRange)
     (2 src revrows revcols)            MatrixReverse::from(src, Reverse { rows, columns }) *)
Fixpoint dmsrc (fuel : nat) (s : sx) : option (outcome (msrc Z)) :=
  match fuel with
  | O => None
  | S f =>
    match s with
    | SL [SZ 0%Z; r; c; data] =>
        match dN r, dN c, dlist dZ data with
        | Some r, Some c, Some data => Some (omap MBase (matrix_from_flat r c data))
        | _, _, _ => None
        end
    | SL [SZ 1%Z; s'; rr; cr] =>
        match dmsrc f s', dpair dN dN rr, dpair dN dN cr with
        | Some o, Some rr, Some cr => Some (omap (fun x => mrange_from x rr cr) o)
        | _, _, _ => None
        end
    | SL [SZ 2%Z; s'; rv; cv] =>
        match dmsrc f s', dbool rv, dbool cv with
        | Some o, Some rv, Some cv => Some (omap (fun x => MRev x rv cv) o)
        | _, _, _ => None
        end
    | _ => None
    end
  end.
