(* Tensor transformations, equality and similarity: transcription of
     src/tensors/mod.rs        Tensor::{reorder, reorder_mut (square 2-D swap loop + fallback),
                               transpose, transpose_mut, reshape_mut, reshape_owned, rename,
                               map, map_with_index, map_mut, map_mut_with_index, elementwise,
                               elementwise_with_index, first, scalar, into_scalar, into_matrix}
     src/tensors/views.rs      the same methods of TensorView (written against the iterators)
     src/tensors/operations.rs tensor_equality, tensor_similarity
     src/matrices/mod.rs       TryFrom<(Matrix, [Dimension; 2])> for Tensor (Matrix::into_tensor)
   `self` of a Tensor method is a `tensor A`; `self` of a TensorView method is any source term
   (Model/TSource.v).  Executable definitions only. *)
From Coq Require Import List ZArith NArith Bool Arith.
From EasyML Require Import Base.Sx Model.Shape Model.Tensor Model.TSource Model.ShapeIter.
Import ListNotations.
Open Scope N_scope.

(* row-major enumeration of all index tuples (used for dumps and as the specification order) *)
Fixpoint nseq (start : N) (len : nat) : list N :=
  match len with O => [] | S l => start :: nseq (start + 1) l end.
Fixpoint all_indexes (lens : list N) : list (list N) :=
  match lens with
  | [] => [[]]
  | l :: r => flat_map (fun i => map (cons i) (all_indexes r)) (nseq 0 (N.to_nat l))
  end.

(* `for index in ShapeIterator::from(shape)` : every index the iterator yields, in order *)
Fixpoint shape_iter_run (fuel : nat) (it : shape_iter) : list (list N) :=
  match fuel with
  | O => []
  | S f => match iter_next it with
           | (Some x, it') => x :: shape_iter_run f it'
           | (None, _) => []
           end
  end.
Definition shape_iter_all (sh : shape) : list (list N) :=
  shape_iter_run (S (N.to_nat (elements sh))) (shape_iter_from sh).

(* dimensions::is_square *)
Definition is_square (sh : shape) : bool :=
  match sh with
  | [] => true
  | (_, first) :: r => forallb (fun d => snd d =? first) r
  end.

Fixpoint shape_eqb (a b : shape) : bool :=
  match a, b with
  | [], [] => true
  | (n1, l1) :: a', (n2, l2) :: b' => Nat.eqb n1 n2 && (l1 =? l2) && shape_eqb a' b'
  | _, _ => false
  end.

Fixpoint somes {X} (l : list (option X)) : list X :=
  match l with
  | [] => []
  | Some x :: r => x :: somes r
  | None :: r => somes r
  end.

Section Transform.
Context {A : Type}.

(* ---- running the tensor iterators to exhaustion ---- *)
Fixpoint ti_run {I} (next : tensor_iter A -> option I * tensor_iter A) (fuel : nat)
         (it : tensor_iter A) : list I :=
  match fuel with
  | O => []
  | S f => match next it with
           | (Some x, it') => x :: ti_run next f it'
           | (None, _) => []
           end
  end.
Definition fuel_of (s : tsrc A) : nat := S (N.to_nat (elements (src_shape s))).

(* source.iter().collect() / iter_reference() *)
Definition iter_values (s : tsrc A) : list A :=
  somes (map snd (ti_run ti_next (fuel_of s) (tensor_iter_from s))).
(* source.iter().with_index().collect() *)
Definition iter_indexed (s : tsrc A) : list (list N * A) :=
  somes (map (fun x => option_map (fun v => (fst x, v)) (snd (snd x)))
             (ti_run (ti_with_index ti_next) (fuel_of s) (tensor_iter_from s))).

(* iter_reference_mut().for_each(|x| *x = f(x.clone())) *)
Fixpoint for_each_mut (f : A -> A) (fuel : nat) (it : tensor_iter A) : tensor_iter A :=
  match fuel with
  | O => it
  | S fl => match ti_next it with
            | (Some (place, Some v), it') => for_each_mut f fl (ti_write it' place (f v))
            | (Some (_, None), it') => for_each_mut f fl it'
            | (None, it') => it'
            end
  end.
(* iter_reference_mut().with_index().for_each(|(i, x)| *x = f(i, x.clone())) *)
Fixpoint for_each_mut_wi (f : list N -> A -> A) (fuel : nat) (it : tensor_iter A) : tensor_iter A :=
  match fuel with
  | O => it
  | S fl => match ti_with_index ti_next it with
            | (Some (i, (place, Some v)), it') => for_each_mut_wi f fl (ti_write it' place (f i v))
            | (Some (_, (_, None)), it') => for_each_mut_wi f fl it'
            | (None, it') => it'
            end
  end.

(* ---- reorder / transpose ---- *)

(* Tensor::reorder and TensorView::reorder: TensorAccess::try_from(&source, dimensions) or panic;
   Tensor::from(reordered.shape(), reordered.iter().collect()) *)
Definition reorder (s : tsrc A) (dims : list name) : outcome (tensor A) :=
  match dm_new (names_of (src_shape s)) dims with
  | None => Panic
  | Some tbl => let acc := TAccess s tbl in tensor_from (src_shape acc) (iter_values acc)
  end.

(* for d in 0..D { shape[d].0 = names[d].0 } *)
Definition with_names_of (names : shape) (sh : shape) : shape :=
  map (fun p => (fst (fst p), snd (snd p))) (combine names sh).

(* Tensor::transpose / TensorView::transpose: reorder, then the original names in order *)
Definition transpose (s : tsrc A) (dims : list name) : outcome (tensor A) :=
  omap (fun r => mkTensor (t_data r) (with_names_of (src_shape s) (t_shape r)) (t_strides r))
       (reorder s dims).

(* one iteration of the square in-place loop of reorder_mut:
     let i = index[0]; let j = index[1];
     if j >= i { mapped = map_dimensions_to_source(index); temp = self[index];
                 self[index] = self[mapped]; self[mapped] = temp; } *)
Definition swap_step (tbl : list (nat * nat)) (t : option (tensor A)) (index : list N)
  : option (tensor A) :=
  match t with
  | None => None
  | Some t =>
    let i := nth 0 index 0 in
    let j := nth 1 index 0 in
    if i <=? j then
      let mapped := map_dimensions_to_source tbl index 0 in
      match t_get t index, t_get t mapped with
      | Some temp, Some m =>
          match t_set t index m with
          | Some t1 => t_set t1 mapped temp
          | None => None
          end
      | _, _ => None
      end
    else Some t
  end.

(* Tensor::reorder_mut *)
Definition reorder_mut (t : tensor A) (dims : list name) : outcome (tensor A) :=
  let sh := t_shape t in
  if Nat.eqb (length sh) 2 && is_square sh then
    match dm_new (names_of sh) dims with
    | None => Panic
    | Some tbl =>
        let shape' := map_shape_to_requested tbl sh in
        match fold_left (swap_step tbl) (shape_iter_all shape') (Some t) with
        | Some t' => Ok (mkTensor (t_data t') shape' (compute_strides shape'))
        | None => Panic
        end
    end
  else reorder (TBase t) dims.

(* Tensor::transpose_mut *)
Definition transpose_mut (t : tensor A) (dims : list name) : outcome (tensor A) :=
  omap (fun r => mkTensor (t_data r) (with_names_of (t_shape t) (t_shape r)) (t_strides r))
       (reorder_mut t dims).

(* ---- reshape / rename ---- *)

(* Tensor::reshape_mut: validate_dimensions_or_panic(&shape, data.len()) *)
Definition reshape_mut (t : tensor A) (sh : shape) : outcome (tensor A) :=
  if validate_dimensions sh (N.of_nat (length (t_data t)))
  then Ok (mkTensor (t_data t) sh (compute_strides sh)) else Panic.
(* Tensor::reshape_owned: Tensor::from(shape, self.data) *)
Definition reshape_owned (t : tensor A) (sh : shape) : outcome (tensor A) :=
  tensor_from sh (t_data t).

(* Tensor::rename / rename_owned *)
Definition rename (t : tensor A) (dims : list name) : outcome (tensor A) :=
  if has_duplicates dims then Panic
  else Ok (mkTensor (t_data t) (map (fun p => (snd p, snd (fst p))) (combine (t_shape t) dims))
                    (t_strides t)).

(* ---- map family ---- *)
Section Maps.
Context {B : Type}.
(* Tensor::map: direct_from(data.map(f), shape, strides) *)
Definition tensor_map (f : A -> B) (t : tensor A) : tensor B :=
  mkTensor (map f (t_data t)) (t_shape t) (t_strides t).
(* Tensor::map_with_index: self.iter().with_index().map(f).collect(), direct_from *)
Definition tensor_map_with_index (f : list N -> A -> B) (t : tensor A) : tensor B :=
  mkTensor (map (fun p => f (fst p) (snd p)) (iter_indexed (TBase t))) (t_shape t) (t_strides t).
(* TensorView::map: Tensor::from(self.shape(), self.iter().map(f).collect()) *)
Definition view_map (f : A -> B) (s : tsrc A) : outcome (tensor B) :=
  tensor_from (src_shape s) (map f (iter_values s)).
(* TensorView::map_with_index *)
Definition view_map_with_index (f : list N -> A -> B) (s : tsrc A) : outcome (tensor B) :=
  tensor_from (src_shape s) (map (fun p => f (fst p) (snd p)) (iter_indexed s)).
End Maps.

(* Tensor::map_mut: for value in data.iter_mut() { *value = f(value.clone()) } *)
Definition tensor_map_mut (f : A -> A) (t : tensor A) : tensor A :=
  mkTensor (map f (t_data t)) (t_shape t) (t_strides t).
(* Tensor::map_mut_with_index *)
Definition tensor_map_mut_with_index (f : list N -> A -> A) (t : tensor A) : tensor A :=
  src_base (ti_source (for_each_mut_wi f (fuel_of (TBase t)) (tensor_iter_from (TBase t)))).
(* TensorView::map_mut / map_mut_with_index: the source afterwards *)
Definition view_map_mut (f : A -> A) (s : tsrc A) : tsrc A :=
  ti_source (for_each_mut f (fuel_of s) (tensor_iter_from s)).
Definition view_map_mut_with_index (f : list N -> A -> A) (s : tsrc A) : tsrc A :=
  ti_source (for_each_mut_wi f (fuel_of s) (tensor_iter_from s)).

(* ---- elementwise ---- *)
(* Tensor::elementwise(_reference): shapes must be equal else panic;
   direct_iter_reference().zip(rhs.iter_reference()).map(f); direct_from *)
Definition tensor_elementwise (f : A -> A -> A) (t : tensor A) (rhs : tsrc A) : outcome (tensor A) :=
  if shape_eqb (t_shape t) (src_shape rhs)
  then Ok (mkTensor (map (fun p => f (fst p) (snd p)) (combine (t_data t) (iter_values rhs)))
                    (t_shape t) (t_strides t))
  else Panic.
(* Tensor::elementwise(_reference)_with_index: the index comes from the right hand side iterator *)
Definition tensor_elementwise_with_index (f : list N -> A -> A -> A) (t : tensor A) (rhs : tsrc A)
  : outcome (tensor A) :=
  if shape_eqb (t_shape t) (src_shape rhs)
  then Ok (mkTensor (map (fun p => f (fst (snd p)) (fst p) (snd (snd p)))
                         (combine (t_data t) (iter_indexed rhs)))
                    (t_shape t) (t_strides t))
  else Panic.
(* TensorView::elementwise(_reference): Tensor::from(left_shape, zip of the two iterators) *)
Definition view_elementwise (f : A -> A -> A) (s rhs : tsrc A) : outcome (tensor A) :=
  if shape_eqb (src_shape s) (src_shape rhs)
  then tensor_from (src_shape s)
         (map (fun p => f (fst p) (snd p)) (combine (iter_values s) (iter_values rhs)))
  else Panic.
(* TensorView::elementwise(_reference)_with_index: the index comes from the left iterator *)
Definition view_elementwise_with_index (f : list N -> A -> A -> A) (s rhs : tsrc A)
  : outcome (tensor A) :=
  if shape_eqb (src_shape s) (src_shape rhs)
  then tensor_from (src_shape s)
         (map (fun p => f (fst (fst p)) (snd (fst p)) (snd p))
              (combine (iter_indexed s) (iter_values rhs)))
  else Panic.

(* ---- first / scalar ---- *)
(* Tensor::first, Tensor::scalar, Tensor::into_scalar: data.first().expect(..) *)
Definition tensor_first (t : tensor A) : outcome A := of_option (hd_error (t_data t)).
(* TensorView::first: self.iter().next().expect(..) *)
Definition view_first (s : tsrc A) : outcome A :=
  match ti_next (tensor_iter_from s) with
  | (Some (_, Some v), _) => Ok v
  | _ => Panic
  end.
(* TensorView::scalar (D = 0): source.get_reference([]).unwrap() *)
Definition view_scalar (s : tsrc A) : outcome A := of_option (src_get s []).
(* TensorView::into_scalar (D = 0): TensorOwnedIterator::from(source).next().unwrap() *)
Definition view_into_scalar (dflt : A) (s : tsrc A) : outcome A :=
  match ti_next_owned dflt (tensor_iter_from s) with
  | (Some (_, Some v), _) => Ok v
  | _ => Panic
  end.

(* ---- Tensor <-> Matrix ---- *)
(* From<Tensor<T, 2>> for Matrix<T>: from_flat_row_major((shape[0].1, shape[1].1), data):
   the result is (rows, columns, row-major data); panics if rows*columns != len or no values *)
Definition tensor_into_matrix (t : tensor A) : outcome (N * N * list A) :=
  match t_shape t with
  | [(_, r); (_, c)] =>
      if negb ((r * c <=? usize_max) && (r * c =? N.of_nat (length (t_data t)))) then Panic
      else if (length (t_data t) =? 0)%nat then Panic
      else Ok (r, c, t_data t)
  | _ => Panic
  end.
(* Matrix::into_tensor(rows_name, columns_name): Err(InvalidShapeError) unless the shape is valid *)
Definition matrix_into_tensor (rows cols : N) (data : list A) (rn cn : name) : outcome (tensor A) :=
  let sh := [(rn, rows); (cn, cols)] in
  if valid_shape_b sh then tensor_from sh data else Err (sshape sh).

(* ---- equality and similarity ---- *)
Variable eqb : A -> A -> bool.

(* tensor_equality: left.view_shape() == right.view_shape()
   && TensorReferenceIterator::from(left).zip(TensorReferenceIterator::from(right)).all(==) *)
Definition tensor_equality (l r : tsrc A) : bool :=
  shape_eqb (src_shape l) (src_shape r)
  && forallb (fun p => eqb (fst p) (snd p)) (combine (iter_values l) (iter_values r)).

(* tensor_similarity *)
Definition tensor_similarity (l r : tsrc A) : bool :=
  let left_shape := src_shape l in
  let access_order := names_of left_shape in
  let left_access := TAccess l (dm_no_op (length left_shape)) in
  match dm_new (names_of (src_shape r)) access_order with
  | None => false
  | Some tbl =>
      let right_access := TAccess r tbl in
      if negb (shape_eqb left_shape (src_shape right_access)) then false
      else forallb (fun p => eqb (fst p) (snd p))
                   (combine (iter_values left_access) (iter_values right_access))
  end.

End Transform.
