(* Element types of the correspondence checks, defined identically in harness/src/num.rs:
     Rat — rationals, always reduced (Qred after every operation), TOTAL division x / 0 = 0;
     Fp  — the prime field F_p, p = 2^31 - 1, inversion by x^(p-2) (so 0^-1 = 0);
   sin / cos / exp / ln / sqrt / pow / pi are fixed arbitrary polynomials ("uninterpreted
   function" stand-ins): the MEANING of those symbols is supplied on the proof side, where the
   models are Section-polymorphic and instantiated with Coq's R.
   `numops R` is the dictionary of operations every numeric model is parameterised by.
   Executable definitions only. *)
From Coq Require Import List ZArith NArith QArith Qreduction Bool.
From EasyML Require Import Base.Sx.
Import ListNotations.

Record numops (R : Type) : Type := mkNumops {
  nzero : R; none_ : R;
  nadd : R -> R -> R; nsub : R -> R -> R; nmul : R -> R -> R; ndiv : R -> R -> R;
  nneg : R -> R;
  neqb : R -> R -> bool;           (* PartialEq *)
  nltb : R -> R -> bool;           (* PartialOrd: < *)
  nleb : R -> R -> bool;           (* PartialOrd: <= *)
  nsqrt : R -> R; nexp : R -> R; nln : R -> R; nsin : R -> R; ncos : R -> R;
  npow : R -> R -> R; npi : R;
  nof_N : N -> option R;           (* FromUsize::from_usize *)
  nenc : R -> sx;
  ndec : sx -> option R
}.
Arguments nzero {R}. Arguments none_ {R}. Arguments nadd {R}. Arguments nsub {R}.
Arguments nmul {R}. Arguments ndiv {R}. Arguments nneg {R}. Arguments neqb {R}.
Arguments nltb {R}. Arguments nleb {R}. Arguments nsqrt {R}. Arguments nexp {R}.
Arguments nln {R}. Arguments nsin {R}. Arguments ncos {R}. Arguments npow {R}.
Arguments npi {R}. Arguments nof_N {R}. Arguments nenc {R}. Arguments ndec {R}.

(* the polynomial stand-ins, over any dictionary with add/mul and small constants *)
Section UF.
Context {R : Type} (add mul : R -> R -> R) (k : Z -> R).
Definition uf_sin x := add (add (mul (mul (k 3) x) x) (mul (k 5) x)) (k 7).
Definition uf_cos x := add (add (mul (mul (mul (k 2) x) x) x) x) (k 11).
Definition uf_exp x := add (add (mul x x) (mul (k 13) x)) (k 17).
Definition uf_ln x := add (add (mul (mul (k 5) x) x) (mul (k 3) x)) (k 19).
Definition uf_sqrt x := add (add (mul (mul x x) x) (mul (k 7) x)) (k 23).
Definition uf_pow x y :=
  add (add (add (add (mul (mul x x) y) (mul (mul (mul (k 3) x) y) y)) x) (mul (k 2) y)) (k 29).
End UF.

(* ---------------- Rat ---------------- *)
Definition qn (q : Q) : Q := Qred q.
Definition q_add a b := qn (Qplus a b).
Definition q_sub a b := qn (Qminus a b).
Definition q_mul a b := qn (Qmult a b).
Definition q_div a b := qn (Qdiv a b).            (* Qinv 0 = 0, hence x / 0 = 0 *)
Definition q_neg a := qn (Qopp a).
Definition q_k (z : Z) : Q := inject_Z z.
Definition q_eqb (a b : Q) : bool := Qeq_bool a b.
Definition q_leb (a b : Q) : bool := Qle_bool a b.
Definition q_ltb (a b : Q) : bool := negb (Qle_bool b a).
Definition q_enc (q : Q) : sx := let r := Qred q in SL [SZ (Qnum r); SZ (Zpos (Qden r))].
Definition q_dec (s : sx) : option Q :=
  match s with
  | SL [SZ n; SZ (Zpos d)] => Some (Qred (Qmake n d))
  | SL [SZ n; SZ (Zneg d)] => Some (Qred (Qmake (- n) d))
  | SL [SZ n; SZ Z0] => Some (0 # 1)
  | _ => None
  end.

Definition Qops : numops Q := {|
  nzero := q_k 0; none_ := q_k 1;
  nadd := q_add; nsub := q_sub; nmul := q_mul; ndiv := q_div; nneg := q_neg;
  neqb := q_eqb; nltb := q_ltb; nleb := q_leb;
  nsqrt := uf_sqrt q_add q_mul q_k; nexp := uf_exp q_add q_mul q_k; nln := uf_ln q_add q_mul q_k;
  nsin := uf_sin q_add q_mul q_k; ncos := uf_cos q_add q_mul q_k;
  npow := uf_pow q_add q_mul q_k; npi := q_k 31415926;
  nof_N := fun n => Some (inject_Z (Z.of_N n));
  nenc := q_enc; ndec := q_dec
|}.

(* ---------------- Fp ---------------- *)
Definition fp_p : Z := 2147483647.
Definition fp_k (z : Z) : Z := (z mod fp_p)%Z.
Definition fp_add a b := ((a + b) mod fp_p)%Z.
Definition fp_sub a b := ((a - b) mod fp_p)%Z.
Definition fp_mul a b := ((a * b) mod fp_p)%Z.
Definition fp_neg a := ((- a) mod fp_p)%Z.
(* square-and-multiply, exactly as Fp::inv in num.rs: exponent p - 2 *)
Fixpoint fp_pow_pos (b : Z) (e : positive) : Z :=
  match e with
  | xH => b
  | xO e' => fp_pow_pos (fp_mul b b) e'
  | xI e' => fp_mul b (fp_pow_pos (fp_mul b b) e')
  end.
Definition fp_inv a := fp_pow_pos a 2147483645%positive.
Definition fp_div a b := fp_mul a (fp_inv b).

Definition Fpops : numops Z := {|
  nzero := 0%Z; none_ := 1%Z;
  nadd := fp_add; nsub := fp_sub; nmul := fp_mul; ndiv := fp_div; nneg := fp_neg;
  neqb := Z.eqb; nltb := Z.ltb; nleb := Z.leb;
  nsqrt := uf_sqrt fp_add fp_mul fp_k; nexp := uf_exp fp_add fp_mul fp_k; nln := uf_ln fp_add fp_mul fp_k;
  nsin := uf_sin fp_add fp_mul fp_k; ncos := uf_cos fp_add fp_mul fp_k;
  npow := uf_pow fp_add fp_mul fp_k; npi := fp_k 31415926;
  nof_N := fun n => Some (fp_k (Z.of_N n));
  nenc := fun a => SZ a;
  ndec := fun s => match s with SZ z => Some (fp_k z) | SL _ => None end
|}.

(* Run a numeric model at the element type selected by the case's type tag: 0 = Rat, 1 = Fp *)
Definition with_ty (ty : Z) (f : forall R, numops R -> sx) : sx :=
  match ty with
  | 0%Z => f Q Qops
  | 1%Z => f Z Fpops
  | _ => bad_case
  end.
