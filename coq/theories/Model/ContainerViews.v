(* Position maps of the source-view kinds of the C06 case language (Container.OSelect carries
   such a map): which element of which source container each element of a record container
   built by RecordTensor / RecordMatrix ::from_existing over a VIEW of other record containers
   is.  Shapes are (name, length) lists, elements are numbered row major.  The adaptors
   themselves (their index arithmetic, validation and iteration) are the subject of C02 / C12;
   here only the resulting relabelling matters, and the correspondence ties it to the real
   adaptors (harness/src/c06.rs builds the real views over the real record containers).
     kind  view                                                params
     0     TensorRange / MatrixRange                           [starts; lengths]
     1     TensorMask                                          [starts; masked lengths]
     2     TensorReverse / MatrixReverse                       [flags]
     3     TensorRename                                        [new names]
     4     TensorAccess (dimension order = perm of positions)  [perm]
     5     TensorTranspose (names stay, data as in 4)          [perm]
     6     TensorIndex (dim k at i) then TensorExpansion       [[k; i; p; name]]
           (a length-1 dimension `name` inserted at position p)
     7     TensorChain of two sources along dimension k        [[k]]
     8     TensorStack of two sources at position p, then      [[p; j]]
           TensorIndex of the new dimension at j
     9     a BORROWED source (&mut Tensor / &mut Matrix)       []
     13    a quadrant of Matrix::partition_quadrants(r, c):    [[r; c; q]]
           q = 0 top left, 1 top right, 2 bottom left, 3 bottom right
   None: not a view of the case language (invalid parameters).  Executable definitions only. *)
From Coq Require Import List Arith Bool.
From EasyML Require Import Model.Container.
Import ListNotations.

Fixpoint all_indexes (lens : list nat) : list (list nat) :=
  match lens with
  | [] => [[]]
  | l :: r => flat_map (fun i => map (cons i) (all_indexes r)) (seq 0 l)
  end.

Fixpoint flat_index (lens idx : list nat) : nat :=
  match lens, idx with
  | _ :: lr, i :: ir => i * fold_right Nat.mul 1 lr + flat_index lr ir
  | _, _ => 0
  end.

Fixpoint map2 {A B C} (f : A -> B -> C) (l1 : list A) (l2 : list B) : list C :=
  match l1, l2 with
  | a :: r1, b :: r2 => f a b :: map2 f r1 r2
  | _, _ => []
  end.

Fixpoint index_of (k : nat) (l : list nat) : nat :=
  match l with
  | [] => 0
  | x :: r => if Nat.eqb x k then 0 else S (index_of k r)
  end.

Fixpoint insert_at {A} (p : nat) (x : A) (l : list A) : list A :=
  match p, l with
  | O, _ => x :: l
  | S p', y :: r => y :: insert_at p' x r
  | S _, [] => [x]
  end.
Fixpoint remove_at {A} (p : nat) (l : list A) : list A :=
  match p, l with
  | _, [] => []
  | O, _ :: r => r
  | S p', y :: r => y :: remove_at p' r
  end.
Fixpoint set_at {A} (p : nat) (x : A) (l : list A) : list A :=
  match p, l with
  | _, [] => []
  | O, _ :: r => x :: r
  | S p', y :: r => y :: set_at p' x r
  end.

Definition is_perm (perm : list nat) (n : nat) : bool :=
  Nat.eqb (length perm) n && forallb (fun k => existsb (Nat.eqb k) perm) (seq 0 n).

(* (new shape, per new index the (source, old index)) -> the position list *)
Definition positions (srcs : list (list nat)) (new_lens : list nat)
           (f : list nat -> nat * list nat) : list (nat * nat) :=
  map (fun idx => let '(s, old) := f idx in (s, flat_index (nth s srcs []) old)) (all_indexes new_lens).

Definition view_map (kind : nat) (params : list (list nat)) (srcs : list (bool * shape))
  : option (bool * shape * list (nat * nat)) :=
  match srcs with
  | [] => None
  | (tensor, sh) :: rest =>
      let names := map fst sh in
      let lens := map snd sh in
      let D := length sh in
      let all_lens := map (fun s => map snd (snd s)) srcs in
      let one := match rest with [] => true | _ => false end in
      match kind, params with
      | 0, [starts; lens'] =>
          if one && Nat.eqb (length starts) D && Nat.eqb (length lens') D
             && forallb (fun p => Nat.leb 1 (snd (fst p)) && Nat.leb (fst (fst p) + snd (fst p)) (snd p))
                        (combine (combine starts lens') lens)
          then Some (tensor, combine names lens', positions all_lens lens' (fun idx => (0, map2 Nat.add idx starts)))
          else None
      | 1, [starts; mlens] =>
          if one && tensor && Nat.eqb (length starts) D && Nat.eqb (length mlens) D
             && forallb (fun p => Nat.leb (fst (fst p) + snd (fst p)) (snd p) && Nat.ltb (snd (fst p)) (snd p))
                        (combine (combine starts mlens) lens)
          then let lens' := map2 Nat.sub lens mlens in
               Some (tensor, combine names lens',
                     positions all_lens lens'
                       (fun idx => (0, map2 (fun i sm => if Nat.ltb i (fst sm) then i else i + snd sm) idx (combine starts mlens))))
          else None
      | 2, [flags] =>
          if one && Nat.eqb (length flags) D
          then Some (tensor, sh,
                     positions all_lens lens
                       (fun idx => (0, map2 (fun i fl => if Nat.eqb (fst fl) 0 then i else snd fl - 1 - i) idx (combine flags lens))))
          else None
      | 3, [names'] =>
          if one && tensor && Nat.eqb (length names') D && negb (has_duplicates names')
          then Some (tensor, combine names' lens, positions all_lens lens (fun idx => (0, idx)))
          else None
      | 4, [perm] =>
          if one && tensor && is_perm perm D
          then let sh' := map (fun k => nth k sh (0, 0)) perm in
               Some (tensor, sh',
                     positions all_lens (map snd sh') (fun idx => (0, map (fun k => nth (index_of k perm) idx 0) (seq 0 D))))
          else None
      | 5, [perm] =>
          if one && tensor && is_perm perm D
          then let lens' := map (fun k => nth k lens 0) perm in
               Some (tensor, combine names lens',
                     positions all_lens lens' (fun idx => (0, map (fun k => nth (index_of k perm) idx 0) (seq 0 D))))
          else None
      | 6, [[k; i; p; name]] =>
          if one && tensor && Nat.ltb k D && Nat.ltb i (nth k lens 0) && Nat.leb p (D - 1)
          then let sh' := insert_at p (name, 1) (remove_at k sh) in
               if has_duplicates (map fst sh') then None else
               Some (tensor, sh', positions all_lens (map snd sh') (fun idx => (0, insert_at k i (remove_at p idx))))
          else None
      | 7, [[k]] =>
          match rest with
          | [(tensor2, sh2)] =>
              let lens2 := map snd sh2 in
              if tensor && tensor2 && Nat.ltb k D && Nat.eqb (length sh2) D
                 && forallb (fun p => Nat.eqb (fst p) (snd p)) (combine names (map fst sh2))
                 && forallb (fun p => Nat.eqb (fst p) (snd p)) (combine (remove_at k lens) (remove_at k lens2))
              then let l1 := nth k lens 0 in
                   let lens' := set_at k (l1 + nth k lens2 0) lens in
                   Some (tensor, combine names lens',
                         positions all_lens lens'
                           (fun idx => let i := nth k idx 0 in
                                       if Nat.ltb i l1 then (0, idx) else (1, set_at k (i - l1) idx)))
              else None
          | _ => None
          end
      | 8, [[p; j]] =>
          match rest with
          | [(tensor2, sh2)] =>
              if tensor && tensor2 && Nat.leb p D && Nat.ltb j 2 && Nat.eqb (length sh2) D
                 && forallb (fun q => Nat.eqb (fst (fst q)) (fst (snd q)) && Nat.eqb (snd (fst q)) (snd (snd q)))
                            (combine sh sh2)
              then Some (tensor, sh, positions all_lens lens (fun idx => (j, idx)))
              else None
          | _ => None
          end
      | 9, [] =>
          if one then Some (tensor, sh, positions all_lens lens (fun idx => (0, idx))) else None
      | 13, [[r; c; q]] =>
          match lens with
          | [rows; cols] =>
              if one && negb tensor && Nat.ltb 0 r && Nat.ltb r rows && Nat.ltb 0 c && Nat.ltb c cols && Nat.ltb q 4
              then let r0 := if Nat.ltb q 2 then 0 else r in
                   let c0 := if Nat.even q then 0 else c in
                   let lens' := [if Nat.ltb q 2 then r else rows - r; if Nat.even q then c else cols - c] in
                   Some (tensor, combine names lens', positions all_lens lens' (fun idx => (0, map2 Nat.add idx [r0; c0])))
              else None
          | _ => None
          end
      | _, _ => None
      end
  end.

(* ---- the QUERY side of a derivative set (src/differentiation.rs `Derivatives::at` / `Index` /
   `Vec::from`, container_record/mod.rs `at_tensor_index` / `at_matrix_index` / `at_tensor` /
   `at_matrix`): a derivative set is the vector d with one entry per tape entry; every query form
   reads d at the tape position of a record.  The whole-container forms are
   `input.numbers.map(|(_, i)| self.derivatives[i].clone())`: the map of the one-record query over
   the container's elements in the order of the container's OWN (view) indexing. *)
Section Queries.
Context {R : Type} (zero : R).

(* Derivatives::at(&record) = derivatives[record.index] (also Index<&Record>, Vec::from(d)[i]) *)
Definition at_record (d : list R) (i : nat) : R := nth i d zero.

(* Derivatives::at_tensor_index(idx, &c) / at_matrix_index(r, c, &c): the element at row-major
   position k of the container (None outside the shape), then its tape position *)
Definition at_container_index (d : list R) (c : cont R) (k : nat) : option R :=
  match nth_error (c_data c) k with
  | Some p => Some (at_record d (snd p))
  | None => None
  end.

(* Derivatives::at_tensor(&c) / at_matrix(&c) *)
Definition at_container (d : list R) (c : cont R) : list R :=
  map (fun p => at_record d (snd p)) (c_data c).
End Queries.
