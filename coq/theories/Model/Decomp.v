(* Functional transcriptions of the decompositions of src/linear_algebra.rs (the *_less_generic
   routines; the Matrix entry points wrap the same routines through TensorRefMatrix / into_matrix):
     cholesky_decomposition_less_generic  row by row, `entry_squared <= 0 -> None`
     ldlt_decomposition_less_generic      column by column, `entry == 0 -> None`
     householder_matrix_tensor            sign choice `x[0] > 0`, u[0] = x[0] + a, I - (v v^T) * 2
     qr_decomposition_less_generic        min(rows - 1, columns) reflections, h padded into the
                                          identity, r = h * r, q = first h / h_previous * h,
                                          absent when columns > rows; no reflection -> q = identity
   A matrix is a list of rows (Model/LinAlg.mat).  Every arithmetic operation, every sqrt call and
   every comparison is made in the order of the source.  Executable definitions only. *)
From Coq Require Import List Arith Bool.
From EasyML Require Import Base.Sx Model.Num Model.LinAlg.
Import ListNotations.

Section Decomp.
Context {R : Type} (ops : numops R).
Notation zero := (nzero ops).
Notation one := (none_ ops).
Notation mat := (@mat R).
Notation mget := (mget ops).

(* ------------------------------------------------------------------ Cholesky *)
(* sum = 0; for k in 0..j { sum = sum + u[k] * v[k] } *)
Fixpoint dot (u v : list R) (j : nat) : R :=
  match j with
  | O => zero
  | S j' => nadd ops (dot u v j') (nmul ops (nth j' u zero) (nth j' v zero))
  end.

(* entries j = length cur, j+1, ..., i of row i; L = the finished rows 0..i-1 (row k holding its
   k+1 computed entries), cur = the entries 0..j-1 of row i; fuel = i + 1 - j *)
Fixpoint chol_row (a : mat) (L : list (list R)) (i : nat) (cur : list R) (fuel : nat)
  : option (list R) :=
  match fuel with
  | O => Some cur
  | S f =>
      let j := length cur in
      if Nat.eqb j i then
        let entry_squared := nsub ops (mget a i i) (dot cur cur j) in
        if nleb ops entry_squared zero then None
        else chol_row a L i (cur ++ [nsqrt ops entry_squared]) f
      else
        let x := nmul ops (nsub ops (mget a i j) (dot cur (nth j L []) j))
                          (ndiv ops one (nth j (nth j L []) zero)) in
        chol_row a L i (cur ++ [x]) f
  end.

Fixpoint chol_rows (a : mat) (L : list (list R)) (fuel : nat) : option (list (list R)) :=
  match fuel with
  | O => Some L
  | S f => match chol_row a L (length L) [] (S (length L)) with
           | Some row => chol_rows a (L ++ [row]) f
           | None => None
           end
  end.

(* the entries above the diagonal keep the zero they were created with *)
Definition pad_row (n : nat) (row : list R) : list R := row ++ repeat zero (n - length row).

Definition cholesky (a : mat) : option mat :=
  if negb (is_square a) then None
  else match chol_rows a [] (mrows a) with
       | None => None
       | Some L => Some (map (pad_row (mrows a)) L)
       end.

(* ------------------------------------------------------------------ LDL^T *)
(* the finished columns 0..j-1 of L (each of full height) and the pivots d_0..d_{j-1} *)
Definition lent (cols : list (list R)) (i k : nat) : R := nth i (nth k cols []) zero.

(* sum = 0; for k in 0..j { sum = sum + L[i,k] * L[j,k] * D[k,k] } *)
Fixpoint ldl_sum (cols : list (list R)) (ds : list R) (i j k : nat) : R :=
  match k with
  | O => zero
  | S k' => nadd ops (ldl_sum cols ds i j k')
                 (nmul ops (nmul ops (lent cols i k') (lent cols j k')) (nth k' ds zero))
  end.

Fixpoint ldlt_cols (a : mat) (n : nat) (cols : list (list R)) (ds : list R) (fuel : nat)
  : option (list (list R) * list R) :=
  match fuel with
  | O => Some (cols, ds)
  | S f =>
      let j := length cols in
      let entry := nsub ops (mget a j j) (ldl_sum cols ds j j j) in
      if neqb ops entry zero then None
      else
        let col := map (fun i =>
                     if Nat.ltb i j then zero
                     else if Nat.eqb i j then one
                     else nmul ops (nsub ops (mget a i j) (ldl_sum cols ds i j j))
                                   (ndiv ops one entry)) (seq 0 n) in
        ldlt_cols a n (cols ++ [col]) (ds ++ [entry]) f
  end.

Definition ldlt (a : mat) : option (mat * mat) :=
  if negb (is_square a) then None
  else let n := mrows a in
       match ldlt_cols a n [] [] n with
       | None => None
       | Some (cols, ds) =>
           Some (map (fun i => map (fun j => lent cols i j) (seq 0 n)) (seq 0 n),
                 map (fun i => map (fun j => if Nat.eqb i j then nth i ds zero else zero) (seq 0 n))
                     (seq 0 n))
       end.

(* ------------------------------------------------------------------ QR *)
Definition identity (n : nat) : mat :=
  map (fun i => map (fun j => if Nat.eqb i j then one else zero) (seq 0 n)) (seq 0 n).

(* x.iter().map(|x| x * x).sum().sqrt() *)
Definition sumsq (x : list R) : R := fold_left (fun s e => nadd ops s (nmul ops e e)) x zero.
Definition euclidean_length (x : list R) : R := nsqrt ops (sumsq x).

Definition two : R := nadd ops one one.

Definition householder (x : list R) : mat :=
  let rows := length x in
  let length := euclidean_length x in
  let a := if nltb ops zero (hd zero x) then length else nneg ops length in
  let u := match x with [] => [] | x0 :: r => nadd ops x0 a :: r end in
  let v := let length := euclidean_length u in map (fun element => ndiv ops element length) u in
  map (fun i => map (fun j =>
         nsub ops (if Nat.eqb i j then one else zero)
                  (nmul ops (nmul ops (nth i v zero) (nth j v zero)) two))
       (seq 0 rows)) (seq 0 rows).

(* operations::scalar_product: products reduced with + from the first one *)
Definition scalar_product (u v : list R) : R :=
  match combine u v with
  | [] => zero
  | xy :: r => fold_left (fun acc p => nadd ops acc (nmul ops (fst p) (snd p))) r
                         (nmul ops (fst xy) (snd xy))
  end.

Definition column (m : mat) (j : nat) : list R := map (fun row => nth j row zero) m.

Definition mmul (a b : mat) : mat :=
  map (fun row => map (fun j => scalar_product row (column b j)) (seq 0 (mcols b))) a.

(* h inset by c into the bottom right of the rows x rows identity *)
Definition pad_h (h : mat) (c rows : nat) : mat :=
  map (fun i => map (fun j =>
         if Nat.leb c i && Nat.leb c j then mget h (i - c) (j - c)
         else if Nat.eqb i j then one else zero) (seq 0 rows)) (seq 0 rows).

Fixpoint qr_loop (rows : nat) (cs : list nat) (q : option mat) (r : mat) : option mat * mat :=
  match cs with
  | [] => (q, r)
  | c :: cs' =>
      let submatrix_first_column := skipn c (column r c) in
      let h := pad_h (householder submatrix_first_column) c rows in
      let r' := mmul h r in
      let q' := match q with None => Some h | Some h_previous => Some (mmul h_previous h) end in
      qr_loop rows cs' q' r'
  end.

Definition qr (m : mat) : option (mat * mat) :=
  let rows := mrows m in
  let columns := mcols m in
  if Nat.ltb rows columns then None
  else
    let iterations := Nat.min (rows - 1) columns in
    let qr := qr_loop rows (seq 0 iterations) None m in
    Some (match fst qr with Some q => q | None => identity rows end, snd qr).
End Decomp.
