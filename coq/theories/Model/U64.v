(* usize machine arithmetic as rustc compiles it: in a dev build (overflow checks on) an
   overflowing + - * panics, in a release build it wraps modulo 2^64; the explicit
   saturating_* / checked_* / wrapping forms behave the same in both.  Executable only. *)
From Coq Require Import ZArith NArith Bool.
From EasyML Require Import Base.Sx.
Open Scope N_scope.

Inductive mode := Debug | Release.

Definition is_usize (n : N) : bool := n <=? usize_max.

Definition u_add (m : mode) (a b : N) : outcome N :=
  if a + b <=? usize_max then Ok (a + b)
  else match m with Debug => Panic | Release => Ok ((a + b) mod usize_mod) end.
Definition u_sub (m : mode) (a b : N) : outcome N :=
  if b <=? a then Ok (a - b)
  else match m with Debug => Panic | Release => Ok ((a + usize_mod - b) mod usize_mod) end.
Definition u_mul (m : mode) (a b : N) : outcome N :=
  if a * b <=? usize_max then Ok (a * b)
  else match m with Debug => Panic | Release => Ok ((a * b) mod usize_mod) end.

Definition sat_add (a b : N) : N := N.min (a + b) usize_max.
Definition sat_sub (a b : N) : N := a - b.                     (* truncated subtraction on N *)
Definition checked_add (a b : N) : option N := if a + b <=? usize_max then Some (a + b) else None.
Definition checked_mul (a b : N) : option N := if a * b <=? usize_max then Some (a * b) else None.
