(* The Wengert list (tape) of src/differentiation.rs: Operation entries, the append_* functions
   of BorrowedWengertList / WengertList and the reverse sweep of Record::try_derivatives, over
   an arbitrary dictionary of numeric operations.  Executable definitions only.
   Shared by C04, C05, C06, C15. *)
From Coq Require Import List Arith.
From EasyML Require Import Base.Sx Model.Num.
Import ListNotations.

Section Tape.
Context {R : Type} (ops : numops R).

(* struct Operation { left_parent, right_parent, left_derivative, right_derivative } *)
Record entry : Type := mkEntry { lp : nat; rp : nat; lw : R; rw : R }.
Definition tape := list entry.

(* append_nullary: both parents point at the new entry itself, zero weights; returns the index *)
Definition append_nullary (t : tape) : tape * nat :=
  let i := length t in (t ++ [mkEntry i i (nzero ops) (nzero ops)], i).
(* append_unary(parent, derivative) *)
Definition append_unary (t : tape) (parent : nat) (d : R) : tape * nat :=
  let i := length t in (t ++ [mkEntry parent i d (nzero ops)], i).
(* append_binary(left_parent, left_derivative, right_parent, right_derivative) *)
Definition append_binary (t : tape) (l : nat) (dl : R) (r : nat) (dr : R) : tape * nat :=
  let i := length t in (t ++ [mkEntry l r dl dr], i).
(* append_nullary_repeating(values): returns the starting index *)
Fixpoint append_nullary_repeating (t : tape) (values : nat) : tape :=
  match values with
  | O => t
  | S v => append_nullary_repeating (fst (append_nullary t)) v
  end.

(* in-place update of a vector cell (derivatives[p] = f(derivatives[p])) *)
Fixpoint upd (l : list R) (j : nat) (f : R -> R) : list R :=
  match l, j with
  | [], _ => []
  | x :: r, O => f x :: r
  | x :: r, S j' => x :: upd r j' f
  end.

(* one iteration of the reverse loop of try_derivatives for tape entry i:
     derivatives[left_parent]  = derivatives[left_parent]  + derivative * left_derivative;
     derivatives[right_parent] = derivatives[right_parent] + derivative * right_derivative; *)
Definition step (d : list R) (i : nat) (e : entry) : list R :=
  let a := nth i d (nzero ops) in
  let d1 := upd d (lp e) (fun x => nadd ops x (nmul ops a (lw e))) in
  upd d1 (rp e) (fun x => nadd ops x (nmul ops a (rw e))).

Fixpoint sweep_from (tape_rev : list entry) (i : nat) (d : list R) : list R :=
  match tape_rev with
  | [] => d
  | e :: r => sweep_from r (i - 1) (step d i e)
  end.

(* vec![zero; len] with derivatives[index] = one *)
Definition onehot (n k : nat) : list R :=
  map (fun j => if Nat.eqb j k then none_ ops else nzero ops) (seq 0 n).

(* Record::try_derivatives for a record at position `out` of tape `t`
   (None is the caller's business: constants have no tape; an index outside the tape is the
   Rust index panic) *)
Definition sweep (t : tape) (out : nat) : list R :=
  sweep_from (rev t) (length t - 1) (onehot (length t) out).

Definition derivatives (t : tape) (out : nat) : outcome (list R) :=
  if Nat.ltb out (length t) then Ok (sweep t out) else Panic.

End Tape.
Arguments entry R : clear implicits.
Arguments tape R : clear implicits.
