(* Matrix<T>: transcription of src/matrices/mod.rs (struct Matrix { data, rows, columns } over
   flat row-major storage; constructors, get / set, insert_row(_with), insert_column(_with),
   remove_row, remove_column, retain_mut, retain, transpose, transpose_mut, map_mut,
   map_mut_with_index) and src/matrices/slices.rs (Slice, Slice2D::accepts).
   Every mutating operation returns (state', ok) where state' is what the object holds after the
   call ALSO when the call panics (ok = false): this is what a caller that catches the panic keeps
   using.  Executable definitions only; proofs live in Proofs/C11P.v.

   Conventions: usize values are N (indexes may be as large as usize::MAX: they are compared in N
   and only converted to nat positions after the code's own bounds checks); list positions are
   nat.  Arithmetic that could only overflow in states violating rows*columns = len(data)
   (get_index, `columns - 1`) is written in ideal arithmetic; C11_refines shows such states are
   never reached. *)
From Coq Require Import List ZArith NArith Bool Arith.
From EasyML Require Import Base.Sx.
Import ListNotations.
Open Scope N_scope.

(* `0..n` *)
Definition nrange (n : N) : list N := map N.of_nat (seq 0 (N.to_nat n)).
(* `for a in 0..x { for b in 0..y` — also the order of ShapeIterator over [x, y] *)
Definition pairs (x y : N) : list (N * N) := list_prod (nrange x) (nrange y).
Definition nlen {A} (l : list A) : N := N.of_nat (length l).

(* ---- slices.rs ---- *)
Inductive slice : Type :=
| SAll | SNone
| SSingle (i : N)
| SRange (a b : N)            (* Range(a..b) *)
| SNot (s : slice)
| SAnd (s1 s2 : slice)
| SOr (s1 s2 : slice).

(* Slice::accepts *)
Fixpoint slice_accepts (s : slice) (index : N) : bool :=
  match s with
  | SAll => true
  | SNone => false
  | SSingle i => i =? index
  | SRange a b => (a <=? index) && (index <? b)       (* Range::contains *)
  | SNot s => negb (slice_accepts s index)
  | SAnd s1 s2 => slice_accepts s1 index && slice_accepts s2 index
  | SOr s1 s2 => slice_accepts s1 index || slice_accepts s2 index
  end.

Record slice2d : Type := mkSlice2D { s_rows : slice; s_columns : slice }.
(* Slice2D::accepts *)
Definition slice2d_accepts (s : slice2d) (row column : N) : bool :=
  slice_accepts (s_rows s) row && slice_accepts (s_columns s) column.

Section Matrix.
Context {T : Type}.

Record matrix : Type := mkM { m_data : list T; m_rows : N; m_cols : N }.

(* ---- Vec primitives ---- *)
(* Vec::insert(k, x) for k <= len *)
Definition vec_insert (k : nat) (x : T) (l : list T) : list T := firstn k l ++ x :: skipn k l.

(* `for (k, x) in ins { data.insert(k, x) }`; false = Vec::insert panicked (k > len), with the
   storage as it was at that moment *)
Fixpoint insert_each (ins : list (N * T)) (data : list T) : list T * bool :=
  match ins with
  | [] => (data, true)
  | (k, x) :: rest =>
      if k <=? nlen data then insert_each rest (vec_insert (N.to_nat k) x data)
      else (data, false)
  end.

(* data[k] = v ; None = index out of bounds panic *)
Fixpoint vec_set (l : list T) (k : nat) (v : T) : option (list T) :=
  match l, k with
  | [], _ => None
  | _ :: r, O => Some (v :: r)
  | x :: r, S k' => option_map (cons x) (vec_set r k' v)
  end.

(* the closure handed to Vec::retain by remove_row / remove_column / retain_mut:
     let keep = <keep r c>; if c < (columns - 1) { c += 1 } else { r += 1; c = 0 }; keep
   run over the stored values in order, starting from the counters (r, c) *)
Fixpoint retain_rc (keep : N -> N -> bool) (columns : N) (data : list T) (r c : N) : list T :=
  match data with
  | [] => []
  | x :: t =>
      let k := keep r c in
      let rc := if c <? columns - 1 then (r, c + 1) else (r + 1, 0) in
      if k then x :: retain_rc keep columns t (fst rc) (snd rc)
      else retain_rc keep columns t (fst rc) (snd rc)
  end.

(* RowMajorReferenceMutIterator::with_index over a Matrix (iterators.rs row_major_iter): yields
   ((row_counter, column_counter), &mut element) walking the storage in order;
     if column_counter == columns - 1 { column_counter = 0; row_counter += 1 } else { += 1 }
   and `*x = f(x.clone(), i, j)` for each *)
Fixpoint map_rc (f : T -> N -> N -> T) (columns : N) (data : list T) (r c : N) : list T :=
  match data with
  | [] => []
  | x :: t =>
      let rc := if c =? columns - 1 then (r + 1, 0) else (r, c + 1) in
      f x r c :: map_rc f columns t (fst rc) (snd rc)
  end.

(* ---- constructors ---- *)
Definition from_scalar (v : T) : matrix := mkM [v] 1 1.

Definition row_ctor (values : list T) : outcome matrix :=
  match values with [] => Panic | _ => Ok (mkM values 1 (nlen values)) end.

Definition column_ctor (values : list T) : outcome matrix :=
  match values with [] => Panic | _ => Ok (mkM values (nlen values) 1) end.

(* Matrix::from(Vec<Vec<T>>): three asserts, then `rows` times (next row).unwrap(), `columns`
   times push((next value).unwrap()) — which, every row having `columns` values, is concat *)
Definition from_rows (values : list (list T)) : outcome matrix :=
  match values with
  | [] => Panic
  | first :: _ =>
      match first with
      | [] => Panic
      | _ =>
          if forallb (fun x => nlen x =? nlen first) values
          then Ok (mkM (concat values) (nlen values) (nlen first))
          else Panic
      end
  end.

(* Matrix::from_flat_row_major: size.0.checked_mul(size.1) == Some(values.len()), then
   !values.is_empty() *)
Definition from_flat_row_major (size : N * N) (values : list T) : outcome matrix :=
  if (fst size * snd size <=? usize_max) && (fst size * snd size =? nlen values)
  then match values with [] => Panic | _ => Ok (mkM values (fst size) (snd size)) end
  else Panic.

(* Matrix::from_fn(size, f): `length = size.0 * size.1` (unchecked; only the capacity), the
   ShapeIterator walks [size.0, size.1] in row-major order (nothing at all when a length is 0),
   every produced value is pushed, then from_flat_row_major validates *)
Definition from_fn (size : N * N) (f : N -> N -> T) : outcome matrix :=
  from_flat_row_major size (map (fun p => f (fst p) (snd p)) (pairs (fst size) (snd size))).

(* Matrix::empty(value, size): assert size.0 > 0 && size.1 > 0; vec![value; size.0 * size.1] *)
Definition empty_ctor (value : T) (size : N * N) : outcome matrix :=
  if (0 <? fst size) && (0 <? snd size)
  then Ok (mkM (repeat value (N.to_nat (fst size * snd size))) (fst size) (snd size))
  else Panic.

(* ---- element access ---- *)
Definition get_index (m : matrix) (row column : N) : N := column + row * m_cols m.

(* Matrix::get / get_reference: two asserts then data[get_index]; None = panic *)
Definition mget (m : matrix) (row column : N) : option T :=
  if row <? m_rows m then
    if column <? m_cols m then nth_error (m_data m) (N.to_nat (get_index m row column))
    else None
  else None.

(* Matrix::set ; None = panic, matrix unchanged *)
Definition mset (m : matrix) (row column : N) (v : T) : option matrix :=
  if row <? m_rows m then
    if column <? m_cols m then
      option_map (fun d => mkM d (m_rows m) (m_cols m))
                 (vec_set (m_data m) (N.to_nat (get_index m row column)) v)
    else None
  else None.

(* ---- resizing ---- *)
(* insert_row: assert row <= rows; for column in 0..columns { data.insert(get_index(row,
   column), value.clone()) }; rows += 1.   (self.columns() is not changed inside the loop) *)
Definition insert_row (m : matrix) (row : N) (value : T) : matrix * bool :=
  if row <=? m_rows m then
    let '(d, fine) := insert_each (map (fun column => (get_index m row column, value))
                                       (nrange (m_cols m))) (m_data m) in
    if fine then (mkM d (m_rows m + 1) (m_cols m), true) else (mkM d (m_rows m) (m_cols m), false)
  else (m, false).

(* insert_row_with: assert row <= rows; new_row = values.take(columns).collect();
   assert new_row.len() == columns; for (column, value) in new_row.enumerate() { insert } *)
Definition insert_row_with (m : matrix) (row : N) (values : list T) : matrix * bool :=
  if row <=? m_rows m then
    let new_row := firstn (N.to_nat (m_cols m)) values in
    if nlen new_row =? m_cols m then
      let '(d, fine) := insert_each (map (fun cv => (get_index m row (N.of_nat (fst cv)), snd cv))
                                         (combine (seq 0 (length new_row)) new_row)) (m_data m) in
      if fine then (mkM d (m_rows m + 1) (m_cols m), true) else (mkM d (m_rows m) (m_cols m), false)
    else (m, false)
  else (m, false).

(* insert_column: assert column <= columns; for row in (0..rows).rev() { data.insert(
   get_index(row, column), value.clone()) }; columns += 1 *)
Definition insert_column (m : matrix) (column : N) (value : T) : matrix * bool :=
  if column <=? m_cols m then
    let '(d, fine) := insert_each (map (fun row => (get_index m row column, value))
                                       (rev (nrange (m_rows m)))) (m_data m) in
    if fine then (mkM d (m_rows m) (m_cols m + 1), true) else (mkM d (m_rows m) (m_cols m), false)
  else (m, false).

(* the loop of insert_column_with: for row in (0..rows).rev() { data.insert(get_index(row,
   column), array_values.pop().unwrap()) }.  `stack` lists array_values from its END (the head
   is what pop() returns next); false = unwrap on an empty Vec or Vec::insert out of range *)
Fixpoint insert_popping (positions : list N) (stack : list T) (data : list T) : list T * bool :=
  match positions with
  | [] => (data, true)
  | k :: rest =>
      match stack with
      | [] => (data, false)
      | v :: stack' =>
          if k <=? nlen data then insert_popping rest stack' (vec_insert (N.to_nat k) v data)
          else (data, false)
      end
  end.

(* insert_column_with: assert column <= columns; array_values = values.collect();
   assert array_values.len() >= rows; array_values.truncate(rows); the popping loop *)
Definition insert_column_with (m : matrix) (column : N) (values : list T) : matrix * bool :=
  if column <=? m_cols m then
    if m_rows m <=? nlen values then
      let array_values := firstn (N.to_nat (m_rows m)) values in
      let '(d, fine) := insert_popping (map (fun row => get_index m row column)
                                            (rev (nrange (m_rows m))))
                                       (rev array_values) (m_data m) in
      if fine then (mkM d (m_rows m) (m_cols m + 1), true) else (mkM d (m_rows m) (m_cols m), false)
    else (m, false)
  else (m, false).

(* remove_row: assert rows > 1; assert row < rows; retain(keep = r != row); rows -= 1 *)
Definition remove_row (m : matrix) (row : N) : matrix * bool :=
  if 1 <? m_rows m then
    if row <? m_rows m then
      (mkM (retain_rc (fun r _ => negb (r =? row)) (m_cols m) (m_data m) 0 0)
           (m_rows m - 1) (m_cols m), true)
    else (m, false)
  else (m, false).

(* remove_column: assert columns > 1; assert column < columns; retain(keep = c != column);
   columns -= 1 *)
Definition remove_column (m : matrix) (column : N) : matrix * bool :=
  if 1 <? m_cols m then
    if column <? m_cols m then
      (mkM (retain_rc (fun _ c => negb (c =? column)) (m_cols m) (m_data m) 0 0)
           (m_rows m) (m_cols m - 1), true)
    else (m, false)
  else (m, false).

(* `for i in 0..n { if slice.accepts(i) { accepted += 1 } }` *)
Definition count_accepted (s : slice) (n : N) : N :=
  nlen (filter (slice_accepts s) (nrange n)).

(* retain_mut: count the remaining rows and columns, two asserts (> 0) BEFORE anything is
   dropped, Vec::retain(keep = slice.accepts(r, c)), assert !data.is_empty() (if this one fired
   the emptied storage would stay behind with the old size), then the new size is stored *)
Definition retain_mut (m : matrix) (s : slice2d) : matrix * bool :=
  let remaining_rows := count_accepted (s_rows s) (m_rows m) in
  let remaining_columns := count_accepted (s_columns s) (m_cols m) in
  if 0 <? remaining_rows then
    if 0 <? remaining_columns then
      let d := retain_rc (slice2d_accepts s) (m_cols m) (m_data m) 0 0 in
      match d with
      | [] => (mkM d (m_rows m) (m_cols m), false)
      | _ => (mkM d remaining_rows remaining_columns, true)
      end
    else (m, false)
  else (m, false).

(* Clone for Matrix: self.map(|e| e) = from_flat_row_major(self.size(), copied data) *)
Definition mclone (m : matrix) : outcome matrix :=
  from_flat_row_major (m_rows m, m_cols m) (m_data m).

(* retain: let mut retained = self.clone(); retained.retain_mut(slice); retained *)
Definition retain (m : matrix) (s : slice2d) : outcome matrix :=
  match mclone m with
  | Ok c => let '(c', fine) := retain_mut c s in if fine then Ok c' else Panic
  | _ => Panic
  end.

(* transpose: Matrix::from_fn((columns, rows), |(column, row)| self.get(row, column)): the
   ShapeIterator walks [columns, rows] in row-major order, each value is pushed, then
   from_flat_row_major validates *)
Definition transpose (m : matrix) : outcome matrix :=
  match sequence (map (fun p => mget m (snd p) (fst p)) (pairs (m_cols m) (m_rows m))) with
  | Some data => from_flat_row_major (m_cols m, m_rows m) data
  | None => Panic
  end.

(* one iteration of the square branch of transpose_mut:
     if i > j { continue } let temp = get(i, j); set(i, j, get(j, i)); set(j, i, temp) *)
Definition swap_cell (m : matrix) (ij : N * N) : option matrix :=
  let '(i, j) := ij in
  if j <? i then Some m
  else match mget m i j with
       | None => None
       | Some temp =>
           match mget m j i with
           | None => None
           | Some other =>
               match mset m i j other with
               | None => None
               | Some m1 => mset m1 j i temp
               end
           end
       end.

Fixpoint swap_loop (m : matrix) (l : list (N * N)) : matrix * bool :=
  match l with
  | [] => (m, true)
  | ij :: rest => match swap_cell m ij with
                  | Some m' => swap_loop m' rest
                  | None => (m, false)
                  end
  end.

(* transpose_mut: not square -> replace all three fields by those of self.transpose();
   square -> the swap loop over i in 0..rows, j in 0..columns *)
Definition transpose_mut (m : matrix) : matrix * bool :=
  if negb (m_rows m =? m_cols m) then
    match transpose m with Ok t => (t, true) | _ => (m, false) end
  else swap_loop m (pairs (m_rows m) (m_cols m)).

(* map_mut: for value in data.iter_mut() { *value = f(value.clone()) } *)
Definition map_mut (m : matrix) (f : T -> T) : matrix :=
  mkM (map f (m_data m)) (m_rows m) (m_cols m).

(* map_mut_with_index *)
Definition map_mut_with_index (m : matrix) (f : T -> N -> N -> T) : matrix :=
  mkM (map_rc f (m_cols m) (m_data m) 0 0) (m_rows m) (m_cols m).

(* ---- histories ---- *)
Inductive op : Type :=
| OInsertRow (row : N) (v : T)
| OInsertRowWith (row : N) (vs : list T)
| OInsertColumn (column : N) (v : T)
| OInsertColumnWith (column : N) (vs : list T)
| ORemoveRow (row : N)
| ORemoveColumn (column : N)
| ORetainMut (s : slice2d)
| ORetain (s : slice2d)          (* m = m.retain(s)   ; on a panic m is kept *)
| OTranspose                     (* m = m.transpose() *)
| OTransposeMut
| OSet (row column : N) (v : T)
| OMapMut (f : T -> T)
| OMapMutWithIndex (f : T -> N -> N -> T).

Definition impl_step (m : matrix) (o : op) : matrix * bool :=
  match o with
  | OInsertRow row v => insert_row m row v
  | OInsertRowWith row vs => insert_row_with m row vs
  | OInsertColumn c v => insert_column m c v
  | OInsertColumnWith c vs => insert_column_with m c vs
  | ORemoveRow row => remove_row m row
  | ORemoveColumn c => remove_column m c
  | ORetainMut s => retain_mut m s
  | ORetain s => match retain m s with Ok m' => (m', true) | _ => (m, false) end
  | OTranspose => match transpose m with Ok m' => (m', true) | _ => (m, false) end
  | OTransposeMut => transpose_mut m
  | OSet r c v => match mset m r c v with Some m' => (m', true) | None => (m, false) end
  | OMapMut f => (map_mut m f, true)
  | OMapMutWithIndex f => (map_mut_with_index m f, true)
  end.

(* the states reached after each operation, with the outcome of that operation *)
Fixpoint impl_trace (m : matrix) (ops : list op) : list (matrix * bool) :=
  match ops with
  | [] => []
  | o :: rest => let r := impl_step m o in r :: impl_trace (fst r) rest
  end.

(* ---- what a client can observe ---- *)
(* get(r, c) for r in 0..rows, c in 0..columns *)
Definition obs_elements (m : matrix) : list (option T) :=
  map (fun p => mget m (fst p) (snd p)) (pairs (m_rows m) (m_cols m)).
(* for c in 0..columns, r in 0..rows *)
Definition obs_column_major (m : matrix) : list (option T) :=
  map (fun p => mget m (snd p) (fst p)) (pairs (m_cols m) (m_rows m)).

End Matrix.
Arguments matrix T : clear implicits.
Arguments op T : clear implicits.
