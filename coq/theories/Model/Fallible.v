(* The index arithmetic behind the fallible (Option / Result) APIs, transcribed with EXPLICIT
   machine arithmetic (Model/U64.v), in two versions: as the code is now (after the repairs
   534a083 f581534 6bb75c0 dcb259c 3d34055) and as it was before (suffix _legacy), so that the
   old behaviour stays refuted by kernel-evaluated witnesses (Refuted/C16Legacy.v).
   Sources: src/matrices/views/ranges.rs (IndexRange::map / mask / clip),
   src/tensors/views/ranges.rs (range_exceeds_bounds, clip_range_shape, clip_masked_shape,
   from_named_to_all, clip_from), src/tensors/views/reverse.rs (reverse_indexes),
   src/tensors/mod.rs (get_index_direct, validate_dimensions), src/matrices/mod.rs
   (get_index, _try_get_reference), src/interop/mod.rs (with_names).  Executable only. *)
From Coq Require Import List ZArith NArith Bool Arith.
From EasyML Require Import Base.Sx Model.Shape Model.U64.
Import ListNotations.
Open Scope N_scope.

Record index_range := mkRange { r_start : N; r_length : N }.

(* From<Range<usize>>: IndexRange::new(range.start, range.end.saturating_sub(range.start)) *)
Definition range_of_start_end (s e : N) : index_range := mkRange s (sat_sub e s).

Section Machine.
Variable m : mode.

(* IndexRange::map: if index < self.length { Some(index + self.start) } else { None } *)
Definition ir_map (r : index_range) (i : N) : outcome (option N) :=
  if i <? r_length r then omap Some (u_add m i (r_start r)) else Ok None.

(* IndexRange::mask (now): if index < self.start { index } else { index.saturating_add(length) } *)
Definition ir_mask (r : index_range) (i : N) : outcome N :=
  if i <? r_start r then Ok i else Ok (sat_add i (r_length r)).
Definition ir_mask_legacy (r : index_range) (i : N) : outcome N :=
  if i <? r_start r then Ok i else u_add m i (r_length r).

(* IndexRange::clip(max_index) (now): end = start.saturating_add(length); end = min(end, max);
   length = end.saturating_sub(start) *)
Definition ir_clip (r : index_range) (max_index : N) : outcome index_range :=
  let e := N.min (sat_add (r_start r) (r_length r)) max_index in
  Ok (mkRange (r_start r) (sat_sub e (r_start r))).
Definition ir_clip_legacy (r : index_range) (max_index : N) : outcome index_range :=
  obind (u_add m (r_start r) (r_length r)) (fun e0 =>
    let e := N.min e0 max_index in Ok (mkRange (r_start r) (sat_sub e (r_start r)))).

(* range_exceeds_bounds for one dimension (now): match start.checked_add(length)
   { None => true, Some(end) => end > len } *)
Definition ir_exceeds (r : index_range) (len : N) : outcome bool :=
  match checked_add (r_start r) (r_length r) with
  | None => Ok true
  | Some e => Ok (len <? e)
  end.
Definition ir_exceeds_legacy (r : index_range) (len : N) : outcome bool :=
  omap (fun e => len <? e) (u_add m (r_start r) (r_length r)).

(* reverse_indexes for one reversed dimension (now):
   last = length - 1; if index > last { index } else { last - index } *)
Definition rev_index (len i : N) : outcome N :=
  obind (u_sub m len 1) (fun last => if last <? i then Ok i else u_sub m last i).
Definition rev_index_legacy (len i : N) : outcome N :=
  obind (u_sub m len 1) (fun last => u_sub m last i).

(* get_index_direct with machine arithmetic: index += n * strides[d] *)
Fixpoint gid_m (idx st lens : list N) (acc : N) : outcome (option N) :=
  match idx, st, lens with
  | [], [], [] => Ok (Some acc)
  | i :: idx', s :: st', l :: lens' =>
      if l <=? i then Ok None
      else obind (u_mul m i s) (fun p => obind (u_add m acc p) (fun acc' => gid_m idx' st' lens' acc'))
  | _, _, _ => Ok None
  end.

(* Matrix::get_index(row, column) = row * columns + column, guarded by
   row < rows && column < columns in _try_get_reference *)
Definition matrix_try_index (rows cols row col : N) : outcome (option N) :=
  if (row <? rows) && (col <? cols)
  then obind (u_mul m row cols) (fun p => omap Some (u_add m p col))
  else Ok None.

(* dimensions::elements as it was used by validation before dcb259c: a plain product *)
Fixpoint prod_legacy (l : list N) (acc : N) : outcome N :=
  match l with
  | [] => Ok acc
  | x :: r => obind (u_mul m acc x) (fun a => prod_legacy r a)
  end.
Definition validate_dimensions_legacy (sh : shape) (data_len : N) : outcome bool :=
  omap (fun e => (data_len =? e) && negb (has_duplicates (names_of sh)) && negb (has_zero sh))
       (prod_legacy (lens_of sh) 1).

(* Matrix::from_flat_row_major size test (now: checked_mul; before: rows * columns) *)
Definition flat_size_ok (rows cols len : N) : outcome bool :=
  Ok (match checked_mul rows cols with Some p => p =? len | None => false end).
Definition flat_size_ok_legacy (rows cols len : N) : outcome bool :=
  omap (fun p => p =? len) (u_mul m rows cols).

(* ---- one-dimensional views over a source of `len` elements (source index -> present?) ---- *)

(* TensorRange / MatrixRange along one dimension: clip at construction, map at access *)
Definition range_get (r : index_range) (len : N) (i : N) : outcome (option N) :=
  obind (ir_clip r len) (fun c =>
  obind (ir_map c i) (fun o =>
    match o with
    | Some j => Ok (if j <? len then Some j else None)
    | None => Ok None
    end)).
Definition range_len (r : index_range) (len : N) : outcome N := omap r_length (ir_clip r len).

(* TensorMask along one dimension *)
Definition mask_get (r : index_range) (len : N) (i : N) : outcome (option N) :=
  obind (ir_clip r len) (fun c =>
  obind (ir_mask c i) (fun j => Ok (if j <? len then Some j else None))).
Definition mask_get_legacy (r : index_range) (len : N) (i : N) : outcome (option N) :=
  obind (ir_clip_legacy r len) (fun c =>
  obind (ir_mask_legacy c i) (fun j => Ok (if j <? len then Some j else None))).
Definition mask_len (r : index_range) (len : N) : outcome N :=
  obind (ir_clip r len) (fun c => u_sub m len (r_length c)).

(* TensorReverse / MatrixReverse along one dimension (MatrixReverse guards len = 0) *)
Definition reverse_get (len i : N) : outcome (option N) :=
  if len =? 0 then Ok None
  else obind (rev_index len i) (fun j => Ok (if j <? len then Some j else None)).
Definition reverse_get_legacy (len i : N) : outcome (option N) :=
  if len =? 0 then Ok None
  else obind (rev_index_legacy len i) (fun j => Ok (if j <? len then Some j else None)).

End Machine.
