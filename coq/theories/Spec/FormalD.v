(* SPECIFICATION for C04 / C05: what a straight-line program computes on plain numbers, and
   its formal derivative (textbook rules + chain rule), independent of Record / Trace / tapes.
   `value prog` lists the plain value of every instruction; `tangent prog s` lists the
   directional derivative of every instruction when variable instruction n moves with
   velocity s n; `grad prog out v` is the partial derivative of instruction `out` with respect
   to the variable created by instruction `v`.
   (Proofs/C04R.v shows that over Coq's real numbers this formal derivative IS the derivative.) *)
From Coq Require Import List Arith.
From EasyML Require Import Base.Sx Model.Num Model.AD.
Import ListNotations.

Section FormalD.
Context {R : Type} (ops : numops R).
Notation "0" := (nzero ops).
Notation "1" := (none_ ops).
Notation "x + y" := (nadd ops x y).
Notation "x - y" := (nsub ops x y).
Notation "x * y" := (nmul ops x y).
Notation "x / y" := (ndiv ops x y).
Notation "- x" := (nneg ops x).

Definition bop_f (o : bop) (x y : R) : R :=
  match o with
  | BAdd => x + y | BSub => x - y | BMul => x * y | BDiv => x / y | BPow => npow ops x y
  end.
(* partial derivatives with respect to the left / right operand *)
Definition bop_dx (o : bop) (x y : R) : R :=
  match o with
  | BAdd => 1 | BSub => 1 | BMul => y | BDiv => 1 / y
  | BPow => y * npow ops x (y - 1)
  end.
Definition bop_dy (o : bop) (x y : R) : R :=
  match o with
  | BAdd => 1 | BSub => - (1) | BMul => x | BDiv => (- x) / (y * y)
  | BPow => npow ops x y * nln ops x
  end.
Definition cop_bop (o : cop) : bop := match o with CSub => BSub | CDiv => BDiv | CPow => BPow end.

Definition uop_f (o : uop) (x : R) : R :=
  match o with
  | UNeg => - x | USin => nsin ops x | UCos => ncos ops x | UExp => nexp ops x
  | ULn => nln ops x | USqrt => nsqrt ops x
  end.
Definition uop_d (o : uop) (x : R) : R :=
  match o with
  | UNeg => - (1) | USin => ncos ops x | UCos => - nsin ops x | UExp => nexp ops x
  | ULn => 1 / x | USqrt => 1 / ((1 + 1) * nsqrt ops x)
  end.

Definition total (l : list R) : R := fold_left (fun acc x => acc + x) l 0.

(* the plain value of one instruction, given the values vs of the earlier ones *)
Definition value_instr (vs : list R) (ins : instr R) : R :=
  let v n := nth n vs 0 in
  match ins with
  | IVar x => x
  | IConst c => c
  | IBin o a b => bop_f o (v a) (v b)
  | IBinC o a c => bop_f o (v a) c
  | ICBin o c b => bop_f (cop_bop o) c (v b)
  | IUn o a => uop_f o (v a)
  | ISum l => total (map v l)
  | IUser1 f _ a => f (v a)
  | IUser2 f _ _ a b => f (v a) (v b)
  end.

(* chain rule: the tangent of one instruction from the values vs and tangents ts of the earlier
   ones; `sd` is the velocity of this instruction if it is a variable *)
Definition tangent_instr (vs ts : list R) (sd : R) (ins : instr R) : R :=
  let v n := nth n vs 0 in
  let t n := nth n ts 0 in
  match ins with
  | IVar _ => sd
  | IConst _ => 0
  | IBin o a b => bop_dx o (v a) (v b) * t a + bop_dy o (v a) (v b) * t b
  | IBinC o a c => bop_dx o (v a) c * t a
  | ICBin o c b => bop_dy (cop_bop o) c (v b) * t b
  | IUn o a => uop_d o (v a) * t a
  | ISum l => total (map t l)
  | IUser1 _ df a => df (v a) * t a
  | IUser2 _ dx dy a b => dx (v a) (v b) * t a + dy (v a) (v b) * t b
  end.

Definition dstep (s : nat -> R) (acc : list R * list R) (ins : instr R) : list R * list R :=
  let '(vs, ts) := acc in
  (vs ++ [value_instr vs ins], ts ++ [tangent_instr vs ts (s (length vs)) ins]).
Definition drun (s : nat -> R) (prog : list (instr R)) : list R * list R :=
  fold_left (dstep s) prog ([], []).

Definition value (prog : list (instr R)) : list R := fst (drun (fun _ => 0) prog).
Definition tangent (prog : list (instr R)) (s : nat -> R) : list R := snd (drun s prog).

(* the formal partial derivative of instruction `out` with respect to variable instruction v *)
Definition grad (prog : list (instr R)) (out v : nat) : R :=
  nth out (tangent prog (fun n => if Nat.eqb n v then 1 else 0)) 0.

(* syntactic dependency: does instruction n (transitively) use variable instruction v ? *)
Definition dep_instr (ds : list bool) (me : bool) (ins : instr R) : bool :=
  match ins with
  | IVar _ => me
  | _ => existsb (fun a => nth a ds false) (instr_refs ins)
  end.
Definition depends_on (prog : list (instr R)) (v : nat) : list bool :=
  fold_left (fun ds ins => ds ++ [dep_instr ds (Nat.eqb (length ds) v) ins]) prog [].
(* does instruction n use ANY variable ? *)
Definition depends_any (prog : list (instr R)) : list bool :=
  fold_left (fun ds ins => ds ++ [dep_instr ds true ins]) prog [].

End FormalD.
