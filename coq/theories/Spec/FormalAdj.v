(* SPECIFICATION (extension of Spec/FormalD.v): the formal partial derivative of an instruction
   with respect to the RESULT of any earlier instruction (an intermediate value, not only an input
   variable) -- the "adjoint" of that instruction.  Defined like `grad`, by forward propagation of
   the chain rule, except that the unit velocity may be injected at any instruction k: the value
   of k is perturbed, every other instruction is kept as written.
   For a variable instruction the adjoint is `grad` (Proofs/C04A.v, adjoint_of_variable). *)
From Coq Require Import List Arith.
From EasyML Require Import Base.Sx Model.Num Model.AD Spec.FormalD.
Import ListNotations.

Section FormalAdj.
Context {R : Type} (ops : numops R).

(* the tangent of one instruction when, in addition to the chain rule, its own result moves with
   velocity sd *)
Definition ptangent_instr (vs ts : list R) (sd : R) (ins : instr R) : R :=
  if is_var ins then sd else nadd ops (tangent_instr ops vs ts (nzero ops) ins) sd.

Definition pdstep (s : nat -> R) (acc : list R * list R) (ins : instr R) : list R * list R :=
  let '(vs, ts) := acc in
  (vs ++ [value_instr ops vs ins], ts ++ [ptangent_instr vs ts (s (length vs)) ins]).
Definition pdrun (s : nat -> R) (prog : list (instr R)) : list R * list R :=
  fold_left (pdstep s) prog ([], []).
Definition ptangent (prog : list (instr R)) (s : nat -> R) : list R := snd (pdrun s prog).

(* d (instruction out) / d (result of instruction k) *)
Definition adjoint (prog : list (instr R)) (out k : nat) : R :=
  nth out (ptangent prog (fun n => if Nat.eqb n k then none_ ops else nzero ops)) (nzero ops).

End FormalAdj.
