(* The iterators' step functions as tools/gen_arith.py regenerates them from the Rust source on
   every run (Gen/Arith.v):
     src/matrices/iterators.rs  fn column_major_iter / row_major_iter   (`&mut` parameters: the result
                                 carries their final values)
     src/tensors/indexing.rs    ShapeIterator::from and fn iter - the odometer step: increment the
                                 last index, the carry loop `for d in (1..D).rev()` as a fold over the
                                 index array with bounds-checked reads / writes at computed positions,
                                 the finish test, D = 0
   against the hand-written models Model/MatrixIter.v (column_major_step / row_major_step) and
   Model/ShapeIter.v (shape_iter_from / iter_next) that the C09 theorems are about.
   The generated definitions use explicit machine arithmetic; the statements carry "no counter is
   usize::MAX" (true of every reachable state: counters stay below lengths). *)
From Coq Require Import List ZArith NArith Bool Arith Lia.
From EasyML Require Import Base.Sx Model.U64 Model.Fallible Model.Shape Model.ShapeIter Model.MatrixIter Gen.Arith.
Import ListNotations.
From EasyML Require Import Proofs.GenTac.
Open Scope N_scope.

(* gen_equiv: Proofs/GenTac.v (the specific script, then the shape-independent finisher) *)

Lemma u_sub_ok md a b : b <= a -> u_sub md a b = Ok (a - b).
Proof. intros H. unfold u_sub. replace (b <=? a) with true by (symmetry; apply N.leb_le; lia). reflexivity. Qed.
Lemma u_add_ok md a b : a + b <= usize_max -> u_add md a b = Ok (a + b).
Proof. intros H. unfold u_add. replace (a + b <=? usize_max) with true by (symmetry; apply N.leb_le; lia). reflexivity. Qed.

(* ---- src/matrices/iterators.rs ---- *)
Ltac major_step :=
  intros; cbv beta delta [gen_column_major_iter gen_row_major_iter column_major_step row_major_step];
  match goal with |- context [if ?f then _ else _] => is_var f; destruct f end; [reflexivity|];
  rewrite !u_sub_ok by lia; cbn [obind];
  repeat match goal with |- context [?a =? ?b] => destruct (a =? b) end; cbn [obind andb];
  rewrite ?u_add_ok by lia; cbn [obind]; reflexivity.

Lemma gen_column_major_iter_eq : forall md fin rows cols rc cc,
  0 < rows -> 0 < cols -> rc < usize_max -> cc < usize_max ->
  gen_column_major_iter md fin rows cols rc cc = Ok (@column_major_step fin rows cols rc cc).
Proof. gen_equiv gen_column_major_iter_eq by major_step. Qed.

Lemma gen_row_major_iter_eq : forall md fin rows cols rc cc,
  0 < rows -> 0 < cols -> rc < usize_max -> cc < usize_max ->
  gen_row_major_iter md fin rows cols rc cc = Ok (@row_major_step fin rows cols rc cc).
Proof. gen_equiv gen_row_major_iter_eq by major_step. Qed.

(* the model names dimensions by nat, the generated code by N (an opaque Dimension) *)
Definition shN (sh : shape) : list (N * N) := map (fun d => (N.of_nat (fst d), snd d)) sh.
Lemma shN_length sh : length (shN sh) = length sh.
Proof. apply map_length. Qed.

Lemma forallb_map' {A B} (f : B -> bool) (g : A -> B) l : forallb f (map g l) = forallb (fun x => f (g x)) l.
Proof. induction l as [|x l IH]; cbn [map forallb]; [reflexivity|]. rewrite IH. reflexivity. Qed.

(* ---- src/tensors/indexing.rs: ShapeIterator::from ---- *)
Lemma gen_ShapeIterator_from_eq : forall md sh,
  gen_ShapeIterator_from md (shN sh) =
  Ok (shN (si_shape (shape_iter_from sh)), si_indexes (shape_iter_from sh), si_finished (shape_iter_from sh)).
Proof.
  gen_equiv gen_ShapeIterator_from_eq by
    (intros; unfold gen_ShapeIterator_from, shape_iter_from; cbn [si_shape si_indexes si_finished];
     rewrite Nat2N.id, shN_length; unfold shN at 2; rewrite forallb_map'; reflexivity).
Qed.

(* ---- bounds-checked reads / writes at computed positions ---- *)
Lemma gen_nth_ok {X} (l : list X) (i : nat) d : (i < length l)%nat -> gen_nth l (N.of_nat i) = Ok (nth i l d).
Proof.
  intros H. unfold gen_nth. rewrite Nat2N.id.
  destruct (nth_error l i) eqn:E.
  - rewrite (nth_error_nth _ _ d E). reflexivity.
  - apply nth_error_None in E. lia.
Qed.

Lemma gen_upd_nat_upd : forall (l : list N) i v, (i < length l)%nat -> gen_upd_nat l i v = Some (upd l i v).
Proof.
  induction l as [|x l IH]; intros [|i] v H; cbn [gen_upd_nat upd length] in *; try lia; [reflexivity|].
  rewrite IH by lia. reflexivity.
Qed.

Lemma gen_upd_ok (l : list N) (i : nat) v : (i < length l)%nat -> gen_upd l (N.of_nat i) v = Ok (upd l i v).
Proof. intros H. unfold gen_upd. rewrite Nat2N.id, gen_upd_nat_upd by assumption. reflexivity. Qed.

Lemma upd_length : forall l d v, length (upd l d v) = length l.
Proof. induction l as [|x l IH]; intros [|d] v; cbn [upd length]; try reflexivity. rewrite IH. reflexivity. Qed.

Lemma nth_upd_other : forall l d v j, j <> d -> nth j (upd l d v) 0 = nth j l 0.
Proof.
  induction l as [|x l IH]; intros [|d] v [|j] H; cbn [upd nth]; try reflexivity; try congruence.
  apply IH. congruence.
Qed.

Lemma nth_lens sh j : nth j (lens_of sh) 0 = snd (nth j (shN sh) (0, 0)).
Proof.
  unfold lens_of, shN. rewrite <- (map_nth snd _ (0, 0) j), map_map. reflexivity.
Qed.

Lemma gen_range_snoc a n : gen_range a (a + N.of_nat (S n)) = gen_range a (a + N.of_nat n) ++ [a + N.of_nat n].
Proof.
  unfold gen_range. replace (a + N.of_nat (S n) - a) with (N.of_nat (S n)) by lia.
  replace (a + N.of_nat n - a) with (N.of_nat n) by lia. rewrite !Nat2N.id.
  rewrite seq_S, map_app. reflexivity.
Qed.

(* one iteration of the carry loop, as generated *)
Definition gen_carry_body md (shape : list (N * N)) :=
  (fun (indexes2 : list N) (d : N) =>
     obind (gen_nth indexes2 d) (fun tmp5 => obind (gen_nth shape d) (fun tmp6 =>
       if tmp5 =? snd tmp6
       then obind (gen_upd indexes2 d 0) (fun indexes3 => obind (u_sub md d 1) (fun tmp7 => obind (u_sub md d 1) (fun tmp8 =>
            obind (gen_nth indexes3 tmp8) (fun tmp9 => obind (u_add md tmp9 1) (fun tmp10 =>
            obind (gen_upd indexes3 tmp7 tmp10) (fun indexes4 => Ok indexes4))))))
       else Ok indexes2))).

Lemma gen_carry_body_step md sh idx t :
  length idx = length sh -> (S t < length idx)%nat -> nth t idx 0 < usize_max ->
  gen_carry_body md (shN sh) idx (N.of_nat (S t)) = Ok (carry_step (lens_of sh) idx (S t)).
Proof.
  intros Hl Ht Hb. unfold gen_carry_body, carry_step.
  rewrite (gen_nth_ok idx (S t) 0) by lia. cbn [obind].
  rewrite (gen_nth_ok (shN sh) (S t) (0, 0)) by (rewrite shN_length; lia). cbn [obind].
  rewrite nth_lens.
  destruct (nth (S t) idx 0 =? snd (nth (S t) (shN sh) (0, 0))); [|reflexivity].
  rewrite gen_upd_ok by lia. cbn [obind].
  rewrite u_sub_ok by lia. cbn [obind].
  replace (N.of_nat (S t) - 1) with (N.of_nat t) by lia.
  rewrite (gen_nth_ok _ t 0) by (rewrite upd_length; lia). cbn [obind].
  replace (S t - 1)%nat with t by lia.
  rewrite u_add_ok by (rewrite nth_upd_other by lia; lia). cbn [obind].
  rewrite gen_upd_ok by (rewrite upd_length; lia). reflexivity.
Qed.

Lemma carry_step_length lens idx d : length (carry_step lens idx d) = length idx.
Proof. unfold carry_step. destruct (_ =? _); [|reflexivity]. rewrite !upd_length. reflexivity. Qed.

Lemma carry_step_below lens idx t j : (j < t)%nat -> nth j (carry_step lens idx (S t)) 0 = nth j idx 0.
Proof.
  intros H. unfold carry_step. destruct (_ =? _); [|reflexivity].
  rewrite !nth_upd_other by lia. reflexivity.
Qed.

(* the loop `for d in (1..D).rev()` as generated = Model/ShapeIter.v carry_loop *)
Lemma gen_carry_loop md sh : forall top idx,
  length idx = length sh -> (top < length idx)%nat ->
  (forall j, (j < top)%nat -> nth j idx 0 < usize_max) ->
  gen_fold (gen_carry_body md (shN sh)) idx (rev (gen_range 1 (N.of_nat (S top)))) = Ok (carry_loop (lens_of sh) idx top).
Proof.
  induction top as [|t IH]; intros idx Hl Ht Hb.
  - reflexivity.
  - replace (N.of_nat (S (S t))) with (1 + N.of_nat (S t)) by lia.
    rewrite gen_range_snoc, rev_app_distr. cbn [rev app gen_fold].
    replace (1 + N.of_nat t) with (N.of_nat (S t)) by lia.
    rewrite gen_carry_body_step by (try apply Hb; lia). cbn [obind carry_loop].
    replace (N.of_nat (S t)) with (1 + N.of_nat t) by lia.
    replace (1 + N.of_nat t) with (N.of_nat (S t)) by lia.
    apply IH.
    + rewrite carry_step_length. exact Hl.
    + rewrite carry_step_length. lia.
    + intros j Hj. rewrite carry_step_below by lia. apply Hb. lia.
Qed.

Lemma carry_loop_length lens : forall top idx, length (carry_loop lens idx top) = length idx.
Proof. induction top as [|t IH]; intros idx; cbn [carry_loop]; [reflexivity|]. rewrite IH, carry_step_length. reflexivity. Qed.

(* ---- fn iter: the whole odometer step ---- *)
Lemma gen_ShapeIterator_iter_eq : forall md (it : shape_iter),
  length (si_indexes it) = length (si_shape it) ->
  (forall j, nth j (si_indexes it) 0 < usize_max) ->
  gen_ShapeIterator_iter md (si_finished it) (si_indexes it) (shN (si_shape it)) =
  Ok (fst (iter_next it), (si_finished (snd (iter_next it)), si_indexes (snd (iter_next it)))).
Proof.
  gen_equiv gen_ShapeIterator_iter_eq by
    (intros md [sh idx fin] Hl Hb; cbn [si_shape si_indexes si_finished] in *;
     unfold gen_ShapeIterator_iter, iter_next; cbn [si_shape si_indexes si_finished];
     destruct fin; [reflexivity|];
     rewrite <- Hl;
     destruct (length idx) as [|last] eqn:EL; [reflexivity|];
     change (0 <? N.of_nat (S last)) with true; cbv iota;
     rewrite u_sub_ok by lia; cbn [obind];
     replace (N.of_nat (S last) - 1) with (N.of_nat last) by lia;
     rewrite (gen_nth_ok idx last 0) by lia; cbn [obind];
     rewrite u_add_ok by (specialize (Hb last); lia); cbn [obind];
     rewrite gen_upd_ok by lia; cbn [obind];
     fold (gen_carry_body md (shN sh));
     cbn [fst snd si_finished si_indexes];
     rewrite (gen_carry_loop md sh last)
       by (rewrite ?upd_length; try lia; intros j Hj; rewrite nth_upd_other by lia; apply Hb);
     cbn [obind];
     rewrite (gen_nth_ok _ O 0) by (rewrite carry_loop_length, upd_length; lia); cbn [obind];
     change (gen_nth (shN sh) 0) with (gen_nth (shN sh) (N.of_nat 0));
     rewrite (gen_nth_ok (shN sh) O (0, 0)) by (rewrite shN_length; lia); cbn [obind];
     rewrite nth_lens;
     destruct (_ =? _); reflexivity).
Qed.

(* ---- everything together, as stated in Properties/C09.v ---- *)
Lemma generated_steps_match_model : forall md,
  (* the matrix iterators' counter steps *)
  (forall fin rows cols rc cc, 0 < rows -> 0 < cols -> rc < usize_max -> cc < usize_max ->
     gen_column_major_iter md fin rows cols rc cc = Ok (@column_major_step fin rows cols rc cc) /\
     gen_row_major_iter md fin rows cols rc cc = Ok (@row_major_step fin rows cols rc cc)) /\
  (* ShapeIterator::from *)
  (forall sh,
     gen_ShapeIterator_from md (shN sh) =
     Ok (shN (si_shape (shape_iter_from sh)), si_indexes (shape_iter_from sh), si_finished (shape_iter_from sh))) /\
  (* the odometer step: value, finished flag and index array after the call *)
  (forall it : shape_iter,
     length (si_indexes it) = length (si_shape it) ->
     (forall j, nth j (si_indexes it) 0 < usize_max) ->
     gen_ShapeIterator_iter md (si_finished it) (si_indexes it) (shN (si_shape it)) =
     Ok (fst (iter_next it), (si_finished (snd (iter_next it)), si_indexes (snd (iter_next it))))).
Proof.
  intros md. split; [intros; split; [apply gen_column_major_iter_eq|apply gen_row_major_iter_eq]; assumption|].
  split; [intros; apply gen_ShapeIterator_from_eq|].
  intros; apply gen_ShapeIterator_iter_eq; assumption.
Qed.
