(* C10, wave 4: a source without rows or without columns is never touched.
   The row-/column-major iterators of the crate (all 8 types, every constructor: `from`,
   `from_numeric`, the convenience methods - they all build the same counters, Model/IterG.v
   `gmi_from`) over ANY source `o` (Matrix views, partition parts, record containers ...) whose
   view has rows * columns = 0 hand out nothing at any call - so no place is ever passed to
   `get_reference_unchecked(_mut)` - and report the exact length 0; the owning variants
   (`mem::replace` through the unchecked mutable getter) likewise.  This is the statement the
   round-5 seed C10-w2 breaks (RowMajorOwnedIterator::from_numeric yielding (0, 0) on a 0x0
   MatrixPart). *)
From Coq Require Import List ZArith NArith Bool Arith Lia.
From EasyML Require Import Base.Sx Model.ShapeIter Model.MatrixIter Model.IterG Proofs.C09P Proofs.C09GenP.
Import ListNotations.
Open Scope N_scope.

Lemma map_const_seq {X} (x : X) k : forall a, map (fun _ : nat => x) (seq a k) = repeat x k.
Proof. induction k as [|k IH]; intros a; cbn [seq map repeat]; [reflexivity|]. rewrite IH. reflexivity. Qed.

Section Empty.
Context {St A : Type}.
Variable o : msource St A.

Theorem empty_source_yields_nothing rm (s : St) k :
  mo_rows o s * mo_cols o s = 0 ->
  fst (drive (gmi_next o) gmi_len k (gmi_from o rm s)) = repeat (None, 0) k /\
  gmi_len (gmi_from o rm s) = 0.
Proof.
  intros H0. pose proof (gen_major_iter_spec o rm s k) as H. cbv zeta in H. destruct H as [H1 H2].
  rewrite H0 in H1, H2. split; [|exact H2].
  rewrite H1. rewrite <- (map_const_seq (None, 0) k 0%nat). apply map_ext. intros j.
  unfold cexpected. destruct (N.ltb_spec (N.of_nat j) 0) as [Hlt|_]; [lia|reflexivity].
Qed.

Theorem empty_source_owned_yields_nothing (dflt : A) rm (s : St) k :
  mo_rows o s * mo_cols o s = 0 ->
  fst (drive (gmi_next_owned o dflt) gmi_len k (gmi_from o rm s)) = repeat (None, 0) k.
Proof.
  intros H0.
  pose proof (gen_matrix_owned_moves_once o dflt (fun _ => True) (mo_rows o s) (mo_cols o s)) as H.
  assert (P_set : forall s0 p (v : A), True -> fst p < mo_rows o s /\ snd p < mo_cols o s ->
     exists s', mo_set o s0 p v = Some s' /\ True /\ mo_get o s' p = Some v /\
                forall p', fst p' < mo_rows o s /\ snd p' < mo_cols o s -> p' <> p ->
                           mo_get o s' p' = mo_get o s0 p').
  { intros s0 p v _ [Hr Hc]. exfalso. nia. }
  specialize (H P_set rm s k I eq_refl eq_refl). cbv zeta in H. destruct H as [H1 _].
  rewrite H1. exact (proj1 (empty_source_yields_nothing rm s k H0)).
Qed.

End Empty.
