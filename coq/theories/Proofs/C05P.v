(* C05 — forward mode: running a straight-line program through the Trace operators of
   Model/Forward.v yields the plain values and, in the derivative component, the formal partial
   derivative `grad` of Spec/FormalD.v with respect to the seeded variable (any field, non-zero
   denominators); hence forward mode reproduces the reverse-mode gradient entry by entry (with
   Proofs/C04P.v), and over Coq's reals it is the true derivative (with Proofs/C04R.v). *)
From Coq Require Import List Arith Lia Ring Field Bool Reals.
From EasyML Require Import Base.Sx Model.Num Model.Tape Model.AD Model.Forward Spec.FormalD
  Proofs.C04P Proofs.C04R.
Import ListNotations.

Definition is_field {R} (ops : numops R) : Prop :=
  field_theory (nzero ops) (none_ ops) (nadd ops) (nmul ops) (nsub ops) (nneg ops)
               (ndiv ops) (fun x => ndiv ops (none_ ops) x) (@eq R).

Section C05.
Context {R : Type} (ops : numops R).
Hypothesis Fth : field_theory (nzero ops) (none_ ops) (nadd ops) (nmul ops) (nsub ops) (nneg ops)
                              (ndiv ops) (fun x => ndiv ops (none_ ops) x) (@eq R).
Add Field Ffield5 : Fth.
Notation rO := (nzero ops).
Notation rI := (none_ ops).
Notation "x [+] y" := (nadd ops x y) (at level 50, left associativity).
Notation "x [*] y" := (nmul ops x y) (at level 40, left associativity).
Notation "x [-] y" := (nsub ops x y) (at level 50, left associativity).
Notation "x [/] y" := (ndiv ops x y) (at level 40, left associativity).

Lemma Rth5 : is_ring ops.
Proof. exact (F_R Fth). Qed.

Lemma div_mul x y : x [/] y = x [*] (rI [/] y).
Proof. exact (Fdiv_def Fth x y). Qed.

(* the denominators that must not vanish for the quotient rules to be the formal derivative:
   record / record and record / number (the other divisions are by construction of the form
   0-seeded and need no side condition) *)
Definition nz_instr (vs : list R) (ins : instr R) : Prop :=
  match ins with
  | IBin BDiv _ b => nth b vs rO <> rO
  | IBinC BDiv _ c => c <> rO
  | _ => True
  end.
Fixpoint nz_from (vs : list R) (prog : list (instr R)) : Prop :=
  match prog with
  | [] => True
  | ins :: r => nz_instr vs ins /\ nz_from (vs ++ [value_instr ops vs ins]) r
  end.
Definition nonzero_denominators (prog : list (instr R)) : Prop := nz_from [] prog.

Lemma nz_from_app vs p q : nz_from vs (p ++ q) <->
  nz_from vs p /\ nz_from (fold_left (fun vs ins => vs ++ [value_instr ops vs ins]) p vs) q.
Proof.
  revert vs; induction p as [|ins p IH]; intros vs; cbn [app nz_from fold_left]; [tauto|].
  rewrite IH. tauto.
Qed.

Lemma value_fold5 s p : forall vs ts,
  fst (fold_left (dstep ops s) p (vs, ts)) =
  fold_left (fun vs ins => vs ++ [value_instr ops vs ins]) p vs.
Proof. induction p as [|ins p IH]; intros vs ts; cbn [fold_left]; [reflexivity|]. apply IH. Qed.

Lemma nz_snoc s prog ins : nonzero_denominators (prog ++ [ins]) <->
  nonzero_denominators prog /\ nz_instr (fst (drun ops s prog)) ins.
Proof.
  unfold nonzero_denominators. rewrite nz_from_app. cbn [nz_from]. unfold drun.
  rewrite value_fold5. tauto.
Qed.

(* ------------------------------------------------------------------ one instruction *)
Definition seed_of (seed : nat) (n : nat) : R := if Nat.eqb n seed then rI else rO.

Lemma t_sum_fold (nodes : list (trace R)) (v tn : nat -> R) l : forall acc,
  (forall a, tnumber (gett ops nodes a) = v a /\ tderivative (gett ops nodes a) = tn a) ->
  let r := fold_left (fun total next => mkTrace (tnumber total [+] tnumber next)
                                                (tderivative total [+] tderivative next))
                     (map (gett ops nodes) l) acc in
  tnumber r = fold_left (fun acc x => acc [+] x) (map v l) (tnumber acc) /\
  tderivative r = fold_left (fun acc x => acc [+] x) (map tn l) (tderivative acc).
Proof.
  induction l as [|a l IH]; intros acc Hall; cbn [map fold_left]; [split; reflexivity|].
  destruct (Hall a) as [Hv Hd]. rewrite <- Hv, <- Hd.
  apply (IH (mkTrace (tnumber acc [+] tnumber (gett ops nodes a))
                     (tderivative acc [+] tderivative (gett ops nodes a))) Hall).
Qed.

Lemma texec_op_ok seed nodes vs ts ins :
  length nodes = length vs ->
  (forall a, tnumber (gett ops nodes a) = nth a vs rO /\ tderivative (gett ops nodes a) = nth a ts rO) ->
  tnumber (texec_op ops seed nodes ins) = value_instr ops vs ins /\
  (nz_instr vs ins ->
   tderivative (texec_op ops seed nodes ins) = tangent_instr ops vs ts (seed_of seed (length vs)) ins).
Proof.
  intros Hlen Hall.
  destruct ins as [x|c|o a b|o a c|o c b|o a|l|f df a|f dx dy a b];
    cbn [texec_op value_instr tangent_instr nz_instr] in *.
  - rewrite Hlen. unfold seed_of. destruct (Nat.eqb (length vs) seed); split; reflexivity.
  - split; reflexivity.
  - destruct (Hall a) as [Hva Hda]. destruct (Hall b) as [Hvb Hdb].
    destruct o; cbn [t_bin t_add t_sub t_mul t_div t_pow tnumber tderivative bop_f bop_dx bop_dy];
      rewrite Hva, Hvb, Hda, Hdb; (split; [reflexivity|intros Hnz]); try ring.
    field. exact Hnz.
  - destruct (Hall a) as [Hva Hda].
    destruct o; cbn [t_bin_num t_add_num t_sub_num t_mul_num t_div_num t_pow_num tnumber tderivative
                     bop_f bop_dx bop_dy];
      rewrite Hva, Hda; (split; [reflexivity|intros Hnz]); try ring.
    field. exact Hnz.
  - destruct (Hall b) as [Hvb Hdb].
    destruct o; cbn [t_sub t_div t_num_pow tconstant tnumber tderivative cop_bop bop_f bop_dx bop_dy];
      rewrite Hvb, Hdb; (split; [reflexivity|intros _]); try ring.
    rewrite (div_mul _ (nth b vs rO [*] nth b vs rO)).
    rewrite (div_mul (nneg ops c) (nth b vs rO [*] nth b vs rO)). ring.
  - destruct (Hall a) as [Hva Hda].
    destruct o; cbn [t_un t_neg t_sub t_sin t_cos t_exp t_ln t_sqrt tconstant tnumber tderivative
                     uop_f uop_d]; rewrite Hva, Hda; (split; [|intros _]); try reflexivity; try ring.
    + rewrite div_mul. ring.
    + rewrite div_mul. ring.
  - unfold t_sum, total.
    destruct (t_sum_fold nodes (fun a => nth a vs rO) (fun a => nth a ts rO) l (tconstant ops rO) Hall)
      as [H1 H2]. split; [exact H1|intros _; exact H2].
  - destruct (Hall a) as [Hva Hda]. unfold t_unary. cbn [tnumber tderivative].
    rewrite Hva, Hda. split; [reflexivity|intros _; ring].
  - destruct (Hall a) as [Hva Hda]. destruct (Hall b) as [Hvb Hdb]. unfold t_binary.
    cbn [tnumber tderivative]. rewrite Hva, Hvb, Hda, Hdb. split; [reflexivity|intros _; ring].
Qed.

(* ------------------------------------------------------------------ whole programs *)
Lemma trun_snoc seed prog ins :
  trun ops seed (prog ++ [ins]) = texec ops seed (trun ops seed prog) ins.
Proof. unfold trun. rewrite fold_left_app. reflexivity. Qed.

Lemma gett_all nodes vs ts (x : trace R) v d :
  length nodes = length vs -> length nodes = length ts ->
  (forall a, tnumber (gett ops nodes a) = nth a vs rO /\ tderivative (gett ops nodes a) = nth a ts rO) ->
  tnumber x = v -> tderivative x = d ->
  forall a, tnumber (gett ops (nodes ++ [x]) a) = nth a (vs ++ [v]) rO /\
            tderivative (gett ops (nodes ++ [x]) a) = nth a (ts ++ [d]) rO.
Proof.
  intros Hv Ht Hall Hxv Hxd a. unfold gett in *.
  destruct (Nat.lt_ge_cases a (length nodes)) as [Hlt|Hge].
  - rewrite !app_nth1 by lia. apply Hall.
  - destruct (Nat.eq_dec a (length nodes)) as [->|Hne].
    + rewrite app_nth2, Nat.sub_diag by lia. rewrite Hv at 1. rewrite Ht at 1.
      rewrite !app_nth2, !Nat.sub_diag by lia. cbn [nth]. auto.
    + rewrite !nth_overflow by (rewrite app_length; simpl; lia). split; reflexivity.
Qed.

Lemma trun_inv seed prog : nonzero_denominators prog ->
  let nodes := trun ops seed prog in
  let ds := drun ops (seed_of seed) prog in
  length nodes = length prog /\ length (fst ds) = length prog /\ length (snd ds) = length prog /\
  forall a, tnumber (gett ops nodes a) = nth a (fst ds) rO /\
            tderivative (gett ops nodes a) = nth a (snd ds) rO.
Proof.
  induction prog as [|ins prog IH] using rev_ind; intros Hnz; cbv zeta.
  - cbn. repeat split; auto; destruct a; reflexivity.
  - apply (nz_snoc (seed_of seed)) in Hnz as [Hnzp Hnzi]. specialize (IH Hnzp). cbv zeta in IH.
    rewrite trun_snoc, drun_snoc. destruct (drun ops (seed_of seed) prog) as [vs ts].
    cbn [fst snd] in *. destruct IH as [Hn [Hvs [Hts Hall]]]. unfold texec. cbn [dstep fst snd].
    rewrite !app_length. cbn [length]. split; [lia|]. split; [lia|]. split; [lia|].
    destruct (texec_op_ok seed (trun ops seed prog) vs ts ins ltac:(lia) Hall) as [Hv Hd].
    apply gett_all; auto; lia.
Qed.

(* ---- C05_value / C05_derivative_is_gradient ---- *)
Theorem forward_correct seed prog k : nonzero_denominators prog ->
  tnumber (gett ops (trun ops seed prog) k) = nth k (value ops prog) rO /\
  tderivative (gett ops (trun ops seed prog) k) = grad ops prog k seed.
Proof.
  intros Hnz. destruct (trun_inv seed prog Hnz) as [_ [_ [_ Hall]]].
  destruct (Hall k) as [Hv Hd]. split.
  - rewrite Hv. unfold value. rewrite (drun_fst ops (seed_of seed) (fun _ => rO)). reflexivity.
  - rewrite Hd. reflexivity.
Qed.

(* the number component needs no side condition at all *)
Lemma trun_numbers seed prog :
  let nodes := trun ops seed prog in
  let vs := fst (drun ops (seed_of seed) prog) in
  length nodes = length vs /\ forall a, tnumber (gett ops nodes a) = nth a vs rO.
Proof.
  induction prog as [|ins prog IH] using rev_ind; cbv zeta.
  - split; [reflexivity|]. destruct a; reflexivity.
  - cbv zeta in IH. rewrite trun_snoc, drun_snoc. destruct (drun ops (seed_of seed) prog) as [vs ts].
    cbn [fst] in *. destruct IH as [Hn Hnum]. unfold texec. cbn [dstep fst].
    set (nodes := trun ops seed prog) in *.
    assert (Hall : forall a, tnumber (gett ops nodes a) = nth a vs rO /\
                             tderivative (gett ops nodes a) = nth a (map (@tderivative R) nodes) rO).
    { intros a. split; [apply Hnum|]. unfold gett.
      change rO with (tderivative (tconstant ops rO)) at 2. rewrite map_nth. reflexivity. }
    destruct (texec_op_ok seed nodes vs (map (@tderivative R) nodes) ins Hn Hall) as [Hv _].
    rewrite !app_length. cbn [length]. split; [lia|].
    intros a. apply (gett_all nodes vs (map (@tderivative R) nodes) _ _ _ Hn
                       ltac:(rewrite map_length; reflexivity) Hall Hv eq_refl a).
Qed.

Theorem forward_value seed prog k :
  tnumber (gett ops (trun ops seed prog) k) = nth k (value ops prog) rO.
Proof.
  destruct (trun_numbers seed prog) as [_ H]. rewrite H. unfold value.
  rewrite (drun_fst ops (seed_of seed) (fun _ => rO)). reflexivity.
Qed.

(* ---- C05_forward_equals_reverse ---- *)
Theorem forward_equals_reverse prog seed x out : nth_error prog seed = Some (IVar x) ->
  nonzero_denominators prog ->
  match try_derivatives ops (run_prog ops prog) out with
  | Some d => tderivative (gett ops (trun ops seed prog) out) = at_ ops d (getr ops (fst (run_prog ops prog)) seed)
  | None => tderivative (gett ops (trun ops seed prog) out) = rO
  end.
Proof.
  intros Hs Hnz. destruct (forward_correct seed prog out Hnz) as [_ Hd]. rewrite Hd.
  destruct (try_derivatives ops (run_prog ops prog) out) as [d|] eqn:E.
  - symmetry. apply (try_derivatives_is_gradient ops Rth5 prog out seed x d Hs E).
  - apply (constant_grad_zero ops Rth5). unfold try_derivatives in E.
    destruct (history (getr ops (fst (run_prog ops prog)) out)); [discriminate|reflexivity].
Qed.

(* ---- a plain-number operand behaves exactly like the constant trace that carries it ---- *)
Theorem number_operand_is_constant_trace o (a : trace R) c :
  t_bin_num ops o a c = t_bin ops o a (tconstant ops c) /\
  t_num_pow ops c a = t_pow ops (tconstant ops c) a.
Proof.
  split.
  - destruct o; cbn [t_bin_num t_bin];
      unfold t_add_num, t_add, t_sub_num, t_sub, t_mul_num, t_mul, t_div_num, t_div, t_pow_num, t_pow;
      cbn [tconstant tnumber tderivative]; f_equal; try ring.
    f_equal. ring.
  - unfold t_num_pow, t_pow. cbn [tconstant tnumber tderivative]. f_equal. ring.
Qed.

End C05.

(* ------------------------------------------------------------------ over Coq's real numbers *)
Lemma Rops_is_field : is_field Rops.
Proof. exact Rops_field. Qed.

Lemma dom_from_nz vs prog : dom_from vs prog -> nz_from Rops vs prog.
Proof.
  revert vs; induction prog as [|ins prog IH]; intros vs; cbn [dom_from nz_from]; [auto|].
  intros [Hi Hr]. split; [|apply IH; exact Hr].
  destruct ins as [x|c|o a b|o a c|o c b|o a|l|f df a|f dx dy a b]; cbn; auto; destruct o; cbn in *; auto.
Qed.

Lemma dom_nonzero prog : dom prog -> nonzero_denominators Rops prog.
Proof. apply dom_from_nz. Qed.

(* the derivative component computed by Trace for the seeded input is the true derivative of the
   number component as a function of that input *)
Theorem forward_mode_is_true_derivative prog i x0 out :
  nth_error prog i = Some (IVar x0) -> dom prog ->
  derivable_pt_lim (fun t => tnumber (gett Rops (trun Rops i (set_var prog i t)) out)) x0
                   (tderivative (gett Rops (trun Rops i prog) out)).
Proof.
  intros Hi Hd.
  destruct (forward_correct Rops Rops_field i prog out (dom_nonzero prog Hd)) as [_ Hg]. rewrite Hg.
  eapply dl_ext; [|apply (formal_is_true_derivative prog i x0 out Hi Hd)].
  intros t. cbv beta. symmetry. apply (forward_value Rops Rops_field).
Qed.
