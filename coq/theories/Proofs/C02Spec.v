(* C02, documented specifications of the adaptors that so far rested on "model = transcription":
   (1) for each panicking / fallible constructor a theorem "Panic iff <documented misuse>", with
       the disjuncts in the code's check order, "never Err", and the stored fields on success;
   (2) short specifications of the SHAPE RULES and of the select / expansion / stack INDEX
       MAPPINGS, independent of the transcribed loops (pointwise, by filtering, or as the inverse
       "insert zeros" function), and the proof that the loops of Model/Views.v
       (compute_select_indexes_*, compute_expansion_indexes_* and the expansion / stack
       view_shape loops, IndexRange::clip) equal them, over ANY source view. *)
From Coq Require Import List ZArith NArith Bool Arith Lia Permutation.
From EasyML Require Import Base.Sx Model.Shape Model.Views Proofs.ShapeP Proofs.C01P
  Proofs.C02Lemmas Proofs.C02P.
Import ListNotations.
Open Scope N_scope.

(* ================= (1) constructor misuse ================= *)

Lemma has_duplicates_true l : has_duplicates l = true <-> ~ NoDup l.
Proof.
  pose proof (has_duplicates_false l) as H. destruct (has_duplicates l).
  - split; [intros _ Hn; apply H in Hn; discriminate|reflexivity].
  - split; [discriminate|]. intros Hn. exfalso. apply Hn, H. reflexivity.
Qed.

Lemma contains_iff (sh : shape) n : contains sh n = true <-> In n (names_of sh).
Proof.
  unfold contains. rewrite existsb_exists. unfold names_of. rewrite in_map_iff. split.
  - intros [d [Hd E]]. apply Nat.eqb_eq in E. exists d. split; assumption.
  - intros [d [E Hd]]. exists d. split; [exact Hd|apply Nat.eqb_eq; exact E].
Qed.

Lemma existsb_Exists {A} (f : A -> bool) (P : A -> Prop) l : (forall x, f x = true <-> P x) ->
  (existsb f l = true <-> Exists P l).
Proof.
  intros H. rewrite existsb_exists, Exists_exists. split; intros [x [A1 A2]]; exists x; split; auto; apply H; auto.
Qed.

(* ---- TensorIndex::from ---- *)
(* "the provided index is for a dimension of the source and within its length" *)
Definition selectable (sh : shape) (p : name * N) : Prop :=
  exists d, In d sh /\ fst d = fst p /\ snd p < snd d.

Lemma find_sel_None (sh : shape) n i : forall k,
  find_sel sh n i k = None <-> ~ selectable sh (n, i).
Proof.
  unfold selectable, not. cbn [fst snd].
  induction sh as [|d sh IH]; intros k; cbn [find_sel].
  - split; [intros _ [d [[] _]]|reflexivity].
  - assert (Hc : (exists d0, In d0 (d :: sh) /\ fst d0 = n /\ i < snd d0) <->
                 (fst d = n /\ i < snd d) \/ (exists d0, In d0 sh /\ fst d0 = n /\ i < snd d0)).
    { split.
      - intros [d0 [[<-|Hin] HH]]; [left; exact HH|right; exists d0; auto].
      - intros [HH|[d0 [Hin HH]]]; [exists d; split; [left; reflexivity|exact HH]|].
        exists d0. split; [right; exact Hin|exact HH]. }
    destruct (Nat.eqb_spec (fst d) n) as [E|E]; destruct (N.ltb_spec i (snd d)) as [L|L]; cbn [andb].
    + split; [discriminate|]. intros H. exfalso. apply H, Hc. left. auto.
    + rewrite IH, Hc. split; [intros H [[A B]|X]; [lia|auto]|intros H X; apply H; right; exact X].
    + rewrite IH, Hc. split; [intros H [[A B]|X]; [congruence|auto]|intros H X; apply H; right; exact X].
    + rewrite IH, Hc. split; [intros H [[A B]|X]; [congruence|auto]|intros H X; apply H; right; exact X].
Qed.

Lemma place_provided_None (sh : shape) : forall ps acc,
  place_provided sh ps acc = None <-> Exists (fun p => ~ selectable sh p) ps.
Proof.
  induction ps as [|[n i] ps IH]; intros acc; cbn [place_provided].
  - split; [discriminate|]. intros H. inversion H.
  - rewrite Exists_cons. destruct (find_sel sh n i 0) as [k|] eqn:E.
    + rewrite IH. split; [auto|]. intros [H|H]; [|exact H]. exfalso.
      apply (find_sel_None sh n i 0) in H. congruence.
    + split; [|reflexivity]. intros _. left. apply (find_sel_None sh n i 0). exact E.
Qed.

Theorem index_ctor_panics_iff c ps :
  (index_ctor c ps = Panic <->
     (length (c_shape c) < length ps)%nat \/ ~ NoDup (map fst ps) \/
     Exists (fun p => ~ selectable (c_shape c) p) ps) /\
  (forall e, index_ctor c ps <> Err e) /\
  (forall c', index_ctor c ps = Ok c' -> exists pr, c' = CIndex c pr /\
     place_provided (c_shape c) ps (repeat None (length (c_shape c))) = Some pr).
Proof.
  unfold index_ctor. destruct (Nat.ltb_spec (length (c_shape c)) (length ps)) as [Hl|Hl].
  { split; [split; auto|]. split; [discriminate|discriminate]. }
  destruct (has_duplicates (map fst ps)) eqn:Hd.
  { apply has_duplicates_true in Hd. split; [split; auto|]. split; discriminate. }
  apply has_duplicates_false in Hd.
  pose proof (place_provided_None (c_shape c) ps (repeat None (length (c_shape c)))) as Hp.
  destruct (place_provided _ _ _) as [pr|].
  - split; [split; [discriminate|]|].
    + intros [H|[H|H]]; [lia|contradiction|]. apply Hp in H. discriminate.
    + split; [discriminate|]. intros c' E. injection E as <-. exists pr. split; reflexivity.
  - split; [split; [intros _; right; right; apply Hp; reflexivity|reflexivity]|]. split; discriminate.
Qed.

(* ---- TensorExpansion::from ---- *)
Theorem expand_ctor_panics_iff c es :
  (expand_ctor c es = Panic <->
     ~ NoDup (map snd es) \/
     Exists (fun e => (length (c_shape c) < fst e)%nat \/ In (snd e) (names_of (c_shape c))) es) /\
  (forall e, expand_ctor c es <> Err e) /\
  (forall c', expand_ctor c es = Ok c' -> c' = CExpand c (stable_sort es)).
Proof.
  unfold expand_ctor. destruct (has_duplicates (map snd es)) eqn:Hd.
  { apply has_duplicates_true in Hd. split; [split; auto|]. split; discriminate. }
  apply has_duplicates_false in Hd.
  assert (Hx : existsb (fun e : nat * name => (length (c_shape c) <? fst e)%nat || contains (c_shape c) (snd e)) es = true
               <-> Exists (fun e => (length (c_shape c) < fst e)%nat \/ In (snd e) (names_of (c_shape c))) es).
  { apply existsb_Exists. intros e. rewrite orb_true_iff, Nat.ltb_lt, contains_iff. reflexivity. }
  destruct (existsb _ es).
  - split; [split; [intros _; right; apply Hx; reflexivity|reflexivity]|]. split; discriminate.
  - split; [split; [discriminate|]|].
    + intros [H|H]; [contradiction|]. apply Hx in H. discriminate.
    + split; [discriminate|]. intros c' E. injection E as <-. reflexivity.
Qed.

(* ---- TensorRename::from (a [Dimension; D] of another length is a compile-time error) ---- *)
Theorem rename_ctor_panics_iff c ns :
  (rename_ctor c ns = Panic <-> length ns <> length (c_shape c) \/ ~ NoDup ns) /\
  (forall e, rename_ctor c ns <> Err e) /\
  (forall c', rename_ctor c ns = Ok c' -> c' = CRename c ns).
Proof.
  unfold rename_ctor. destruct (Nat.eqb_spec (length ns) (length (c_shape c))) as [E|E]; cbn [negb].
  2:{ split; [split; auto|]. split; discriminate. }
  destruct (has_duplicates ns) eqn:Hd.
  - apply has_duplicates_true in Hd. split; [split; auto|]. split; discriminate.
  - apply has_duplicates_false in Hd. split; [split; [discriminate|intros [H|H]; contradiction]|].
    split; [discriminate|]. intros c' H. injection H as <-. reflexivity.
Qed.

(* ---- TensorReverse::from ---- *)
Lemma contains_false_iff (sh : shape) n : contains sh n = false <-> ~ In n (names_of sh).
Proof.
  rewrite <- contains_iff. destruct (contains sh n); split; try congruence; intros H; exfalso; apply H; reflexivity.
Qed.

Theorem reverse_ctor_panics_iff c ns :
  (reverse_ctor c ns = Panic <->
     ~ NoDup ns \/ Exists (fun n => ~ In n (names_of (c_shape c))) ns) /\
  (forall e, reverse_ctor c ns <> Err e) /\
  (forall c', reverse_ctor c ns = Ok c' ->
     c' = CReverse c (map (fun d => existsb (Nat.eqb (fst d)) ns) (c_shape c))).
Proof.
  unfold reverse_ctor. destruct (has_duplicates ns) eqn:Hd.
  { apply has_duplicates_true in Hd. split; [split; auto|]. split; discriminate. }
  apply has_duplicates_false in Hd.
  assert (Hx : existsb (fun n => negb (contains (c_shape c) n)) ns = true
               <-> Exists (fun n => ~ In n (names_of (c_shape c))) ns).
  { apply existsb_Exists. intros n. rewrite negb_true_iff. apply contains_false_iff. }
  destruct (existsb _ ns).
  - split; [split; [intros _; right; apply Hx; reflexivity|reflexivity]|]. split; discriminate.
  - split; [split; [discriminate|]|].
    + intros [H|H]; [contradiction|]. apply Hx in H. discriminate.
    + split; [discriminate|]. intros c' E. injection E as <-. reflexivity.
Qed.

(* ---- TensorAccess::try_from / TensorTranspose::try_from (fallible: Err, never a panic) ---- *)
Theorem access_tbl_err_iff c ns : NoDup (names_of (c_shape c)) -> length ns = length (c_shape c) ->
  access_tbl c ns <> Panic /\
  (access_tbl c ns = Err (e_access (c_shape c) ns) <-> ~ Permutation (names_of (c_shape c)) ns) /\
  (forall e, access_tbl c ns = Err e -> e = e_access (c_shape c) ns) /\
  (forall tbl, access_tbl c ns = Ok tbl <-> dm_new (names_of (c_shape c)) ns = Some tbl).
Proof.
  intros Hnd Hl. unfold access_tbl. rewrite Hl, Nat.eqb_refl. cbn [negb].
  pose proof (dm_new_iff_perm (names_of (c_shape c)) ns Hnd
                ltac:(rewrite names_of_length; exact Hl)) as Hp.
  destruct (dm_new (names_of (c_shape c)) ns) as [tbl|].
  - split; [discriminate|]. split; [split; [discriminate|]|].
    + intros H. exfalso. apply H, Hp. discriminate.
    + split; [discriminate|]. intros t. split; intros E; injection E as <-; reflexivity.
  - split; [discriminate|]. split; [split; [|reflexivity]|].
    + intros _ H. apply Hp in H. apply H. reflexivity.
    + split; [intros e E; injection E as <-; reflexivity|]. intros t. split; discriminate.
Qed.

(* ---- TensorStack::from ---- *)
Lemma shape_eqb_refl (a : shape) : shape_eqb a a = true.
Proof.
  unfold shape_eqb. rewrite Nat.eqb_refl. cbn [andb].
  induction a as [|[n l] a IH]; [reflexivity|]. cbn [combine forallb fst snd].
  rewrite Nat.eqb_refl, N.eqb_refl. exact IH.
Qed.
Lemma shape_eqb_iff (a b : shape) : shape_eqb a b = true <-> a = b.
Proof. split; [apply shape_eqb_eq|intros ->; apply shape_eqb_refl]. Qed.

Lemma forallb_false_Exists {A} (f : A -> bool) l : forallb f l = false <-> Exists (fun x => f x = false) l.
Proof.
  induction l as [|x l IH]; cbn [forallb].
  - split; [discriminate|]. intros H. inversion H.
  - rewrite Exists_cons, andb_false_iff, IH. reflexivity.
Qed.

Theorem stack_ctor_panics_iff cs pos n :
  (stack_ctor cs pos n = Panic <->
     cs = [] \/ (length (first_shape cs) < pos)%nat \/ In n (names_of (first_shape cs)) \/
     Exists (fun c => c_shape c <> first_shape cs) cs) /\
  (forall e, stack_ctor cs pos n <> Err e) /\
  (forall c', stack_ctor cs pos n = Ok c' -> c' = CStack cs pos n).
Proof.
  unfold stack_ctor. destruct cs as [|c0 r].
  { split; [split; auto|]. split; discriminate. }
  change (first_shape (c0 :: r)) with (c_shape c0).
  destruct (Nat.ltb_spec (length (c_shape c0)) pos) as [Hp|Hp].
  { split; [split; auto|]. split; discriminate. }
  destruct (contains (c_shape c0) n) eqn:Hc.
  { apply contains_iff in Hc. split; [split; auto|]. split; discriminate. }
  apply contains_false_iff in Hc.
  assert (Hx : shapes_equal (map c_shape (c0 :: r)) = false <->
               Exists (fun c => c_shape c <> c_shape c0) (c0 :: r)).
  { cbn [map shapes_equal]. rewrite forallb_false_Exists, Exists_cons, Exists_map.
    split.
    - intros H. right. eapply Exists_impl; [|exact H]. cbn beta. intros a Ha Heq.
      apply shape_eqb_iff in Heq. congruence.
    - intros [H|H]; [congruence|]. eapply Exists_impl; [|exact H]. cbn beta. intros a Ha.
      destruct (shape_eqb (c_shape a) (c_shape c0)) eqn:E; [|reflexivity].
      apply shape_eqb_iff in E. contradiction. }
  destruct (shapes_equal (map c_shape (c0 :: r))); cbn [negb].
  - split; [split; [discriminate|]|].
    + intros [H|[H|[H|H]]]; [discriminate|lia|contradiction|]. apply Hx in H. discriminate.
    + split; [discriminate|]. intros c' E. injection E as <-. reflexivity.
  - split; [split; [intros _; right; right; right; apply Hx; reflexivity|reflexivity]|]. split; discriminate.
Qed.

(* ---- TensorChain::from ---- *)
(* "identical shape except for the lengths along the chained dimension" *)
Definition similar (along : nat) (s s0 : shape) : Prop :=
  length s = length s0 /\ names_of s = names_of s0 /\
  forall k, k <> along -> nth k (lens_of s) 0 = nth k (lens_of s0) 0.

Lemma similar_from_complete : forall (s s0 : shape) d along, length s = length s0 ->
  names_of s = names_of s0 ->
  (forall k, (d + k)%nat <> along -> nth k (lens_of s) 0 = nth k (lens_of s0) 0) ->
  similar_from d along s s0 = true.
Proof.
  induction s as [|a s IH]; intros [|b s0] d along HL HN HK; cbn [length] in HL; try lia; [reflexivity|].
  cbn [names_of map] in HN. injection HN as Hn HN'. cbn [similar_from].
  rewrite (IH s0 (S d) along ltac:(lia) HN').
  2:{ intros k Hk. apply (HK (S k)). lia. }
  rewrite andb_true_r. destruct (Nat.eqb_spec d along) as [E|E].
  - apply Nat.eqb_eq. exact Hn.
  - rewrite (proj2 (Nat.eqb_eq _ _) Hn). cbn [andb]. apply N.eqb_eq.
    apply (HK 0%nat). lia.
Qed.

Lemma similar_from_iff along (s s0 : shape) : similar_from 0 along s s0 = true <-> similar along s s0.
Proof.
  split.
  - intros H. destruct (similar_from_spec _ _ _ _ H) as [A [B C]]. repeat split; auto.
  - intros [A [B C]]. apply similar_from_complete; auto.
Qed.

Theorem chain_ctor_panics_iff cs n :
  (chain_ctor cs n = Panic <->
     cs = [] \/ first_shape cs = [] \/ ~ In n (names_of (first_shape cs)) \/
     exists along, position_of (first_shape cs) n = Some along /\
       (Exists (fun c => ~ similar along (c_shape c) (first_shape cs)) cs \/
        ((1 < length cs)%nat /\
         usize_max < sum (map (fun c => len_at (c_shape c) along) cs)))) /\
  (forall e, chain_ctor cs n <> Err e) /\
  (forall c', chain_ctor cs n = Ok c' ->
     exists along, position_of (first_shape cs) n = Some along /\ c' = CChain cs along /\
       ((1 < length cs)%nat -> sum (map (fun c => len_at (c_shape c) along) cs) <= usize_max)).
Proof.
  unfold chain_ctor, chain_ctor_gen. destruct cs as [|c0 r].
  { split; [split; auto|]. split; discriminate. }
  change (first_shape (c0 :: r)) with (c_shape c0).
  destruct (c_shape c0) as [|d0 sh0] eqn:Esh.
  { split; [split; auto|]. split; discriminate. }
  rewrite <- Esh. unfold position_of.
  pose proof (index_of_None n (names_of (c_shape c0))) as Hnone.
  destruct (index_of n (names_of (c_shape c0))) as [along|] eqn:Ep.
  2:{ split; [split; [intros _; right; right; left; apply Hnone; reflexivity|reflexivity]|]. split; discriminate. }
  assert (Hin : In n (names_of (c_shape c0))).
  { destruct (in_dec Nat.eq_dec n (names_of (c_shape c0))) as [H|H]; [exact H|].
    apply Hnone in H. discriminate. }
  assert (Hx : shapes_similar (map c_shape (c0 :: r)) along = false <->
               Exists (fun c => ~ similar along (c_shape c) (c_shape c0)) (c0 :: r)).
  { cbn [map shapes_similar]. rewrite forallb_false_Exists, Exists_cons, Exists_map.
    split.
    - intros H. right. eapply Exists_impl; [|exact H]. cbn beta. intros a Ha Hs.
      apply similar_from_iff in Hs. congruence.
    - intros [H|H].
      + exfalso. apply H. apply similar_from_iff. apply similar_from_refl.
      + eapply Exists_impl; [|exact H]. cbn beta. intros a Ha.
        destruct (similar_from 0 along (c_shape a) (c_shape c0)) eqn:E; [|reflexivity].
        apply similar_from_iff in E. contradiction. }
  pose proof (shapes_similar_checked_spec (c_shape c0) (map c_shape r) along) as Hc.
  change (c_shape c0 :: map c_shape r) with (map c_shape (c0 :: r)) in Hc.
  rewrite map_map in Hc.
  set (total := sum (map (fun c => len_at (c_shape c) along) (c0 :: r))) in *.
  destruct (shapes_similar_checked (map c_shape (c0 :: r)) along); cbn [negb].
  - destruct (proj1 Hc eq_refl) as [Hs Ht]. split; [split; [discriminate|]|].
    + intros [H|[H|[H|[a [Ha [H|[Hl H]]]]]]]; [discriminate|congruence|contradiction| |].
      * injection Ha as <-. apply Hx in H. congruence.
      * injection Ha as <-. destruct Ht as [Ht|Ht]; [destruct r; [cbn [length] in Hl; lia|discriminate]|lia].
    + split; [discriminate|]. intros c' E. injection E as <-. exists along. split; [reflexivity|].
      split; [reflexivity|]. intros Hl. destruct Ht as [Ht|Ht]; [|exact Ht].
      destruct r; [cbn [length] in Hl; lia|discriminate].
  - split; [split; [|reflexivity]|]; [|split; discriminate].
    intros _. right. right. right. exists along. split; [reflexivity|].
    destruct (shapes_similar (map c_shape (c0 :: r)) along) eqn:Es.
    + right. destruct r as [|c1 r'].
      { exfalso. assert (false = true) by (apply Hc; split; [reflexivity|left; reflexivity]). discriminate. }
      split; [cbn [length]; lia|]. destruct (N.lt_ge_cases usize_max total) as [H|H]; [exact H|].
      exfalso. assert (false = true) by (apply Hc; split; [reflexivity|right; exact H]). discriminate.
    + left. apply Hx. reflexivity.
Qed.

(* ---- TensorRange / TensorMask ::from / from_strict / from_all / from_all_strict ---- *)
Lemma place_named_None (sh : shape) : forall named acc,
  place_named sh named acc = None <-> Exists (fun p => ~ In (fst p) (names_of sh)) named.
Proof.
  induction named as [|[n r] named IH]; intros acc; cbn [place_named].
  - split; [discriminate|]. intros H. inversion H.
  - rewrite Exists_cons. cbn [fst]. unfold position_of.
    pose proof (index_of_None n (names_of sh)) as Hn.
    destruct (index_of n (names_of sh)) as [d|].
    + rewrite IH. split; [auto|]. intros [H|H]; [|exact H]. apply Hn in H. discriminate.
    + split; [|reflexivity]. intros _. left. apply Hn. reflexivity.
Qed.

(* from_named_to_all: InvalidDimensions { provided, valid } exactly for repeated or unknown names *)
Theorem named_ranges_err_iff sh named :
  from_named_to_all sh named <> Panic /\
  ((exists e, from_named_to_all sh named = Err e) <->
     ~ NoDup (map fst named) \/ Exists (fun p => ~ In (fst p) (names_of sh)) named) /\
  (forall e, from_named_to_all sh named = Err e ->
     e = e_irv_dims (e_dims (map fst named) (names_of sh))).
Proof.
  unfold from_named_to_all. destruct (has_duplicates (map fst named)) eqn:Hd.
  { apply has_duplicates_true in Hd. split; [discriminate|]. split.
    - split; [auto|]. intros _. eexists. reflexivity.
    - intros e E. injection E as <-. reflexivity. }
  apply has_duplicates_false in Hd.
  pose proof (place_named_None sh named (repeat None (length sh))) as Hp.
  destruct (place_named sh named _) as [all|].
  - split; [discriminate|]. split; [|discriminate]. split; [intros [e E]; discriminate|].
    intros [H|H]; [contradiction|]. apply Hp in H. discriminate.
  - split; [discriminate|]. split.
    + split; [intros _; right; apply Hp; reflexivity|]. intros _. eexists. reflexivity.
    + intros e E. injection E as <-. reflexivity.
Qed.

Lemma map_err_Panic {A} f (o : outcome A) : map_err f o = Panic <-> o = Panic.
Proof. destruct o; cbn; split; congruence. Qed.

(* the four range / mask constructors never panic (an array argument of the wrong length is a
   compile-time error) *)
Theorem ranged_ctor_panics_iff clip_from c p :
  clip_from = range_clip_from \/ clip_from = mask_clip_from ->
  (ranged_ctor clip_from c p = Panic <->
   match p with PAll _ rs => length rs <> length (c_shape c) | PNamed _ _ => False end).
Proof.
  intros Hcf.
  assert (Hnp : forall c0 rs, clip_from c0 rs <> Panic).
  { intros c0 rs. destruct Hcf as [-> | ->]; unfold range_clip_from, mask_clip_from;
      destruct (valid_shape_b _); discriminate. }
  destruct p as [strict named|strict rs]; unfold ranged_ctor.
  - destruct (named_ranges_err_iff (c_shape c) named) as [Hn _].
    destruct strict; destruct (from_named_to_all (c_shape c) named) as [all| |]; cbn [map_err obind];
      try contradiction; split; try discriminate; try tauto.
    + destruct (range_exceeds_bounds (c_shape c) all); [discriminate|].
      rewrite map_err_Panic. apply Hnp.
    + rewrite map_err_Panic. apply Hnp.
  - destruct (Nat.eqb_spec (length rs) (length (c_shape c))) as [E|E]; cbn [negb].
    + destruct strict.
      * destruct (range_exceeds_bounds (c_shape c) rs); [split; [discriminate|contradiction]|].
        rewrite map_err_Panic. split; [intros H; exfalso; exact (Hnp _ _ H)|contradiction].
      * split; [intros H; exfalso; exact (Hnp _ _ H)|contradiction].
    + destruct strict; split; auto.
Qed.

(* ================= (2) shape rules and index mappings ================= *)

(* ---- IndexRange::clip: what a clipped range still covers ---- *)
Theorem clip_spec r l : l <= usize_max ->
  forall i, i < r_len (r_clip r l) <-> i < r_len r /\ r_start r + i < l.
Proof.
  intros Hl i. unfold r_clip, sat_add. cbn [r_len r_start].
  assert (usize_max = 18446744073709551615) by reflexivity. lia.
Qed.

(* ---- shapes of range / mask / rename: names and lengths, pointwise ---- *)
Theorem range_mask_rename_shape_spec c :
  (forall rs, length rs = length (c_shape c) ->
     names_of (c_shape (CRange c rs)) = names_of (c_shape c) /\
     lens_of (c_shape (CRange c rs)) = map r_len rs) /\
  (forall ms, length ms = length (c_shape c) ->
     names_of (c_shape (CMask c ms)) = names_of (c_shape c) /\
     lens_of (c_shape (CMask c ms)) = zipwith (fun d m => snd d - r_len m) (c_shape c) ms) /\
  (forall ns, length ns = length (c_shape c) ->
     names_of (c_shape (CRename c ns)) = ns /\
     lens_of (c_shape (CRename c ns)) = lens_of (c_shape c)).
Proof.
  cbn [c_shape]. repeat split.
  - apply names_zipwith_fst. exact H.
  - apply lens_range_shape. exact H.
  - apply (names_zipwith_fst (fun d m => snd d - r_len m)). exact H.
  - apply lens_mask_shape. exact H.
  - apply lens_rename_shape. exact H.
  - apply lens_rename_shape. exact H.
Qed.

(* ---- selection: the shape keeps the unfixed dimensions, the source index has the fixed
   coordinates spliced in ---- *)
Fixpoint count_none (pr : list (option N)) : nat :=
  match pr with [] => 0 | None :: r => S (count_none r) | Some _ :: r => count_none r end.

(* coordinate d of the source index: the fixed index if dimension d is fixed, otherwise the supplied
   coordinate number (how many unfixed dimensions precede d) *)
Definition select_spec (pr : list (option N)) (idx : list N) (d : nat) : N :=
  match nth d pr None with
  | Some i => i
  | None => nth (count_none (firstn d pr)) idx 0
  end.

Theorem select_idx_spec : forall pr idx j, select_idx pr idx = Some j ->
  length j = length pr /\ forall d, (d < length pr)%nat -> nth d j 0 = select_spec pr idx d.
Proof.
  induction pr as [|[i|] pr IH]; intros idx j E; cbn [select_idx] in E.
  - injection E as <-. split; [reflexivity|]. intros d Hd. cbn in Hd. lia.
  - destruct (select_idx pr idx) as [j'|] eqn:E'; cbn [option_map] in E; [|discriminate].
    injection E as <-. destruct (IH idx j' E') as [L H]. split; [cbn [length]; lia|].
    intros [|d] Hd; [reflexivity|]. cbn [length] in Hd. cbn [nth]. rewrite H by lia. reflexivity.
  - destruct idx as [|s sup]; [discriminate|].
    destruct (select_idx pr sup) as [j'|] eqn:E'; cbn [option_map] in E; [|discriminate].
    injection E as <-. destruct (IH sup j' E') as [L H]. split; [cbn [length]; lia|].
    intros [|d] Hd; [reflexivity|]. cbn [length] in Hd. cbn [nth]. rewrite H by lia.
    unfold select_spec. cbn [nth firstn count_none]. reflexivity.
Qed.

Theorem unprovided_spec : forall (sh : shape) pr, length pr = length sh ->
  unprovided sh pr = map fst (filter (fun p => is_none (snd p)) (combine sh pr)).
Proof.
  induction sh as [|d sh IH]; intros [|[i|] pr] H; cbn [length] in H; try lia; try reflexivity;
    cbn [unprovided combine filter snd is_none map fst]; [|f_equal]; apply IH; lia.
Qed.

(* ---- stack: the new dimension is inserted at position `along`; its coordinate picks the source
   and is deleted from the index ---- *)
Theorem stack_shape_spec x : forall (sh : shape) d along, (d <= along <= d + length sh)%nat ->
  stack_shape (S (length sh)) d sh along x = firstn (along - d) sh ++ x :: skipn (along - d) sh.
Proof.
  induction sh as [|e sh IH]; intros d along H; cbn [length] in H.
  - assert (along = d) by lia. subst. cbn [stack_shape length]. rewrite Nat.eqb_refl, Nat.sub_diag. reflexivity.
  - rewrite (stack_shape_S (S (length sh))). destruct (Nat.eqb_spec d along) as [E|E].
    + subst along. rewrite Nat.sub_diag. cbn [firstn skipn app].
      destruct (stack_passed (e :: sh) (S d) d x [] ltac:(lia)) as [A _]. cbn [length] in A. rewrite A. reflexivity.
    + rewrite IH by lia. replace (along - d)%nat with (S (along - S d)) by lia. reflexivity.
Qed.

Theorem remove_at_spec along : forall (idx : list N) d, (d <= along)%nat ->
  remove_at d along idx = firstn (along - d) idx ++ skipn (S (along - d)) idx.
Proof.
  induction idx as [|x r IH]; intros d H; cbn [remove_at].
  - rewrite firstn_nil. reflexivity.
  - destruct (Nat.eqb_spec d along) as [E|E].
    + subst along. rewrite Nat.sub_diag. cbn [firstn skipn app].
      destruct (stack_passed [] (S d) d (0%nat, 0) r ltac:(lia)) as [_ B]. exact B.
    + rewrite IH by lia. replace (along - d)%nat with (S (along - S d)) by lia. reflexivity.
Qed.

(* ---- chain: names and all other lengths are the first source's; the chained dimension has the
   sum of the sources' lengths; an index at or beyond that sum is absent ---- *)
Theorem chain_shape_spec cs along : (along < length (first_shape cs))%nat ->
  let lens := map (fun c0 => len_at (c_shape c0) along) cs in
  names_of (c_shape (CChain cs along)) = names_of (first_shape cs) /\
  length (c_shape (CChain cs along)) = length (first_shape cs) /\
  forall d, nth d (lens_of (c_shape (CChain cs along))) 0 =
            if Nat.eqb d along then sum lens else nth d (lens_of (first_shape cs)) 0.
Proof.
  intros Hal lens. cbn [c_shape]. fold (first_shape cs). rewrite map_map. fold lens.
  split; [apply names_list_upd|]. split; [apply list_upd_length|]. intros d. rewrite lens_list_upd.
  destruct (Nat.eqb_spec d along) as [->|E].
  - apply list_upd_nth_same. rewrite lens_of_length. exact Hal.
  - apply list_upd_nth_other. exact E.
Qed.

Theorem chain_beyond_absent cs along idx :
  sum (map (fun c0 => len_at (c_shape c0) along) cs) <= nth along idx 0 ->
  c_get (CChain cs along) idx = None.
Proof.
  intros H. rewrite c_get_chain. set (lens := map _ cs) in *.
  pose proof (chain_find_spec lens (nth along idx 0) 0) as Hf.
  destruct (chain_find lens (nth along idx 0) 0) as [[k i']|]; [|reflexivity].
  exfalso. destruct Hf as [Hk [Hi Hs]]. rewrite Nat.sub_0_r in *.
  pose proof (sum_firstn_lt lens k ltac:(lia)). lia.
Qed.

(* ---- expansion: before source dimension i (and after the last one, i = D) come the extra
   dimensions requested at position i, each of length 1; an index of the expansion maps to the
   source index obtained by deleting the (necessarily zero) coordinates of the extra dimensions ---- *)
Definition at_pos (i : nat) (ex : list (nat * name)) : list (nat * name) :=
  filter (fun e => Nat.eqb (fst e) i) ex.

Fixpoint spec_expand_shape (sh : shape) (i : nat) (ex : list (nat * name)) : shape :=
  map (fun e => (snd e, 1)) (at_pos i ex) ++
  match sh with [] => [] | d :: sh' => d :: spec_expand_shape sh' (S i) ex end.

(* the inverse of the index mapping: put a 0 at every extra dimension *)
Fixpoint insert_zeros (j : list N) (i : nat) (ex : list (nat * name)) : list N :=
  repeat 0 (length (at_pos i ex)) ++
  match j with [] => [] | x :: r => x :: insert_zeros r (S i) ex end.

Lemma ex_sorted_ge : forall ex lo hi, ex_sorted lo hi ex -> Forall (fun e => (lo <= fst e)%nat) ex.
Proof.
  induction ex as [|e r IH]; intros lo hi H; [constructor|]. destruct H as [Hb Hs]. constructor; [lia|].
  eapply Forall_impl; [|exact (IH _ _ Hs)]. cbn beta. intros a Ha. lia.
Qed.

Lemma at_pos_nil i ex : Forall (fun e => (i < fst e)%nat) ex -> at_pos i ex = [].
Proof.
  unfold at_pos. induction 1 as [|e r He _ IH]; [reflexivity|]. cbn [filter].
  destruct (Nat.eqb_spec (fst e) i); [lia|exact IH].
Qed.

Lemma at_pos_skip k p n ex : p <> k -> at_pos k ((p, n) :: ex) = at_pos k ex.
Proof. intros H. unfold at_pos. cbn [filter fst]. destruct (Nat.eqb_spec p k); [contradiction|reflexivity]. Qed.

Lemma spec_expand_shape_skip p n ex : forall (sh : shape) k, (p < k)%nat ->
  spec_expand_shape sh k ((p, n) :: ex) = spec_expand_shape sh k ex.
Proof.
  induction sh as [|d sh IH]; intros k H; cbn [spec_expand_shape]; rewrite at_pos_skip by lia; [reflexivity|].
  rewrite IH by lia. reflexivity.
Qed.

Lemma insert_zeros_skip p n ex : forall j k, (p < k)%nat ->
  insert_zeros j k ((p, n) :: ex) = insert_zeros j k ex.
Proof.
  induction j as [|x j IH]; intros k H; cbn [insert_zeros]; rewrite at_pos_skip by lia; [reflexivity|].
  rewrite IH by lia. reflexivity.
Qed.

Theorem expand_shape_spec : forall fuel (sh : shape) i ex hi,
  ex_sorted i hi ex -> (i + length sh = hi)%nat -> fuel = (length sh + length ex)%nat ->
  expand_shape fuel sh i ex = spec_expand_shape sh i ex.
Proof.
  induction fuel as [|f IH]; intros sh i ex hi Hs Hhi Hf.
  - destruct sh, ex; cbn [length] in Hf; try lia. reflexivity.
  - destruct ex as [|[j n] ex'].
    + destruct sh as [|d sh']; cbn [length] in *; try lia.
      cbn [expand_shape spec_expand_shape at_pos filter map app]. f_equal.
      apply (IH sh' (S i) [] hi I); cbn [length]; lia.
    + cbn [expand_shape]. destruct (Nat.eqb_spec j i) as [E|E].
      * subst j. destruct Hs as [Hb Hs]. cbn [fst] in *.
        rewrite (IH sh i ex' hi Hs Hhi) by (cbn [length] in Hf; lia).
        destruct sh as [|d sh']; cbn [spec_expand_shape]; unfold at_pos at 2; cbn [filter fst];
          rewrite Nat.eqb_refl; cbn [map app snd]; fold (at_pos i ex'); [reflexivity|].
        rewrite spec_expand_shape_skip by lia. reflexivity.
      * assert (Hlt : (i < j)%nat) by (destruct Hs as [Hb _]; cbn [fst] in Hb; lia).
        destruct sh as [|d sh']; cbn [length] in *.
        { destruct Hs as [Hb _]. cbn [fst] in Hb. lia. }
        rewrite (IH sh' (S i) ((j, n) :: ex') hi (ex_sorted_S _ _ _ _ _ Hs E)) by (cbn [length]; lia).
        cbn [spec_expand_shape]. rewrite at_pos_nil; [reflexivity|].
        eapply Forall_impl; [|exact (ex_sorted_ge _ _ _ (ex_sorted_S _ _ _ _ _ Hs E))]. cbn beta. intros a Ha. lia.
Qed.

Theorem expand_idx_spec : forall idx i ex hi D j,
  ex_sorted i hi ex -> (i + D = hi)%nat -> length idx = (D + length ex)%nat ->
  expand_idx idx i ex = Some j -> idx = insert_zeros j i ex /\ length j = D.
Proof.
  induction idx as [|index idx IH]; intros i ex hi D j Hs Hhi Hl E.
  - cbn [length] in Hl. destruct ex; cbn [length] in Hl; try lia. cbn [expand_idx] in E.
    injection E as <-. split; [reflexivity|cbn [length]; lia].
  - cbn [length] in Hl. destruct ex as [|[p n] ex']; cbn [expand_idx] in E.
    + destruct (expand_idx idx (S i) []) as [j'|] eqn:E'; cbn [option_map] in E; [|discriminate].
      injection E as <-. cbn [length] in Hl.
      destruct (IH (S i) [] hi (D - 1)%nat j' I ltac:(lia) ltac:(cbn [length]; lia) E') as [A B].
      split; [|cbn [length]; lia]. cbn [insert_zeros at_pos filter length repeat app]. f_equal. exact A.
    + destruct (Nat.eqb_spec p i) as [Ep|Ep].
      * subst p. destruct (N.eqb_spec index 0) as [Z|Z]; [|discriminate]. subst index.
        destruct Hs as [Hb Hs]. cbn [fst] in *.
        destruct (IH i ex' hi D j Hs Hhi ltac:(cbn [length] in Hl; lia) E) as [A B].
        split; [|exact B]. destruct j as [|x r]; cbn [insert_zeros] in *; unfold at_pos at 1; cbn [filter fst];
          rewrite Nat.eqb_refl; cbn [length repeat app]; fold (at_pos i ex'); f_equal; rewrite A at 1; [reflexivity|].
        rewrite insert_zeros_skip by lia. reflexivity.
      * assert (Hlt : (i < p)%nat) by (destruct Hs as [Hb _]; cbn [fst] in Hb; lia).
        assert (HD : (1 <= D)%nat) by (destruct Hs as [Hb _]; cbn [fst] in Hb; lia).
        destruct (expand_idx idx (S i) ((p, n) :: ex')) as [j'|] eqn:E'; cbn [option_map] in E; [|discriminate].
        injection E as <-.
        destruct (IH (S i) ((p, n) :: ex') hi (D - 1)%nat j' (ex_sorted_S _ _ _ _ _ Hs Ep) ltac:(lia)
                    ltac:(lia) E') as [A B].
        split; [|cbn [length]; lia]. cbn [insert_zeros]. rewrite at_pos_nil.
        -- cbn [length repeat app]. f_equal. exact A.
        -- eapply Forall_impl; [|exact (ex_sorted_ge _ _ _ (ex_sorted_S _ _ _ _ _ Hs Ep))]. cbn beta. intros a Ha. lia.
Qed.

(* ---- the same, at the level of views over ANY source view ---- *)
Theorem mapping_index c pr idx j : select_idx pr idx = Some j ->
  c_get (CIndex c pr) idx = c_get c j /\ length j = length pr /\
  forall d, (d < length pr)%nat -> nth d j 0 = select_spec pr idx d.
Proof.
  intros E. split; [cbn [c_get]; rewrite E; reflexivity|]. apply select_idx_spec. exact E.
Qed.

Theorem mapping_expand c ex idx : cwf (CExpand c ex) ->
  length idx = (length (c_shape c) + length ex)%nat ->
  c_shape (CExpand c ex) = spec_expand_shape (c_shape c) 0 ex /\
  match expand_idx idx 0 ex with
  | Some j => c_get (CExpand c ex) idx = c_get c j /\ idx = insert_zeros j 0 ex /\
              length j = length (c_shape c)
  | None => c_get (CExpand c ex) idx = None
  end.
Proof.
  cbn [cwf]. intros [_ [Hs _]] Hl. split.
  - cbn [c_shape]. apply (expand_shape_spec _ _ 0 ex (length (c_shape c)) Hs); lia.
  - cbn [c_get]. destruct (expand_idx idx 0 ex) as [j|] eqn:E; [|reflexivity].
    split; [reflexivity|]. apply (expand_idx_spec idx 0 ex (length (c_shape c)) (length (c_shape c)) j Hs); auto.
Qed.

Theorem stack_spec cs along n idx : (along <= length (first_shape cs))%nat ->
  c_shape (CStack cs along n) =
    firstn along (first_shape cs) ++ (n, N.of_nat (length cs)) :: skipn along (first_shape cs) /\
  remove_at 0 along idx = firstn along idx ++ skipn (S along) idx.
Proof.
  intros H. split.
  - cbn [c_shape]. fold (first_shape cs). rewrite stack_shape_spec by lia. rewrite Nat.sub_0_r. reflexivity.
  - rewrite remove_at_spec by lia. rewrite Nat.sub_0_r. reflexivity.
Qed.

(* ---- the stable sort keeps, for every position, the extras in the order the caller gave them:
   the shape of a freshly constructed expansion in terms of the RAW constructor argument ---- *)
Lemma at_pos_insert_sorted k x : forall l, at_pos k (insert_sorted x l) = at_pos k (x :: l).
Proof.
  induction l as [|y r IH]; cbn [insert_sorted]; [reflexivity|].
  destruct (Nat.leb_spec (fst x) (fst y)) as [H|H]; [reflexivity|].
  unfold at_pos in *. cbn [filter] in *. rewrite IH.
  destruct (Nat.eqb_spec (fst x) k), (Nat.eqb_spec (fst y) k); try reflexivity. lia.
Qed.

Lemma at_pos_stable_sort k : forall es, at_pos k (stable_sort es) = at_pos k es.
Proof.
  induction es as [|x es IH]; [reflexivity|]. cbn [stable_sort fold_right].
  fold (stable_sort es). rewrite at_pos_insert_sorted. unfold at_pos in *. cbn [filter]. rewrite IH. reflexivity.
Qed.

Lemma spec_expand_shape_sorted es : forall (sh : shape) i,
  spec_expand_shape sh i (stable_sort es) = spec_expand_shape sh i es.
Proof.
  induction sh as [|d sh IH]; intros i; cbn [spec_expand_shape]; rewrite at_pos_stable_sort; [reflexivity|].
  rewrite IH. reflexivity.
Qed.

Theorem expand_ctor_shape_spec c es c' : expand_ctor c es = Ok c' ->
  c_shape c' = spec_expand_shape (c_shape c) 0 es.
Proof.
  intros E. destruct (expand_ctor_panics_iff c es) as [[_ Hp] [_ Hok]].
  rewrite (Hok c' E). cbn [c_shape].
  assert (Hle : Forall (fun e => (fst e <= length (c_shape c))%nat) es).
  { apply Forall_forall. intros e He.
    destruct (Nat.le_gt_cases (fst e) (length (c_shape c))) as [H|H]; [exact H|]. exfalso.
    assert (expand_ctor c es = Panic) by (apply Hp; right; apply Exists_exists; exists e; auto).
    congruence. }
  rewrite (expand_shape_spec _ _ 0 (stable_sort es) (length (c_shape c))).
  - apply spec_expand_shape_sorted.
  - apply stable_sort_sorted. exact Hle.
  - lia.
  - rewrite (Permutation_length (stable_sort_perm es)). reflexivity.
Qed.
