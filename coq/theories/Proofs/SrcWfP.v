(* The TensorRef contract for every source term of Model/TSource.v, by induction on the term:
     src_wf s        the invariants the (successful) constructors establish on the stored fields
     ctor_*_wf       each constructor returning Ok establishes src_wf (given src_wf of its source)
     constructed s   s was built by the constructors of the case language (Tensor::from, then any
                     chain of TensorReverse / TensorRange / TensorMask / TensorAccess /
                     TensorTranspose / TensorRename ::from returning Ok)
     wf_contract     src_wf s -> the view shape is valid (unique names, non-zero lengths), its
                     element count fits a usize, and an index (of the right dimensionality) has
                     an element exactly when it lies inside the view shape
   hence `good_view s` (Proofs/C13P.v) for every constructed source. *)
From Coq Require Import List ZArith NArith Bool Arith Lia Permutation.
From EasyML Require Import Base.Sx Model.Shape Model.Tensor Model.TSource Model.ShapeIter
  Model.Transform Proofs.ShapeP Proofs.C01P Proofs.OdometerP Proofs.C09P Proofs.C13P Proofs.C13SymP.
Import ListNotations.
Open Scope N_scope.

(* ---------- list-level facts about the index maps ---------- *)

Lemma len_le_prod lens l : Forall (fun x => 0 < x) lens -> In l lens -> l <= prod lens.
Proof.
  induction 1 as [|x lens Hx Hrest IH]; intros Hin; [destruct Hin|].
  rewrite prod_cons. pose proof (prod_pos lens Hrest). destruct Hin as [->|Hin]; [nia|].
  specialize (IH Hin). nia.
Qed.

Lemma prod_le_mono l1 l2 : Forall2 N.le l1 l2 -> prod l1 <= prod l2.
Proof.
  induction 1 as [|x y l1 l2 Hxy _ IH]; [reflexivity|]. rewrite !prod_cons. nia.
Qed.

Lemma prod_perm l1 l2 : Permutation l1 l2 -> prod l1 = prod l2.
Proof.
  induction 1 as [|x l1 l2 _ IH|x y l|l1 l2 l3 _ IH1 _ IH2]; rewrite ?prod_cons; try lia; congruence.
Qed.

(* --- reverse --- *)
Lemma reverse_indexes_spec : forall idx (sh : shape) rev,
  length idx = length sh -> length rev = length sh -> Forall (fun l => 0 < l) (lens_of sh) ->
  length (reverse_indexes idx sh rev) = length sh /\
  (in_range (reverse_indexes idx sh rev) (lens_of sh) <-> in_range idx (lens_of sh)).
Proof.
  induction idx as [|i idx IH]; intros [|[n l] sh] [|r rev] Hi Hr Hp; cbn [length] in *; try lia.
  - cbn. tauto.
  - cbn [lens_of map snd] in Hp. inversion Hp as [|? ? Hl Hrest]; subst.
    destruct (IH sh rev ltac:(lia) ltac:(lia) Hrest) as [L E].
    cbn [reverse_indexes length lens_of map snd in_range]. change (map snd sh) with (lens_of sh).
    split; [lia|]. rewrite E.
    destruct r; [|tauto]. cbv zeta.
    destruct (N.ltb_spec (l - 1) i); split; intros [H1 H2]; split; auto; lia.
Qed.

(* --- range --- *)
Definition range_ok (d : name * N) (r : N * N) : Prop := 0 < snd r /\ fst r + snd r <= snd d.

Lemma range_shape_names (sh : shape) rg : length rg = length sh ->
  names_of (map (fun p : (name * N) * (N * N) => (fst (fst p), snd (snd p))) (combine sh rg)) = names_of sh.
Proof.
  revert rg; induction sh as [|d sh IH]; intros [|r rg] H; cbn [length] in H; try lia; [reflexivity|].
  cbn [combine map names_of fst]. f_equal. apply IH. lia.
Qed.

Lemma range_shape_lens (sh : shape) rg : length rg = length sh ->
  lens_of (map (fun p : (name * N) * (N * N) => (fst (fst p), snd (snd p))) (combine sh rg)) = map snd rg.
Proof.
  revert rg; induction sh as [|d sh IH]; intros [|r rg] H; cbn [length] in H; try lia; [reflexivity|].
  cbn [combine map lens_of snd]. f_equal. apply IH. lia.
Qed.

Lemma map_indexes_by_range_spec : forall idx (sh : shape) rg,
  length idx = length sh -> Forall2 range_ok sh rg ->
  match map_indexes_by_range idx rg with
  | Some m => in_range idx (map snd rg) /\ in_range m (lens_of sh) /\ length m = length sh
  | None => ~ in_range idx (map snd rg)
  end.
Proof.
  induction idx as [|i idx IH]; intros sh rg Hl F; inversion F as [|d r sh' rg' Hok F']; subst;
    cbn [length] in Hl; try lia.
  - cbn. auto.
  - specialize (IH sh' rg' ltac:(lia) F'). cbn [map_indexes_by_range map snd in_range].
    unfold range_map. destruct Hok as [Hpos Hle]. destruct d as [n l]. cbn [snd] in *.
    destruct (N.ltb_spec i (snd r)).
    + destruct (map_indexes_by_range idx rg') as [m|]; cbn [option_map].
      * destruct IH as [H1 [H2 H3]]. cbn [lens_of map snd in_range length].
        change (map snd sh') with (lens_of sh'). repeat split; auto; lia.
      * intros [_ H']. apply IH. exact H'.
    + intros [H' _]. lia.
Qed.

(* --- mask --- *)
Definition mask_ok (d : name * N) (r : N * N) : Prop :=
  snd r < snd d /\ (snd r = 0 \/ fst r + snd r <= snd d).

Lemma mask_shape_names (sh : shape) mk : length mk = length sh ->
  names_of (map (fun p : (name * N) * (N * N) => (fst (fst p), snd (fst p) - snd (snd p))) (combine sh mk))
  = names_of sh.
Proof.
  revert mk; induction sh as [|d sh IH]; intros [|r mk] H; cbn [length] in H; try lia; [reflexivity|].
  cbn [combine map names_of fst]. f_equal. apply IH. lia.
Qed.

Lemma map_indexes_by_mask_spec : forall idx (sh : shape) mk,
  length idx = length sh -> Forall2 mask_ok sh mk -> Forall (fun l => l <= usize_max) (lens_of sh) ->
  let sh' := map (fun p : (name * N) * (N * N) => (fst (fst p), snd (fst p) - snd (snd p))) (combine sh mk) in
  length (map_indexes_by_mask idx mk) = length sh /\
  (in_range (map_indexes_by_mask idx mk) (lens_of sh) <-> in_range idx (lens_of sh')).
Proof.
  induction idx as [|i idx IH]; intros sh mk Hl F Hu; inversion F as [|d r sh0 mk0 Hok F']; subst;
    cbn [length] in Hl; try lia; cbv zeta.
  - cbn. tauto.
  - cbn [lens_of map snd] in Hu. inversion Hu as [|? ? Hd Hrest]; subst.
    destruct (IH sh0 mk0 ltac:(lia) F' Hrest) as [L E]. cbv zeta in E.
    cbn [map_indexes_by_mask combine map lens_of snd fst length in_range].
    split; [lia|].
    change (map snd sh0) with (lens_of sh0). unfold lens_of in E. rewrite E.
    destruct d as [n l]. destruct r as [st ln]. destruct Hok as [H1 H2]. cbn [fst snd] in *.
    unfold range_mask. cbn [fst snd].
    destruct (N.ltb_spec i st); split; intros [A1 A2]; split; auto;
      destruct (N.min_spec (i + ln) usize_max) as [[? M]|[? M]]; try rewrite M in *; lia.
Qed.

Lemma mask_lens_le (sh : shape) mk : length mk = length sh ->
  Forall2 N.le (lens_of (map (fun p : (name * N) * (N * N) => (fst (fst p), snd (fst p) - snd (snd p)))
                              (combine sh mk))) (lens_of sh).
Proof.
  revert mk; induction sh as [|d sh IH]; intros [|r mk] H; cbn [length] in H; try lia; [constructor|].
  cbn [combine map lens_of snd fst]. constructor; [lia|]. apply IH. lia.
Qed.

(* --- rename --- *)
Lemma rename_shape_names (sh : shape) names : length names = length sh ->
  names_of (map (fun p : (name * N) * name => (snd p, snd (fst p))) (combine sh names)) = names.
Proof.
  revert names; induction sh as [|d sh IH]; intros [|x names] H; cbn [length] in H; try lia; [reflexivity|].
  cbn [combine map names_of fst snd]. f_equal. apply IH. lia.
Qed.

Lemma rename_shape_lens (sh : shape) names : length names = length sh ->
  lens_of (map (fun p : (name * N) * name => (snd p, snd (fst p))) (combine sh names)) = lens_of sh.
Proof.
  revert names; induction sh as [|d sh IH]; intros [|x names] H; cbn [length] in H; try lia; [reflexivity|].
  cbn [combine map lens_of fst snd]. f_equal. apply IH. lia.
Qed.

(* --- transpose: names of the source, lengths of the access --- *)
Lemma transpose_shape_names (sh sh' : shape) : length sh' = length sh ->
  names_of (map (fun p : (name * N) * (name * N) => (fst (fst p), snd (snd p))) (combine sh sh')) = names_of sh.
Proof.
  revert sh'; induction sh as [|d sh IH]; intros [|r sh'] H; cbn [length] in H; try lia; [reflexivity|].
  cbn [combine map names_of fst]. f_equal. apply IH. lia.
Qed.

Lemma transpose_shape_lens (sh sh' : shape) : length sh' = length sh ->
  lens_of (map (fun p : (name * N) * (name * N) => (fst (fst p), snd (snd p))) (combine sh sh')) = lens_of sh'.
Proof.
  revert sh'; induction sh as [|d sh IH]; intros [|r sh'] H; cbn [length] in H; try lia; [reflexivity|].
  cbn [combine map lens_of snd]. f_equal. apply IH. lia.
Qed.

(* --- access: the two tables are permutations of the positions --- *)
Section AccessTables.
Variables (src req : list name) (tbl : list (nat * nat)).
Hypothesis Hnd : NoDup src.
Hypothesis Hlen : length req = length src.
Hypothesis Hnew : dm_new src req = Some tbl.

Lemma r2s_perm : Permutation (dm_r2s tbl) (seq 0 (length src)).
Proof.
  pose proof (r2s_length src req tbl Hnew) as L.
  apply NoDup_Permutation_bis.
  - apply NoDup_nth with (d := 0%nat). rewrite L. intros i j Hi Hj E.
    destruct (tables_inverse src req tbl Hnd Hlen Hnew i Hi) as [_ Ii].
    destruct (tables_inverse src req tbl Hnd Hlen Hnew j Hj) as [_ Ij]. congruence.
  - rewrite seq_length, L. lia.
  - intros p Hp. destruct (In_nth _ _ 0%nat Hp) as [d [Hd <-]]. rewrite L in Hd.
    destruct (r2s_spec src req tbl Hnd Hlen Hnew d Hd) as [Hb _]. apply in_seq. lia.
Qed.

End AccessTables.

Section AccessShape.
Context {A : Type}.
Variable s : tsrc A.
Variable req : list name.
Variable tbl : list (nat * nat).
Hypothesis Hvalid : valid_shape (src_shape s).
Hypothesis Hlen : length req = length (src_shape s).
Hypothesis Hnew : dm_new (names_of (src_shape s)) req = Some tbl.

Let Hnd : NoDup (names_of (src_shape s)) := proj1 Hvalid.
Let HlenN : length req = length (names_of (src_shape s)).
Proof. unfold names_of. rewrite map_length. exact Hlen. Qed.

Lemma access_lens_perm :
  Permutation (lens_of (src_shape (TAccess s tbl))) (lens_of (src_shape s)).
Proof.
  cbn [src_shape]. rewrite lens_requested.
  pose proof (r2s_perm _ _ _ Hnd HlenN Hnew) as P.
  apply (Permutation_map (fun p => nth p (lens_of (src_shape s)) 0)) in P.
  replace (length (names_of (src_shape s))) with (length (lens_of (src_shape s))) in P
    by (unfold names_of, lens_of; rewrite !map_length; reflexivity).
  rewrite nth_seq_map in P. exact P.
Qed.

Lemma access_shape_valid : valid_shape (src_shape (TAccess s tbl)) /\
  elements (src_shape (TAccess s tbl)) = elements (src_shape s) /\
  length (src_shape (TAccess s tbl)) = length (src_shape s).
Proof.
  split; [split|split].
  - rewrite (access_names s req tbl Hnd Hlen Hnew).
    eapply Permutation_NoDup; [|exact Hnd]. apply dm_new_iff_perm; auto. rewrite Hnew. discriminate.
  - eapply Permutation_Forall; [apply Permutation_sym, access_lens_perm|]. apply Hvalid.
  - unfold elements. apply prod_perm, access_lens_perm.
  - cbn [src_shape]. unfold map_shape_to_requested. rewrite map_length.
    pose proof (r2s_length _ _ _ Hnew) as L. unfold names_of in L. rewrite map_length in L. exact L.
Qed.

(* an index is inside the access' shape exactly when the mapped index is inside the source's *)
Lemma m2s_in_range_iff idx : length idx = length (src_shape s) ->
  (in_range idx (lens_of (src_shape (TAccess s tbl))) <->
   in_range (map_dimensions_to_source tbl idx 0) (lens_of (src_shape s))).
Proof.
  intros Li. split; [apply (m2s_in_range s req tbl Hnd Hlen Hnew)|].
  intros Hr. destruct (tbl_lengths s req tbl Hnew) as [L1 L2].
  set (D := length (src_shape s)) in *.
  assert (Ll : length (lens_of (src_shape s)) = D) by (unfold lens_of; apply map_length).
  cbn [src_shape]. rewrite lens_requested.
  apply in_range_nth; [rewrite map_length; lia|].
  rewrite map_length, L2. intros d Hd.
  rewrite (nth_map_in _ _ _ _ 0%nat) by lia.
  assert (HdN : (d < length (names_of (src_shape s)))%nat) by (unfold names_of; rewrite map_length; exact Hd).
  destruct (r2s_spec _ _ _ Hnd HlenN Hnew d HdN) as [Hb _].
  unfold names_of in Hb. rewrite map_length in Hb. fold D in Hb.
  destruct (tables_inverse _ _ _ Hnd HlenN Hnew d HdN) as [_ Hinv].
  assert (Lm : length (map_dimensions_to_source tbl idx 0) = length (lens_of (src_shape s)))
    by (unfold map_dimensions_to_source; rewrite map_length; lia).
  pose proof (proj1 (in_range_nth _ _ Lm) Hr (nth d (dm_r2s tbl) 0%nat)) as Hk.
  rewrite Ll in Hk. specialize (Hk Hb).
  unfold map_dimensions_to_source in Hk. rewrite (nth_map_in _ _ _ _ 0%nat) in Hk by lia.
  rewrite Hinv in Hk. exact Hk.
Qed.

Lemma m2s_length idx : length (map_dimensions_to_source tbl idx 0) = length (src_shape s).
Proof.
  unfold map_dimensions_to_source. rewrite map_length. apply (tbl_lengths s req tbl Hnew).
Qed.

End AccessShape.

(* ---------- well-formed source terms and the contract ---------- *)
Section Contract.
Context {A : Type}.

Fixpoint src_wf (s : tsrc A) : Prop :=
  match s with
  | TBase t => tensor_inv t /\ elements (t_shape t) <= usize_max
  | TRev s' rev => src_wf s' /\ length rev = length (src_shape s')
  | TRange s' rg => src_wf s' /\ Forall2 range_ok (src_shape s') rg
  | TAccess s' tbl | TTranspose s' tbl =>
      src_wf s' /\ exists req, length req = length (src_shape s') /\
                               dm_new (names_of (src_shape s')) req = Some tbl
  | TMask s' mk => src_wf s' /\ Forall2 mask_ok (src_shape s') mk
  | TRename s' names => src_wf s' /\ length names = length (src_shape s') /\ NoDup names
  end.

Definition contract (s : tsrc A) : Prop :=
  valid_shape (src_shape s) /\ elements (src_shape s) <= usize_max /\
  forall idx, length idx = length (src_shape s) ->
    (in_range idx (lens_of (src_shape s)) <-> exists x, src_get s idx = Some x).

Lemma Forall2_length' {X Y} (R : X -> Y -> Prop) l1 l2 : Forall2 R l1 l2 -> length l2 = length l1.
Proof. induction 1; cbn [length]; lia. Qed.

Lemma lens_bounded (sh : shape) : valid_shape sh -> elements sh <= usize_max ->
  Forall (fun l => l <= usize_max) (lens_of sh).
Proof.
  intros [_ Hp] Hb. apply Forall_forall. intros l Hin.
  pose proof (len_le_prod _ l Hp Hin). unfold elements in Hb. lia.
Qed.

Theorem wf_contract (s : tsrc A) : src_wf s -> contract s.
Proof.
  induction s as [t|s IH rev|s IH rg|s IH tbl|s IH tbl|s IH mk|s IH names]; cbn [src_wf]; unfold contract.
  - (* Tensor *)
    intros [Hinv Hb]. pose proof Hinv as [Hv [Hs He]]. cbn [src_shape]. split; [exact Hv|]. split; [exact Hb|].
    intros idx Hl. cbn [src_shape src_get] in *. unfold t_get. rewrite Hs, get_index_direct_spec by exact Hl.
    rewrite <- in_range_b_spec. destruct (in_range_b idx (lens_of (t_shape t))) eqn:E.
    + split; [intros _|reflexivity]. apply nth_error_lt_Some.
      apply in_range_b_spec in E. pose proof (flat_lt _ _ E) as F. fold (elements (t_shape t)) in F. lia.
    + split; [discriminate|]. intros [x Hx]. discriminate.
  - (* Reverse *)
    intros [Hwf Hl]. destruct (IH Hwf) as [Hv [Hb Hp]]. cbn [src_shape src_get].
    split; [exact Hv|]. split; [exact Hb|]. intros idx Hi.
    destruct (reverse_indexes_spec idx (src_shape s) rev Hi Hl (proj2 Hv)) as [L E].
    rewrite <- E. apply Hp. exact L.
  - (* Range *)
    intros [Hwf F]. destruct (IH Hwf) as [Hv [Hb Hp]]. pose proof (Forall2_length' _ _ _ F) as Lr.
    cbn [src_shape src_get].
    assert (Hlens : lens_of (src_shape (TRange s rg)) = map snd rg) by (apply range_shape_lens; exact Lr).
    cbn [src_shape] in Hlens. split; [|split].
    + split; [rewrite range_shape_names by exact Lr; apply Hv|].
      rewrite Hlens. clear -F. induction F as [|d r sh rg' [H _] _ IHF]; cbn [map]; constructor; auto.
    + unfold elements. rewrite Hlens. eapply N.le_trans; [|exact Hb]. unfold elements.
      apply prod_le_mono. clear -F. induction F as [|d r sh rg' [_ H] _ IHF]; cbn [map lens_of]; constructor; auto.
      lia.
    + intros idx Hi. rewrite map_length, combine_length, Lr, Nat.min_id in Hi. rewrite Hlens.
      pose proof (map_indexes_by_range_spec idx (src_shape s) rg Hi F) as M.
      destruct (map_indexes_by_range idx rg) as [m|].
      * destruct M as [M1 [M2 M3]]. split; [intros _; apply Hp; auto|intros _; exact M1].
      * split; [intros H; contradiction|intros [x Hx]; discriminate].
  - (* Access *)
    intros [Hwf [req [Hlen Hnew]]]. destruct (IH Hwf) as [Hv [Hb Hp]].
    destruct (access_shape_valid s req tbl Hv Hlen Hnew) as [Hv' [He' Hl']].
    split; [exact Hv'|]. split; [rewrite He'; exact Hb|].
    intros idx Hi. rewrite Hl' in Hi. rewrite (m2s_in_range_iff s req tbl Hv Hlen Hnew idx Hi).
    cbn [src_get]. apply Hp. apply (m2s_length s req tbl Hnew).
  - (* Transpose *)
    intros [Hwf [req [Hlen Hnew]]]. destruct (IH Hwf) as [Hv [Hb Hp]].
    destruct (access_shape_valid s req tbl Hv Hlen Hnew) as [Hv' [He' Hl']].
    cbn [src_shape] in *.
    assert (Hlens : lens_of (src_shape (TTranspose s tbl)) = lens_of (src_shape (TAccess s tbl)))
      by (apply transpose_shape_lens; exact Hl').
    cbn [src_shape] in Hlens. split; [|split].
    + split; [rewrite transpose_shape_names by exact Hl'; apply Hv|rewrite Hlens; apply Hv'].
    + unfold elements in *. rewrite Hlens, He'. exact Hb.
    + intros idx Hi. rewrite map_length, combine_length, Hl', Nat.min_id in Hi. rewrite Hlens.
      pose proof (m2s_in_range_iff s req tbl Hv Hlen Hnew idx Hi) as M. cbn [src_shape] in M. rewrite M.
      cbn [src_get]. apply Hp. apply (m2s_length s req tbl Hnew).
  - (* Mask *)
    intros [Hwf F]. destruct (IH Hwf) as [Hv [Hb Hp]]. pose proof (Forall2_length' _ _ _ F) as Lm.
    cbn [src_shape src_get]. split; [|split].
    + split; [rewrite mask_shape_names by exact Lm; apply Hv|].
      clear -F. induction F as [|d r sh mk' [H _] _ IHF]; cbn [combine map lens_of snd fst]; constructor; auto.
      lia.
    + eapply N.le_trans; [|exact Hb]. unfold elements. apply prod_le_mono, mask_lens_le. exact Lm.
    + intros idx Hi. rewrite map_length, combine_length, Lm, Nat.min_id in Hi.
      destruct (map_indexes_by_mask_spec idx (src_shape s) mk Hi F (lens_bounded _ Hv Hb)) as [L E].
      cbv zeta in E. rewrite <- E. apply Hp. exact L.
  - (* Rename *)
    intros [Hwf [Hl Hnd]]. destruct (IH Hwf) as [Hv [Hb Hp]]. cbn [src_shape src_get].
    assert (Hlens : lens_of (src_shape (TRename s names)) = lens_of (src_shape s))
      by (apply rename_shape_lens; exact Hl).
    cbn [src_shape] in Hlens. split; [|split].
    + split; [rewrite rename_shape_names by exact Hl; exact Hnd|rewrite Hlens; apply Hv].
    + unfold elements in *. rewrite Hlens. exact Hb.
    + intros idx Hi. rewrite map_length, combine_length, Hl, Nat.min_id in Hi. rewrite Hlens. apply Hp. exact Hi.
Qed.

Corollary wf_good_view (s : tsrc A) : src_wf s -> good_view s.
Proof.
  intros Hwf. destruct (wf_contract s Hwf) as [Hv [Hb Hp]]. split; [exact Hv|]. split; [exact Hb|].
  intros idx Hr. apply Hp; [|exact Hr].
  pose proof (in_range_length _ _ Hr) as L. unfold lens_of in L. rewrite map_length in L. exact L.
Qed.

End Contract.

(* ---------- the constructors establish src_wf ---------- *)
Section Constructors.
Context {A : Type}.

Lemma tensor_from_wf sh (data : list A) t : tensor_from sh data = Ok t -> src_wf (TBase t).
Proof.
  intros H. apply from_agrees in H. pose proof (try_from_inv _ _ _ H) as [Hinv [Hsh _]].
  split; [exact Hinv|]. rewrite Hsh.
  apply (proj1 (ctor_validation sh data)). eauto.
Qed.

Lemma trev_from_wf (s s' : tsrc A) dims : src_wf s -> trev_from s dims = Ok s' -> src_wf s'.
Proof.
  intros Hwf. unfold trev_from. destruct (has_duplicates dims); [discriminate|].
  destruct (negb _); [discriminate|]. intros [= <-]. split; [exact Hwf|]. apply map_length.
Qed.

Lemma clip_facts r l : let r' := range_clip r l in
  fst r' = fst r /\ (0 < snd r' -> fst r' + snd r' <= l) /\ (snd r' = 0 \/ fst r' + snd r' <= l) /\ snd r' <= l.
Proof.
  unfold range_clip. cbn [fst snd]. repeat split; lia.
Qed.

Lemma trange_from_all_wf (s s' : tsrc A) ranges : src_wf s -> length ranges = length (src_shape s) ->
  trange_from_all s ranges = Ok s' -> src_wf s'.
Proof.
  intros Hwf Hl. unfold trange_from_all. cbv zeta.
  destruct (valid_shape_b _) eqn:V; [|discriminate]. intros [= <-]. split; [exact Hwf|].
  apply valid_shape_b_spec in V. destruct V as [_ Hpos]. clear Hwf.
  revert ranges Hl Hpos. induction (src_shape s) as [|[n l] sh IH]; intros [|r ranges] Hl Hpos;
    cbn [length] in Hl; try lia; [constructor|].
  cbn [combine map lens_of snd fst] in *. inversion Hpos as [|? ? H1 H2]; subst.
  constructor; [|apply IH; [lia|exact H2]].
  unfold range_ok, range_clip in *. cbn [fst snd] in *. split; lia.
Qed.

Lemma tmask_from_all_wf (s s' : tsrc A) masks : src_wf s -> length masks = length (src_shape s) ->
  tmask_from_all s masks = Ok s' -> src_wf s'.
Proof.
  intros Hwf Hl. unfold tmask_from_all. cbv zeta.
  destruct (valid_shape_b _) eqn:V; [|discriminate]. intros [= <-]. split; [exact Hwf|].
  apply valid_shape_b_spec in V. destruct V as [_ Hpos]. clear Hwf.
  revert masks Hl Hpos. induction (src_shape s) as [|[n l] sh IH]; intros [|r masks] Hl Hpos;
    cbn [length] in Hl; try lia; [constructor|].
  cbn [combine map lens_of snd fst] in *. inversion Hpos as [|? ? H1 H2]; subst.
  constructor; [|apply IH; [lia|exact H2]].
  unfold mask_ok, range_clip in *. cbn [fst snd] in *. split; lia.
Qed.

Lemma taccess_from_wf (s s' : tsrc A) dims : src_wf s -> length dims = length (src_shape s) ->
  taccess_from s dims = Ok s' -> src_wf s'.
Proof.
  intros Hwf Hl. unfold taccess_from. destruct (dm_new _ dims) as [tbl|] eqn:E; [|discriminate].
  intros [= <-]. split; [exact Hwf|]. eauto.
Qed.

Lemma ttranspose_from_wf (s s' : tsrc A) dims : src_wf s -> length dims = length (src_shape s) ->
  ttranspose_from s dims = Ok s' -> src_wf s'.
Proof.
  intros Hwf Hl. unfold ttranspose_from. destruct (dm_new _ dims) as [tbl|] eqn:E; [|discriminate].
  intros [= <-]. split; [exact Hwf|]. eauto.
Qed.

Lemma trename_from_wf (s s' : tsrc A) dims : src_wf s -> length dims = length (src_shape s) ->
  trename_from s dims = Ok s' -> src_wf s'.
Proof.
  intros Hwf Hl. unfold trename_from. destruct (has_duplicates dims) eqn:E; [discriminate|].
  intros [= <-]. split; [exact Hwf|]. split; [exact Hl|]. apply has_duplicates_false. exact E.
Qed.

(* every source the constructors can build *)
Inductive constructed : tsrc A -> Prop :=
| C_base sh data t : tensor_from sh data = Ok t -> constructed (TBase t)
| C_rev s dims s' : constructed s -> trev_from s dims = Ok s' -> constructed s'
| C_range s rg s' : constructed s -> length rg = length (src_shape s) ->
    trange_from_all s rg = Ok s' -> constructed s'
| C_mask s mk s' : constructed s -> length mk = length (src_shape s) ->
    tmask_from_all s mk = Ok s' -> constructed s'
| C_access s dims s' : constructed s -> length dims = length (src_shape s) ->
    taccess_from s dims = Ok s' -> constructed s'
| C_transpose s dims s' : constructed s -> length dims = length (src_shape s) ->
    ttranspose_from s dims = Ok s' -> constructed s'
| C_rename s dims s' : constructed s -> length dims = length (src_shape s) ->
    trename_from s dims = Ok s' -> constructed s'.

Theorem constructed_wf (s : tsrc A) : constructed s -> src_wf s.
Proof.
  induction 1; eauto using tensor_from_wf, trev_from_wf, trange_from_all_wf, tmask_from_all_wf,
    taccess_from_wf, ttranspose_from_wf, trename_from_wf.
Qed.

Theorem constructed_good_view (s : tsrc A) : constructed s -> good_view s.
Proof. intros H. apply wf_good_view, constructed_wf. exact H. Qed.

Theorem constructed_contract (s : tsrc A) : constructed s -> contract s.
Proof. intros H. apply wf_contract, constructed_wf. exact H. Qed.

End Constructors.

(* every source term the case language of RunC09 / RunC13 decodes successfully is constructed *)
Theorem dsrc_constructed : forall fuel sx s, dsrc fuel sx = Some (Ok s) -> constructed s.
Proof.
  induction fuel as [|f IH]; intros sx s H; [discriminate|]. cbn [dsrc] in H.
  repeat match type of H with
         | match ?x with _ => _ end = _ => destruct x eqn:?; try discriminate
         end;
    injection H as H;
    repeat match goal with
           | o : outcome (tsrc Z) |- _ => destruct o; cbn [obind omap] in H; try discriminate
           end;
    repeat match type of H with
           | (if Nat.eqb ?u ?v then _ else _) = _ => destruct (Nat.eqb_spec u v); try discriminate
           end.
  all: try (destruct (tensor_from _ _) eqn:Et; cbn [omap] in H; try discriminate; injection H as <-;
            eapply C_base; eassumption).
  all: match goal with E : dsrc _ _ = Some (Ok ?x) |- _ => pose proof (IH _ _ E) end.
  all: eauto using C_rev, C_range, C_mask, C_access, C_transpose, C_rename.
Qed.
