(* C08, QR (stdlib style, any dictionary): shapes of the factors, absence exactly when there are
   more columns than rows, and the list-level facts about mmul / householder / pad_h that the
   mathcomp half (C08P4.v) interprets as matrices. *)
From Coq Require Import List Arith Lia Bool.
From EasyML Require Import Base.Sx Model.Num Model.LinAlg Model.Decomp Proofs.C07P1.
Import ListNotations.

(* r rows of c entries *)
Definition wf2 {A} (r c : nat) (m : list (list A)) : Prop :=
  length m = r /\ Forall (fun row => length row = c) m.

Definition tab2 {A} (r c : nat) (f : nat -> nat -> A) : list (list A) :=
  map (fun i => map (fun j => f i j) (seq 0 c)) (seq 0 r).

Lemma wf2_tab2 {A} r c (f : nat -> nat -> A) : wf2 r c (tab2 r c f).
Proof.
  split; [unfold tab2; rewrite map_length, seq_length; reflexivity|].
  apply Forall_forall. intros row Hr. unfold tab2 in Hr. apply in_map_iff in Hr as [i [<- _]].
  rewrite map_length, seq_length. reflexivity.
Qed.

Lemma wf2_nth {A} r c (m : list (list A)) i : wf2 r c m -> i < r -> length (nth i m []) = c.
Proof.
  intros [Hl Hall] Hi. rewrite Forall_forall in Hall. apply Hall. apply nth_In. lia.
Qed.

Lemma wf2_mcols {A} r c (m : list (list A)) : wf2 r c m -> 1 <= r -> length (hd [] m) = c.
Proof.
  intros [Hl Hall] Hr. destruct m as [|row m]; [simpl in Hl; lia|]. cbn [hd]. exact (Forall_inv Hall).
Qed.

Section QRShapes.
Context {R : Type} (ops : numops R).
Notation rO := (nzero ops).
Notation mat := (@mat R).

Lemma mget_tab2 r c (f : nat -> nat -> R) i j : i < r -> j < c -> mget ops (tab2 r c f) i j = f i j.
Proof.
  intros Hi Hj. unfold mget, tab2.
  rewrite (nth_tabulate (fun i => map (fun j => f i j) (seq 0 c))) by exact Hi.
  apply nth_tabulate. exact Hj.
Qed.

(* the vectors u = x + a e and v = u / ||u|| of householder_matrix_tensor *)
Definition householder_u (x : list R) : list R :=
  let length := euclidean_length ops x in
  let a := if nltb ops rO (hd rO x) then length else nneg ops length in
  match x with [] => [] | x0 :: r => nadd ops x0 a :: r end.
Definition householder_v (x : list R) : list R :=
  let u := householder_u x in
  let length := euclidean_length ops u in map (fun element => ndiv ops element length) u.

Lemma length_householder_u x : length (householder_u x) = length x.
Proof. destruct x; reflexivity. Qed.
Lemma length_householder_v x : length (householder_v x) = length x.
Proof. unfold householder_v. rewrite map_length. apply length_householder_u. Qed.

Lemma nth_column (b : mat) j t : t < length b -> nth t (column ops b j) rO = mget ops b t j.
Proof.
  intros Ht. unfold column, mget.
  rewrite (nth_indep _ rO ((fun row => nth j row rO) [])) by (rewrite map_length; exact Ht).
  apply (map_nth (fun row => nth j row rO)).
Qed.
Lemma length_column (b : mat) j : length (column ops b j) = length b.
Proof. apply map_length. Qed.

Lemma householder_eq (x : list R) :
  householder ops x =
  tab2 (length x) (length x) (fun i j =>
    nsub ops (if Nat.eqb i j then none_ ops else rO)
             (nmul ops (nmul ops (nth i (householder_v x) rO) (nth j (householder_v x) rO)) (two ops))).
Proof. reflexivity. Qed.

Lemma wf2_householder (x : list R) : wf2 (length x) (length x) (householder ops x).
Proof. rewrite householder_eq. apply wf2_tab2. Qed.

Lemma mget_householder (x : list R) i j : i < length x -> j < length x ->
  mget ops (householder ops x) i j =
    nsub ops (if Nat.eqb i j then none_ ops else rO)
             (nmul ops (nmul ops (nth i (householder_v x) rO) (nth j (householder_v x) rO)) (two ops)).
Proof. intros Hi Hj. rewrite householder_eq. apply mget_tab2; assumption. Qed.

Lemma mget_pad_h h c rows i j : i < rows -> j < rows ->
  mget ops (pad_h ops h c rows) i j =
    if Nat.leb c i && Nat.leb c j then mget ops h (i - c) (j - c)
    else if Nat.eqb i j then none_ ops else rO.
Proof. intros Hi Hj. apply (mget_tab2 rows rows); assumption. Qed.

Lemma mget_identity n i j : i < n -> j < n ->
  mget ops (identity ops n) i j = if Nat.eqb i j then none_ ops else rO.
Proof. intros Hi Hj. apply (mget_tab2 n n); assumption. Qed.

Lemma wf2_pad_h h c rows : wf2 rows rows (pad_h ops h c rows).
Proof. apply (wf2_tab2 rows rows). Qed.

Lemma wf2_identity n : wf2 n n (identity ops n).
Proof. apply (wf2_tab2 n n). Qed.

Lemma wf2_mmul r k c (a b : mat) : wf2 r k a -> wf2 k c b -> 1 <= k -> wf2 r c (mmul ops a b).
Proof.
  intros [Hla Ha] Hb Hk. unfold mmul, mcols. rewrite (wf2_mcols k c b Hb Hk). split.
  - rewrite map_length. exact Hla.
  - apply Forall_forall. intros row Hr. apply in_map_iff in Hr as [r0 [<- _]].
    rewrite map_length, seq_length. reflexivity.
Qed.

Lemma mget_mmul r k c (a b : mat) i j : wf2 r k a -> wf2 k c b -> 1 <= k -> i < r -> j < c ->
  mget ops (mmul ops a b) i j = scalar_product ops (nth i a []) (column ops b j).
Proof.
  intros [Hla Ha] Hb Hk Hi Hj. unfold mget, mmul, mcols. rewrite (wf2_mcols k c b Hb Hk).
  rewrite (nth_indep _ [] ((fun row => map (fun j => scalar_product ops row (column ops b j)) (seq 0 c)) []))
    by (rewrite map_length; lia).
  rewrite (map_nth (fun row => map (fun j => scalar_product ops row (column ops b j)) (seq 0 c)) a [] i).
  apply (nth_tabulate (fun j => scalar_product ops (nth i a []) (column ops b j))). exact Hj.
Qed.

Lemma qr_loop_wf rows cols : 1 <= rows -> forall cs q r,
  wf2 rows cols r -> (forall q0, q = Some q0 -> wf2 rows rows q0) ->
  wf2 rows cols (snd (qr_loop ops rows cs q r)) /\
  (forall q1, fst (qr_loop ops rows cs q r) = Some q1 -> wf2 rows rows q1).
Proof.
  intros Hrows. induction cs as [|c cs IH]; intros q r Hr Hq; cbn [qr_loop fst snd]; [split; assumption|].
  apply IH.
  - apply (wf2_mmul rows rows cols); [apply wf2_pad_h|exact Hr|exact Hrows].
  - intros q0 Hq0. destruct q as [hp|]; injection Hq0 as <-.
    + apply (wf2_mmul rows rows rows); [apply Hq; reflexivity|apply wf2_pad_h|exact Hrows].
    + apply wf2_pad_h.
Qed.

(* absent exactly when there are more columns than rows; otherwise Q is rows x rows and R is
   rows x columns (for well-formed rows x columns content, rows >= 1) *)
Theorem qr_absent_iff (m : mat) : qr ops m = None <-> mrows m < mcols m.
Proof.
  unfold qr. destruct (Nat.ltb_spec (mrows m) (mcols m)); split; intros; try discriminate; auto; lia.
Qed.

Theorem qr_shapes rows cols (m q r : mat) : wf2 rows cols m -> 1 <= rows ->
  qr ops m = Some (q, r) -> cols <= rows /\ wf2 rows rows q /\ wf2 rows cols r.
Proof.
  intros Hm Hrows. unfold qr. pose proof (wf2_mcols rows cols m Hm Hrows) as Hc.
  destruct Hm as [Hl Hall]. unfold mrows, mcols. rewrite Hl, Hc.
  destruct (Nat.ltb_spec rows cols) as [Hlt|Hge]; [discriminate|]. intros Hqr. injection Hqr as <- <-.
  destruct (qr_loop_wf rows cols Hrows (seq 0 (Nat.min (rows - 1) cols)) None m (conj Hl Hall))
    as [Hr Hq]; [discriminate|].
  split; [lia|]. split; [|exact Hr].
  destruct (fst (qr_loop ops rows (seq 0 (Nat.min (rows - 1) cols)) None m)) as [q1|] eqn:Eq.
  - apply Hq. exact Eq.
  - apply wf2_identity.
Qed.

(* 1 x 1 and, generally, inputs needing no reflection: Q = identity, R = the input *)
Theorem qr_1x1 (x : R) : qr ops [[x]] = Some ([[none_ ops]], [[x]]).
Proof. reflexivity. Qed.
End QRShapes.
