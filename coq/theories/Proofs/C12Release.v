(* C12: Matrix::partition in a build without overflow checks (release profile) behaves exactly
   like the checked build modelled by `partition`: where the checked build panics on the
   subtraction, the wrapped difference is so large that split_at_mut (columns) or
   Vec::with_capacity (rows) panics instead, and nothing is returned.  Needs only that the
   matrix is one that can exist: its storage has at most isize::MAX elements and it has fewer
   than 2^59 rows.  Also: data_layout of a stack of views. *)
From Coq Require Import List ZArith NArith Bool Arith Lia Sorted.
From EasyML Require Import Base.Sx Model.Shape Model.MatrixViews Proofs.C12P Proofs.C12Partition.
Import ListNotations.
Local Open Scope N_scope.

Lemma check_axis_from_bound l : forall prev len, check_axis_from prev l len = true -> Forall (fun x => x <= len) l.
Proof.
  induction l as [|x l IH]; intros prev len H; [constructor|]. cbn [check_axis_from] in H.
  destruct (x <=? len) eqn:E; [|discriminate]. apply N.leb_le in E. constructor; [exact E|].
  destruct prev as [i|]; [destruct (i <? x); [|discriminate]|]; eapply IH; exact H.
Qed.

Lemma check_axis_bound l len : check_axis l len = true -> Forall (fun x => x <= len) (l ++ [len]).
Proof.
  intros H. apply Forall_app. split; [eapply check_axis_from_bound; exact H|]. constructor; [lia|constructor].
Qed.

Lemma split_row_remaining bounds : forall index cursor remaining l c r,
  split_row bounds index cursor remaining = Some (l, (c, r)) -> r <= remaining.
Proof.
  induction bounds as [|b rest IH]; intros index cursor remaining l c r H; cbn [split_row] in H.
  - injection H as _ _ <-. lia.
  - destruct (b <? index); [discriminate|]. destruct (remaining <? b - index) eqn:E; [discriminate|].
    apply N.ltb_ge in E.
    destruct (split_row rest b (cursor + (b - index)) (remaining - (b - index))) as [[l' [c' r']]|] eqn:Er; [|discriminate].
    injection H as _ _ <-. apply IH in Er. lia.
Qed.

Lemma split_row_release_eq bounds : forall index cursor remaining len R,
  Forall (fun x => x <= len) bounds -> index <= len -> remaining <= R -> len + R <= usize_max ->
  split_row_release bounds index cursor remaining = split_row bounds index cursor remaining.
Proof.
  induction bounds as [|b rest IH]; intros index cursor remaining len R Hb Hi Hr Hlen; [reflexivity|].
  inversion Hb as [|? ? Hb1 Hb2]; subst. cbn [split_row_release split_row]. unfold wrapping_sub.
  destruct (N.ltb_spec b index) as [Hlt|Hge].
  - replace (index <=? b) with false by (symmetry; apply N.leb_gt; lia).
    replace (remaining <? b + (usize_max + 1) - index) with true by (symmetry; apply N.ltb_lt; lia).
    reflexivity.
  - replace (index <=? b) with true by (symmetry; apply N.leb_le; lia).
    destruct (remaining <? b - index); [reflexivity|].
    rewrite (IH b _ _ len R Hb2 Hb1) by lia. reflexivity.
Qed.

Lemma split_band_release_eq bounds n : forall cursor remaining len R,
  Forall (fun x => x <= len) bounds -> remaining <= R -> len + R <= usize_max ->
  split_band_release n bounds cursor remaining = split_band n bounds cursor remaining.
Proof.
  induction n as [|n IH]; intros cursor remaining len R Hb Hr Hlen; [reflexivity|].
  cbn [split_band_release split_band]. rewrite (split_row_release_eq bounds 0 cursor remaining len R) by (auto; lia).
  destruct (split_row bounds 0 cursor remaining) as [[row [c' r']]|] eqn:E; [|reflexivity].
  apply split_row_remaining in E. rewrite (IH c' r' len R) by (auto; lia). reflexivity.
Qed.

Lemma split_band_remaining n bounds : forall cursor remaining l c r,
  split_band n bounds cursor remaining = Some (l, (c, r)) -> r <= remaining.
Proof.
  induction n as [|n IH]; intros cursor remaining l c r H; cbn [split_band] in H.
  - injection H as _ _ <-. lia.
  - destruct (split_row bounds 0 cursor remaining) as [[row [c' r']]|] eqn:E; [|discriminate].
    destruct (split_band n bounds c' r') as [[l' [c'' r'']]|] eqn:E2; [|discriminate].
    injection H as _ _ <-. apply split_row_remaining in E. apply IH in E2. lia.
Qed.

Lemma split_bands_release_eq cb rb : forall index cursor remaining rows cols R,
  Forall (fun x => x <= rows) rb -> Forall (fun x => x <= cols) cb -> index <= rows ->
  rows <= part_rows_capacity_max -> remaining <= R -> cols + R <= usize_max ->
  split_bands_release rb cb index cursor remaining = split_bands rb cb index cursor remaining.
Proof.
  induction rb as [|b rest IH]; intros index cursor remaining rows cols R Hrb Hcb Hi Hrows Hr Hlen; [reflexivity|].
  inversion Hrb as [|? ? Hb1 Hb2]; subst. cbn [split_bands_release split_bands]. unfold wrapping_sub.
  destruct (N.ltb_spec b index) as [Hlt|Hge].
  - replace (index <=? b) with false by (symmetry; apply N.leb_gt; lia).
    replace (part_rows_capacity_max <? b + (usize_max + 1) - index) with true; [reflexivity|].
    symmetry; apply N.ltb_lt. unfold part_rows_capacity_max, usize_max in *. lia.
  - replace (index <=? b) with true by (symmetry; apply N.leb_le; lia).
    replace (part_rows_capacity_max <? b - index) with false by (symmetry; apply N.ltb_ge; lia).
    rewrite (split_band_release_eq cb _ cursor remaining cols R) by (auto; lia).
    destruct (split_band (N.to_nat (b - index)) cb cursor remaining) as [[band [c' r']]|] eqn:E; [|reflexivity].
    apply split_band_remaining in E.
    rewrite (IH b c' r' rows cols R) by (auto; lia). reflexivity.
Qed.

(* THE TWO BUILD PROFILES AGREE on every matrix that can exist *)
Theorem partition_release_eq rows cols rp cp : 1 <= rows ->
  rows * cols <= isize_max_bytes -> rows <= part_rows_capacity_max ->
  partition_release rows cols rp cp = partition rows cols rp cp.
Proof.
  intros H1 Hsize Hrows. unfold partition_release, partition.
  destruct (check_axis rp rows) eqn:Er; [|reflexivity].
  destruct (check_axis cp cols) eqn:Ec; [|reflexivity].
  rewrite (split_bands_release_eq _ _ 0 0 (rows * cols) rows cols (rows * cols)); auto.
  - apply check_axis_bound; exact Er.
  - apply check_axis_bound; exact Ec.
  - lia.
  - lia.
  - unfold isize_max_bytes, usize_max in *. nia.
Qed.

Theorem partition_release_accepts_rejects rows cols rp cp : 1 <= rows ->
  rows * cols <= isize_max_bytes -> rows <= part_rows_capacity_max ->
  (StronglySorted N.lt rp -> Forall (fun x => x <= rows) rp ->
   StronglySorted N.lt cp -> Forall (fun x => x <= cols) cp ->
   partition_release rows cols rp cp = Ok (grid_parts rows cols rp cp)) /\
  (bad_list rows rp \/ bad_list cols cp -> partition_release rows cols rp cp = Panic).
Proof.
  intros H1 H2 H3. rewrite (partition_release_eq rows cols rp cp H1 H2 H3). split.
  - exact (partition_accepts rows cols rp cp H1).
  - exact (partition_rejects rows cols rp cp H1).
Qed.

(* ---------- data_layout ---------- *)
(* a stack without a reversal over a matrix or a part is RowMajor; with a reversal anywhere on
   the way down to the first tensor-rooted leaf it is Other *)
Fixpoint has_reverse (v : mview) : bool :=
  match v with
  | VMatrix _ _ | VPart _ | VOverTensor _ => false
  | VRange _ _ s | VMap s | VViaTensor _ _ s => has_reverse s
  | VReverse _ _ _ => true
  end.

Fixpoint bottom (v : mview) : mview :=
  match v with
  | VRange _ _ s | VMap s | VViaTensor _ _ s => bottom s
  | other => other
  end.

Theorem data_layout_spec v :
  data_layout v =
  match bottom v with
  | VReverse _ _ _ => LOther
  | VOverTensor c => layout_of_tensor c
  | _ => LRowMajor
  end.
Proof. induction v; cbn [data_layout bottom]; auto. Qed.

(* the hint through `&S` / `&mut S` coincides with the view's own hint exactly when that is RowMajor *)
Theorem data_layout_reference_agrees_iff v :
  data_layout_through_reference v = data_layout v <-> data_layout v = LRowMajor.
Proof. unfold data_layout_through_reference. split; congruence. Qed.
