(* C04 — analytic half, ALL integer powers: the dictionary `Rops_z` is Coq's real numbers with the
   power function `zpow` that f64 `powf` approximates:
     zpow x y = powerRZ x z  when y is the integer z  (x^n for z = n >= 0, 1 / x^n for z = -n < 0),
                              at ANY base - negative and zero included -, and
     zpow x y = Rpower x y = exp (y ln x)  otherwise   (the two agree for a positive base).
   Over Rops_z the formal derivative is the true partial derivative under `dom_z`, which is `dom` of
   Proofs/C04R.v except for powers with a RECORD base and an exponent that does not depend on the
   inputs:
     record ^ number            (IBinC BPow a c)
     record ^ constant record   (IBin BPow a b where instruction b is Record::constant(c))
   are allowed at a base > 0 (as before) OR when c is an integer z and (z >= 0 or base <> 0):
   x^3 at x = -2, x^(-2) at x = -3 and x.pow(Record::constant(-1)) at x = -4 are inside the domain,
   as they are for easy-ml on f64; the pole x^(-n) at x = 0 is outside.  This closes the two
   exclusions the session-3 clause audit listed (negative integer exponents; rec ^ rec with a
   constant integer exponent record at a base <= 0).  `zpow` extends `rpow` of Proofs/C04RI.v
   (zpow_rpow_nat, zpow_rpow_pos) and dom_i's side condition for record ^ number is an instance of
   `int_exponent`.
   (Same proof skeleton as C04R.v / C04RI.v; the power cases of the one-instruction lemma differ,
   and the domain predicate sees the instructions before the current one.) *)
From Coq Require Import List Arith Lia Reals Lra Ring Field ZArith.
From EasyML Require Import Base.Sx Model.Num Model.AD Spec.FormalD Proofs.C04P Proofs.C04R Proofs.C04RI.
Import ListNotations.
Open Scope R_scope.

(* ------------------------------------------------------------------ the power function *)
Definition int_of (y : R) : option Z :=
  let z := Int_part y in if Req_EM_T (IZR z) y then Some z else None.

Lemma Int_part_IZR z : Int_part (IZR z) = z.
Proof.
  unfold Int_part. rewrite <- (tech_up (IZR z) (z + 1)).
  - lia.
  - rewrite plus_IZR. lra.
  - rewrite plus_IZR. lra.
Qed.

Lemma int_of_IZR z : int_of (IZR z) = Some z.
Proof.
  unfold int_of. rewrite Int_part_IZR.
  destruct (Req_EM_T (IZR z) (IZR z)) as [_|H]; [reflexivity|contradiction].
Qed.

Lemma int_of_spec y z : int_of y = Some z -> y = IZR z.
Proof.
  unfold int_of. destruct (Req_EM_T (IZR (Int_part y)) y) as [E|]; [|discriminate].
  intros H. inversion H. subst z. symmetry. exact E.
Qed.

Definition zpow (x y : R) : R :=
  match int_of y with Some z => powerRZ x z | None => Rpower x y end.

Lemma zpow_int x z : zpow x (IZR z) = powerRZ x z.
Proof. unfold zpow. rewrite int_of_IZR. reflexivity. Qed.

Lemma zpow_nat x n : zpow x (INR n) = x ^ n.
Proof. rewrite INR_IZR_INZ, zpow_int. symmetry. apply pow_powerRZ. Qed.

(* a negative integer exponent: the reciprocal of the natural power *)
Lemma zpow_neg x n : zpow x (- INR n) = / x ^ n.
Proof. rewrite INR_IZR_INZ, <- opp_IZR, zpow_int, powerRZ_neg', <- pow_powerRZ. reflexivity. Qed.

Lemma zpow_pos x y : 0 < x -> zpow x y = Rpower x y.
Proof.
  intros Hx. unfold zpow. destruct (int_of y) as [z|] eqn:E; [|reflexivity].
  apply int_of_spec in E. subst y. apply powerRZ_Rpower. exact Hx.
Qed.

(* zpow extends rpow of Proofs/C04RI.v wherever rpow is not the exp-ln fallback at a base <= 0 *)
Lemma zpow_rpow_nat x n : zpow x (INR n) = rpow x (INR n).
Proof. rewrite zpow_nat, rpow_nat. reflexivity. Qed.
Lemma zpow_rpow_pos x y : 0 < x -> zpow x y = rpow x y.
Proof. intros H. rewrite zpow_pos, rpow_pos by exact H. reflexivity. Qed.

Definition Rops_z : numops R := {|
  nzero := 0; none_ := 1;
  nadd := Rplus; nsub := Rminus; nmul := Rmult; ndiv := Rdiv; nneg := Ropp;
  neqb := fun a b => if Req_EM_T a b then true else false;
  nltb := fun a b => if Rlt_dec a b then true else false;
  nleb := fun a b => if Rle_dec a b then true else false;
  nsqrt := sqrt; nexp := exp; nln := ln; nsin := sin; ncos := cos;
  npow := zpow; npi := PI;
  nof_N := fun n => Some (INR (N.to_nat n));
  nenc := fun _ => SL [];
  ndec := fun _ => None
|}.

Lemma Rops_z_ring : ring_theory (nzero Rops_z) (none_ Rops_z) (nadd Rops_z) (nmul Rops_z) (nsub Rops_z) (nneg Rops_z) (@eq R).
Proof. exact RTheory. Qed.

(* an exponent c at which the power is defined at base x without the logarithm: an integer, and
   not a negative one at a zero base (the pole) *)
Definition int_exponent (x c : R) : Prop := exists z : Z, c = IZR z /\ ((0 <= z)%Z \/ x <> 0).

(* the domain: as Proofs/C04R.v, but a power whose exponent is a plain number or a constant record
   is also allowed at ANY base for an integer exponent (no pole); `pre` = the instructions before *)
Definition dom_instr_z (pre : list (instr R)) (vs : list R) (ins : instr R) : Prop :=
  match ins with
  | IBinC BPow a c => 0 < nth a vs 0 \/ int_exponent (nth a vs 0) c
  | IBin BPow a b => 0 < nth a vs 0 \/
      exists c, nth_error pre b = Some (IConst c) /\ int_exponent (nth a vs 0) c
  | _ => dom_instr vs ins
  end.
Fixpoint dom_from_z (pre : list (instr R)) (vs : list R) (prog : list (instr R)) : Prop :=
  match prog with
  | [] => True
  | ins :: r => dom_instr_z pre vs ins /\ dom_from_z (pre ++ [ins]) (vs ++ [value_instr Rops_z vs ins]) r
  end.
Definition dom_z (prog : list (instr R)) : Prop := dom_from_z [] [] prog.

(* ------------------------------------------------------------------ calculus of zpow *)
Lemma zpow_deriv_pos (u w : R -> R) x du dw : 0 < u x ->
  derivable_pt_lim u x du -> derivable_pt_lim w x dw ->
  derivable_pt_lim (fun t => zpow (u t) (w t)) x
    (w x * zpow (u x) (w x - 1) * du + zpow (u x) (w x) * ln (u x) * dw).
Proof.
  intros Hpos Hu Hw. rewrite !zpow_pos by exact Hpos.
  destruct (positive_nearby u x du Hu Hpos) as [delta [Hdelta Hnear]].
  apply (dl_local (fun t => Rpower (u t) (w t)) _ x _ delta Hdelta).
  - intros h Hh. symmetry. apply zpow_pos. apply Hnear. exact Hh.
  - apply Rpower_deriv; assumption.
Qed.

Lemma zpow_deriv_nat (u : R -> R) x du n : derivable_pt_lim u x du ->
  derivable_pt_lim (fun t => zpow (u t) (INR n)) x (INR n * zpow (u x) (INR n - 1) * du).
Proof.
  intros Hu. apply (dl_ext (fun t => (u t) ^ n)); [intros t; symmetry; apply zpow_nat|].
  eapply dl_eq.
  - change (fun t => u t ^ n) with (comp (fun y => y ^ n) u).
    apply derivable_pt_lim_comp; [exact Hu|apply derivable_pt_lim_pow].
  - destruct n as [|m].
    + cbn [INR pred pow]. ring.
    + replace (INR (S m) - 1) with (INR m) by (rewrite S_INR; ring).
      rewrite zpow_nat. cbn [pred]. ring.
Qed.

(* x^(-n) = 1 / x^n away from zero: derivative -n x^(-n-1) *)
Lemma zpow_deriv_neg (u : R -> R) x du n : derivable_pt_lim u x du -> u x <> 0 ->
  derivable_pt_lim (fun t => zpow (u t) (- INR n)) x (- INR n * zpow (u x) (- INR n - 1) * du).
Proof.
  intros Hu Hne. apply (dl_ext (fun t => 1 / (u t) ^ n)).
  { intros t. rewrite zpow_neg. unfold Rdiv. ring. }
  assert (Hp : (u x) ^ n <> 0) by (apply pow_nonzero; exact Hne).
  assert (Hn : derivable_pt_lim (fun t => u t ^ n) x (INR n * u x ^ pred n * du)).
  { change (fun t => u t ^ n) with (comp (fun y => y ^ n) u).
    eapply dl_eq; [apply derivable_pt_lim_comp; [exact Hu|apply derivable_pt_lim_pow]|ring]. }
  eapply dl_eq.
  - apply (derivable_pt_lim_div (fun _ => 1) (fun t => u t ^ n) x 0 _ (derivable_pt_lim_const 1 x) Hn Hp).
  - replace (- INR n - 1) with (- INR (S n)) by (rewrite S_INR; ring).
    rewrite zpow_neg. destruct n as [|m].
    + cbn [INR pred pow]. unfold Rsqr. field. exact Hne.
    + assert (Hm : u x ^ m <> 0) by (apply pow_nonzero; exact Hne).
      cbn [pred]. rewrite <- !tech_pow_Rmult. unfold Rsqr. field. split; assumption.
Qed.

Lemma zpow_deriv_int (u : R -> R) x du c : derivable_pt_lim u x du -> int_exponent (u x) c ->
  derivable_pt_lim (fun t => zpow (u t) c) x (c * zpow (u x) (c - 1) * du).
Proof.
  intros Hu [z [-> Hz]]. destruct (Z_le_dec 0 z) as [Hle|Hlt].
  - rewrite <- (Z2Nat.id z Hle), <- INR_IZR_INZ. apply zpow_deriv_nat. exact Hu.
  - destruct Hz as [Hz|Hne]; [contradiction|].
    replace (IZR z) with (- INR (Z.to_nat (- z))) by (rewrite INR_IZR_INZ, Z2Nat.id, opp_IZR by lia; ring).
    apply zpow_deriv_neg; assumption.
Qed.

(* ------------------------------------------------------------------ bookkeeping *)
Lemma value_snoc prog ins :
  value Rops_z (prog ++ [ins]) = value Rops_z prog ++ [value_instr Rops_z (value Rops_z prog) ins].
Proof.
  unfold value. rewrite drun_snoc. destruct (drun Rops_z _ prog) as [vs ts]. reflexivity.
Qed.

Lemma value_length prog : length (value Rops_z prog) = length prog.
Proof.
  induction prog as [|ins prog IH] using rev_ind; [reflexivity|].
  rewrite value_snoc, !app_length, IH. reflexivity.
Qed.

Lemma tangent_snoc prog s ins :
  tangent Rops_z (prog ++ [ins]) s =
  tangent Rops_z prog s ++ [tangent_instr Rops_z (value Rops_z prog) (tangent Rops_z prog s) (s (length prog)) ins].
Proof.
  unfold tangent, value. rewrite drun_snoc.
  pose proof (drun_fst Rops_z s (fun _ => nzero Rops_z) prog) as E. pose proof (value_length prog) as L.
  unfold value in L. destruct (drun Rops_z s prog) as [vs ts]. cbn [fst] in E. subst vs.
  cbn [dstep snd fst]. rewrite L. reflexivity.
Qed.

Lemma tangent_length prog s : length (tangent Rops_z prog s) = length prog.
Proof.
  induction prog as [|ins prog IH] using rev_ind; [reflexivity|].
  rewrite tangent_snoc, !app_length, IH. reflexivity.
Qed.

Lemma dom_from_z_app pre vs p q : dom_from_z pre vs (p ++ q) <->
  dom_from_z pre vs p /\
  dom_from_z (pre ++ p) (fold_left (fun vs ins => vs ++ [value_instr Rops_z vs ins]) p vs) q.
Proof.
  revert pre vs; induction p as [|ins p IH]; intros pre vs; cbn [app dom_from_z fold_left].
  - rewrite app_nil_r. tauto.
  - rewrite IH, <- app_assoc. cbn [app]. tauto.
Qed.

Lemma value_fold p : forall vs ts,
  fst (fold_left (dstep Rops_z (fun _ => 0)) p (vs, ts)) =
  fold_left (fun vs ins => vs ++ [value_instr Rops_z vs ins]) p vs.
Proof. induction p as [|ins p IH]; intros vs ts; cbn [fold_left]; [reflexivity|]. apply IH. Qed.

Lemma dom_snoc prog ins : dom_z (prog ++ [ins]) <-> dom_z prog /\ dom_instr_z prog (value Rops_z prog) ins.
Proof.
  unfold dom_z. rewrite dom_from_z_app. cbn [dom_from_z app]. unfold value, drun. rewrite value_fold. tauto.
Qed.

(* a Record::constant instruction holds its number wherever the variables are moved *)
Lemma value_const prog b c : nth_error prog b = Some (IConst c) -> nth b (value Rops_z prog) 0 = c.
Proof.
  induction prog as [|ins prog IH] using rev_ind; intros H; [destruct b; discriminate|].
  rewrite value_snoc. destruct (Nat.lt_ge_cases b (length prog)) as [Hlt|Hge].
  - rewrite nth_error_app1 in H by exact Hlt. rewrite app_nth1 by (rewrite value_length; exact Hlt).
    apply IH. exact H.
  - assert (b = length prog).
    { assert (b < length (prog ++ [ins]))%nat by (apply nth_error_Some; congruence).
      rewrite app_length in *. cbn [length] in *. lia. }
    subst b. rewrite nth_error_app2, Nat.sub_diag in H by lia. cbn in H. inversion H; subst ins.
    rewrite nth_snoc by apply value_length. reflexivity.
Qed.

Lemma set_var_const prog i t b c : nth_error prog b = Some (IConst c) ->
  (exists x0, nth_error prog i = Some (IVar x0)) -> nth_error (set_var prog i t) b = Some (IConst c).
Proof.
  revert i b; induction prog as [|x prog IH]; intros i b H [x0 Hi]; [destruct b; discriminate|].
  destruct i, b; cbn in *.
  - congruence.
  - exact H.
  - exact H.
  - apply IH; [exact H|exists x0; exact Hi].
Qed.

(* ------------------------------------------------------------------ calculus *)
Ltac rsimp := cbn [bop_f bop_dx bop_dy cop_bop uop_f uop_d nzero none_ nadd nsub nmul ndiv nneg
                      npow nln nsin ncos nexp nsqrt Rops_z].

(* one instruction: if every earlier value is differentiable in t with the listed tangent, so is
   this one, with the tangent the chain rule of the specification assigns *)
Lemma instr_deriv (pre : list (instr R)) (V : R -> list R) (T : list R) x0 sd ins :
  (forall a, derivable_pt_lim (fun t => nth a (V t) 0) x0 (nth a T 0)) ->
  (forall b c, nth_error pre b = Some (IConst c) -> forall t, nth b (V t) 0 = c) ->
  is_var ins = false -> dom_instr_z pre (V x0) ins ->
  derivable_pt_lim (fun t => value_instr Rops_z (V t) ins) x0 (tangent_instr Rops_z (V x0) T sd ins).
Proof.
  intros Hall Hconst Hnv Hdom.
  destruct ins as [x|c|o a b|o a c|o c b|o a|l|f df a|f dx dy a b];
    cbn [value_instr tangent_instr dom_instr_z dom_instr] in *; rsimp.
  - discriminate.
  - apply derivable_pt_lim_const.
  - pose proof (Hall a) as Ha. pose proof (Hall b) as Hb.
    destruct o; rsimp.
    + eapply dl_eq; [apply (derivable_pt_lim_plus _ _ _ _ _ Ha Hb)|ring].
    + eapply dl_eq; [apply (derivable_pt_lim_minus _ _ _ _ _ Ha Hb)|ring].
    + eapply dl_eq; [apply (derivable_pt_lim_mult _ _ _ _ _ Ha Hb)|ring].
    + eapply dl_eq; [apply (derivable_pt_lim_div _ _ _ _ _ Ha Hb Hdom)|unfold Rsqr; field; exact Hdom].
    + destruct Hdom as [Hpos|[c [Hc Hint]]].
      * eapply dl_eq; [apply (zpow_deriv_pos (fun t => nth a (V t) 0) (fun t => nth b (V t) 0) x0 _ _ Hpos Ha Hb)|ring].
      * (* the exponent is a constant record: its number is c wherever the inputs are, its tangent 0 *)
        pose proof (Hconst b c Hc) as Hw.
        assert (Hb0 : nth b T 0 = 0).
        { apply (uniqueness_limite (fun t => nth b (V t) 0) x0); [exact Hb|].
          eapply dl_ext; [|apply (derivable_pt_lim_const c)]. intros t. cbv beta. symmetry. apply Hw. }
        apply (dl_ext (fun t => zpow (nth a (V t) 0) c)); [intros t; rewrite Hw; reflexivity|].
        eapply dl_eq; [apply (zpow_deriv_int (fun t => nth a (V t) 0) x0 _ c Ha Hint)|].
        rewrite Hb0, Hw. ring.
  - pose proof (Hall a) as Ha.
    assert (Hc : derivable_pt_lim (fun _ => c) x0 0) by apply derivable_pt_lim_const.
    destruct o; rsimp.
    + eapply dl_eq; [apply (derivable_pt_lim_plus _ _ _ _ _ Ha Hc)|ring].
    + eapply dl_eq; [apply (derivable_pt_lim_minus _ _ _ _ _ Ha Hc)|ring].
    + eapply dl_eq; [apply (derivable_pt_lim_mult _ _ _ _ _ Ha Hc)|ring].
    + eapply dl_eq; [apply (derivable_pt_lim_div _ _ _ _ _ Ha Hc Hdom)|unfold Rsqr; field; exact Hdom].
    + destruct Hdom as [Hpos|Hint].
      * eapply dl_eq; [apply (zpow_deriv_pos (fun t => nth a (V t) 0) (fun _ => c) x0 _ _ Hpos Ha Hc)|ring].
      * eapply dl_eq; [apply (zpow_deriv_int (fun t => nth a (V t) 0) x0 _ c Ha Hint)|ring].
  - pose proof (Hall b) as Hb.
    assert (Hc : derivable_pt_lim (fun _ => c) x0 0) by apply derivable_pt_lim_const.
    destruct o; rsimp.
    + eapply dl_eq; [apply (derivable_pt_lim_minus _ _ _ _ _ Hc Hb)|ring].
    + eapply dl_eq; [apply (derivable_pt_lim_div _ _ _ _ _ Hc Hb Hdom)|unfold Rsqr; field; exact Hdom].
    + eapply dl_eq; [apply (zpow_deriv_pos (fun _ => c) (fun t => nth b (V t) 0) x0 _ _ Hdom Hc Hb)|ring].
  - pose proof (Hall a) as Ha.
    destruct o; rsimp.
    + eapply dl_eq; [apply (derivable_pt_lim_opp _ _ _ Ha)|ring].
    + eapply dl_eq.
      * change (fun t => sin (nth a (V t) 0)) with (comp sin (fun t => nth a (V t) 0)).
        apply derivable_pt_lim_comp; [exact Ha|apply derivable_pt_lim_sin].
      * ring.
    + eapply dl_eq.
      * change (fun t => cos (nth a (V t) 0)) with (comp cos (fun t => nth a (V t) 0)).
        apply derivable_pt_lim_comp; [exact Ha|apply derivable_pt_lim_cos].
      * ring.
    + eapply dl_eq.
      * change (fun t => exp (nth a (V t) 0)) with (comp exp (fun t => nth a (V t) 0)).
        apply derivable_pt_lim_comp; [exact Ha|apply derivable_pt_lim_exp].
      * ring.
    + eapply dl_eq.
      * change (fun t => ln (nth a (V t) 0)) with (comp ln (fun t => nth a (V t) 0)).
        apply derivable_pt_lim_comp; [exact Ha|apply derivable_pt_lim_ln; exact Hdom].
      * field. lra.
    + eapply dl_eq.
      * change (fun t => sqrt (nth a (V t) 0)) with (comp sqrt (fun t => nth a (V t) 0)).
        apply derivable_pt_lim_comp; [exact Ha|apply derivable_pt_lim_sqrt; exact Hdom].
      * field. apply Rgt_not_eq. apply sqrt_lt_R0. exact Hdom.
  - unfold total. apply (dl_total V T x0 l (fun _ => 0) 0 Hall). apply derivable_pt_lim_const.
  - pose proof (Hall a) as Ha. eapply dl_eq.
    + change (fun t => f (nth a (V t) 0)) with (comp f (fun t => nth a (V t) 0)).
      apply derivable_pt_lim_comp; [exact Ha|exact Hdom].
    + cbn. ring.
  - cbn [nadd nmul Rops_z].
    apply (Hdom (fun t => nth a (V t) 0) (fun t => nth b (V t) 0) x0 _ _ eq_refl eq_refl (Hall a) (Hall b)).
Qed.

(* no seeded variable so far: every tangent is zero *)
Lemma total_zero l : (forall x, In x l -> x = 0) -> total Rops_z l = 0.
Proof. intros H. unfold total. rewrite (total_zero_aux Rops_z Rops_z_ring) by exact H. reflexivity. Qed.

Lemma tangent_all_zero prog s : (forall n, (n < length prog)%nat -> s n = 0) ->
  forall k, nth k (tangent Rops_z prog s) 0 = 0.
Proof.
  induction prog as [|ins prog IH] using rev_ind; intros Hs k.
  - destruct k; reflexivity.
  - rewrite tangent_snoc. rewrite app_length in Hs. cbn [length] in Hs.
    assert (Z : forall a, nth a (tangent Rops_z prog s) 0 = 0) by (apply IH; intros; apply Hs; lia).
    destruct (Nat.lt_ge_cases k (length prog)) as [Hlt|Hge].
    + rewrite app_nth1 by (rewrite tangent_length; lia). apply Z.
    + destruct (Nat.eq_dec k (length prog)) as [->|Hne];
        [|apply nth_overflow; rewrite app_length, tangent_length; simpl; lia].
      rewrite (nth_snoc _ _ _ _ (tangent_length prog s)).
      destruct ins as [x|c|o a b|o a c|o c b|o a|l|f df a|f dx dy a b]; cbn [tangent_instr];
        rewrite ?Z; cbn [nadd nmul nzero Rops_z]; try ring.
      * apply Hs. lia.
      * apply total_zero. intros x Hin. apply in_map_iff in Hin as [a [<- _]]. apply Z.
Qed.

(* ------------------------------------------------------------------ the theorem *)

Lemma partials prog : forall i x0, nth_error prog i = Some (IVar x0) -> dom_z prog ->
  forall k, derivable_pt_lim (fun t => nth k (value Rops_z (set_var prog i t)) 0) x0
                             (nth k (tangent Rops_z prog (ind i)) 0).
Proof.
  induction prog as [|ins prog IH] using rev_ind; intros i x0 Hi Hdom k.
  - destruct i; discriminate.
  - apply dom_snoc in Hdom as [Hdp Hdi].
    destruct (lt_eq_lt_dec i (length prog)) as [[Hlt|Heq]|Hgt].
    + (* the variable is an earlier instruction *)
      rewrite nth_error_app1 in Hi by exact Hlt.
      pose proof (IH i x0 Hi Hdp) as D. rewrite tangent_snoc.
      destruct (Nat.lt_ge_cases k (length prog)) as [Hk|Hk].
      * rewrite app_nth1 by (rewrite tangent_length; lia).
        eapply dl_ext; [|apply (D k)]. intros t. cbv beta.
        rewrite set_var_snoc_lt by exact Hlt. rewrite value_snoc.
        rewrite app_nth1 by (rewrite value_length, set_var_length; lia). reflexivity.
      * destruct (Nat.eq_dec k (length prog)) as [->|Hne].
        -- rewrite (nth_snoc _ _ _ _ (tangent_length prog (ind i))).
           destruct (is_var ins) eqn:Hiv.
           ++ destruct ins; try discriminate. cbn [tangent_instr]. unfold ind.
              destruct (Nat.eqb_spec (length prog) i); [lia|].
              eapply dl_ext; [|apply (derivable_pt_lim_const x)]. intros t. cbv beta.
              rewrite set_var_snoc_lt by exact Hlt. rewrite value_snoc.
              rewrite nth_snoc by (rewrite value_length, set_var_length; reflexivity). reflexivity.
           ++ assert (Hconst : forall b c, nth_error prog b = Some (IConst c) ->
                                 forall t, nth b (value Rops_z (set_var prog i t)) 0 = c).
              { intros b c Hb t. apply value_const. apply set_var_const; [exact Hb|exists x0; exact Hi]. }
              pose proof (instr_deriv prog (fun t => value Rops_z (set_var prog i t)) (tangent Rops_z prog (ind i))
                                      x0 (ind i (length prog)) ins D Hconst Hiv) as Hd.
              cbv beta in Hd. rewrite (set_var_same prog i x0 Hi) in Hd. specialize (Hd Hdi).
              eapply dl_ext; [|exact Hd]. intros t. cbv beta.
              rewrite set_var_snoc_lt by exact Hlt. rewrite value_snoc.
              rewrite nth_snoc by (rewrite value_length, set_var_length; reflexivity). reflexivity.
        -- rewrite (nth_overflow (_ ++ _)) by (rewrite app_length, tangent_length; simpl; lia).
           eapply dl_ext; [|apply (derivable_pt_lim_const 0)]. intros t. cbv beta.
           rewrite nth_overflow; [reflexivity|].
           rewrite value_length, set_var_length, app_length. simpl. lia.
    + (* the variable is this instruction *)
      subst i. rewrite nth_error_app2, Nat.sub_diag in Hi by lia. cbn in Hi. inversion Hi; subst ins.
      rewrite tangent_snoc.
      assert (Z : forall a, nth a (tangent Rops_z prog (ind (length prog))) 0 = 0).
      { apply tangent_all_zero. intros n Hn. unfold ind. destruct (Nat.eqb_spec n (length prog)); [lia|reflexivity]. }
      destruct (Nat.lt_ge_cases k (length prog)) as [Hk|Hk].
      * rewrite app_nth1 by (rewrite tangent_length; lia). rewrite Z.
        eapply dl_ext; [|apply (derivable_pt_lim_const (nth k (value Rops_z prog) 0))]. intros t. cbv beta.
        rewrite set_var_snoc_eq, value_snoc. rewrite app_nth1 by (rewrite value_length; lia). reflexivity.
      * destruct (Nat.eq_dec k (length prog)) as [->|Hne].
        -- rewrite (nth_snoc _ _ _ _ (tangent_length prog (ind (length prog)))).
           cbn [tangent_instr]. unfold ind. rewrite Nat.eqb_refl.
           eapply dl_ext; [|apply derivable_pt_lim_id]. intros t. unfold id.
           rewrite set_var_snoc_eq, value_snoc. rewrite nth_snoc by apply value_length. reflexivity.
        -- rewrite (nth_overflow (_ ++ _)) by (rewrite app_length, tangent_length; simpl; lia).
           eapply dl_ext; [|apply (derivable_pt_lim_const 0)]. intros t. cbv beta.
           rewrite nth_overflow; [reflexivity|].
           rewrite value_length, set_var_length, app_length. simpl. lia.
    + assert (E : nth_error (prog ++ [ins]) i = None) by (apply nth_error_None; rewrite app_length; simpl; lia).
      congruence.
Qed.

(* C04_formal_is_true_derivative *)
Theorem formal_is_true_derivative_z prog i x0 out :
  nth_error prog i = Some (IVar x0) -> dom_z prog ->
  derivable_pt_lim (fun t => nth out (value Rops_z (set_var prog i t)) 0) x0 (grad Rops_z prog out i).
Proof. intros Hi Hd. apply (partials prog i x0 Hi Hd out). Qed.

(* the headline: the derivative REPORTED by Record::try_derivatives (Model/AD.v, over the reals)
   for input variable i is the true partial derivative of the result's number *)
Theorem reverse_mode_is_true_derivative_z prog i x0 out d :
  nth_error prog i = Some (IVar x0) -> dom_z prog ->
  try_derivatives Rops_z (run_prog Rops_z prog) out = Some d ->
  derivable_pt_lim (fun t => number (getr Rops_z (fst (run_prog Rops_z (set_var prog i t))) out)) x0
                   (at_ Rops_z d (getr Rops_z (fst (run_prog Rops_z prog)) i)).
Proof.
  intros Hi Hd Ht.
  rewrite (try_derivatives_is_gradient Rops_z Rops_z_ring prog out i x0 d Hi Ht).
  eapply dl_ext; [|apply (formal_is_true_derivative_z prog i x0 out Hi Hd)].
  intros t. cbv beta. symmetry. apply (value_correct Rops_z Rops_z_ring).
Qed.


(* ------------------------------------------------------------------ dom_i is inside dom_z
   the session-3 domain (natural-number exponents of record ^ number at any base) is a special case:
   inside dom_i both dictionaries compute the same values and the program is inside dom_z *)
Lemma value_instr_iz vs ins : dom_instr_i vs ins -> value_instr Rops_i vs ins = value_instr Rops_z vs ins.
Proof.
  destruct ins as [x|c|o a b|o a c|o c b|o a|l|f df a|f dx dy a b]; cbn [value_instr dom_instr_i dom_instr];
    try reflexivity; destruct o; cbn [bop_f cop_bop npow Rops_i Rops_z nadd nsub nmul ndiv]; try reflexivity.
  - intros H. symmetry. apply zpow_rpow_pos. exact H.
  - intros [H|[n ->]]; symmetry; [apply zpow_rpow_pos; exact H|apply zpow_rpow_nat].
  - intros H. symmetry. apply zpow_rpow_pos. exact H.
Qed.

Lemma dom_instr_iz pre vs ins : dom_instr_i vs ins -> dom_instr_z pre vs ins.
Proof.
  destruct ins as [x|c|o a b|o a c|o c b|o a|l|f df a|f dx dy a b]; cbn [dom_instr_z dom_instr_i dom_instr];
    auto; destruct o; cbn [dom_instr]; auto.
  intros [H|[n ->]]; [left; exact H|right]. exists (Z.of_nat n). split; [apply INR_IZR_INZ|left; lia].
Qed.

Lemma dom_from_iz : forall prog pre vs, dom_from_i vs prog ->
  dom_from_z pre vs prog /\
  fold_left (fun vs ins => vs ++ [value_instr Rops_i vs ins]) prog vs =
  fold_left (fun vs ins => vs ++ [value_instr Rops_z vs ins]) prog vs.
Proof.
  induction prog as [|ins prog IH]; intros pre vs; cbn [dom_from_i dom_from_z fold_left]; [auto|].
  intros [Hi Hr]. rewrite <- (value_instr_iz vs ins Hi).
  destruct (IH (pre ++ [ins]) _ Hr) as [Hz E]. split; [split; [apply dom_instr_iz; exact Hi|exact Hz]|exact E].
Qed.

Theorem dom_i_inside_dom_z prog : dom_i prog -> dom_z prog /\ value Rops_i prog = value Rops_z prog.
Proof.
  intros H. destruct (dom_from_iz prog [] [] H) as [Hz E]. split; [exact Hz|].
  unfold value, drun. rewrite C04RI.value_fold, value_fold. exact E.
Qed.
