(* C02, source mutation: reshaping the tensor reached through source_ref_mut() keeps every
   constructor invariant of the enclosing renames / reversals (their stored fields do not depend
   on the source's lengths or names), so the whole TensorRef contract — valid shape, presence
   exactly inside the NEW shape, in-bounds resolution, injectivity — holds for the same view
   object afterwards, and the element count of the leaf is unchanged. *)
From Coq Require Import List ZArith NArith Bool Arith Lia Permutation.
From EasyML Require Import Base.Sx Model.Shape Model.Views Model.ViewsMut Proofs.ShapeP Proofs.C01P
  Proofs.C02Lemmas Proofs.C02P Proofs.C02W Proofs.C02Inj.
Import ListNotations.
Open Scope N_scope.

Lemma reshape_cwf c : forall sh sh', cwf c -> mutable_leaf c = Some sh ->
  valid_shape sh' -> length sh' = length sh ->
  cwf (c_reshape c sh') /\ length (c_shape (c_reshape c sh')) = length (c_shape c) /\
  usize_view (c_reshape c sh') /\
  c_leaves (c_reshape c sh') = map (fun l => (fst l, elements sh')) (c_leaves c) /\
  length (c_leaves c) = 1%nat.
Proof.
  induction c using cview_ind'; intros sh0 sh' Hw Hm Hv Hl; cbn [mutable_leaf] in Hm; try discriminate.
  - injection Hm as <-. cbn [c_reshape cwf c_shape usize_view c_leaves map fst length].
    repeat split; auto; apply Hv.
  - destruct Hw as [Hw [Hn Hnd]]. destruct (IHc sh0 sh' Hw Hm Hv Hl) as [A [B [C [E F]]]].
    cbn [c_reshape cwf c_shape usize_view c_leaves]. repeat split; auto; try lia.
    rewrite !zipwith_length by lia. exact B.
  - destruct Hw as [Hw Hn]. destruct (IHc sh0 sh' Hw Hm Hv Hl) as [A [B [C [E F]]]].
    cbn [c_reshape cwf c_shape usize_view c_leaves]. repeat split; auto; lia.
Qed.

Theorem reshape_contract v c sh' c' : v_ctor v = Ok c -> reshape_mut c sh' = Some (Ok c') ->
  contract c' /\ inj_on c' /\
  (forall idx l off, c_get c' idx = Some (l, off) -> exists n, In (l, n) (c_leaves c') /\ off < n) /\
  map snd (c_leaves c') = map snd (c_leaves c).
Proof.
  intros Hc Hr. pose proof (ctor_wf v c Hc) as Hw. unfold reshape_mut in Hr.
  destruct (mutable_leaf c) as [sh|] eqn:Hm; [|discriminate].
  destruct (Nat.eqb_spec (length sh') (length sh)) as [Hl|]; [|discriminate].
  destruct (validate_dimensions sh' (elements sh)) eqn:Hv; [|discriminate].
  injection Hr as <-. apply validate_dimensions_spec in Hv. destruct Hv as [Hv [He _]].
  destruct (reshape_cwf c sh sh' Hw Hm Hv Hl) as [A [_ [C [E F]]]].
  split; [apply cwf_contract; assumption|]. split; [|split].
  - apply view_injective; auto. unfold leaf_ids. rewrite E, map_map. cbn [fst].
    destruct (c_leaves c) as [|x [|y r]]; cbn [length] in F; try discriminate.
    cbn. constructor; [intros []|constructor].
  - intros idx l off. apply cwf_resolves_in_bounds. exact A.
  - rewrite E, map_map. cbn [snd].
    (* the leaf's element count is what reshape_mut validated *)
    clear - Hm He Hw. revert Hm Hw. induction c using cview_ind'; cbn [mutable_leaf cwf c_leaves];
      intros Hm Hw; try discriminate.
    + injection Hm as <-. cbn. rewrite He. reflexivity.
    + apply IHc; [exact Hm|apply Hw].
    + apply IHc; [exact Hm|apply Hw].
Qed.
