(* C18: frame property of the multi-tape machine -- "no result depends on previously executed
   unrelated library calls".  Two clients share the heap of tapes (Model/Determinism.v, Section
   Two).  If client L only names tapes of a set A (as operands of variable / clear, and through the
   records it starts with) and client R never names a tape of A (R may allocate new tapes), then
   in EVERY interleaving the events L observes and the final contents of the tapes of A are those
   of L running alone: nothing R does -- appending to, clearing or differentiating on its own
   tapes, creating tapes, panicking on cross-tape misuse -- is visible to L. *)
From Coq Require Import List Arith Bool Lia.
From EasyML Require Import Base.Sx Model.Num Model.Tape Model.Determinism Proofs.C18P.
Import ListNotations.

Lemma length_set_nth {A} (l : list A) n x : length (set_nth l n x) = length l.
Proof. revert n; induction l as [|y l IH]; intros [|n]; simpl; auto. Qed.

Lemma proj_cons_true {X} (x : X) l : proj true ((true, x) :: l) = x :: proj true l.
Proof. reflexivity. Qed.
Lemma proj_cons_false {X} (x : X) l : proj true ((false, x) :: l) = proj true l.
Proof. reflexivity. Qed.

Section Frame.
Context {R : Type} (ops : numops R) (sl : tid -> tid -> bool) (inA : tid -> bool).

(* a record belongs to a side when it is a constant or lives on a tape of that side *)
Definition hist_in (side : bool) (r : rcd R) : Prop :=
  match r_hist r with None => True | Some h => inA h = side end.
Definition regs_in (side : bool) (rs : list (rcd R)) : Prop := Forall (hist_in side) rs.

(* an instruction names only tapes of its side; only the false side may allocate tapes *)
Definition confined (side : bool) (i : instr R) : Prop :=
  match i with
  | INewTape => side = false
  | IVar t _ => inA t = side
  | IClear t => inA t = side
  | _ => True
  end.

Definition agreeA (ts1 ts2 : list (tape R)) : Prop :=
  forall t, inA t = true -> t < length ts1 /\ t < length ts2 /\ nth t ts1 [] = nth t ts2 [].

Definition frameA (ts ts' : list (tape R)) : Prop :=
  forall t, inA t = true -> t < length ts -> t < length ts' /\ nth t ts' [] = nth t ts [].

Lemma agree_set ts1 ts2 h x : agreeA ts1 ts2 -> agreeA (set_nth ts1 h x) (set_nth ts2 h x).
Proof.
  intros H t Ht. destruct (H t Ht) as (L1 & L2 & E). rewrite !length_set_nth.
  split; [exact L1|]. split; [exact L2|].
  destruct (Nat.eq_dec h t) as [->|N].
  - rewrite !nth_set_nth_eq by assumption. reflexivity.
  - rewrite !nth_set_nth_neq by assumption. exact E.
Qed.

Lemma frame_refl ts : frameA ts ts.
Proof. intros t _ L. split; [exact L | reflexivity]. Qed.

Lemma frame_set ts h x : inA h = false -> frameA ts (set_nth ts h x).
Proof.
  intros Hh t Ht L. rewrite length_set_nth. split; [exact L|].
  apply nth_set_nth_neq. intro E. subst. congruence.
Qed.

(* ---- the L side: two states that agree on A step alike *)
Definition Rel (s1 s2 : st R) : Prop :=
  regs s1 = regs s2 /\ agreeA (tapes s1) (tapes s2) /\ regs_in true (regs s1).
Definition ResL (p1 p2 : st R * event R) : Prop := snd p1 = snd p2 /\ Rel (fst p1) (fst p2).

Lemma same_res s1 s2 e : Rel s1 s2 -> ResL (s1, e) (s2, e).
Proof. intro H. split; [reflexivity | exact H]. Qed.

Lemma push_rel s1 s2 ts1 ts2 r :
  Rel s1 s2 -> agreeA ts1 ts2 -> hist_in true r -> ResL (push s1 ts1 r) (push s2 ts2 r).
Proof.
  intros (Er & _ & Fr) Ag Hr. unfold push, ResL, Rel; cbn [fst snd regs tapes].
  split; [reflexivity|]. split; [rewrite Er; reflexivity|]. split; [exact Ag|].
  apply Forall_app. split; [exact Fr | constructor; [exact Hr | constructor]].
Qed.

Lemma binop_rel f dx dy s1 s2 x y :
  Rel s1 s2 -> hist_in true x -> hist_in true y ->
  ResL (binop ops sl f dx dy s1 x y) (binop ops sl f dx dy s2 x y).
Proof.
  intros HR Hx Hy. pose proof HR as (Er & Ag & Fr). unfold binop.
  destruct (same_list sl (r_hist x) (r_hist y)); [|apply same_res; exact HR].
  unfold hist_in in Hx, Hy. unfold tape_at.
  destruct (r_hist x) as [hx|] eqn:Ex, (r_hist y) as [hy|] eqn:Ey.
  - destruct (Ag hx Hx) as (_ & _ & Et). rewrite Et.
    destruct (append_binary _ _ _ _ _) as [t' i].
    apply push_rel; [exact HR | apply agree_set; exact Ag | unfold hist_in; cbn; exact Hx].
  - destruct (Ag hx Hx) as (_ & _ & Et). rewrite Et.
    destruct (append_unary _ _ _ _) as [t' i].
    apply push_rel; [exact HR | apply agree_set; exact Ag | unfold hist_in; cbn; exact Hx].
  - destruct (Ag hy Hy) as (_ & _ & Et). rewrite Et.
    destruct (append_unary _ _ _ _) as [t' i].
    apply push_rel; [exact HR | apply agree_set; exact Ag | unfold hist_in; cbn; exact Hy].
  - apply push_rel; [exact HR | exact Ag | unfold hist_in; cbn; exact I].
Qed.

Lemma reg_hist side rs k x : regs_in side rs -> nth_error rs k = Some x -> hist_in side x.
Proof. intros F E. apply nth_error_In in E. exact (proj1 (Forall_forall _ _) F x E). Qed.

Lemma step_L s1 s2 i :
  Rel s1 s2 -> confined true i -> ResL (machine_step ops sl s1 i) (machine_step ops sl s2 i).
Proof.
  intros HR Hc. pose proof HR as (Er & Ag & Fr).
  destruct i as [|t v|v|a b|a b|rs|t|a]; cbn [machine_step confined] in *.
  - discriminate Hc.
  - destruct (Ag t Hc) as (L1 & L2 & Et).
    rewrite (proj2 (Nat.ltb_lt _ _) L1), (proj2 (Nat.ltb_lt _ _) L2). unfold tape_at. rewrite Et.
    destruct (append_nullary _ _) as [t' k].
    apply push_rel; [exact HR | apply agree_set; exact Ag | unfold hist_in; cbn; exact Hc].
  - apply push_rel; [exact HR | exact Ag | unfold hist_in; cbn; exact I].
  - rewrite <- Er.
    destruct (nth_error (regs s1) a) as [x|] eqn:Ea; [|apply same_res; exact HR].
    destruct (nth_error (regs s1) b) as [y|] eqn:Eb; [|apply same_res; exact HR].
    apply binop_rel; [exact HR | eapply reg_hist; eassumption | eapply reg_hist; eassumption].
  - rewrite <- Er.
    destruct (nth_error (regs s1) a) as [x|] eqn:Ea; [|apply same_res; exact HR].
    destruct (nth_error (regs s1) b) as [y|] eqn:Eb; [|apply same_res; exact HR].
    apply binop_rel; [exact HR | eapply reg_hist; eassumption | eapply reg_hist; eassumption].
  - unfold lookup_regs. rewrite <- Er.
    destruct (sequence _) as [[|r rest]|]; try (apply same_res; exact HR).
    destruct (collect sl (r_hist r) None rest) as [[f l]|]; apply same_res; exact HR.
  - destruct (Ag t Hc) as (L1 & L2 & Et).
    rewrite (proj2 (Nat.ltb_lt _ _) L1), (proj2 (Nat.ltb_lt _ _) L2).
    split; [reflexivity|]. cbn [fst]. split; [exact Er|]. split; [apply agree_set; exact Ag | exact Fr].
  - rewrite <- Er.
    destruct (nth_error (regs s1) a) as [x|] eqn:Ea; [|apply same_res; exact HR].
    pose proof (reg_hist true _ _ _ Fr Ea) as Hx. unfold hist_in in Hx.
    destruct (r_hist x) as [h|]; [|apply same_res; exact HR].
    destruct (Ag h Hx) as (_ & _ & Et). unfold tape_at. rewrite Et.
    destruct (derivatives ops _ _); apply same_res; exact HR.
Qed.

(* ---- the R side: a step of the other client leaves the tapes of A alone *)
Definition ResR (s : st R) (p : st R * event R) : Prop :=
  frameA (tapes s) (tapes (fst p)) /\ regs_in false (regs (fst p)).

Lemma keep_res s e : regs_in false (regs s) -> ResR s (s, e).
Proof. intro F. split; [apply frame_refl | exact F]. Qed.

Lemma push_res s ts r :
  regs_in false (regs s) -> frameA (tapes s) ts -> hist_in false r -> ResR s (push s ts r).
Proof.
  intros F Fr Hr. unfold push, ResR; cbn [fst regs tapes]. split; [exact Fr|].
  apply Forall_app. split; [exact F | constructor; [exact Hr | constructor]].
Qed.

Lemma binop_res f dx dy s x y :
  regs_in false (regs s) -> hist_in false x -> hist_in false y -> ResR s (binop ops sl f dx dy s x y).
Proof.
  intros F Hx Hy. unfold binop.
  destruct (same_list sl (r_hist x) (r_hist y)); [|apply keep_res; exact F].
  unfold hist_in in Hx, Hy.
  destruct (r_hist x) as [hx|] eqn:Ex, (r_hist y) as [hy|] eqn:Ey.
  - destruct (append_binary _ _ _ _ _) as [t' i].
    apply push_res; [exact F | apply frame_set; exact Hx | unfold hist_in; cbn; exact Hx].
  - destruct (append_unary _ _ _ _) as [t' i].
    apply push_res; [exact F | apply frame_set; exact Hx | unfold hist_in; cbn; exact Hx].
  - destruct (append_unary _ _ _ _) as [t' i].
    apply push_res; [exact F | apply frame_set; exact Hy | unfold hist_in; cbn; exact Hy].
  - apply push_res; [exact F | apply frame_refl | unfold hist_in; cbn; exact I].
Qed.

Lemma step_R s i :
  regs_in false (regs s) -> confined false i -> ResR s (machine_step ops sl s i).
Proof.
  intros F Hc.
  destruct i as [|t v|v|a b|a b|rs|t|a]; cbn [machine_step confined] in *.
  - split; cbn [fst tapes regs]; [|exact F].
    intros t Ht L. rewrite app_length. split; [lia|]. apply app_nth1. exact L.
  - destruct (Nat.ltb t (length (tapes s))); [|apply keep_res; exact F].
    destruct (append_nullary _ _) as [t' k].
    apply push_res; [exact F | apply frame_set; exact Hc | unfold hist_in; cbn; exact Hc].
  - apply push_res; [exact F | apply frame_refl | unfold hist_in; cbn; exact I].
  - destruct (nth_error (regs s) a) as [x|] eqn:Ea; [|apply keep_res; exact F].
    destruct (nth_error (regs s) b) as [y|] eqn:Eb; [|apply keep_res; exact F].
    apply binop_res; [exact F | eapply reg_hist; eassumption | eapply reg_hist; eassumption].
  - destruct (nth_error (regs s) a) as [x|] eqn:Ea; [|apply keep_res; exact F].
    destruct (nth_error (regs s) b) as [y|] eqn:Eb; [|apply keep_res; exact F].
    apply binop_res; [exact F | eapply reg_hist; eassumption | eapply reg_hist; eassumption].
  - destruct (lookup_regs s rs) as [[|r rest]|]; try (apply keep_res; exact F).
    destruct (collect sl (r_hist r) None rest) as [[f l]|]; apply keep_res; exact F.
  - destruct (Nat.ltb t (length (tapes s))); [|apply keep_res; exact F].
    split; cbn [fst tapes regs]; [apply frame_set; exact Hc | exact F].
  - destruct (nth_error (regs s) a) as [x|]; [|apply keep_res; exact F].
    destruct (r_hist x) as [h|]; [|apply keep_res; exact F].
    destruct (derivatives ops _ _); apply keep_res; exact F.
Qed.

(* ---- the interleaving *)
Definition confined2 (oi : bool * instr R) : Prop := confined (fst oi) (snd oi).

Definition Inv (J : st2 R) (S : st R) : Prop :=
  Rel (mkSt (tapes2 J) (regsL J)) S /\ regs_in false (regsR J).

Lemma frame_run : forall I J S,
  Inv J S -> Forall confined2 I ->
  proj true (snd (run2 ops sl J I)) = snd (machine_run ops sl S (proj true I))
  /\ Inv (fst (run2 ops sl J I)) (fst (machine_run ops sl S (proj true I))).
Proof.
  induction I as [|[o i] I IH]; intros J S HI HF.
  - split; [reflexivity | exact HI].
  - inversion HF as [|? ? Hc HF']; subst. unfold confined2 in Hc; cbn [fst snd] in Hc.
    destruct HI as (HR & FR).
    cbn [run2]. unfold step2; cbn [fst snd].
    destruct o.
    + (* a step of L: the joint and the solo machine step alike *)
      pose proof (step_L _ _ i HR Hc) as (Ee & HR').
      destruct (machine_step ops sl (mkSt (tapes2 J) (regsL J)) i) as [s' e] eqn:E1.
      rewrite !proj_cons_true. cbn [machine_run].
      destruct (machine_step ops sl S i) as [S' e'] eqn:E2.
      cbn [fst snd] in Ee, HR'. subst e'.
      assert (HI' : Inv (mkSt2 (tapes s') (regs s') (regsR J)) S').
      { split; [|exact FR]. cbn [tapes2 regsL]. destruct s'; exact HR'. }
      destruct (IH _ _ HI' HF') as (IHe & IHi).
      destruct (run2 ops sl (mkSt2 (tapes s') (regs s') (regsR J)) I) as [J'' es] eqn:E3.
      destruct (machine_run ops sl S' (proj true I)) as [S'' es'] eqn:E4.
      cbn [fst snd] in *. split; [|exact IHi].
      rewrite proj_cons_true, IHe. reflexivity.
    + (* a step of R: invisible *)
      pose proof (step_R (mkSt (tapes2 J) (regsR J)) i FR Hc) as (Fr & FR').
      destruct (machine_step ops sl (mkSt (tapes2 J) (regsR J)) i) as [s' e] eqn:E1.
      cbn [fst tapes regs] in Fr, FR'.
      rewrite !proj_cons_false.
      assert (HI' : Inv (mkSt2 (tapes s') (regsL J) (regs s')) S).
      { split; [|exact FR']. destruct HR as (Er & Ag & Fl). cbn [tapes2 regsL regs tapes] in *.
        split; [exact Er|]. split; [|exact Fl].
        intros t Ht. destruct (Ag t Ht) as (L1 & L2 & Et). destruct (Fr t Ht L1) as (L1' & Et').
        split; [exact L1'|]. split; [exact L2|]. exact (eq_trans Et' Et). }
      destruct (IH _ _ HI' HF') as (IHe & IHi).
      destruct (run2 ops sl (mkSt2 (tapes s') (regsL J) (regs s')) I) as [J'' es] eqn:E3.
      cbn [fst snd] in *. split; [|exact IHi].
      rewrite proj_cons_false. exact IHe.
Qed.

(* the statement used by Properties/C18.v *)
Theorem frame_interleaving ts rl rr I :
  (forall t, inA t = true -> t < length ts) ->
  regs_in true rl -> regs_in false rr -> Forall confined2 I ->
  let joint := run2 ops sl (mkSt2 ts rl rr) I in
  let solo := machine_run ops sl (mkSt ts rl) (proj true I) in
  proj true (snd joint) = snd solo
  /\ regsL (fst joint) = regs (fst solo)
  /\ forall t, inA t = true -> tape_at (mkSt (tapes2 (fst joint)) []) t = tape_at (fst solo) t.
Proof.
  intros Hlen Fl Fr HF joint solo.
  assert (HI : Inv (mkSt2 ts rl rr) (mkSt ts rl)).
  { split; [|exact Fr]. split; [reflexivity|]. split; [|exact Fl].
    intros t Ht. pose proof (Hlen t Ht). auto. }
  destruct (frame_run I _ _ HI HF) as (He & ((Er & Ag & _) & _)).
  split; [exact He|]. split; [exact Er|].
  intros t Ht. destruct (Ag t Ht) as (_ & _ & Et). exact Et.
Qed.

(* any two interleavings with the same L part are indistinguishable for L *)
Corollary frame_two_interleavings ts rl rr I1 I2 :
  (forall t, inA t = true -> t < length ts) ->
  regs_in true rl -> regs_in false rr -> Forall confined2 I1 -> Forall confined2 I2 ->
  proj true I1 = proj true I2 ->
  proj true (snd (run2 ops sl (mkSt2 ts rl rr) I1)) = proj true (snd (run2 ops sl (mkSt2 ts rl rr) I2)).
Proof.
  intros Hlen Fl Fr H1 H2 E.
  destruct (frame_interleaving ts rl rr I1 Hlen Fl Fr H1) as (E1 & _).
  destruct (frame_interleaving ts rl rr I2 Hlen Fl Fr H2) as (E2 & _).
  cbv zeta in E1, E2. rewrite E1, E2, E. reflexivity.
Qed.
End Frame.
