(* C08 division safety of QR over ordered fields (mathcomp / ssreflect style).
     regular_safe      any real field, any sqrt oracle: a regular run (Proofs/C08P4.qr_regular: no
                       reflected u is zero, oracle right on |u|^2) never meets a zero divisor
     hh_safe_rcf       real closed field, sqrt = Num.sqrt: ONE reflection is safe exactly when
                       its input (the sub-column of the current R) is empty or not the zero
                       vector;  so (with C08Div.qr_i_strict) QR divides by zero exactly when,
                       at some reflection c < min(M-1, N), the part of column c of the current R
                       from row c down is entirely zero — and then the division is 0 / 0 for
                       every element of u
     qr_i_full_rank    linearly independent columns (\rank A = N, M >= N): the instrumented run
                       with the strict division is Ok (qr A) — never a division by zero inside
                       the property's hypothesis *)
From Coq Require Import PeanoNat List.
From mathcomp Require Import all_ssreflect all_algebra zify.
From EasyML Require Import Base.Sx Model.Num Model.LinAlg Model.Decomp Model.DivOutcome
     Model.DecompDiv Proofs.C07P1 Proofs.C07P2 Proofs.C07Div Proofs.C08Div
     Proofs.C08P3 Proofs.C08P4 Proofs.C08P7 Proofs.C08P8 Proofs.C08P10.
Set Implicit Arguments. Unset Strict Implicit. Unset Printing Implicit Defensive.
Import GRing.Theory Num.Theory.
Local Open Scope ring_scope.

Section AnyOracle.
Variable F : realFieldType.
Variable sq : F -> F.
Notation ops := (rops sq).

Lemma hh_u_eq (x : list F) : hh_u ops x = householder_u ops x.
Proof. by []. Qed.

Lemma hh_safe_of_regular (x : list F) :
  sumsq ops (householder_u ops x) <> 0 ->
  sq (sumsq ops (householder_u ops x)) * sq (sumsq ops (householder_u ops x)) =
    sumsq ops (householder_u ops x) ->
  hh_safe ops x.
Proof.
  move=> Hnz Hsq. rewrite /hh_safe hh_u_eq.
  case E: (householder_u ops x) => [//|e u]. rewrite -E.
  apply/negP => /eqP H0. apply: Hnz. rewrite -Hsq.
  move: H0. rewrite /euclidean_length /= => ->. by rewrite mul0r.
Qed.

Lemma regular_safe rows : forall cs (r : list (list F)),
  qr_regular sq rows cs r -> qr_loop_safe ops rows cs r.
Proof.
  elim=> [//|c cs IH] r /= [Hnz [Hsq Hrest]].
  apply/andP; split; first exact: hh_safe_of_regular.
  exact: IH.
Qed.
End AnyOracle.

Section RCF.
Variable F : rcfType.
Notation sq := (@Num.sqrt F).
Notation ops := (rops sq).

Lemma sumsq_zeros (x : list F) : (forall t, List.nth t x 0 = 0) -> sumsq ops x = 0.
Proof.
  rewrite sumsq_sum. elim: x => [|e x IH] H; first by rewrite big_nil.
  rewrite big_cons IH; last by move=> t; exact: (H t.+1).
  by rewrite (H 0%N : e = 0) mulr0 addr0.
Qed.

(* one reflection divides by zero exactly on a non-empty zero vector *)
Theorem hh_safe_rcf (x : list F) :
  hh_safe ops x = (x == [::] :> seq F) || (sumsq ops x != 0).
Proof.
  case: x => [//|x0 xs]. rewrite [_ == _]/= /=.
  case HS: (sumsq ops (x0 :: xs) != 0).
  - have Hu := hu_nonzero HS. rewrite /hh_safe hh_u_eq.
    case E: (householder_u ops (x0 :: xs)) => [//|e u]. rewrite -E.
    rewrite /euclidean_length /=. rewrite sqrtr_eq0 -Order.TotalTheory.ltNge lt0r Hu /=. exact: sumsq_ge0.
  - move/negbFE/eqP: HS => HS. have Hz := sumsq_eq0 HS.
    have Hx0 : x0 = 0 by exact: (Hz 0%N).
    rewrite /hh_safe /hh_u /euclidean_length HS /= Hx0 Order.POrderTheory.ltxx sqrtr0 oppr0 addr0.
    have -> : sumsq ops (0 :: xs) = 0.
    { apply: sumsq_zeros => -[|t] //=. exact: (Hz t.+1). }
    by rewrite sqrtr0 eqxx.
Qed.

(* the property's hypothesis (independent columns, M >= N) excludes every division by zero *)
Theorem qr_i_full_rank rows cols (m : list (list F)) :
  wf2 rows cols m -> (1 <= rows)%N -> (cols <= rows)%N ->
  \rank (mxo sq rows cols m) = cols ->
  qr_i ops (strict_div ops) m = Ok (qr ops m).
Proof.
  move=> Hm Hrows Hcr Hrank.
  have [Hreg _] := @regular_of_rank F rows cols (Nat.min (rows - 1) cols) 0 m Hm
                        ltac:(lia) ltac:(lia) Hrank ltac:(by move=> i j; rewrite ltn0).
  rewrite qr_i_strict. have [Hl _] := Hm.
  have Hmc : mcols m = cols by exact: (wf2_mcols rows cols m Hm (elimT leP Hrows)).
  rewrite /qr_div_safe /mrows Hl Hmc.
  have -> : Nat.ltb rows cols = false by apply/Nat.ltb_ge; lia.
  by rewrite (regular_safe Hreg).
Qed.
End RCF.
