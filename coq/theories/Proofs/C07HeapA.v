(* C07 — arithmetic core of the all-n proof of Heap's algorithm: source maps (position -> position
   of the initial array) of the states reached inside `heaps k`, in closed form. *)
From Coq Require Import List Arith Lia Bool.
Import ListNotations.

Definition tr (i j p : nat) : nat := if p =? i then j else if p =? j then i else p.

Definition Ek (k j : nat) : nat :=
  if j =? k - 1 then 0 else if j =? k - 2 then k - 1 else if j =? 0 then k - 3
  else if j =? 1 then k - 2 else if j <? k then j - 1 else j.

Definition sig (k j : nat) : nat := if Nat.even k then Ek k j else tr 0 (k - 1) j.

Fixpoint T (k i j : nat) : nat :=
  match i with
  | 0 => j
  | S i' => T k i' (sig (k - 1) (if i' <? k - 1 then tr (if Nat.even k then i' else 0) (k - 1) j else j))
  end.

Definition CE (k i j : nat) : nat :=
  let t := k - 2 in
  if i =? 0 then j
  else if i <=? t then
    if j =? 0 then (if Nat.odd i then k - 1 else 0)
    else if j =? t then (if Nat.odd i then 0 else k - 1)
    else if j =? k - 1 then (if i =? 1 then t else i - 1)
    else if j =? 1 then (if 2 <=? i then t else 1)
    else if j <? i then j - 1 else j
  else if i =? k - 1 then
    if j =? 0 then k - 1 else if j =? 1 then t else if j =? t then t - 1
    else if j =? k - 1 then 0 else if j <? t then j - 1 else j
  else Ek k j.

Definition rho (m t : nat) : nat :=
  if m =? 2 then 2 - t
  else if t =? 0 then m else if t <=? m - 3 then m - 2 - t else if t =? m then 0 else t.
Definition addmod (k x i : nat) : nat := if x + i <? k then x + i else x + i - k.
Definition CO (k i j : nat) : nat :=
  if i =? k then tr 0 (k - 1) j
  else if j <? k then rho (k - 1) (addmod k (rho (k - 1) j) i) else j.

(* case analysis on every comparison, innermost first, pruning with lia *)
Ltac noif x := lazymatch x with context [if _ then _ else _] => fail | _ => idtac end.
Ltac bf1 :=
  match goal with
  | |- context [Nat.eqb ?a ?b] => noif a; noif b; destruct (Nat.eqb_spec a b)
  | |- context [Nat.ltb ?a ?b] => noif a; noif b; destruct (Nat.ltb_spec a b)
  | |- context [Nat.leb ?a ?b] => noif a; noif b; destruct (Nat.leb_spec a b)
  end.
Ltac bf := repeat (bf1; try lia); try lia.

Lemma even_half k : Nat.even k = true -> exists q, k = 2 * q.
Proof. intros H. apply Nat.even_spec in H. destruct H as [q Hq]. exists q. lia. Qed.
Lemma odd_half k : Nat.even k = false -> exists q, k = 2 * q + 1.
Proof.
  intros H. assert (Ho : Nat.odd k = true) by (rewrite <- Nat.negb_even, H; reflexivity).
  apply Nat.odd_spec in Ho. destruct Ho as [q Hq]. exists q. lia.
Qed.
Lemma even_pred k : 1 <= k -> Nat.even (k - 1) = negb (Nat.even k).
Proof.
  intros Hk. replace k with (S (k - 1)) at 2 by lia. rewrite Nat.even_succ, <- Nat.negb_even, negb_involutive.
  reflexivity.
Qed.

Lemma tr_bnd c k j : c < k -> 1 <= k -> (j < k -> tr c (k - 1) j < k) /\ (k <= j -> tr c (k - 1) j = j).
Proof. intros. unfold tr. split; intros; bf. Qed.

Lemma sig_bnd k j : 1 <= k -> (j < k -> sig k j < k) /\ (k <= j -> sig k j = j).
Proof.
  intros Hk. unfold sig. destruct (Nat.even k) eqn:E.
  - destruct (even_half k E) as [q ->]. unfold Ek. split; intros; bf.
  - apply tr_bnd; lia.
Qed.

Lemma T_bnd k : 2 <= k -> forall i j, (j < k -> T k i j < k) /\ (k <= j -> T k i j = j).
Proof.
  intros Hk. induction i as [|i IH]; intros j; cbn [T]; [split; intros; lia|].
  set (c := if Nat.even k then i else 0).
  set (x := if i <? k - 1 then tr c (k - 1) j else j).
  assert (Hx : (j < k -> x < k) /\ (k <= j -> x = j)).
  { unfold x. destruct (Nat.ltb_spec i (k - 1)); [|split; intros; lia].
    apply tr_bnd; [|lia]. unfold c. destruct (Nat.even k); lia. }
  assert (Hs : (x < k - 1 -> sig (k - 1) x < k - 1) /\ (k - 1 <= x -> sig (k - 1) x = x))
    by (apply sig_bnd; lia).
  split; intros Hj.
  - apply IH. destruct Hx as [Hx _]. specialize (Hx Hj).
    destruct (lt_dec x (k - 1)) as [H1|H1]; [destruct Hs as [Hs _]; specialize (Hs H1); lia|].
    destruct Hs as [_ Hs]. rewrite Hs by lia. lia.
  - destruct Hx as [_ Hx]. specialize (Hx Hj). destruct Hs as [_ Hs]. rewrite Hs by lia. rewrite Hx.
    apply IH. exact Hj.
Qed.

Lemma T_even_closed k : Nat.even k = true -> 2 <= k -> forall i, i <= k -> forall j, T k i j = CE k i j.
Proof.
  intros E Hk. destruct (even_half k E) as [q Hq].
  assert (Ek1 : Nat.even (k - 1) = false) by (rewrite even_pred, E by lia; reflexivity).
  assert (Ot : Nat.odd (k - 2) = false).
  { replace (k - 2) with (2 * (q - 1)) by lia. rewrite Nat.odd_mul. reflexivity. }
  assert (Et : Nat.even (k - 2) = true) by (rewrite <- Nat.negb_odd, Ot; reflexivity).
  induction i as [|i IH]; intros Hi j; [reflexivity|].
  cbn [T]. rewrite IH by lia. unfold sig. rewrite Ek1, E.
  destruct (Nat.eq_dec i 0) as [->|Hi0].
  { unfold CE, tr, Ek. change (Nat.odd 1) with true. cbv iota. bf. }
  destruct (lt_dec (S i) (k - 1)) as [Hlt|Hge].
  { unfold CE. rewrite Nat.odd_succ, <- Nat.negb_odd. unfold tr.
    destruct (Nat.odd i); cbn [negb]; bf. }
  destruct (Nat.eq_dec i (k - 2)) as [->|Hi2].
  { unfold CE. rewrite Nat.odd_succ, Et, Ot. unfold tr. bf. }
  assert (i = k - 1) by lia. subst i.
  unfold CE, tr, Ek. bf.
Qed.


Lemma rho_lt m t : 2 <= m -> t <= m -> rho m t <= m.
Proof. intros. unfold rho. bf. Qed.

Lemma rho_invol m t : 2 <= m -> m <> 3 -> t <= m -> rho m (rho m t) = t.
Proof. intros. unfold rho. bf. Qed.

(* one step of the odd level: conjugated by rho it is +1 mod k *)
Lemma rho_step q j : 1 <= q -> j <= 2 * q ->
  Ek (2 * q) (tr 0 (2 * q) j) <= 2 * q /\
  rho (2 * q) (Ek (2 * q) (tr 0 (2 * q) j)) = addmod (2 * q + 1) (rho (2 * q) j) 1.
Proof.
  intros Hq Hj. unfold tr. split.
  - unfold Ek. bf.
  - unfold Ek. unfold addmod. unfold rho. bf.
Qed.

Lemma addmod_S k x i : x < k -> S i < k -> addmod k (addmod k x 1) i = addmod k x (S i).
Proof. intros. unfold addmod. bf. Qed.

Lemma addmod_back k x : x < k -> 2 <= k -> addmod k (addmod k x 1) (k - 1) = x.
Proof. intros. unfold addmod. bf. Qed.

Lemma tr_invol a b j : tr a b (tr a b j) = j.
Proof. unfold tr. bf. Qed.

Lemma T_odd_closed k : Nat.even k = false -> 3 <= k -> forall i, i <= k -> forall j, T k i j = CO k i j.
Proof.
  intros E Hk. destruct (odd_half k E) as [q Hq].
  assert (Ek1 : Nat.even (k - 1) = true) by (rewrite even_pred, E by lia; reflexivity).
  assert (Hm : k - 1 = 2 * q) by lia.
  induction i as [|i IH]; intros Hi j.
  { unfold CO. cbn [T]. unfold addmod.
    destruct (Nat.eqb_spec 0 k); [lia|]. destruct (Nat.ltb_spec j k); [|reflexivity].
    rewrite Nat.add_0_r. pose proof (rho_lt (k - 1) j ltac:(lia) ltac:(lia)).
    destruct (Nat.ltb_spec (rho (k - 1) j) k); [|lia]. rewrite rho_invol by lia. reflexivity. }
  cbn [T]. rewrite IH by lia. unfold sig. rewrite Ek1, E.
  destruct (Nat.ltb_spec i (k - 1)) as [Hlt|Hge].
  - (* a swap follows *)
    unfold CO. destruct (Nat.eqb_spec i k); [lia|]. destruct (Nat.eqb_spec (S i) k); [lia|].
    destruct (Nat.ltb_spec j k) as [Hj|Hj].
    + rewrite Hm. destruct (rho_step q j ltac:(lia) ltac:(lia)) as [Hb Hr].
      destruct (Nat.ltb_spec (Ek (2 * q) (tr 0 (2 * q) j)) k); [|lia].
      rewrite Hr. replace (2 * q + 1) with k by lia.
      rewrite addmod_S; [reflexivity| |lia].
      pose proof (rho_lt (2 * q) j ltac:(lia) ltac:(lia)). lia.
    + assert (Hx : Ek (k - 1) (tr 0 (k - 1) j) = j) by (unfold Ek, tr; bf).
      rewrite Hx. destruct (Nat.ltb_spec j k); [lia|reflexivity].
  - (* last iteration: no swap *)
    assert (i = k - 1) by lia. subst i.
    unfold CO. destruct (Nat.eqb_spec (k - 1) k); [lia|]. destruct (Nat.eqb_spec (S (k - 1)) k); [|lia].
    destruct (lt_dec j k) as [Hj|Hj].
    + pose proof (tr_bnd 0 k j ltac:(lia) ltac:(lia)) as [Hb _]. specialize (Hb Hj).
      destruct (rho_step q (tr 0 (k - 1) j) ltac:(lia) ltac:(lia)) as [Hb2 Hr].
      rewrite <- Hm in Hb2, Hr. rewrite tr_invol in Hb2, Hr.
      destruct (Nat.ltb_spec (Ek (k - 1) j) k); [|lia].
      rewrite Hr. replace (k - 1 + 1) with k by lia.
      pose proof (rho_lt (k - 1) (tr 0 (k - 1) j) ltac:(lia) ltac:(lia)).
      rewrite addmod_back by lia. rewrite rho_invol by lia. reflexivity.
    + assert (Hx : Ek (k - 1) j = j) by (unfold Ek; bf). rewrite Hx.
      destruct (Nat.ltb_spec j k); [lia|]. unfold tr. bf.
Qed.

(* what the list-level induction uses *)
Lemma T_final k j : 2 <= k -> T k k j = sig k j.
Proof.
  intros Hk. unfold sig. destruct (Nat.even k) eqn:E.
  - rewrite T_even_closed by (auto; lia). unfold CE. bf.
  - destruct (odd_half k E) as [q Hq]. rewrite T_odd_closed by (auto; lia). unfold CO. bf.
Qed.

Lemma T_last_inj k i i' : 2 <= k -> i < k -> i' < k -> T k i (k - 1) = T k i' (k - 1) -> i = i'.
Proof.
  intros Hk Hi Hi'. destruct (Nat.even k) eqn:E.
  - destruct (even_half k E) as [q Hq]. rewrite !T_even_closed by (auto; lia). unfold CE. bf.
  - destruct (odd_half k E) as [q Hq]. rewrite !T_odd_closed by (auto; lia). unfold CO.
    destruct (Nat.eqb_spec i k); [lia|]. destruct (Nat.eqb_spec i' k); [lia|].
    destruct (Nat.ltb_spec (k - 1) k); [|lia].
    replace (rho (k - 1) (k - 1)) with 0 by (unfold rho; bf).
    unfold addmod. cbn [Nat.add]. destruct (Nat.ltb_spec i k); [|lia]. destruct (Nat.ltb_spec i' k); [|lia].
    intros Heq. apply (f_equal (rho (k - 1))) in Heq. rewrite !rho_invol in Heq by lia. exact Heq.
Qed.
