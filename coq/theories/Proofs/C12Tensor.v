(* C12: stacks of matrix views whose bottom is MatrixRefTensor::from(t) for a 2-dimensional
   tensor view t (any term of the C02 development: Tensor / TensorRefMatrix leaves, ranges, masks,
   indexing, expansion, renaming, reversal, access, transposition, stacks, chains, boxes).
   The TensorRef contract proved for every constructed tensor view (Proofs/C02Q.v, C02W.v) gives
   the MatrixRef contract of the matrix-level stack; the root is the concatenation of the leaves'
   stores. *)
From Coq Require Import List ZArith NArith Bool Arith Lia.
From EasyML Require Import Base.Sx Model.Shape Model.MatrixViews Proofs.ShapeP Proofs.C12P.
From EasyML Require Model.Views Proofs.C02P Proofs.C02Q Proofs.C02W Proofs.C02Inj.
Import ListNotations.
Local Open Scope N_scope.

(* the number of cells of the flat root *)
Definition total (leaves : list (N * N)) : N := fold_right (fun e acc => snd e + acc) 0 leaves.

Lemma leaf_base_spec leaves : NoDup (map fst leaves) -> forall l n, In (l, n) leaves ->
  exists b, leaf_base leaves l = Some b /\ b + n <= total leaves.
Proof.
  induction leaves as [|[i k] rest IH]; intros Hnd l n Hin; [destruct Hin|].
  cbn [map fst] in Hnd. inversion Hnd as [|? ? Hni Hnd']; subst.
  cbn [leaf_base total fold_right snd]. destruct Hin as [E|Hin].
  - injection E as -> ->. rewrite N.eqb_refl. exists 0. split; [reflexivity|].
    fold (total rest). lia.
  - destruct (N.eqb_spec i l) as [->|Hne].
    + exfalso. apply Hni. change l with (fst (l, n)). now apply in_map.
    + destruct (IH Hnd' l n Hin) as [b [Eb Hb]]. rewrite Eb. exists (k + b). split; [reflexivity|].
      fold (total rest). lia.
Qed.

Lemma length_tensor_root c : N.of_nat (length (tensor_root c)) = total (Views.c_leaves c).
Proof.
  unfold tensor_root. induction (Views.c_leaves c) as [|[i k] rest IH]; [reflexivity|].
  cbn [flat_map total fold_right fst snd]. rewrite app_length, map_length, seq_length. fold (total rest). lia.
Qed.

Lemma len_at_lens sh d : Views.len_at sh d = nth d (lens_of sh) 0.
Proof.
  unfold Views.len_at, lens_of. revert d. induction sh as [|x sh IH]; intros [|d]; cbn; auto.
Qed.

(* a constructed 2-dimensional tensor view with pairwise distinct leaves is a sound bottom *)
Theorem tensor_leaf_ok v c : Views.v_ctor v = Ok c -> C02P.usize_view c ->
  length (Views.c_shape c) = 2%nat -> NoDup (C02Inj.leaf_ids c) ->
  tensor_ok (total (Views.c_leaves c)) c.
Proof.
  intros Hc Hu Hd Hnd row column. cbn [try_get].
  pose proof (C02Q.view_present_iff v c [row; column] Hc Hu ltac:(now rewrite Hd)) as Hp.
  rewrite !len_at_lens.
  destruct (lens_of (Views.c_shape c)) as [|l0 [|l1 [|? ?]]] eqn:El;
    try (unfold lens_of in El; apply (f_equal (@length N)) in El; rewrite map_length, Hd in El; discriminate).
  cbn [nth in_range] in *.
  destruct (Views.c_get c [row; column]) as [[leaf off]|] eqn:Eg.
  - assert (Hin : row < l0 /\ column < l1 /\ True) by (apply Hp; discriminate).
    replace (row <? l0) with true by (symmetry; apply N.ltb_lt; tauto).
    replace (column <? l1) with true by (symmetry; apply N.ltb_lt; tauto). cbn [andb].
    destruct (C02W.resolves_in_bounds v c _ leaf off Hc Eg) as [n [Hl Ho]].
    destruct (leaf_base_spec _ Hnd leaf n Hl) as [b [Eb Hb]]. rewrite Eb.
    eexists; split; [reflexivity|lia].
  - destruct ((row <? l0) && (column <? l1)) eqn:E; [|reflexivity].
    apply andb_true_iff in E as [E1 E2]. apply N.ltb_lt in E1, E2.
    exfalso. apply Hp; [|reflexivity]. auto.
Qed.

(* every stack the API can build over such a bottom *)
Inductive tstack (c : Views.cview) : mview -> Prop :=
| ts_leaf : tstack c (VOverTensor c)
| ts_range src r k : tstack c src -> tstack c (range_from src r k)
| ts_reverse src rr rc : tstack c src -> tstack c (VReverse rr rc src)
| ts_map src : tstack c src -> tstack c (VMap src)
| ts_tensor src n0 n1 v : tstack c src -> via_tensor src n0 n1 = Ok v -> tstack c v.

(* THE CONTRACT for tensor-rooted stacks: present exactly inside the reported size, absent (never
   a panic) outside, resolved cell inside the root *)
Theorem tstack_contract v c s : Views.v_ctor v = Ok c -> C02P.usize_view c ->
  length (Views.c_shape c) = 2%nat -> NoDup (C02Inj.leaf_ids c) -> tstack c s ->
  forall row column,
  if inside s row column
  then exists p, try_get s row column = Cell p /\ p < N.of_nat (length (tensor_root c))
  else try_get s row column = Absent.
Proof.
  intros Hc Hu Hd Hnd Hs. rewrite length_tensor_root. apply view_contract.
  induction Hs as [|src r k Hs IH|src rr rc Hs IH|src Hs IH|src n0 n1 v' Hs IH Hv].
  - constructor. eapply tensor_leaf_ok; eauto.
  - now apply range_from_wf.
  - now constructor.
  - now constructor.
  - eapply via_tensor_wf; eauto.
Qed.
