(* C13: tensor transformations equal their lazy views; equality and similarity laws.
   Part A: what the iterators collect (from C09), and "materialising a view".
   Part B: the transformations materialise the corresponding views.
   Part C: tensor_equality / tensor_similarity.
   (the square in-place branch of reorder_mut is in Proofs/SwapLoopP.v) *)
From Coq Require Import List ZArith NArith Bool Arith Lia.
From EasyML Require Import Base.Sx Model.Shape Model.Tensor Model.TSource Model.ShapeIter
  Model.Transform Proofs.ShapeP Proofs.C01P Proofs.OdometerP Proofs.C09P.
Import ListNotations.
Open Scope N_scope.

(* ================= Part A ================= *)

(* the Some-prefix of a list of options *)
Fixpoint take_somes {X} (l : list (option X)) : list X :=
  match l with
  | Some x :: r => x :: take_somes r
  | _ => []
  end.

Lemma take_somes_app {X} (l : list X) r : take_somes (map Some l ++ None :: r) = l.
Proof. induction l as [|x l IH]; cbn [map app take_somes]; [reflexivity|]. f_equal. exact IH. Qed.

Section Collect.
Context {A : Type}.

Lemma ti_run_drive {I} (next : tensor_iter A -> option I * tensor_iter A) len : forall k it,
  ti_run next k it = take_somes (map fst (fst (drive next len k it))).
Proof.
  induction k as [|k IH]; intros it; [reflexivity|].
  rewrite drive_S. cbn [ti_run map take_somes fst].
  destruct (next it) as [[x|] it']; cbn [fst snd]; [|reflexivity]. f_equal. apply IH.
Qed.

Lemma fuel_of_eq (s : tsrc A) : fuel_of s = (length (all_indexes (lens_of (src_shape s))) + 1)%nat.
Proof. unfold fuel_of. rewrite all_indexes_length. unfold elements. lia. Qed.

(* what source.iter() yields: (place, element) for every index in row-major order *)
Theorem iter_items (s : tsrc A) :
  ti_run ti_next (fuel_of s) (tensor_iter_from s) =
  map (fun idx => (idx, src_get s idx)) (all_indexes (lens_of (src_shape s))).
Proof.
  rewrite (ti_run_drive ti_next ti_len), fuel_of_eq.
  pose proof (tensor_iter_enumerates s 1) as E. cbv zeta in E. rewrite E. cbn [repeat].
  rewrite <- (map_map (fun idx => (idx, src_get s idx)) Some). apply take_somes_app.
Qed.

Definition view_elems (s : tsrc A) : list (option A) :=
  map (src_get s) (all_indexes (lens_of (src_shape s))).

Theorem iter_values_spec (s : tsrc A) : iter_values s = somes (view_elems s).
Proof. unfold iter_values, view_elems. rewrite iter_items, map_map. reflexivity. Qed.

(* with_index: the same items, each paired with its own index *)
Lemma ti_wi_drive : forall k (it : tensor_iter A),
  fst (drive (ti_with_index ti_next) ti_len k it) =
  map (fun o => (option_map (fun x => (fst x, x)) (fst o), snd o)) (fst (drive ti_next ti_len k it)).
Proof.
  induction k as [|k IH]; intros it; [reflexivity|].
  rewrite !drive_S. cbn [map fst snd].
  assert (E : ti_with_index ti_next it =
              (option_map (fun x : list N * option A => (fst x, x)) (fst (ti_next it)), snd (ti_next it))).
  { unfold ti_with_index, ti_next, iter_next.
    destruct (si_finished (ti_shape_iter it)); [reflexivity|].
    destruct (length (si_shape (ti_shape_iter it))); reflexivity. }
  rewrite E. cbn [fst snd]. rewrite IH. reflexivity.
Qed.

Theorem iter_indexed_spec (s : tsrc A) :
  iter_indexed s =
  somes (map (fun idx => option_map (fun v => (idx, v)) (src_get s idx))
             (all_indexes (lens_of (src_shape s)))).
Proof.
  unfold iter_indexed. rewrite (ti_run_drive (ti_with_index ti_next) ti_len), ti_wi_drive, map_map.
  cbn [fst]. rewrite <- (map_map fst (option_map (fun x : list N * option A => (fst x, x)))).
  rewrite fuel_of_eq. pose proof (tensor_iter_enumerates s 1) as E. cbv zeta in E. rewrite E.
  cbn [repeat]. rewrite map_app, map_map. cbn [map option_map fst].
  rewrite <- (map_map (fun idx => (idx, (idx, src_get s idx))) Some), take_somes_app, map_map.
  reflexivity.
Qed.

(* ---- total sources: every in-range index has an element (the TensorRef contract) ---- *)
Definition src_total (s : tsrc A) : Prop :=
  forall idx, in_range idx (lens_of (src_shape s)) -> exists x, src_get s idx = Some x.

Lemma map_Some_vals {X} (f : X -> option A) l : (forall i, In i l -> exists x, f i = Some x) ->
  exists vals, map f l = map Some vals.
Proof.
  induction l as [|i l IH]; intros H; [exists []; reflexivity|].
  destruct (H i (or_introl eq_refl)) as [x Hx].
  destruct IH as [vals Hv]; [intros j Hj; apply H; right; exact Hj|].
  exists (x :: vals). cbn [map]. rewrite Hx, Hv. reflexivity.
Qed.

Lemma total_vals (s : tsrc A) : src_total s ->
  exists vals, view_elems s = map Some vals /\ iter_values s = vals /\
               length vals = N.to_nat (elements (src_shape s)).
Proof.
  intros Ht. destruct (map_Some_vals (src_get s) (all_indexes (lens_of (src_shape s)))) as [vals Hv].
  { intros i Hi. apply Ht. pose proof (all_indexes_in_range (lens_of (src_shape s))) as F.
    rewrite Forall_forall in F. apply F. exact Hi. }
  exists vals. split; [exact Hv|]. split.
  - rewrite iter_values_spec. unfold view_elems. rewrite Hv. apply somes_map_Some.
  - apply (f_equal (@length _)) in Hv. rewrite !map_length, all_indexes_length in Hv.
    unfold elements. lia.
Qed.

(* ---- materialising a view ---- *)
(* t reads, at every index, what the view reads *)
Definition materialises {B} (t : tensor B) (sh : shape) (get : list N -> option B) : Prop :=
  t_shape t = sh /\ t_strides t = compute_strides sh /\
  forall idx, in_range idx (lens_of sh) -> t_get t idx = get idx.

Lemma t_get_flat {B} (t : tensor B) idx :
  t_strides t = compute_strides (t_shape t) -> in_range idx (lens_of (t_shape t)) ->
  t_get t idx = nth_error (t_data t) (N.to_nat (flat idx (lens_of (t_shape t)))).
Proof.
  intros Hs Hr. unfold t_get. rewrite Hs, get_index_direct_spec.
  - apply in_range_b_spec in Hr. rewrite Hr. reflexivity.
  - pose proof (in_range_length _ _ Hr) as L. unfold lens_of in L. rewrite map_length in L. exact L.
Qed.

(* Tensor::from(shape, data) where data lists a function over all indexes in row-major order *)
Lemma from_enumeration {B} (sh : shape) (g : list N -> B) :
  valid_shape sh -> elements sh <= usize_max ->
  exists t, tensor_from sh (map g (all_indexes (lens_of sh))) = Ok t /\
            materialises t sh (fun idx => Some (g idx)) /\
            t_data t = map g (all_indexes (lens_of sh)).
Proof.
  intros Hv Hb. unfold tensor_from.
  assert (V : validate_dimensions sh (N.of_nat (length (map g (all_indexes (lens_of sh))))) = true).
  { apply validate_dimensions_spec. split; [exact Hv|]. split; [|exact Hb].
    rewrite map_length, all_indexes_length. unfold elements. lia. }
  rewrite V. eexists. split; [reflexivity|]. split; [|reflexivity].
  unfold materialises. cbn [t_shape t_strides]. repeat split.
  intros idx Hr. rewrite t_get_flat by (cbn; auto). cbn [t_data t_shape].
  erewrite map_nth_error; [reflexivity|]. apply all_indexes_at. exact Hr.
Qed.

End Collect.

(* ================= Part B ================= *)
Section Transformations.
Context {A : Type}.

Definition good_view (s : tsrc A) : Prop :=
  valid_shape (src_shape s) /\ elements (src_shape s) <= usize_max /\ src_total s.

(* Tensor::from(view.shape(), view.iter().map(f).collect()) materialises f over the view *)
Lemma collect_map {B} (f : A -> B) (s : tsrc A) : good_view s ->
  exists t, tensor_from (src_shape s) (map f (iter_values s)) = Ok t /\
            materialises t (src_shape s) (fun idx => option_map f (src_get s idx)).
Proof.
  intros [Hv [Hb Ht]]. destruct (total_vals s Ht) as [vals [Hve [Hiv Hl]]].
  (* a total function giving the element at every enumerated index *)
  assert (G : exists g : list N -> B,
            map f vals = map g (all_indexes (lens_of (src_shape s))) /\
            forall idx, in_range idx (lens_of (src_shape s)) -> option_map f (src_get s idx) = Some (g idx)).
  { unfold view_elems in Hve.
    destruct (all_indexes (lens_of (src_shape s))) as [|i0 rest] eqn:Eall.
    - destruct vals; [|discriminate]. exists (fun _ => f (match vals with _ => match Ht [] with end end)) || idtac.
      (* no index at all: impossible for a valid shape (elements >= 1) *)
      exfalso. pose proof (all_indexes_length (lens_of (src_shape s))) as L. rewrite Eall in L.
      destruct Hv as [_ Hp]. pose proof (prod_pos _ Hp). cbn [length] in L. lia.
    - destruct (Ht i0) as [x0 Hx0].
      { pose proof (all_indexes_in_range (lens_of (src_shape s))) as F. rewrite Eall in F.
        inversion F; assumption. }
      exists (fun idx => match src_get s idx with Some x => f x | None => f x0 end). split.
      + rewrite <- Eall. clear -Hve Eall. rewrite <- Eall in Hve. revert vals Hve.
        induction (all_indexes (lens_of (src_shape s))) as [|i l IH]; intros [|v vals] Hve;
          cbn [map] in *; try discriminate; [reflexivity|].
        injection Hve as Hi Hrest. rewrite Hi. f_equal. apply IH. exact Hrest.
      + intros idx Hr. destruct (Ht idx Hr) as [x Hx]. rewrite Hx. reflexivity. }
  destruct G as [g [Hg Hget]].
  rewrite Hiv, Hg.
  destruct (from_enumeration (src_shape s) g Hv Hb) as [t [Hok [[Hsh [Hst Hm]] _]]].
  exists t. split; [exact Hok|]. unfold materialises. repeat split; auto.
  intros idx Hr. rewrite Hm by exact Hr. symmetry. apply Hget. exact Hr.
Qed.
