(* C13: tensor transformations equal their lazy views; equality and similarity laws.
   Part A: what the iterators collect (from C09), and "materialising a view".
   Part B: the transformations materialise the corresponding views.
   Part C: tensor_equality / tensor_similarity.
   (the square in-place branch of reorder_mut is in Proofs/SwapLoopP.v) *)
From Coq Require Import List ZArith NArith Bool Arith Lia.
From EasyML Require Import Base.Sx Model.Shape Model.Tensor Model.TSource Model.ShapeIter
  Model.Transform Proofs.ShapeP Proofs.C01P Proofs.OdometerP Proofs.C09P.
Import ListNotations.
Open Scope N_scope.

(* ================= Part A ================= *)

(* the Some-prefix of a list of options *)
Fixpoint take_somes {X} (l : list (option X)) : list X :=
  match l with
  | Some x :: r => x :: take_somes r
  | _ => []
  end.

Lemma take_somes_app {X} (l : list X) r : take_somes (map Some l ++ None :: r) = l.
Proof. induction l as [|x l IH]; cbn [map app take_somes]; [reflexivity|]. f_equal. exact IH. Qed.

Section Collect.
Context {A : Type}.

Lemma ti_run_drive {I} (next : tensor_iter A -> option I * tensor_iter A) len : forall k it,
  ti_run next k it = take_somes (map fst (fst (drive next len k it))).
Proof.
  induction k as [|k IH]; intros it; [reflexivity|].
  rewrite drive_S. cbn [ti_run map take_somes fst].
  destruct (next it) as [[x|] it']; cbn [fst snd]; [|reflexivity]. f_equal. apply IH.
Qed.

Lemma fuel_of_eq (s : tsrc A) : fuel_of s = (length (all_indexes (lens_of (src_shape s))) + 1)%nat.
Proof. unfold fuel_of. rewrite all_indexes_length. unfold elements. lia. Qed.

(* what source.iter() yields: (place, element) for every index in row-major order *)
Theorem iter_items (s : tsrc A) :
  ti_run ti_next (fuel_of s) (tensor_iter_from s) =
  map (fun idx => (idx, src_get s idx)) (all_indexes (lens_of (src_shape s))).
Proof.
  rewrite (ti_run_drive ti_next ti_len), fuel_of_eq.
  pose proof (tensor_iter_enumerates s 1) as E. cbv zeta in E. rewrite E. cbn [repeat].
  rewrite <- (map_map (fun idx => (idx, src_get s idx)) Some). apply take_somes_app.
Qed.

Definition view_elems (s : tsrc A) : list (option A) :=
  map (src_get s) (all_indexes (lens_of (src_shape s))).

Theorem iter_values_spec (s : tsrc A) : iter_values s = somes (view_elems s).
Proof. unfold iter_values, view_elems. rewrite iter_items, map_map. reflexivity. Qed.

(* with_index: the same items, each paired with its own index *)
Lemma ti_wi_drive : forall k (it : tensor_iter A),
  fst (drive (ti_with_index ti_next) ti_len k it) =
  map (fun o => (option_map (fun x => (fst x, x)) (fst o), snd o)) (fst (drive ti_next ti_len k it)).
Proof.
  induction k as [|k IH]; intros it; [reflexivity|].
  rewrite !drive_S. cbn [map fst snd].
  assert (E : ti_with_index ti_next it =
              (option_map (fun x : list N * option A => (fst x, x)) (fst (ti_next it)), snd (ti_next it))).
  { unfold ti_with_index, ti_next, iter_next.
    destruct (si_finished (ti_shape_iter it)); [reflexivity|].
    destruct (length (si_shape (ti_shape_iter it))); reflexivity. }
  rewrite E. cbn [fst snd]. rewrite IH. reflexivity.
Qed.

Theorem iter_indexed_spec (s : tsrc A) :
  iter_indexed s =
  somes (map (fun idx => option_map (fun v => (idx, v)) (src_get s idx))
             (all_indexes (lens_of (src_shape s)))).
Proof.
  unfold iter_indexed. rewrite (ti_run_drive (ti_with_index ti_next) ti_len), ti_wi_drive, map_map.
  cbn [fst]. rewrite <- (map_map fst (option_map (fun x : list N * option A => (fst x, x)))).
  rewrite fuel_of_eq. pose proof (tensor_iter_enumerates s 1) as E. cbv zeta in E. rewrite E.
  cbn [repeat]. rewrite map_app, map_map. cbn [map option_map fst].
  rewrite <- (map_map (fun idx => (idx, (idx, src_get s idx))) Some), take_somes_app, map_map.
  reflexivity.
Qed.

(* ---- total sources: every in-range index has an element (the TensorRef contract) ---- *)
Definition src_total (s : tsrc A) : Prop :=
  forall idx, in_range idx (lens_of (src_shape s)) -> exists x, src_get s idx = Some x.

Lemma map_Some_vals {X} (f : X -> option A) l : (forall i, In i l -> exists x, f i = Some x) ->
  exists vals, map f l = map Some vals.
Proof.
  induction l as [|i l IH]; intros H; [exists []; reflexivity|].
  destruct (H i (or_introl eq_refl)) as [x Hx].
  destruct IH as [vals Hv]; [intros j Hj; apply H; right; exact Hj|].
  exists (x :: vals). cbn [map]. rewrite Hx, Hv. reflexivity.
Qed.

Lemma total_vals (s : tsrc A) : src_total s ->
  exists vals, view_elems s = map Some vals /\ iter_values s = vals /\
               length vals = N.to_nat (elements (src_shape s)).
Proof.
  intros Ht. destruct (map_Some_vals (src_get s) (all_indexes (lens_of (src_shape s)))) as [vals Hv].
  { intros i Hi. apply Ht. pose proof (all_indexes_in_range (lens_of (src_shape s))) as F.
    rewrite Forall_forall in F. apply F. exact Hi. }
  exists vals. split; [exact Hv|]. split.
  - rewrite iter_values_spec. unfold view_elems. rewrite Hv. apply somes_map_Some.
  - apply (f_equal (@length _)) in Hv. rewrite !map_length, all_indexes_length in Hv.
    unfold elements. lia.
Qed.

(* ---- materialising a view ---- *)
(* t reads, at every index, what the view reads *)
Definition materialises {B} (t : tensor B) (sh : shape) (get : list N -> option B) : Prop :=
  t_shape t = sh /\ t_strides t = compute_strides sh /\
  forall idx, in_range idx (lens_of sh) -> t_get t idx = get idx.

Lemma t_get_flat {B} (t : tensor B) idx :
  t_strides t = compute_strides (t_shape t) -> in_range idx (lens_of (t_shape t)) ->
  t_get t idx = nth_error (t_data t) (N.to_nat (flat idx (lens_of (t_shape t)))).
Proof.
  intros Hs Hr. unfold t_get. rewrite Hs, get_index_direct_spec.
  - apply in_range_b_spec in Hr. rewrite Hr. reflexivity.
  - pose proof (in_range_length _ _ Hr) as L. unfold lens_of in L. rewrite map_length in L. exact L.
Qed.

(* Tensor::from(shape, data) where data lists a function over all indexes in row-major order *)
Lemma from_enumeration {B} (sh : shape) (g : list N -> B) :
  valid_shape sh -> elements sh <= usize_max ->
  exists t, tensor_from sh (map g (all_indexes (lens_of sh))) = Ok t /\
            materialises t sh (fun idx => Some (g idx)) /\
            t_data t = map g (all_indexes (lens_of sh)).
Proof.
  intros Hv Hb. unfold tensor_from.
  assert (V : validate_dimensions sh (N.of_nat (length (map g (all_indexes (lens_of sh))))) = true).
  { apply validate_dimensions_spec. split; [exact Hv|]. split; [|exact Hb].
    rewrite map_length, all_indexes_length. unfold elements. lia. }
  rewrite V. eexists. split; [reflexivity|]. split; [|reflexivity].
  unfold materialises. cbn [t_shape t_strides]. repeat split.
  intros idx Hr. rewrite t_get_flat by (cbn; auto). cbn [t_data t_shape].
  erewrite map_nth_error; [reflexivity|]. apply all_indexes_at. exact Hr.
Qed.

End Collect.

(* ================= Part B ================= *)
Section Transformations.
Context {A : Type}.

Definition good_view (s : tsrc A) : Prop :=
  valid_shape (src_shape s) /\ elements (src_shape s) <= usize_max /\ src_total s.

Lemma map_vals_fun {X B} (get : X -> option A) (f : A -> B) x0 : forall l vals,
  map get l = map Some vals ->
  map f vals = map (fun i => match get i with Some x => f x | None => f x0 end) l.
Proof.
  induction l as [|i l IH]; intros [|v vals] H; cbn [map] in *; try discriminate; [reflexivity|].
  injection H as Hi Hrest. rewrite Hi. f_equal. apply IH. exact Hrest.
Qed.

(* Tensor::from(view.shape(), view.iter().map(f).collect()) materialises f over the view *)
Lemma collect_map {B} (f : A -> B) (s : tsrc A) : good_view s ->
  exists t, tensor_from (src_shape s) (map f (iter_values s)) = Ok t /\
            materialises t (src_shape s) (fun idx => option_map f (src_get s idx)).
Proof.
  intros [Hv [Hb Ht]]. destruct (total_vals s Ht) as [vals [Hve [Hiv Hl]]].
  (* a total function giving the element at every enumerated index *)
  assert (G : exists g : list N -> B,
            map f vals = map g (all_indexes (lens_of (src_shape s))) /\
            forall idx, in_range idx (lens_of (src_shape s)) -> option_map f (src_get s idx) = Some (g idx)).
  { unfold view_elems in Hve.
    destruct (all_indexes (lens_of (src_shape s))) as [|i0 rest] eqn:Eall.
    - (* no index at all: impossible for a valid shape (elements >= 1) *)
      exfalso. pose proof (all_indexes_length (lens_of (src_shape s))) as L. rewrite Eall in L.
      destruct Hv as [_ Hp]. pose proof (prod_pos _ Hp). cbn [length] in L. lia.
    - destruct (Ht i0) as [x0 Hx0].
      { pose proof (all_indexes_in_range (lens_of (src_shape s))) as F. rewrite Eall in F.
        inversion F; assumption. }
      exists (fun idx => match src_get s idx with Some x => f x | None => f x0 end). split.
      + apply map_vals_fun. exact Hve.
      + intros idx Hr. destruct (Ht idx Hr) as [x Hx]. rewrite Hx. reflexivity. }
  destruct G as [g [Hg Hget]].
  rewrite Hiv, Hg.
  destruct (from_enumeration (src_shape s) g Hv Hb) as [t [Hok [[Hsh [Hst Hm]] _]]].
  exists t. split; [exact Hok|]. unfold materialises. repeat split; auto.
  intros idx Hr. rewrite Hm by exact Hr. symmetry. apply Hget. exact Hr.
Qed.

(* ---- reorder ---- *)
Theorem reorder_materialises (s : tsrc A) dims tbl :
  dm_new (names_of (src_shape s)) dims = Some tbl -> good_view (TAccess s tbl) ->
  exists t, reorder s dims = Ok t /\
            materialises t (src_shape (TAccess s tbl)) (src_get (TAccess s tbl)).
Proof.
  intros Hd Hg. unfold reorder. rewrite Hd.
  destruct (collect_map (fun x => x) (TAccess s tbl) Hg) as [t [Hok [Hsh [Hst Hm]]]].
  rewrite map_id in Hok. exists t. split; [exact Hok|]. repeat split; auto.
  intros idx Hr. rewrite Hm by exact Hr. destruct (src_get (TAccess s tbl) idx); reflexivity.
Qed.

Theorem reorder_rejects (s : tsrc A) dims :
  dm_new (names_of (src_shape s)) dims = None ->
  reorder s dims = Panic /\ transpose s dims = Panic.
Proof. intros Hd. unfold transpose, reorder. rewrite Hd. split; reflexivity. Qed.

(* ---- transpose: the reordered data under the original names, in order ---- *)
Lemma lens_with_names (names sh : shape) : length names = length sh ->
  lens_of (with_names_of names sh) = lens_of sh.
Proof.
  revert sh; induction names as [|n names IH]; intros [|d sh] H; cbn [length] in H; try lia;
    [reflexivity|].
  unfold with_names_of, lens_of in *. cbn [combine map fst snd]. f_equal. apply IH. lia.
Qed.

Lemma strides_lens (sh1 sh2 : shape) : lens_of sh1 = lens_of sh2 ->
  compute_strides sh1 = compute_strides sh2.
Proof.
  intros H. unfold compute_strides. rewrite H.
  replace (length sh1) with (length sh2); [reflexivity|].
  apply (f_equal (@length _)) in H. unfold lens_of in H. rewrite !map_length in H. lia.
Qed.

Theorem transpose_materialises (s : tsrc A) dims tbl :
  dm_new (names_of (src_shape s)) dims = Some tbl -> good_view (TAccess s tbl) ->
  exists t, transpose s dims = Ok t /\
            materialises t (src_shape (TTranspose s tbl)) (src_get (TTranspose s tbl)).
Proof.
  intros Hd Hg. destruct (reorder_materialises s dims tbl Hd Hg) as [r [Hok [Hsh [Hst Hm]]]].
  unfold transpose. rewrite Hok. cbn [omap]. eexists. split; [reflexivity|].
  assert (Hlen : length (src_shape s) = length (src_shape (TAccess s tbl))).
  { cbn [src_shape]. unfold map_shape_to_requested, dm_r2s. rewrite !map_length.
    pose proof (dm_new_length _ _ _ Hd) as L. unfold names_of in L. rewrite map_length in L. lia. }
  assert (Hshape : with_names_of (src_shape s) (t_shape r) = src_shape (TTranspose s tbl)).
  { rewrite Hsh. reflexivity. }
  assert (Hlens : lens_of (src_shape (TTranspose s tbl)) = lens_of (src_shape (TAccess s tbl))).
  { rewrite <- Hshape, Hsh. apply lens_with_names. exact Hlen. }
  unfold materialises. cbn [t_shape t_strides]. rewrite Hshape. split; [reflexivity|]. split.
  - rewrite Hst. apply strides_lens. symmetry. exact Hlens.
  - intros idx Hr. rewrite Hlens in Hr. specialize (Hm idx Hr). cbn [src_get] in *.
    rewrite <- Hm. unfold t_get, get_index_direct. cbn [t_strides t_shape t_data].
    rewrite Hlens, Hsh. reflexivity.
Qed.

(* ---- map on views ---- *)
Theorem view_map_materialises {B} (f : A -> B) (s : tsrc A) : good_view s ->
  exists t, view_map f s = Ok t /\
            materialises t (src_shape s) (fun idx => option_map f (src_get s idx)).
Proof. intros Hg. unfold view_map. apply collect_map. exact Hg. Qed.

(* ---- a Tensor iterates its storage in order; Tensor methods = view methods on itself ---- *)
Lemma nth_error_enum {X} (l : list X) : forall pre,
  map (fun k => nth_error (pre ++ l) (N.to_nat k)) (nseq (N.of_nat (length pre)) (length l)) = map Some l.
Proof.
  induction l as [|x l IH]; intros pre; [reflexivity|].
  cbn [length nseq map]. f_equal.
  - rewrite Nat2N.id, nth_error_app2 by lia. rewrite Nat.sub_diag. reflexivity.
  - specialize (IH (pre ++ [x])). rewrite <- app_assoc in IH. cbn [app] in IH.
    rewrite app_length in IH. cbn [length] in IH.
    replace (N.of_nat (length pre) + 1) with (N.of_nat (length pre + 1)) by lia. exact IH.
Qed.

Theorem tensor_view_elems (t : tensor A) : tensor_inv t ->
  view_elems (TBase t) = map Some (t_data t) /\ iter_values (TBase t) = t_data t /\ src_total (TBase t).
Proof.
  intros [Hv [Hs He]].
  assert (E : view_elems (TBase t) = map Some (t_data t)).
  { unfold view_elems. cbn [src_shape src_get].
    rewrite (map_ext_in _ (fun x => nth_error (t_data t) (N.to_nat (flat x (lens_of (t_shape t)))))).
    - rewrite <- (map_map (fun x => flat x (lens_of (t_shape t))) (fun k => nth_error (t_data t) (N.to_nat k))).
      rewrite all_indexes_flat. fold (elements (t_shape t)). rewrite <- He, Nat2N.id.
      apply (nth_error_enum (t_data t) []).
    - intros idx Hin. apply t_get_flat; [exact Hs|].
      pose proof (all_indexes_in_range (lens_of (t_shape t))) as F. rewrite Forall_forall in F. auto. }
  split; [exact E|]. split.
  - rewrite iter_values_spec, E. apply somes_map_Some.
  - intros idx Hr. cbn [src_shape src_get] in *. rewrite t_get_flat by assumption.
    apply nth_error_lt_Some. pose proof (flat_lt _ _ Hr). fold (elements (t_shape t)) in H. lia.
Qed.

Lemma tensor_inv_validate (t : tensor A) : tensor_inv t -> elements (t_shape t) <= usize_max ->
  forall {B} (data : list B), length data = length (t_data t) ->
  tensor_from (t_shape t) data = Ok (mkTensor data (t_shape t) (t_strides t)).
Proof.
  intros [Hv [Hs He]] Hb B data Hl. unfold tensor_from.
  assert (V : validate_dimensions (t_shape t) (N.of_nat (length data)) = true).
  { apply validate_dimensions_spec. repeat split; try apply Hv; try assumption. rewrite Hl. lia. }
  rewrite V, Hs. reflexivity.
Qed.

(* Tensor::map / map_mut on a tensor = TensorView::map over the tensor itself *)
Theorem tensor_map_eq_view_map {B} (f : A -> B) (t : tensor A) :
  tensor_inv t -> elements (t_shape t) <= usize_max ->
  view_map f (TBase t) = Ok (tensor_map f t).
Proof.
  intros Hi Hb. unfold view_map, tensor_map. cbn [src_shape].
  destruct (tensor_view_elems t Hi) as [_ [-> _]].
  apply tensor_inv_validate; auto. apply map_length.
Qed.

Theorem tensor_map_mut_eq_map (f : A -> A) (t : tensor A) : tensor_map_mut f t = tensor_map f t.
Proof. reflexivity. Qed.

(* Tensor::first / TensorView::first / scalar: the element at the all-zero index *)
Theorem tensor_first_eq_view_first (t : tensor A) : tensor_inv t ->
  tensor_first t = view_first (TBase t).
Proof.
  intros Hi. destruct (tensor_view_elems t Hi) as [Hve [_ Ht]].
  pose proof (iter_items (TBase t)) as It. unfold fuel_of in It. cbn [ti_run] in It.
  unfold view_first, tensor_first.
  destruct (ti_next (tensor_iter_from (TBase t))) as [[x|] it'].
  - unfold view_elems in Hve.
    destruct (all_indexes (lens_of (src_shape (TBase t)))) as [|i0 rest]; [discriminate|].
    cbn [map] in It, Hve. injection It as -> _. destruct (t_data t) as [|d0 ds]; [discriminate|].
    cbn [map] in Hve. injection Hve as Hx _. cbn [src_get] in *. rewrite Hx. reflexivity.
  - unfold view_elems in Hve.
    destruct (all_indexes (lens_of (src_shape (TBase t)))) as [|i0 rest]; [|discriminate].
    destruct (t_data t); [reflexivity|discriminate].
Qed.

End Transformations.

(* ================= Part C: equality and similarity ================= *)
Section EqSim.
Context {A : Type}.
Variable eqb : A -> A -> bool.
Hypothesis eqb_spec : forall x y, eqb x y = true <-> x = y.

Lemma shape_eqb_eq (a b : shape) : shape_eqb a b = true <-> a = b.
Proof.
  revert b; induction a as [|[n1 l1] a IH]; intros [|[n2 l2] b]; cbn [shape_eqb];
    try (split; [discriminate|discriminate]); [split; reflexivity|].
  rewrite !andb_true_iff, Nat.eqb_eq, N.eqb_eq, IH. split.
  - intros [[-> ->] ->]. reflexivity.
  - intros [= -> -> ->]. auto.
Qed.

Lemma forallb_combine_map {X} (f g : X -> A) l :
  forallb (fun p => eqb (fst p) (snd p)) (combine (map f l) (map g l)) = true <->
  forall i, In i l -> f i = g i.
Proof.
  induction l as [|i l IH]; cbn [map combine forallb fst snd].
  - split; [intros _ ? []|reflexivity].
  - rewrite andb_true_iff, eqb_spec, IH. split.
    + intros [H1 H2] j [<-|Hj]; auto.
    + intros H. split; [apply H; left; reflexivity|intros j Hj; apply H; right; exact Hj].
Qed.

(* eq <-> same shape (names, order, lengths) and the same element at every index *)
Theorem equality_iff (l r : tsrc A) : src_total l -> src_total r ->
  (tensor_equality eqb l r = true <->
   src_shape l = src_shape r /\
   forall idx, in_range idx (lens_of (src_shape l)) -> src_get l idx = src_get r idx).
Proof.
  intros Tl Tr. unfold tensor_equality. rewrite andb_true_iff, shape_eqb_eq.
  split.
  - intros [Hs Hf]. split; [exact Hs|]. intros idx Hr.
    destruct (total_vals l Tl) as [vl [Hvl [Hil _]]]. destruct (total_vals r Tr) as [vr [Hvr [Hir _]]].
    rewrite Hil, Hir in Hf. unfold view_elems in Hvl, Hvr. rewrite <- Hs in Hvr.
    set (all := all_indexes (lens_of (src_shape l))) in *.
    destruct (Tl idx Hr) as [x0 Hx0].
    pose proof (map_vals_fun (src_get l) (fun x => x) x0 all vl Hvl) as El.
    pose proof (map_vals_fun (src_get r) (fun x => x) x0 all vr Hvr) as Er.
    rewrite map_id in El, Er. rewrite El, Er in Hf.
    rewrite forallb_combine_map in Hf.
    assert (Hin : In idx all).
    { eapply nth_error_In. apply all_indexes_at. exact Hr. }
    specialize (Hf idx Hin). cbv beta in Hf.
    destruct (Tl idx Hr) as [a Ha]. assert (Hr' : in_range idx (lens_of (src_shape r))) by (rewrite <- Hs; exact Hr).
    destruct (Tr idx Hr') as [b Hb]. rewrite Ha, Hb in *. congruence.
  - intros [Hs Hg]. split; [exact Hs|].
    rewrite !iter_values_spec. unfold view_elems. rewrite <- Hs.
    rewrite (map_ext_in (src_get r) (src_get l)).
    + match goal with |- forallb _ (combine ?v ?v) = true => generalize v end.
      intros vals. induction vals as [|v vals IH]; [reflexivity|].
      cbn [combine forallb fst snd]. rewrite IH, andb_true_r. apply eqb_spec. reflexivity.
    + intros idx Hin. symmetry. apply Hg.
      pose proof (all_indexes_in_range (lens_of (src_shape l))) as F. rewrite Forall_forall in F. auto.
Qed.

(* reflexive and symmetric (no totality needed) *)
Theorem equality_refl (l : tsrc A) : tensor_equality eqb l l = true.
Proof.
  unfold tensor_equality. rewrite andb_true_iff. split; [apply shape_eqb_eq; reflexivity|].
  induction (iter_values l) as [|v vals IH]; [reflexivity|].
  cbn [combine forallb fst snd]. rewrite IH, andb_true_r. apply eqb_spec. reflexivity.
Qed.

Lemma eqb_sym x y : eqb x y = eqb y x.
Proof.
  destruct (eqb x y) eqn:E1; destruct (eqb y x) eqn:E2; auto.
  - apply eqb_spec in E1. subst. assert (eqb y y = true) by (apply eqb_spec; reflexivity). congruence.
  - apply eqb_spec in E2. subst. assert (eqb x x = true) by (apply eqb_spec; reflexivity). congruence.
Qed.

Lemma shape_eqb_sym a b : shape_eqb a b = shape_eqb b a.
Proof.
  destruct (shape_eqb a b) eqn:E1; destruct (shape_eqb b a) eqn:E2; auto.
  - apply shape_eqb_eq in E1. subst. assert (shape_eqb b b = true) by (apply shape_eqb_eq; reflexivity). congruence.
  - apply shape_eqb_eq in E2. subst. assert (shape_eqb a a = true) by (apply shape_eqb_eq; reflexivity). congruence.
Qed.

Theorem equality_sym (l r : tsrc A) : tensor_equality eqb l r = tensor_equality eqb r l.
Proof.
  unfold tensor_equality. rewrite shape_eqb_sym. f_equal.
  generalize (iter_values l) (iter_values r). induction l0 as [|x xs IH]; intros [|y ys]; try reflexivity.
  cbn [combine forallb fst snd]. rewrite eqb_sym, IH. reflexivity.
Qed.

(* ---- similarity ---- *)
Lemma dm_new_same (names : list name) : dm_new names names = Some (dm_no_op (length names)).
Proof.
  unfold dm_new, dm_no_op. apply sequence_Some. rewrite map_map. apply map_ext.
  intros d. unfold dm_step. rewrite Nat.eqb_refl. reflexivity.
Qed.

Lemma nth_seq_map {X} (l : list X) (d : X) : map (fun p => nth p l d) (seq 0 (length l)) = l.
Proof.
  induction l as [|x l IH]; [reflexivity|]. cbn [length seq map nth]. f_equal.
  rewrite <- seq_shift, map_map. exact IH.
Qed.

Lemma no_op_shape (sh : shape) : map_shape_to_requested (dm_no_op (length sh)) sh = sh.
Proof.
  unfold map_shape_to_requested, dm_r2s, dm_no_op. rewrite !map_map. cbn [snd]. apply nth_seq_map.
Qed.

Lemma no_op_index (idx : list N) :
  map_dimensions_to_source (dm_no_op (length idx)) idx 0 = idx.
Proof.
  unfold map_dimensions_to_source, dm_s2r, dm_no_op. rewrite !map_map. cbn [fst]. apply nth_seq_map.
Qed.

(* an access in the source's own order shows the source *)
Lemma no_op_access_values (s : tsrc A) :
  src_shape (TAccess s (dm_no_op (length (src_shape s)))) = src_shape s /\
  iter_values (TAccess s (dm_no_op (length (src_shape s)))) = iter_values s.
Proof.
  assert (Hs : src_shape (TAccess s (dm_no_op (length (src_shape s)))) = src_shape s)
    by (cbn [src_shape]; apply no_op_shape).
  split; [exact Hs|]. rewrite !iter_values_spec. unfold view_elems. rewrite Hs. f_equal.
  apply map_ext_in. intros idx Hin. cbn [src_get].
  pose proof (all_indexes_in_range (lens_of (src_shape s))) as F. rewrite Forall_forall in F.
  pose proof (in_range_length _ _ (F idx Hin)) as L. unfold lens_of in L. rewrite map_length in L.
  rewrite <- L, no_op_index. reflexivity.
Qed.

(* similar <-> reordering r's dimensions into l's name order makes them equal *)
Theorem similarity_iff (l r : tsrc A) :
  tensor_similarity eqb l r = true <->
  exists tbl, dm_new (names_of (src_shape r)) (names_of (src_shape l)) = Some tbl /\
              tensor_equality eqb l (TAccess r tbl) = true.
Proof.
  unfold tensor_similarity.
  destruct (no_op_access_values l) as [Hs Hv].
  destruct (dm_new (names_of (src_shape r)) (names_of (src_shape l))) as [tbl|].
  - unfold tensor_equality. rewrite Hv.
    destruct (shape_eqb (src_shape l) (src_shape (TAccess r tbl))) eqn:E; cbn [negb andb].
    + split; [intros Hq; exists tbl; split; [reflexivity|rewrite E; exact Hq]|]. intros [tbl' [[= <-] Hq]]. rewrite E in Hq. exact Hq.
    + split; [discriminate|]. intros [tbl' [[= <-] Hq]]. rewrite E in Hq. discriminate.
  - split; [discriminate|]. intros [tbl [Hq _]]. discriminate.
Qed.

Theorem equality_implies_similarity (l r : tsrc A) :
  tensor_equality eqb l r = true -> tensor_similarity eqb l r = true.
Proof.
  intros H. apply similarity_iff.
  assert (Hs : src_shape l = src_shape r).
  { unfold tensor_equality in H. apply andb_true_iff in H. apply shape_eqb_eq. apply H. }
  exists (dm_no_op (length (src_shape r))). split.
  - rewrite Hs. replace (length (src_shape r)) with (length (names_of (src_shape r)))
      by (unfold names_of; apply map_length). apply dm_new_same.
  - destruct (no_op_access_values r) as [Hrs Hrv].
    unfold tensor_equality in *. rewrite Hrs, Hrv. exact H.
Qed.

Theorem similarity_refl (l : tsrc A) : tensor_similarity eqb l l = true.
Proof. apply equality_implies_similarity, equality_refl. Qed.

End EqSim.
