(* C15, third part: the WIDE frame property of clear/reset cycles (scripts over any number of
   lists, new lists, clears of any list, reset-all) and the run-level form of "every derivative
   set has one entry per tape entry".

   cycle_equiv (C15Q) compares with a machine that has ONLY list t and ONLY the inputs, so its
   script may name no other list.  Here the comparison machine keeps every list as it is (list
   t emptied) and keeps a chosen set `keep` of registers (constants, objects of other lists);
   every other register - in particular every stale object of list t - is gone.  A script may
   then do anything, on any list, as long as it only READS registers that exist on the
   comparison machine (the inputs, the kept registers, registers it has written itself), and
   a reset-all of list t' is only issued when no object of t' lives in a register that the
   comparison machine does not have. *)
From Coq Require Import List Arith Bool Lia ZArith.
From EasyML Require Import Base.Sx Model.Num Model.Tape Model.Container Model.TapeMachine
  Proofs.TapeP Proofs.C15P Proofs.C15Q.
Import ListNotations.

Section C15R.
Context {R : Type} (ops : numops R).
Notation tape := (tape R).
Notation state := (@state R).
Notation obj := (@obj R).

(* ------------------------------------------------------------------ the relation
   ALL lists are equal; the second machine has exactly the registers of Q (with the same
   content) and nothing else. *)
Definition wagree (Q : nat -> bool) (st1 st2 : state) : Prop :=
  tapes st1 = tapes st2 /\ forall r, get st2 r = if Q r then get st1 r else ODead.

Lemma wagree_tape Q (st1 st2 : state) t : wagree Q st1 st2 -> tape_of st2 t = tape_of st1 t.
Proof. intros [T _]. unfold tape_of. rewrite T. reflexivity. Qed.

Lemma wagree_get Q (st1 st2 : state) r : wagree Q st1 st2 -> Q r = true -> get st2 r = get st1 r.
Proof. intros [_ G] H. rewrite G, H. reflexivity. Qed.

Lemma wagree_ext Q Q' (st1 st2 : state) : (forall r, Q r = Q' r) -> wagree Q st1 st2 -> wagree Q' st1 st2.
Proof. intros E [T G]. split; [exact T|]. intros r. rewrite <- E. apply G. Qed.

Lemma wagree_put Q (st1 st2 : state) d o : wagree Q st1 st2 -> wagree (add Q d) (put st1 d o) (put st2 d o).
Proof.
  intros [T G]. split; [exact T|]. intros r. rewrite !get_put. unfold add.
  destruct (Nat.eqb r d); [reflexivity|]. cbn [orb]. apply G.
Qed.

Lemma wagree_set_tape Q (st1 st2 : state) t tp : wagree Q st1 st2 ->
  wagree Q (set_tape st1 t tp) (set_tape st2 t tp).
Proof.
  intros [T G]. split; [unfold set_tape; cbn [tapes]; rewrite T; reflexivity|].
  intros r. rewrite !get_set_tape. apply G.
Qed.

(* ------------------------------------------------------------------ admissible operations *)
Definition wide_op (Q : nat -> bool) (st : state) (o : @tm_op R) : Prop :=
  forallb Q (reads o) = true /\
  match o with
  | TResetAll t' => forall r, Q r = false -> obj_hist (get st r) <> Some t'
  | _ => True
  end.

Fixpoint wide_run (Q : nat -> bool) (st : state) (script : list (@tm_op R)) : Prop :=
  match script with
  | [] => True
  | o :: r => wide_op Q st o /\
              match step ops st o with
              | Some (st', v) => wide_run (next Q o v) st' r
              | None => True
              end
  end.

(* ------------------------------------------------------------------ reset-all over two register files *)
Lemma not_on t (o : obj) : obj_hist o <> Some t ->
  match obj_hist o with Some h => Nat.eqb h t | None => false end = false.
Proof.
  destruct (obj_hist o) as [h|]; [|reflexivity]. intros H.
  destruct (Nat.eqb_spec h t) as [->|]; [exfalso; apply H; reflexivity|reflexivity].
Qed.

Lemma reset_all_none t : forall (l : list obj) (tp : tape),
  (forall r, obj_hist (nth r l ODead) <> Some t) -> reset_all ops tp t l = (tp, l, []).
Proof.
  induction l as [|o l IH]; intros tp H; cbn [reset_all]; [reflexivity|].
  rewrite (not_on t o (H 0)). rewrite IH; [reflexivity|]. intros r. apply (H (S r)).
Qed.

Lemma reset_all_rel t : forall (l1 l2 : list obj) (Q : nat -> bool) (tp : tape),
  (forall r, nth r l2 ODead = if Q r then nth r l1 ODead else ODead) ->
  (forall r, Q r = false -> obj_hist (nth r l1 ODead) <> Some t) ->
  exists tp' o1 o2 idx,
    reset_all ops tp t l1 = (tp', o1, idx) /\ reset_all ops tp t l2 = (tp', o2, idx) /\
    forall r, nth r o2 ODead = if Q r then nth r o1 ODead else ODead.
Proof.
  induction l1 as [|a l1 IH]; intros l2 Q tp H1 H2.
  - exists tp, [], l2, []. split; [reflexivity|]. split; [|exact H1].
    apply reset_all_none. intros r. rewrite H1. destruct (Q r), r; cbn; discriminate.
  - destruct l2 as [|b l2].
    + exists tp, (a :: l1), [], []. split; [|split; [reflexivity|exact H1]].
      apply reset_all_none. intros r. destruct (Q r) eqn:Qr; [|apply H2; exact Qr].
      specialize (H1 r). rewrite Qr in H1. rewrite <- H1. destruct r; cbn; discriminate.
    + pose proof (H1 0) as H0. cbn [nth] in H0. cbn [reset_all].
      assert (H1' : forall r, nth r l2 ODead = if Q (S r) then nth r l1 ODead else ODead)
        by (intros r; apply (H1 (S r))).
      assert (H2' : forall r, Q (S r) = false -> obj_hist (nth r l1 ODead) <> Some t)
        by (intros r; apply (H2 (S r))).
      destruct (Q 0) eqn:Q0.
      * subst b. destruct (match obj_hist a with Some h => Nat.eqb h t | None => false end).
        -- destruct (obj_reset ops tp a) as [[tp1 a'] i1].
           destruct (IH l2 (fun r => Q (S r)) tp1 H1' H2') as (tp' & o1 & o2 & idx & E1 & E2 & Hn).
           rewrite E1, E2. exists tp', (a' :: o1), (a' :: o2), (i1 ++ idx).
           split; [reflexivity|]. split; [reflexivity|]. intros [|r]; cbn [nth]; [rewrite Q0; reflexivity|apply Hn].
        -- destruct (IH l2 (fun r => Q (S r)) tp H1' H2') as (tp' & o1 & o2 & idx & E1 & E2 & Hn).
           rewrite E1, E2. exists tp', (a :: o1), (a :: o2), idx.
           split; [reflexivity|]. split; [reflexivity|]. intros [|r]; cbn [nth]; [rewrite Q0; reflexivity|apply Hn].
      * subst b. rewrite (not_on t a (H2 0 Q0)). cbn [obj_hist].
        destruct (IH l2 (fun r => Q (S r)) tp H1' H2') as (tp' & o1 & o2 & idx & E1 & E2 & Hn).
        rewrite E1, E2. exists tp', (a :: o1), (ODead :: o2), idx.
        split; [reflexivity|]. split; [reflexivity|]. intros [|r]; cbn [nth]; [rewrite Q0; reflexivity|apply Hn].
Qed.

(* ------------------------------------------------------------------ one step *)
Lemma fo_wagree Q (st1 st2 : state) dst h (f : tape -> outcome (tape * obj)) st1' v : wagree Q st1 st2 ->
  finish st1 dst (on_tape st1 h f) = Some (st1', v) ->
  exists st2', finish st2 dst (on_tape st2 h f) = Some (st2', v) /\
               wagree (match v with Ok _ => add Q dst | _ => Q end) st1' st2'.
Proof.
  intros Ag. unfold on_tape. destruct h as [t|].
  - rewrite (wagree_tape Q st1 st2 t Ag). destruct (tape_of st1 t) as [tp|]; [|discriminate].
    destruct (f tp) as [[tp' o]| |]; cbn [omap finish fst snd]; intros E; inversion E; subst;
      try (eexists; split; [reflexivity|exact Ag]).
    eexists. split; [reflexivity|]. apply wagree_put, wagree_set_tape, Ag.
  - destruct (f []) as [[tp' o]| |]; cbn [omap finish fst snd]; intros E; inversion E; subst;
      try (eexists; split; [reflexivity|exact Ag]).
    eexists. split; [reflexivity|]. apply wagree_put, Ag.
Qed.

Lemma add_in Q a : Q a = true -> forall r, Q r = add Q a r.
Proof.
  intros H r. unfold add. destruct (Nat.eqb_spec r a) as [->|]; [rewrite H; reflexivity|reflexivity].
Qed.

Lemma wstep_agree Q (st1 st2 : state) o st1' v : wagree Q st1 st2 -> wide_op Q st1 o ->
  step ops st1 o = Some (st1', v) ->
  exists st2', step ops st2 o = Some (st2', v) /\ wagree (next Q o v) st1' st2'.
Proof.
  intros Ag [Hr Hx] Hs.
  assert (SK : forall r, skipped st1 = Some r ->
               exists st2', skipped st2 = Some (st2', snd r) /\ wagree Q (fst r) st2').
  { intros r E. inversion E; subst. eexists. split; [reflexivity|exact Ag]. }
  destruct o as [|dst t' x|dst x|dst t' tensor sh data|dst tensor sh data|dst assign code c a|dst mode code a b|dst a b
                 |a elem|t'|a|t'|dst rs]; cbn [step next dst_of reads forallb] in *.
  - inversion Hs; subst. eexists. split; [reflexivity|]. destruct Ag as [T G].
    split; [cbn [tapes]; rewrite T; reflexivity|exact G].
  - destruct (fo_wagree Q st1 st2 dst _ _ _ _ Ag Hs) as (st2' & E2 & Ag').
    exists st2'. split; [exact E2|]. destruct v; exact Ag'.
  - inversion Hs; subst. eexists. split; [reflexivity|]. apply wagree_put, Ag.
  - destruct (negb (shape_valid sh (length data)) || negb (tensor || Nat.eqb (length sh) 2)); [discriminate|].
    destruct (fo_wagree Q st1 st2 dst _ _ _ _ Ag Hs) as (st2' & E2 & Ag').
    exists st2'. split; [exact E2|]. destruct v; exact Ag'.
  - destruct (_ || _); [discriminate|]. inversion Hs; subst. eexists. split; [reflexivity|].
    apply wagree_put, Ag.
  - apply andb_true_iff in Hr as [Ha _]. rewrite (wagree_get Q st1 st2 a Ag Ha).
    destruct (negb (un_code_ok ops code c)); [discriminate|]. destruct (get st1 a) as [x|x|].
    + destruct (fo_wagree Q st1 st2 dst _ _ _ _ Ag Hs) as (st2' & E2 & Ag').
      exists st2'. split; [exact E2|]. destruct v; exact Ag'.
    + destruct (fo_wagree Q st1 st2 dst _ _ _ _ Ag Hs) as (st2' & E2 & Ag').
      exists st2'. split; [exact E2|]. destruct v; exact Ag'.
    + destruct (SK _ Hs) as (st2' & E2 & Ag'). exists st2'. split; [exact E2|]. inversion Hs; subst. exact Ag'.
  - apply andb_true_iff in Hr as [Ha Hr]. apply andb_true_iff in Hr as [Hb _].
    rewrite (wagree_get Q st1 st2 a Ag Ha), (wagree_get Q st1 st2 b Ag Hb).
    destruct (binfn_of ops code) as [f|]; [|discriminate].
    destruct (get st1 a) as [x|x|], (get st1 b) as [y|y|];
      try (destruct (SK _ Hs) as (st2' & E2 & Ag'); exists st2'; split; [exact E2|]; inversion Hs; subst; exact Ag').
    + destruct (fo_wagree Q st1 st2 dst _ _ _ _ Ag Hs) as (st2' & E2 & Ag').
      exists st2'. split; [exact E2|]. destruct v; exact Ag'.
    + destruct (negb (Bool.eqb (c_tensor x) (c_tensor y))).
      * destruct (SK _ Hs) as (st2' & E2 & Ag'). exists st2'. split; [exact E2|]. inversion Hs; subst. exact Ag'.
      * destruct (_ || _); [discriminate|].
        destruct (fo_wagree Q st1 st2 dst _ _ _ _ Ag Hs) as (st2' & E2 & Ag').
        exists st2'. split; [exact E2|]. destruct v; exact Ag'.
  - apply andb_true_iff in Hr as [Ha Hr]. apply andb_true_iff in Hr as [Hb _].
    rewrite (wagree_get Q st1 st2 a Ag Ha), (wagree_get Q st1 st2 b Ag Hb).
    destruct (get st1 a) as [x|x|], (get st1 b) as [y|y|];
      try (destruct (SK _ Hs) as (st2' & E2 & Ag'); exists st2'; split; [exact E2|]; inversion Hs; subst; exact Ag').
    destruct (negb (Bool.eqb (c_tensor x) (c_tensor y))).
    + destruct (SK _ Hs) as (st2' & E2 & Ag'). exists st2'. split; [exact E2|]. inversion Hs; subst. exact Ag'.
    + destruct (_ || _); [discriminate|].
      destruct (fo_wagree Q st1 st2 dst _ _ _ _ Ag Hs) as (st2' & E2 & Ag').
      exists st2'. split; [exact E2|]. destruct v; exact Ag'.
  - apply andb_true_iff in Hr as [Ha _]. rewrite (wagree_get Q st1 st2 a Ag Ha).
    destruct (get st1 a) as [x|x|].
    + destruct (r_hist x) as [t0|].
      * rewrite (wagree_tape Q st1 st2 t0 Ag). destruct (tape_of st1 t0) as [tp|]; [|discriminate].
        inversion Hs; subst. eexists. split; [reflexivity|].
        destruct (derivs_checked ops tp (r_idx x)); exact Ag.
      * inversion Hs; subst. eexists. split; [reflexivity|exact Ag].
    + destruct (nth_error (c_data x) elem) as [p|]; [|inversion Hs; subst; eexists; split; [reflexivity|exact Ag]].
      destruct (c_hist x) as [t0|].
      * rewrite (wagree_tape Q st1 st2 t0 Ag). destruct (tape_of st1 t0) as [tp|]; [|discriminate].
        inversion Hs; subst. eexists. split; [reflexivity|].
        destruct (derivs_checked ops tp (snd p)); exact Ag.
      * inversion Hs; subst. eexists. split; [reflexivity|exact Ag].
    + destruct (SK _ Hs) as (st2' & E2 & Ag'). exists st2'. split; [exact E2|]. inversion Hs; subst. exact Ag'.
  - rewrite (wagree_tape Q st1 st2 t' Ag). destruct (tape_of st1 t'); [|discriminate].
    inversion Hs; subst. eexists. split; [reflexivity|]. apply wagree_set_tape, Ag.
  - apply andb_true_iff in Hr as [Ha _]. rewrite (wagree_get Q st1 st2 a Ag Ha).
    assert (K : forall o,
              match obj_hist o with
              | None => Some (st1, Ok (VIdx []))
              | Some t0 => match tape_of st1 t0 with
                           | None => None
                           | Some tp0 => let '(tp', o', idx) := obj_reset ops tp0 o in
                                         Some (put (set_tape st1 t0 tp') a o', Ok (VIdx idx))
                           end
              end = Some (st1', v) ->
              exists st2', match obj_hist o with
              | None => Some (st2, Ok (VIdx []))
              | Some t0 => match tape_of st2 t0 with
                           | None => None
                           | Some tp0 => let '(tp', o', idx) := obj_reset ops tp0 o in
                                         Some (put (set_tape st2 t0 tp') a o', Ok (VIdx idx))
                           end
              end = Some (st2', v) /\ wagree (match v with Ok _ => add Q a | _ => Q end) st1' st2').
    { intros o. destruct (obj_hist o) as [t0|].
      - rewrite (wagree_tape Q st1 st2 t0 Ag). destruct (tape_of st1 t0) as [tp0|]; [|discriminate].
        destruct (obj_reset ops tp0 o) as [[tp' o'] idx]. intros E; inversion E; subst.
        eexists. split; [reflexivity|]. apply wagree_put, wagree_set_tape, Ag.
      - intros E; inversion E; subst. eexists. split; [reflexivity|].
        eapply wagree_ext; [apply (add_in Q a Ha)|exact Ag]. }
    destruct (get st1 a) as [x|x|].
    + destruct (K (ORec x) Hs) as (st2' & E2 & Ag'). exists st2'. split; [exact E2|]. destruct v; exact Ag'.
    + destruct (K (OCont x) Hs) as (st2' & E2 & Ag'). exists st2'. split; [exact E2|]. destruct v; exact Ag'.
    + destruct (SK _ Hs) as (st2' & E2 & Ag'). exists st2'. split; [exact E2|]. inversion Hs; subst. exact Ag'.
  - rewrite (wagree_tape Q st1 st2 t' Ag). destruct (tape_of st1 t') as [tp|]; [|discriminate].
    destruct Ag as [T G].
    destruct (reset_all_rel t' (regs st1) (regs st2) Q tp G Hx) as (tp' & o1 & o2 & idx & E1 & E2 & Hn).
    rewrite E1 in Hs. rewrite E2. inversion Hs; subst. eexists. split; [reflexivity|].
    split; [cbn [tapes]; rewrite T; reflexivity|exact Hn].
  - rewrite (get_recs_agree st1 st2 Q (fun r Hq => wagree_get Q st1 st2 r Ag Hq) rs Hr).
    destruct (get_recs st1 rs) as [xs|];
      [|destruct (SK _ Hs) as (st2' & E2 & Ag'); exists st2'; split; [exact E2|]; inversion Hs; subst; exact Ag'].
    unfold sum_on in *. destruct (sum_hist xs) as [t0|].
    + rewrite (wagree_tape Q st1 st2 t0 Ag). destruct (tape_of st1 t0) as [tp|]; [|discriminate].
      destruct (sum_fold ops tp (rec_constant (nzero ops)) xs) as [tp' [z|e|]]; cbn [fst snd sum_finish] in *;
        inversion Hs; subst; (eexists; split; [reflexivity|]); try (apply wagree_set_tape; exact Ag).
      apply wagree_put, wagree_set_tape, Ag.
    + destruct (sum_fold ops [] (rec_constant (nzero ops)) xs) as [tp' [z|e|]]; cbn [fst snd sum_finish] in *;
        inversion Hs; subst; (eexists; split; [reflexivity|]); try exact Ag.
      apply wagree_put, Ag.
Qed.

Lemma wrun_agree : forall script Q (st1 st2 : state) st1' vs, wagree Q st1 st2 -> wide_run Q st1 script ->
  tm_run ops st1 script = Some (st1', vs) ->
  exists st2', tm_run ops st2 script = Some (st2', vs) /\ wagree (run_set ops Q st1 script) st1' st2'.
Proof.
  induction script as [|o rest IH]; intros Q st1 st2 st1' vs Ag Hl; cbn [tm_run run_set].
  - intros E; inversion E; subst. eexists. split; [reflexivity|exact Ag].
  - cbn [wide_run] in Hl. destruct Hl as [Hop Hl].
    destruct (step ops st1 o) as [[sa v]|] eqn:Es; [|discriminate].
    destruct (wstep_agree _ _ _ _ _ _ Ag Hop Es) as (sb & Es2 & Ag'). rewrite Es2.
    destruct (tm_run ops sa rest) as [[sf vr]|] eqn:Er; [|discriminate]. intros E; inversion E; subst.
    destruct (IH _ _ _ _ _ Ag' Hl Er) as (sf2 & Er2 & Agf). rewrite Er2. eexists. split; [reflexivity|exact Agf].
Qed.

(* ------------------------------------------------------------------ extensionality, and: local scripts are wide *)
Lemma next_ext Q Q' (o : @tm_op R) (v : outcome (@tm_val R)) :
  (forall r, Q r = Q' r) -> forall r, next Q o v r = next Q' o v r.
Proof.
  intros E r. unfold next. destruct v; try apply E. destruct (dst_of o); [|apply E].
  unfold add. rewrite E. reflexivity.
Qed.

Lemma forallb_ext' (Q Q' : nat -> bool) l : (forall r, Q r = Q' r) -> forallb Q l = forallb Q' l.
Proof. intros E. induction l as [|x l IH]; cbn; [reflexivity|]. rewrite E, IH. reflexivity. Qed.

Lemma wide_run_ext : forall script Q Q' (st : state), (forall r, Q r = Q' r) ->
  wide_run Q st script -> wide_run Q' st script.
Proof.
  induction script as [|o rest IH]; intros Q Q' st E; cbn [wide_run]; [auto|].
  intros [[Hr Hx] Hl]. split.
  - split; [rewrite <- (forallb_ext' Q Q' _ E); exact Hr|].
    destruct o; try exact I. intros r Hq. apply Hx. rewrite E. exact Hq.
  - destruct (step ops st o) as [[st' v]|]; [|exact I].
    eapply IH; [|exact Hl]. apply next_ext, E.
Qed.

(* every script accepted by C15_cycle_equiv is accepted here (with nothing kept) *)
Lemma local_run_is_wide t : forall script Q (st : state), local_run ops Q t st script -> wide_run Q st script.
Proof.
  induction script as [|o rest IH]; intros Q st; cbn [local_run wide_run]; [auto|].
  intros [Hop Hl]. unfold local_op in Hop. apply andb_true_iff in Hop as [Hon Hr]. split.
  - split; [exact Hr|]. destruct o; try exact I. discriminate Hon.
  - destruct (step ops st o) as [[st' v]|]; [|exact I]. apply IH, Hl.
Qed.

(* ------------------------------------------------------------------ the comparison machine *)
Fixpoint prune_from (K : nat -> bool) (k : nat) (l : list obj) : list obj :=
  match l with
  | [] => []
  | o :: r => (if K k then o else ODead) :: prune_from K (S k) r
  end.

(* same lists; only the registers of K survive *)
Definition prune (K : nat -> bool) (st : state) : state := mkState (tapes st) (prune_from K 0 (regs st)).

(* the machine a clear/reset cycle of list t is compared with: every list as it is in st except
   list t, which is empty (WengertList::new() and a cleared list are the same empty list);
   only the registers of `keep` exist *)
Definition fresh_start (keep : nat -> bool) (t : nat) (st : state) : state := prune keep (set_tape st t []).

Lemma nth_prune_from K : forall l k r,
  nth r (prune_from K k l) ODead = if K (k + r) then nth r l ODead else ODead.
Proof.
  induction l as [|o l IH]; intros k r; cbn [prune_from].
  - destruct r; cbn [nth]; destruct (K _); reflexivity.
  - destruct r as [|r]; cbn [nth].
    + rewrite Nat.add_0_r. reflexivity.
    + rewrite IH. replace (S k + r) with (k + S r) by lia. reflexivity.
Qed.

Lemma wagree_prune K (st : state) : wagree K st (prune K st).
Proof.
  split; [reflexivity|]. intros r. unfold get, prune. cbn [regs]. rewrite nth_prune_from. reflexivity.
Qed.

Lemma recreate_wide (st0 : state) t a o st' v : step ops st0 (recreate ops t a o) = Some (st', v) ->
  (exists w, v = Ok w) /\ dst_of (recreate ops t a o) = Some a /\
  forall Q (s : state), wide_op Q s (recreate ops t a o).
Proof.
  intros E. destruct (recreate_ok ops st0 t a o st' v E) as (Hv & Hd & _).
  split; [exact Hv|]. split; [exact Hd|]. intros Q s. destruct o; split; try reflexivity; exact I.
Qed.

Lemma recreate_script_wide t (g : nat -> obj) : forall ins Q (st0 : state) st1 vs,
  tm_run ops st0 (map (fun a => recreate ops t a (g a)) ins) = Some (st1, vs) ->
  wide_run Q st0 (map (fun a => recreate ops t a (g a)) ins) /\
  forall r, run_set ops Q st0 (map (fun a => recreate ops t a (g a)) ins) r = mem ins r || Q r.
Proof.
  induction ins as [|a rest IH]; intros Q st0 st1 vs; cbn [map tm_run wide_run run_set].
  - intros _. split; [exact I|reflexivity].
  - destruct (step ops st0 (recreate ops t a (g a))) as [[sa v]|] eqn:Es; [|discriminate].
    destruct (recreate_wide _ _ _ _ _ _ Es) as ([w ->] & Hd & Hw).
    destruct (tm_run ops sa (map (fun a0 => recreate ops t a0 (g a0)) rest)) as [[sf vr]|] eqn:Er; [|discriminate].
    intros _. destruct (IH (next Q (recreate ops t a (g a)) (Ok w)) _ _ _ Er) as [L Sx].
    split; [split; [apply Hw|exact L]|].
    intros r. rewrite Sx. unfold next. rewrite Hd. unfold add, mem. cbn [existsb].
    destruct (Nat.eqb r a), (existsb (Nat.eqb r) rest), (Q r); reflexivity.
Qed.

(* ------------------------------------------------------------------ C15_cycle_equiv_wide *)
Theorem cycle_equiv_wide (st : state) t ins keep P st1 vs1 stf res :
  NoDup ins -> (forall a, In a ins -> input_ok t (get st a)) ->
  tm_run ops st (TClear t :: map TReset ins) = Some (st1, vs1) ->
  wide_run (fun r => mem ins r || keep r) st1 P ->
  tm_run ops st1 P = Some (stf, res) ->
  exists st2 vs2 stf2,
    tm_run ops (fresh_start keep t st) (map (fun a => recreate ops t a (get st a)) ins) = Some (st2, vs2) /\
    tm_run ops st2 P = Some (stf2, res) /\ tapes stf2 = tapes stf.
Proof.
  intros Hnd Hin Hc Hl Hp.
  destruct (cycle_is_fresh_start ops st t ins st1 vs1 Hnd Hin Hc) as [vs' Hf].
  cbn [tm_run] in Hf. destruct (step ops st (TClear t)) as [[st0 v0]|] eqn:E0; [|discriminate].
  destruct (tm_run ops st0 (map (fun a => recreate ops t a (get st a)) ins)) as [[sx vx]|] eqn:E1; [|discriminate].
  inversion Hf; subst sx vs'; clear Hf.
  assert (E00 : st0 = set_tape st t []).
  { revert E0. cbn [step]. destruct (tape_of st t); [|discriminate]. intros E; inversion E; reflexivity. }
  subst st0.
  destruct (recreate_script_wide t (get st) ins keep _ _ _ E1) as [Lr Sr].
  destruct (wrun_agree _ _ _ _ _ _ (wagree_prune keep (set_tape st t [])) Lr E1) as (st2 & E2 & Ag1).
  assert (Ag2 : wagree (fun r => mem ins r || keep r) st1 st2) by (eapply wagree_ext; [exact Sr|exact Ag1]).
  destruct (wrun_agree _ _ _ _ _ _ Ag2 Hl Hp) as (stf2 & E3 & [Tf _]).
  exists st2, vx, stf2. split; [exact E2|]. split; [exact E3|symmetry; exact Tf].
Qed.

(* ------------------------------------------------------------------ cross-list operands: nothing is ever recorded
   cross_tape_binary / cross_tape_matmul (C15P) ask for two operands of the same kind (two
   records, two tensors, two matrices): those are the pairs the crate has an operator for.
   Without that hypothesis: whatever two registers hold, if their objects live on two different
   lists a binary operation or a matrix multiplication NEVER succeeds and NEVER changes the
   machine (no list is appended to, no register written): it panics, or - for a pair of kinds
   no operator exists for - it is reported as skipped. *)
Theorem cross_tape_inert (st : state) o dst mode code a b t1 t2 st' v :
  o = TBin dst mode code a b \/ o = TMatmul dst a b ->
  obj_hist (get st a) = Some t1 -> obj_hist (get st b) = Some t2 -> t1 <> t2 ->
  step ops st o = Some (st', v) -> st' = st /\ (v = Panic \/ v = Err (SZ 9%Z)).
Proof.
  intros Ho Ha Hb Hne Hs.
  assert (SK : forall r, skipped st = Some r -> fst r = st /\ (snd r = Panic \/ snd r = Err (SZ 9%Z))).
  { intros r E. inversion E. cbn. auto. }
  assert (PK : (st', v) = (st, Panic) -> st' = st /\ (v = Panic \/ v = Err (SZ 9%Z))).
  { intros E. inversion E. auto. }
  destruct Ho as [-> | ->].
  - destruct (get st a) as [x|x|] eqn:Ga, (get st b) as [y|y|] eqn:Gb; cbn [obj_hist] in Ha, Hb; try discriminate.
    + apply PK. apply (cross_tape_binary ops st dst mode code a b t1 t2); try assumption;
        rewrite ?Ga, ?Gb; try assumption. exact I.
    + revert Hs. cbn [step]. destruct (binfn_of ops code); [|discriminate]. rewrite Ga, Gb. intros Hs. apply (SK _ Hs).
    + revert Hs. cbn [step]. destruct (binfn_of ops code); [|discriminate]. rewrite Ga, Gb. intros Hs. apply (SK _ Hs).
    + destruct (Bool.eqb (c_tensor x) (c_tensor y)) eqn:Ek.
      * apply PK. apply (cross_tape_binary ops st dst mode code a b t1 t2); try assumption;
          rewrite ?Ga, ?Gb; try assumption. cbn. apply Bool.eqb_prop. exact Ek.
      * revert Hs. cbn [step]. destruct (binfn_of ops code); [|discriminate]. rewrite Ga, Gb, Ek. cbn [negb].
        intros Hs. apply (SK _ Hs).
  - destruct (get st a) as [x|x|] eqn:Ga, (get st b) as [y|y|] eqn:Gb; cbn [obj_hist] in Ha, Hb; try discriminate.
    + revert Hs. cbn [step]. rewrite ?Ga, ?Gb. intros Hs. apply (SK _ Hs).
    + revert Hs. cbn [step]. rewrite ?Ga, ?Gb. intros Hs. apply (SK _ Hs).
    + revert Hs. cbn [step]. rewrite ?Ga, ?Gb. intros Hs. apply (SK _ Hs).
    + destruct (Bool.eqb (c_tensor x) (c_tensor y)) eqn:Ek.
      * apply PK. apply (cross_tape_matmul ops st dst a b x y t1 t2); try assumption.
        apply Bool.eqb_prop. exact Ek.
      * revert Hs. cbn [step]. rewrite Ga, Gb, Ek. cbn [negb]. intros Hs. apply (SK _ Hs).
Qed.

(* ------------------------------------------------------------------ clear (the operation next_unused excludes)
   clear empties exactly the named list and touches nothing else: no other list, no register
   (the objects of the list become stale, they are not removed).  Together with next_unused
   (whose `grows` / `val_fresh` are relative to the CURRENT length): positions on the cleared
   list start again at 0. *)
Theorem clear_spec (st : state) t st' v : step ops st (TClear t) = Some (st', v) ->
  v = Ok VUnit /\ tape_of st' t = Some [] /\ (forall t2, t2 <> t -> tape_of st' t2 = tape_of st t2) /\
  regs st' = regs st.
Proof.
  cbn [step]. destruct (tape_of st t) as [tp|] eqn:Et; [|discriminate]. intros E; inversion E; subst.
  split; [reflexivity|]. split; [rewrite (tape_of_set_tape st t tp [] t Et), Nat.eqb_refl; reflexivity|].
  split; [|reflexivity]. intros t2 Hne. rewrite (tape_of_set_tape st t tp [] t2 Et).
  destruct (Nat.eqb_spec t2 t); [contradiction|reflexivity].
Qed.

(* ------------------------------------------------------------------ derivative sets along a run *)
Lemma finish_no_derivs (st : state) dst r st' d : finish st dst r <> Some (st', Ok (VDerivs d)).
Proof.
  destruct r as [[[s o]|e|]|]; cbn [finish]; try discriminate. destruct o; intros H; inversion H.
Qed.

Lemma derivs_only (st : state) o st' d : step ops st o = Some (st', Ok (VDerivs d)) ->
  exists a e, o = TDerivs a e.
Proof.
  destruct o as [|dst t' x|dst x|dst t' tensor sh data|dst tensor sh data|dst assign code c a|dst mode code a b|dst a b
                 |a elem|t'|a|t'|dst rs]; cbn [step]; unfold skipped, sum_finish; intros H;
    try (do 2 eexists; reflexivity); exfalso;
    repeat first
      [ discriminate H
      | exact (finish_no_derivs _ _ _ _ _ H)
      | match type of H with context [match ?x with _ => _ end] => destruct x end ].
Qed.

(* Along ANY script run from ANY state: a result `Ok (VDerivs (Some d))` at step k only comes from
   a derivatives operation on a register holding an object with a list, and d has exactly one
   entry per entry of that object's list in the state the operation ran in (the state reached
   by the first k operations). *)
Theorem derivs_length_run : forall script (st : state) stf vs, tm_run ops st script = Some (stf, vs) ->
  forall k d, nth_error vs k = Some (Ok (VDerivs (Some d))) ->
  exists a elem stk vsk t tp, nth_error script k = Some (TDerivs a elem) /\
    tm_run ops st (firstn k script) = Some (stk, vsk) /\
    obj_hist (get stk a) = Some t /\ tape_of stk t = Some tp /\ length d = length tp.
Proof.
  induction script as [|o rest IH]; intros st stf vs; cbn [tm_run].
  - intros E; inversion E; subst. intros [|k] d Hk; discriminate Hk.
  - destruct (step ops st o) as [[s1 v]|] eqn:Es; [|discriminate].
    destruct (tm_run ops s1 rest) as [[s2 vr]|] eqn:Er; [|discriminate].
    intros E; inversion E; subst. intros [|k] d Hk; cbn [nth_error] in Hk.
    + inversion Hk; subst v. destruct (derivs_only _ _ _ _ Es) as (a & e & ->).
      destruct (derivs_length ops _ _ _ _ _ Es) as (t & tp & H1 & H2 & H3).
      exists a, e, st, [], t, tp. cbn [nth_error firstn tm_run]. auto.
    + destruct (IH _ _ _ Er k d Hk) as (a & e & stk & vsk & t & tp & H0 & H1 & H2 & H3 & H4).
      exists a, e, stk, (v :: vsk), t, tp. cbn [nth_error firstn tm_run]. rewrite Es, H1. auto.
Qed.

(* ------------------------------------------------------------------ impl Sum for Record as a machine operation
   (TSum; semantics in Model/TapeMachine.v, basic lemmas in C15P, next_unused / frame cases in
   C15Q and above).  A COMPLETED sum is the container model's fold `each_sum` from
   Record::zero() - the fold that Proofs/C04S.v proves equal to C04's Sum node - run through the
   ordinary finish / on_tape path on the list of the first non-constant record. *)
Theorem sum_ok_is_each_sum (st : state) dst rs xs st' z : get_recs st rs = Some xs ->
  step ops st (TSum dst rs) = Some (st', Ok (VRec z)) ->
  finish st dst (on_tape st (sum_hist xs)
                   (fun tp => as_rec (each_sum ops tp (rec_constant (nzero ops)) xs))) = Some (st', Ok (VRec z)).
Proof.
  intros Eg. cbn [step]. rewrite Eg. unfold sum_on, on_tape. destruct (sum_hist xs) as [t|].
  - destruct (tape_of st t) as [tp|]; [|discriminate].
    destruct (sum_fold ops tp (rec_constant (nzero ops)) xs) as [tp' [z0|e|]] eqn:Ef; cbn [fst snd sum_finish];
      intros E; inversion E; subst.
    apply sum_fold_ok in Ef. rewrite Ef. reflexivity.
  - destruct (sum_fold ops [] (rec_constant (nzero ops)) xs) as [tp' [z0|e|]] eqn:Ef; cbn [fst snd sum_finish];
      intros E; inversion E; subst.
    apply sum_fold_ok in Ef. rewrite Ef. reflexivity.
Qed.

Lemma sum_ok_recs (st : state) dst rs st' w : step ops st (TSum dst rs) = Some (st', Ok w) ->
  exists xs, get_recs st rs = Some xs.
Proof. cbn [step]. destruct (get_recs st rs) as [xs|]; [eauto|]. intros E; inversion E. Qed.

(* the derivative set of a Sum result, taken right after the sum: one entry per entry of the
   list INCLUDING everything the sum appended, and the result is its last entry *)
Theorem sum_derivs_length (st : state) dst rs st1 z st2 el d :
  step ops st (TSum dst rs) = Some (st1, Ok (VRec z)) ->
  step ops st1 (TDerivs dst el) = Some (st2, Ok (VDerivs (Some d))) ->
  exists t tp pre en, r_hist z = Some t /\ tape_of st t = Some tp /\ tape_of st1 t = Some (tp ++ pre ++ [en]) /\
    length d = length tp + length pre + 1 /\ r_idx z + 1 = length d /\ length pre < length rs.
Proof.
  intros H1 H2. destruct (sum_ok_recs _ _ _ _ _ H1) as [xs Eg].
  destruct (sum_step_spec ops st dst rs xs st1 _ Eg H1) as (s1 & _ & _ & _ & Hon & _ & Hv).
  destruct Hv as [[Q _]|(z0 & Q & -> & Hzh)]; [discriminate Q|]. inversion Q; subst z0.
  destruct (derivs_length ops _ _ _ _ _ H2) as (t & tp1 & Ho & Ht1 & Hl).
  rewrite get_put, Nat.eqb_refl in Ho. cbn [obj_hist] in Ho. rewrite Ho in Hzh. symmetry in Hzh.
  destruct (tape_of st t) as [tp|] eqn:Et.
  - destruct (Hon t tp Hzh Et) as (suf & T1 & Ls & Hz). destruct (Hz z eq_refl) as (_ & pre & en & -> & Hi).
    rewrite tape_of_put, T1 in Ht1. inversion Ht1; subst tp1.
    exists t, tp, pre, en. split; [exact Ho|]. split; [exact Et|]. split; [rewrite tape_of_put; exact T1|].
    rewrite !app_length in *. cbn [length] in *. repeat split; lia.
  - exfalso. revert H1. cbn [step]. rewrite Eg. unfold sum_on. rewrite Hzh, Et. discriminate.
Qed.

(* ------------------------------------------------------------------ reachable states: containers are well shaped
   `input_ok` (C15P) asks that an input container of a cycle has a valid shape with as many
   elements as data.  That is an invariant of the machine: every container it creates has it,
   provided matrices are declared the way the case language declares them (dimension names 0
   and 1).  Hence for a state reached from `init n`, `input_ok t o` is just "o lives on t". *)
Definition cont_wf (c : cont R) : Prop :=
  shape_valid (c_shape c) (length (c_data c)) = true /\
  (if c_tensor c then True else map fst (c_shape c) = [0; 1]).
Definition obj_wf (o : obj) : Prop := match o with OCont c => cont_wf c | _ => True end.
Definition state_wf (st : state) : Prop := Forall obj_wf (regs st).
Definition op_ok (o : @tm_op R) : Prop :=
  match o with
  | TCVar _ _ false sh _ | TCConst _ false sh _ => map fst sh = [0; 1]
  | _ => True
  end.

Lemma get_wf (st : state) r : state_wf st -> obj_wf (get st r).
Proof.
  intros H. unfold get. destruct (nth_in_or_default r (regs st) ODead) as [Hi| ->]; [|exact I].
  eapply Forall_forall; eauto.
Qed.

Lemma set_nth_Forall {A} (P : A -> Prop) d v : P d -> P v -> forall l k, Forall P l -> Forall P (set_nth d l k v).
Proof.
  intros Pd Pv. assert (E : forall k, Forall P (set_nth d [] k v)).
  { induction k; cbn; constructor; auto. }
  induction l as [|x l IH]; intros k H; [apply E|].
  inversion H; subst. destruct k; cbn; constructor; auto.
Qed.

Lemma put_wf (st : state) d o : state_wf st -> obj_wf o -> state_wf (put st d o).
Proof. intros H Ho. unfold state_wf, put. cbn [regs]. apply set_nth_Forall; auto. exact I. Qed.

Lemma finish_wf (st : state) dst h (f : tape -> outcome (tape * obj)) st' v : state_wf st ->
  (forall tp tp' o, f tp = Ok (tp', o) -> obj_wf o) ->
  finish st dst (on_tape st h f) = Some (st', v) -> state_wf st'.
Proof.
  intros Hw Hf. unfold on_tape. destruct h as [t|].
  - destruct (tape_of st t) as [tp|]; [|discriminate].
    destruct (f tp) as [[tp' o]| |] eqn:Ef; cbn [omap finish fst snd]; intros E; inversion E; subst; auto.
    apply put_wf; [exact Hw|eapply Hf; eauto].
  - destruct (f []) as [[tp' o]| |] eqn:Ef; cbn [omap finish fst snd]; intros E; inversion E; subst; auto.
    apply put_wf; [exact Hw|eapply Hf; eauto].
Qed.

Lemma as_rec_wf {A} (r : outcome (A * rec R)) tp' o : as_rec r = Ok (tp', o) -> obj_wf o.
Proof. unfold as_rec. destruct r as [[a x]| |]; cbn; intros E; inversion E; exact I. Qed.

Lemma as_cont_inv {A} (r : outcome (A * cont R)) tp' o : as_cont r = Ok (tp', o) ->
  exists c, r = Ok (tp', c) /\ o = OCont c.
Proof. unfold as_cont. destruct r as [[a x]| |]; cbn; intros E; inversion E; eauto. Qed.

Lemma shape_valid_elements sh n : shape_valid sh n = true -> elements sh = n.
Proof. unfold shape_valid. intros H. apply andb_true_iff in H as [_ H]. apply Nat.eqb_eq. exact H. Qed.

Lemma shape_valid_len sh n m : shape_valid sh n = true -> m = n -> shape_valid sh m = true.
Proof. intros H ->. exact H. Qed.

Lemma c_variables_wf (tp : tape) t (tensor : bool) sh (data : list R) : shape_valid sh (length data) = true ->
  (if tensor then True else map fst sh = [0; 1]) -> cont_wf (snd (c_variables ops tp t tensor sh data)).
Proof.
  intros H Hn. unfold c_variables, incrementing_indexes. cbn [snd]. split; [|exact Hn]. cbn [c_shape c_data].
  eapply shape_valid_len; [exact H|]. rewrite combine_length, seq_length, (shape_valid_elements _ _ H). apply Nat.min_id.
Qed.

Lemma unary_loop_length f records (t t' : tape) ys : unary_loop ops t f records = (t', ys) -> length ys = length records.
Proof.
  intros E. destruct (unary_loop_positions ops f _ _ _ _ E) as (_ & _ & Hp).
  apply (f_equal (@length nat)) in Hp. rewrite map_length, seq_length in Hp. exact Hp.
Qed.

Lemma c_unary_wf tp assign f (x : cont R) : cont_wf x -> cont_wf (snd (c_unary ops tp assign f x)).
Proof.
  intros [H1 H2]. unfold c_unary. destruct (c_hist x).
  - destruct (unary_loop ops tp f (c_data x)) as [t' ys] eqn:E. cbn [snd]. split; [|exact H2]. cbn [c_shape c_data].
    rewrite (unary_loop_length _ _ _ _ _ E). exact H1.
  - cbn [snd]. split; [|exact H2]. cbn [c_shape c_data]. rewrite map_length. exact H1.
Qed.

Lemma binary_both_length f : forall xs ys (t : tape) t' zs, binary_both_loop t f xs ys = (t', zs) ->
  length zs = Nat.min (length xs) (length ys).
Proof.
  induction xs as [|[x p] r IH]; intros [|[y q] yr] t t' zs; cbn [binary_both_loop append_binary];
    try (intros E; inversion E; reflexivity).
  destruct (binary_both_loop (t ++ [_]) f r yr) as [t2 zr] eqn:E2. intros E; inversion E; subst.
  cbn [length Nat.min]. f_equal. eapply IH; eauto.
Qed.
Lemma binary_x_length f : forall xs ys (t : tape) t' zs, binary_x_loop ops t f xs ys = (t', zs) ->
  length zs = Nat.min (length xs) (length ys).
Proof.
  induction xs as [|[x p] r IH]; intros [|[y q] yr] t t' zs; cbn [binary_x_loop append_unary];
    try (intros E; inversion E; reflexivity).
  destruct (binary_x_loop ops (t ++ [_]) f r yr) as [t2 zr] eqn:E2. intros E; inversion E; subst.
  cbn [length Nat.min]. f_equal. eapply IH; eauto.
Qed.
Lemma binary_y_length f : forall xs ys (t : tape) t' zs, binary_y_loop ops t f xs ys = (t', zs) ->
  length zs = Nat.min (length xs) (length ys).
Proof.
  induction xs as [|[x p] r IH]; intros [|[y q] yr] t t' zs; cbn [binary_y_loop append_unary];
    try (intros E; inversion E; reflexivity).
  destruct (binary_y_loop ops (t ++ [_]) f r yr) as [t2 zr] eqn:E2. intros E; inversion E; subst.
  cbn [length Nat.min]. f_equal. eapply IH; eauto.
Qed.

Lemma shape_eqb_elements tensor : forall a b, shape_eqb tensor a b = true -> elements a = elements b.
Proof.
  unfold shape_eqb. induction a as [|d a IH]; intros [|e b]; cbn [length Nat.eqb combine forallb andb fst snd];
    intros H; try reflexivity; try discriminate H.
  apply andb_true_iff in H as [H1 H2]. apply andb_true_iff in H2 as [H2 H3]. apply andb_true_iff in H2 as [_ H2].
  apply Nat.eqb_eq in H2. cbn [elements fold_right]. rewrite H2. f_equal. apply IH. rewrite H1, H3. reflexivity.
Qed.

Lemma c_binary_wf tp f (x y : cont R) tp' z : cont_wf x -> cont_wf y ->
  c_binary ops tp f x y = Ok (tp', z) -> cont_wf z.
Proof.
  intros [X1 X2] [Y1 _]. unfold c_binary. destruct (shape_eqb (c_tensor x) (c_shape x) (c_shape y)) eqn:Es; cbn [negb]; [|discriminate].
  assert (L : length (c_data y) = length (c_data x)).
  { rewrite <- (shape_valid_elements _ _ X1), <- (shape_valid_elements _ _ Y1). symmetry. eapply shape_eqb_elements; eauto. }
  assert (K : forall zs h, length zs = Nat.min (length (c_data x)) (length (c_data y)) ->
              cont_wf (mkCont (c_tensor x) (c_shape x) zs h)).
  { intros zs h Hl. split; [|exact X2]. cbn [c_shape c_data]. rewrite Hl, L, Nat.min_id. exact X1. }
  destruct (c_hist x) as [h|], (c_hist y) as [h2|].
  - destruct (negb (Nat.eqb h h2)); [discriminate|].
    destruct (binary_both_loop tp f (c_data x) (c_data y)) as [t1 zs] eqn:El. intros Q; inversion Q; subst.
    apply K. eapply binary_both_length; eauto.
  - destruct (binary_x_loop ops tp f (c_data x) (c_data y)) as [t1 zs] eqn:El. intros Q; inversion Q; subst.
    apply K. eapply binary_x_length; eauto.
  - destruct (binary_y_loop ops tp f (c_data x) (c_data y)) as [t1 zs] eqn:El. intros Q; inversion Q; subst.
    apply K. eapply binary_y_length; eauto.
  - intros Q; inversion Q; subst. apply K. rewrite map_length, combine_length. reflexivity.
Qed.

Lemma cont_bin_wf tp mode f (x y : cont R) tp' z : cont_wf x -> cont_wf y ->
  cont_bin ops tp mode f x y = Ok (tp', z) -> cont_wf z.
Proof.
  intros Hx Hy. unfold cont_bin, c_binop. destruct mode as [|[|[|[|m]]]]; try discriminate.
  - destruct (negb (same_list (c_hist x) (c_hist y))); [discriminate|]. apply c_binary_wf; assumption.
  - apply c_binary_wf; assumption.
  - apply c_binary_wf; assumption.
  - apply c_binary_wf; assumption.
Qed.

Lemma matmul_cells_length lh rh rows inner columns ld rd : forall cs (t : tape) t' zs,
  matmul_cells ops t lh rh rows inner columns ld rd cs = Some (t', zs) -> length zs = length cs.
Proof.
  induction cs as [|[i j] rest IH]; intros t t' zs; cbn [matmul_cells].
  - intros E; inversion E; reflexivity.
  - destruct (record_scalar_product ops t lh rh (row_of inner ld i) (column_of inner columns rd j)) as [[t1 z]|]; [|discriminate].
    destruct (matmul_cells ops t1 lh rh rows inner columns ld rd rest) as [[t2 zr]|] eqn:E2; [|discriminate].
    intros E; inversion E; subst. cbn [length]. f_equal. eapply IH; eauto.
Qed.

Lemma cells_length rows columns : length (cells rows columns) = rows * columns.
Proof.
  unfold cells. rewrite <- (seq_length rows 0) at 2. induction (seq 0 rows) as [|i l IH]; cbn [flat_map length]; [reflexivity|].
  rewrite app_length, map_length, seq_length, IH. reflexivity.
Qed.

Lemma shape2_fwd n0 r n1 c len : shape_valid [(n0, r); (n1, c)] len = true -> Nat.eqb r 0 = false /\ Nat.eqb c 0 = false.
Proof.
  unfold shape_valid. cbn [forallb snd]. intros H. apply andb_true_iff in H as [H _]. apply andb_true_iff in H as [_ H].
  apply andb_true_iff in H as [H1 H2]. apply andb_true_iff in H2 as [H2 _].
  split; apply negb_true_iff; assumption.
Qed.

Lemma shape2_bwd n0 r n1 c : Nat.eqb n0 n1 = false -> Nat.eqb r 0 = false -> Nat.eqb c 0 = false ->
  shape_valid [(n0, r); (n1, c)] (r * c) = true.
Proof.
  intros H1 H2 H3. unfold shape_valid. cbn [map fst has_duplicates existsb forallb snd elements fold_right].
  rewrite H1, H2, H3, Nat.mul_1_r, Nat.eqb_refl. reflexivity.
Qed.

Lemma c_matmul_wf tp (x y : cont R) tp' z : cont_wf x -> cont_wf y -> c_tensor x = c_tensor y ->
  c_matmul ops tp x y = Ok (tp', z) -> cont_wf z.
Proof.
  intros [X1 X2] [Y1 Y2] Hk. unfold c_matmul. destruct (negb _); [discriminate|].
  destruct (c_shape x) as [|[n0 rows] [|[n1 inner] [|]]]; try discriminate.
  destruct (c_shape y) as [|[n2 inner2] [|[n3 columns] [|]]]; try discriminate.
  destruct (negb _); [discriminate|]. destruct (c_tensor x && Nat.eqb n0 n3) eqn:Et; [discriminate|].
  destruct (matmul_cells ops tp (c_hist x) (c_hist y) rows inner columns (c_data x) (c_data y) (cells rows columns))
    as [[t1 zs]|] eqn:E1; [|discriminate].
  intros Q; inversion Q; subst. apply matmul_cells_length in E1. rewrite cells_length in E1.
  destruct (shape2_fwd _ _ _ _ _ X1) as [Hr _]. destruct (shape2_fwd _ _ _ _ _ Y1) as [_ Hc].
  rewrite <- Hk in Y2. split; cbn [c_shape c_data c_tensor].
  - rewrite E1. apply shape2_bwd; [|exact Hr|exact Hc].
    destruct (c_tensor x); [exact Et|]. cbn in X2, Y2. inversion X2; inversion Y2; subst. reflexivity.
  - destruct (c_tensor x); [exact I|]. cbn in X2, Y2. inversion X2; inversion Y2; subst. reflexivity.
Qed.

Lemma c_reset_wf tp (x : cont R) : cont_wf x -> cont_wf (snd (c_reset ops tp x)).
Proof.
  intros [H1 H2]. unfold c_reset, incrementing_indexes. destruct (c_hist x); cbn [snd]; [|split; assumption].
  split; [|exact H2]. cbn [c_shape c_data]. eapply shape_valid_len; [exact H1|].
  rewrite combine_length, map_length, seq_length, (shape_valid_elements _ _ H1). apply Nat.min_id.
Qed.

Lemma obj_reset_wf tp (o : obj) tp' o' idx : obj_wf o -> obj_reset ops tp o = (tp', o', idx) -> obj_wf o'.
Proof.
  destruct o as [r|c|]; cbn [obj_reset obj_wf]; intros Hw.
  - destruct (rec_reset ops tp r). intros E; inversion E; exact I.
  - pose proof (c_reset_wf tp c Hw) as Hc. destruct (c_reset ops tp c) as [tp1 c']. intros E; inversion E; subst. exact Hc.
  - intros E; inversion E; exact I.
Qed.

Lemma reset_all_wf t : forall (os : list obj) (tp : tape) tp' os' idx, Forall obj_wf os ->
  reset_all ops tp t os = (tp', os', idx) -> Forall obj_wf os'.
Proof.
  induction os as [|o r IH]; intros tp tp' os' idx H; cbn [reset_all].
  - intros E; inversion E; constructor.
  - inversion H; subst. destruct (match obj_hist o with Some h => Nat.eqb h t | None => false end).
    + destruct (obj_reset ops tp o) as [[tp1 o1] i1] eqn:E1.
      destruct (reset_all ops tp1 t r) as [[tp2 r2] i2] eqn:E2. intros E; inversion E; subst.
      constructor; [eapply obj_reset_wf; eauto|eapply IH; eauto].
    + destruct (reset_all ops tp t r) as [[tp2 r2] i2] eqn:E2. intros E; inversion E; subst.
      constructor; [assumption|eapply IH; eauto].
Qed.

Theorem step_wf (st : state) o st' v : state_wf st -> op_ok o -> step ops st o = Some (st', v) -> state_wf st'.
Proof.
  intros Hw Hok Hs.
  assert (SK : forall r, skipped st = Some r -> state_wf (fst r)) by (intros r E; inversion E; exact Hw).
  destruct o as [|dst t' x|dst x|dst t' tensor sh data|dst tensor sh data|dst assign code c a|dst mode code a b|dst a b
                 |a elem|t'|a|t'|dst rs]; cbn [step] in Hs.
  - inversion Hs; subst. exact Hw.
  - eapply finish_wf; [exact Hw| |exact Hs]. intros tp tp' o. apply as_rec_wf.
  - inversion Hs; subst. apply put_wf; [exact Hw|exact I].
  - destruct (negb (shape_valid sh (length data)) || negb (tensor || Nat.eqb (length sh) 2)) eqn:Ev; [discriminate|].
    apply orb_false_iff in Ev as [Ev _]. apply negb_false_iff in Ev.
    eapply finish_wf; [exact Hw| |exact Hs]. intros tp tp' o E. apply as_cont_inv in E as (c & E & ->).
    inversion E; subst. apply c_variables_wf; [exact Ev|]. destruct tensor; [exact I|exact Hok].
  - destruct (negb (shape_valid sh (length data)) || negb (tensor || Nat.eqb (length sh) 2)) eqn:Ev; [discriminate|].
    apply orb_false_iff in Ev as [Ev _]. apply negb_false_iff in Ev.
    inversion Hs; subst. apply put_wf; [exact Hw|]. split; cbn [c_constants c_shape c_data c_tensor].
    + rewrite map_length. exact Ev.
    + destruct tensor; [exact I|exact Hok].
  - destruct (negb (un_code_ok ops code c)); [discriminate|]. pose proof (get_wf st a Hw) as Ha.
    destruct (get st a) as [x|x|].
    + eapply finish_wf; [exact Hw| |exact Hs]. intros tp tp' o. apply as_rec_wf.
    + eapply finish_wf; [exact Hw| |exact Hs]. intros tp tp' o E. apply as_cont_inv in E as (z & E & ->).
      unfold cont_un in E. destruct (unfn_of ops code c) as [f|]; [|discriminate]. inversion E as [E'].
      replace z with (snd (c_unary ops tp assign f x)) by (rewrite E'; reflexivity).
      apply c_unary_wf. exact Ha.
    + apply (SK _ Hs).
  - destruct (binfn_of ops code) as [f|]; [|discriminate].
    pose proof (get_wf st a Hw) as Ha. pose proof (get_wf st b Hw) as Hb.
    destruct (get st a) as [x|x|], (get st b) as [y|y|]; try apply (SK _ Hs).
    + eapply finish_wf; [exact Hw| |exact Hs]. intros tp tp' o. apply as_rec_wf.
    + destruct (negb (Bool.eqb (c_tensor x) (c_tensor y))); [apply (SK _ Hs)|].
      destruct (_ || _); [discriminate|].
      eapply finish_wf; [exact Hw| |exact Hs]. intros tp tp' o E. apply as_cont_inv in E as (z & E & ->).
      eapply cont_bin_wf; [exact Ha|exact Hb|exact E].
  - pose proof (get_wf st a Hw) as Ha. pose proof (get_wf st b Hw) as Hb.
    destruct (get st a) as [x|x|], (get st b) as [y|y|]; try apply (SK _ Hs).
    destruct (Bool.eqb (c_tensor x) (c_tensor y)) eqn:Ek; cbn [negb] in Hs; [|apply (SK _ Hs)].
    destruct (_ || _); [discriminate|].
    eapply finish_wf; [exact Hw| |exact Hs]. intros tp tp' o E. apply as_cont_inv in E as (z & E & ->).
    eapply c_matmul_wf; [exact Ha|exact Hb|apply Bool.eqb_prop; exact Ek|exact E].
  - unfold skipped in Hs.
    repeat (match type of Hs with context [match ?u with _ => _ end] => destruct u end);
      try discriminate Hs; inversion Hs; subst; exact Hw.
  - destruct (tape_of st t'); [|discriminate]. inversion Hs; subst. exact Hw.
  - pose proof (get_wf st a Hw) as Ha.
    assert (K : forall o, obj_wf o ->
              match obj_hist o with
              | None => Some (st, Ok (VIdx []))
              | Some t0 => match tape_of st t0 with
                           | None => None
                           | Some tp0 => let '(tp', o', idx) := obj_reset ops tp0 o in
                                         Some (put (set_tape st t0 tp') a o', Ok (VIdx idx))
                           end
              end = Some (st', v) -> state_wf st').
    { intros o Ho. destruct (obj_hist o) as [t0|]; [|intros E; inversion E; subst; exact Hw].
      destruct (tape_of st t0) as [tp0|]; [|discriminate].
      destruct (obj_reset ops tp0 o) as [[tp' o'] idx] eqn:Er. intros E; inversion E; subst.
      apply put_wf; [exact Hw|eapply obj_reset_wf; eauto]. }
    destruct (get st a) as [x|x|].
    + apply (K (ORec x) I Hs).
    + apply (K (OCont x) Ha Hs).
    + apply (SK _ Hs).
  - destruct (tape_of st t') as [tp|]; [|discriminate].
    destruct (reset_all ops tp t' (regs st)) as [[tp' os] idx] eqn:Er. inversion Hs; subst.
    unfold state_wf. cbn [regs]. eapply reset_all_wf; eauto.
  - destruct (get_recs st rs) as [xs|]; [|apply (SK _ Hs)].
    assert (W : forall t tp, state_wf (set_tape st t tp)) by (intros t tp; exact Hw).
    unfold sum_on in Hs. destruct (sum_hist xs) as [t0|].
    + destruct (tape_of st t0) as [tp|]; [|discriminate].
      destruct (sum_fold ops tp (rec_constant (nzero ops)) xs) as [tp' [z|e|]]; cbn [fst snd sum_finish] in Hs;
        inversion Hs; subst; try apply W. apply put_wf; [apply W|exact I].
    + destruct (sum_fold ops [] (rec_constant (nzero ops)) xs) as [tp' [z|e|]]; cbn [fst snd sum_finish] in Hs;
        inversion Hs; subst; try exact Hw. apply put_wf; [exact Hw|exact I].
Qed.

Theorem run_wf : forall script (st : state) stf vs, state_wf st -> Forall op_ok script ->
  tm_run ops st script = Some (stf, vs) -> state_wf stf.
Proof.
  induction script as [|o rest IH]; intros st stf vs Hw Hok; cbn [tm_run].
  - intros E; inversion E; subst. exact Hw.
  - inversion Hok; subst. destruct (step ops st o) as [[s1 v]|] eqn:Es; [|discriminate].
    destruct (tm_run ops s1 rest) as [[s2 vr]|] eqn:Er; [|discriminate]. intros E; inversion E; subst.
    eapply IH; [eapply step_wf; eauto|assumption|exact Er].
Qed.

(* in a state reached from the initial machine, every object that lives on list t is a valid
   input of a cycle of t *)
Theorem reachable_input_ok n script (st : state) vs t a : Forall op_ok script ->
  tm_run ops (init n) script = Some (st, vs) -> obj_hist (get st a) = Some t -> input_ok t (get st a).
Proof.
  intros Hok Hr Hh. assert (Hw : state_wf st) by (eapply (run_wf script (init n)); [apply Forall_nil|exact Hok|exact Hr]).
  pose proof (get_wf st a Hw) as Ha. split; [exact Hh|]. destruct (get st a) as [x|c|]; try exact I.
  destruct Ha as [H1 H2]. split; [exact H1|]. destruct (c_tensor c); [reflexivity|].
  cbn [orb]. apply (f_equal (@length nat)) in H2. rewrite map_length in H2. rewrite H2. reflexivity.
Qed.

(* the wide cycle theorem for reachable states: the inputs only have to live on list t *)
Theorem cycle_equiv_reachable n h (st : state) vs0 t ins keep P st1 vs1 stf res :
  Forall op_ok h -> tm_run ops (init n) h = Some (st, vs0) ->
  NoDup ins -> (forall a, In a ins -> obj_hist (get st a) = Some t) ->
  tm_run ops st (TClear t :: map TReset ins) = Some (st1, vs1) ->
  wide_run (fun r => mem ins r || keep r) st1 P ->
  tm_run ops st1 P = Some (stf, res) ->
  exists st2 vs2 stf2,
    tm_run ops (fresh_start keep t st) (map (fun a => recreate ops t a (get st a)) ins) = Some (st2, vs2) /\
    tm_run ops st2 P = Some (stf2, res) /\ tapes stf2 = tapes stf.
Proof.
  intros Hok Hr Hnd Hin. apply cycle_equiv_wide; [exact Hnd|].
  intros a Ha. eapply reachable_input_ok; eauto.
Qed.

End C15R.
