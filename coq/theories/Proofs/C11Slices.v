(* C11: the slice algebra (src/matrices/slices.rs).  The builder methods Slice::not / and / or and
   the Slice2D builder (Model/Slices.v) against the recursive boolean function Slice::accepts
   (Model/Matrix.v): the laws the documentation implies ("in the same way as in predicate logic
   expressions"), the closed forms of the sizing count of retain_mut, what an interval-merging
   `or` would have to compute (and that the classic slip does not), and that retention depends
   on a slice only through the indexes it accepts below the matrix's size — so a builder that
   "simplifies" is harmless exactly when it preserves `accepts`. *)
From Coq Require Import List ZArith NArith Bool Arith Lia.
From EasyML Require Import Base.Sx Model.Matrix Model.Slices Proofs.C11Spec Proofs.C11Ops Proofs.C11P.
Import ListNotations.
Local Open Scope N_scope.

(* ---------- the three builder methods ---------- *)
Lemma accepts_not a i : slice_accepts (slice_not a) i = negb (slice_accepts a i).
Proof. reflexivity. Qed.
Lemma accepts_and a b i : slice_accepts (slice_and a b) i = slice_accepts a i && slice_accepts b i.
Proof. reflexivity. Qed.
Lemma accepts_or a b i : slice_accepts (slice_or a b) i = slice_accepts a i || slice_accepts b i.
Proof. reflexivity. Qed.

(* an expression built through the methods accepts what the enum-built one accepts; the proof
   uses the three laws above only *)
Lemma accepts_by_methods s : forall i, slice_accepts (by_methods s) i = slice_accepts s i.
Proof.
  induction s as [| |k|a b|s IH|s1 IH1 s2 IH2|s1 IH1 s2 IH2]; intros i; cbn [by_methods]; try reflexivity.
  - rewrite accepts_not, IH. reflexivity.
  - rewrite accepts_and, IH1, IH2. reflexivity.
  - rewrite accepts_or, IH1, IH2. reflexivity.
Qed.

(* the laws of a Boolean algebra, pointwise *)
Theorem slice_algebra_laws a b c i :
  (* De Morgan *)
  slice_accepts (slice_not (slice_and a b)) i = slice_accepts (slice_or (slice_not a) (slice_not b)) i /\
  slice_accepts (slice_not (slice_or a b)) i = slice_accepts (slice_and (slice_not a) (slice_not b)) i /\
  (* double negation *)
  slice_accepts (slice_not (slice_not a)) i = slice_accepts a i /\
  (* commutative, associative, idempotent *)
  slice_accepts (slice_and a b) i = slice_accepts (slice_and b a) i /\
  slice_accepts (slice_or a b) i = slice_accepts (slice_or b a) i /\
  slice_accepts (slice_and a (slice_and b c)) i = slice_accepts (slice_and (slice_and a b) c) i /\
  slice_accepts (slice_or a (slice_or b c)) i = slice_accepts (slice_or (slice_or a b) c) i /\
  slice_accepts (slice_and a a) i = slice_accepts a i /\
  slice_accepts (slice_or a a) i = slice_accepts a i /\
  (* distributive, absorption *)
  slice_accepts (slice_and a (slice_or b c)) i = slice_accepts (slice_or (slice_and a b) (slice_and a c)) i /\
  slice_accepts (slice_or a (slice_and b c)) i = slice_accepts (slice_and (slice_or a b) (slice_or a c)) i /\
  slice_accepts (slice_or a (slice_and a b)) i = slice_accepts a i /\
  slice_accepts (slice_and a (slice_or a b)) i = slice_accepts a i /\
  (* All / None are the units and the zeros; complements *)
  slice_accepts (slice_and a SAll) i = slice_accepts a i /\
  slice_accepts (slice_or a SNone) i = slice_accepts a i /\
  slice_accepts (slice_and a SNone) i = false /\
  slice_accepts (slice_or a SAll) i = true /\
  slice_accepts (slice_and a (slice_not a)) i = false /\
  slice_accepts (slice_or a (slice_not a)) i = true /\
  slice_accepts (slice_not SAll) i = slice_accepts SNone i.
Proof.
  rewrite ?accepts_not, ?accepts_and, ?accepts_or, ?accepts_not, ?accepts_and, ?accepts_or, ?accepts_not.
  cbn [slice_accepts].
  destruct (slice_accepts a i), (slice_accepts b i), (slice_accepts c i); cbn; repeat split; reflexivity.
Qed.

(* ---------- the atoms ---------- *)
Lemma range_accepts a b i : slice_accepts (SRange a b) i = true <-> a <= i < b.
Proof. cbn [slice_accepts]. rewrite andb_true_iff, N.leb_le, N.ltb_lt. tauto. Qed.

Lemma bool_eq_iff (x y : bool) : (x = true <-> y = true) -> x = y.
Proof. destruct x, y; intros [H1 H2]; try reflexivity; [symmetry; exact (H1 eq_refl)|exact (H2 eq_refl)]. Qed.

Theorem atom_laws a b i k :
  (* an empty or reversed range accepts nothing *)
  (b <= a -> slice_accepts (SRange a b) i = false) /\
  (* Single(k) is Range(k..k+1) *)
  slice_accepts (SSingle k) i = slice_accepts (SRange k (k + 1)) i /\
  (* the and of two ranges is the range of the larger start and the smaller end *)
  (forall a2 b2, slice_accepts (slice_and (SRange a b) (SRange a2 b2)) i
                 = slice_accepts (SRange (N.max a a2) (N.min b b2)) i).
Proof.
  split; [|split].
  - intros H. destruct (slice_accepts (SRange a b) i) eqn:E; [|reflexivity].
    apply range_accepts in E. lia.
  - apply bool_eq_iff. rewrite range_accepts. cbn [slice_accepts]. rewrite N.eqb_eq. lia.
  - intros a2 b2. apply bool_eq_iff. rewrite accepts_and, andb_true_iff, !range_accepts. lia.
Qed.

(* what an `or` that merges two ranges into one has to compute: when each range starts no later
   than the other one ends (they overlap or touch) the union is the range from the smaller start
   to the LARGER end *)
Theorem range_or_merge a1 b1 a2 b2 : a1 < b1 -> a2 < b2 -> a2 <= b1 -> a1 <= b2 -> forall i,
  slice_accepts (slice_or (SRange a1 b1) (SRange a2 b2)) i = slice_accepts (merged_range a1 b1 a2 b2) i.
Proof.
  intros H1 H2 H3 H4 i. apply bool_eq_iff. unfold merged_range.
  rewrite accepts_or, orb_true_iff, !range_accepts.
  destruct (N.leb_spec a1 a2); rewrite range_accepts; lia.
Qed.

(* ... and the end of the later-starting range is not that: Range(0..3).or(Range(1..2)) accepts
   index 2, the slip's 0..2 does not (seed C11-v2) *)
Theorem range_or_merge_slip_refuted :
  slice_accepts (slice_or (SRange 0 3) (SRange 1 2)) 2 = true /\
  slice_accepts (merged_range_slip 0 3 1 2) 2 = false /\
  slice_accepts (merged_range 0 3 1 2) 2 = true.
Proof. repeat split. Qed.

(* ---------- Slice2D ---------- *)
Theorem slice2d_builder_orders rows columns r c :
  slice2d_rows_then_columns rows columns = slice2d_columns_then_rows columns rows /\
  slice2d_accepts (slice2d_rows_then_columns rows columns) r c = slice_accepts rows r && slice_accepts columns c /\
  slice2d_accepts (slice2d_columns_then_rows columns rows) r c = slice_accepts rows r && slice_accepts columns c.
Proof. repeat split. Qed.

(* ---------- the sizing loop of retain_mut ---------- *)
Lemma count_accepted_zero s : count_accepted s 0 = 0.
Proof. reflexivity. Qed.

Lemma count_accepted_succ s n :
  count_accepted s (n + 1) = count_accepted s n + (if slice_accepts s n then 1 else 0).
Proof.
  unfold count_accepted, nrange, nlen.
  replace (N.to_nat (n + 1)) with (S (N.to_nat n)) by lia.
  rewrite seq_S, map_app, filter_app, app_length. cbn [map filter Nat.add]. rewrite N2Nat.id.
  destruct (slice_accepts s n); cbn [length]; lia.
Qed.

Lemma count_accepted_ext s s' n : (forall i, i < n -> slice_accepts s i = slice_accepts s' i) ->
  count_accepted s n = count_accepted s' n.
Proof.
  induction n as [|n IH] using N.peano_ind; intros H; [reflexivity|].
  rewrite <- N.add_1_r, !count_accepted_succ, IH, (H n) by (intros; try apply H; lia). reflexivity.
Qed.

(* closed forms (what a sizing helper that does not loop has to return) *)
Theorem count_accepted_closed_forms n :
  count_accepted SAll n = n /\
  count_accepted SNone n = 0 /\
  (forall i, count_accepted (SSingle i) n = if i <? n then 1 else 0) /\
  (forall a b, count_accepted (SRange a b) n = N.min b n - a) /\
  (forall s, count_accepted (slice_not s) n = n - count_accepted s n) /\
  (forall s, count_accepted s n <= n) /\
  (forall s t, count_accepted (slice_or s t) n + count_accepted (slice_and s t) n
               = count_accepted s n + count_accepted t n).
Proof.
  induction n as [|n IH] using N.peano_ind.
  - repeat split; intros; rewrite ?count_accepted_zero; try reflexivity; try lia.
    destruct (N.ltb_spec i 0); [lia|reflexivity].
  - destruct IH as [I1 [I2 [I3 [I4 [I5 [I6 I7]]]]]].
    rewrite <- N.add_1_r. repeat split; intros; rewrite ?count_accepted_succ.
    + rewrite I1. cbn [slice_accepts]. lia.
    + rewrite I2. reflexivity.
    + rewrite I3. cbn [slice_accepts].
      destruct (N.ltb_spec i n), (N.eqb_spec i n), (N.ltb_spec i (n + 1)); lia.
    + rewrite I4. cbn [slice_accepts].
      destruct (N.leb_spec a n), (N.ltb_spec n b); cbn [andb]; lia.
    + rewrite I5, accepts_not. pose proof (I6 s). destruct (slice_accepts s n); cbn [negb]; lia.
    + pose proof (I6 s). destruct (slice_accepts s n); lia.
    + pose proof (I7 s t). rewrite accepts_or, accepts_and.
      destruct (slice_accepts s n), (slice_accepts t n); cbn [orb andb]; lia.
Qed.

(* an index outside the matrix counts for nothing (seed C10-v1 returned 1) *)
Corollary count_accepted_single_outside i n : n <= i -> count_accepted (SSingle i) n = 0.
Proof.
  intros H. destruct (count_accepted_closed_forms n) as [_ [_ [E _]]]. rewrite E.
  destruct (N.ltb_spec i n); [lia|reflexivity].
Qed.

(* ---------- every slice denotes a set of indexes, and every finite set is denoted ---------- *)
(* Single(i1).or(Single(i2).or(... None())) *)
Fixpoint slice_of_indexes (l : list N) : slice :=
  match l with
  | [] => SNone
  | i :: rest => slice_or (SSingle i) (slice_of_indexes rest)
  end.

Lemma accepts_slice_of_indexes l i : slice_accepts (slice_of_indexes l) i = existsb (N.eqb i) l.
Proof.
  induction l as [|k l IH]; [reflexivity|]. cbn [slice_of_indexes existsb].
  rewrite accepts_or, IH. cbn [slice_accepts]. now rewrite N.eqb_sym.
Qed.

(* the indexes below n that a slice accepts, as an `or` of Singles, accept below n what the
   slice accepts (a normal form: on an axis of length n a slice IS the set of accepted indexes) *)
Theorem slice_normal_form s n i : i < n ->
  slice_accepts (slice_of_indexes (filter (slice_accepts s) (nrange n))) i = slice_accepts s i.
Proof.
  intros Hi. rewrite accepts_slice_of_indexes.
  destruct (slice_accepts s i) eqn:E.
  - apply existsb_exists. exists i. split; [|apply N.eqb_refl].
    apply filter_In. split; [|exact E]. unfold nrange. apply in_map_iff. exists (N.to_nat i).
    split; [lia|apply in_seq; lia].
  - destruct (existsb (N.eqb i) (filter (slice_accepts s) (nrange n))) eqn:E2; [|reflexivity].
    apply existsb_exists in E2 as [k [Hk Ek]]. apply N.eqb_eq in Ek. subst k.
    apply filter_In in Hk as [_ Hk]. congruence.
Qed.

(* ---------- retention sees a slice only through `accepts` below the size ---------- *)
Section Retain.
Context {T : Type}.

Lemma keep_from_ext_bounded {A} (g h : N -> bool) (l : list A) : forall s,
  (forall x, s <= x < s + nlen l -> g x = h x) -> keep_from g s l = keep_from h s l.
Proof.
  induction l as [|x l IH]; intros s H; [reflexivity|]. cbn [keep_from].
  rewrite (H s) by (unfold nlen; cbn [length]; lia).
  rewrite (IH (s + 1)) by (intros y Hy; apply H; unfold nlen in *; cbn [length]; lia).
  reflexivity.
Qed.

Lemma In_keep_from {A} (g : N -> bool) (l : list A) x : forall s, In x (keep_from g s l) -> In x l.
Proof.
  induction l as [|y l IH]; intros s H; [exact H|]. cbn [keep_from] in H.
  destruct (g s); [destruct H as [->|H]; [now left|right; eauto]|right; eauto].
Qed.

Lemma spec_retain_ext (a b : slice2d) (m : list (list T)) : rect m ->
  (forall i, i < nlen m -> slice_accepts (s_rows a) i = slice_accepts (s_rows b) i) ->
  (forall j, j < N.of_nat (ncols m) -> slice_accepts (s_columns a) j = slice_accepts (s_columns b) j) ->
  spec_retain a m = spec_retain b m.
Proof.
  intros [_ [_ Hall]] Hr Hc. unfold spec_retain, keep_idx.
  rewrite (keep_from_ext_bounded _ (slice_accepts (s_rows b)) m 0) by (intros x Hx; apply Hr; lia).
  apply map_ext_in. intros row Hin. apply In_keep_from in Hin.
  rewrite Forall_forall in Hall. pose proof (Hall row Hin) as Hl.
  apply keep_from_ext_bounded. intros x Hx. apply Hc. unfold nlen in Hx. lia.
Qed.

(* two Slice2D values that accept the same row indexes below `rows` and the same column indexes
   below `columns` retain the same matrix, in place and allocating, with the same outcome *)
Theorem retain_respects_accepts (s : matrix T) (a b : slice2d) : Inv s ->
  (forall i, i < m_rows s -> slice_accepts (s_rows a) i = slice_accepts (s_rows b) i) ->
  (forall j, j < m_cols s -> slice_accepts (s_columns a) j = slice_accepts (s_columns b) j) ->
  retain_mut s a = retain_mut s b /\ retain s a = retain s b.
Proof.
  intros Hinv Hr Hc. destruct (abs_of_inv s Hinv) as [Hrect Hs].
  assert (Hrows : m_rows s = nlen (abs s)) by (rewrite <- Hs at 1; reflexivity).
  assert (Hcols : m_cols s = N.of_nat (ncols (abs s))) by (rewrite <- Hs at 1; reflexivity).
  assert (E : spec_retain a (abs s) = spec_retain b (abs s)).
  { apply spec_retain_ext; [exact Hrect|rewrite <- Hrows; exact Hr|rewrite <- Hcols; exact Hc]. }
  assert (Em : retain_mut s a = retain_mut s b).
  { destruct (retain_mut_refines (abs s) a Hrect) as [Ha _].
    destruct (retain_mut_refines (abs s) b Hrect) as [Hb _].
    rewrite Hs in Ha, Hb. rewrite Ha, Hb. unfold spec_step. rewrite E. reflexivity. }
  split; [exact Em|].
  unfold retain, mclone, from_flat_row_major. cbn [fst snd].
  destruct ((m_rows s * m_cols s <=? usize_max) && (m_rows s * m_cols s =? nlen (m_data s))); [|reflexivity].
  destruct s as [data rows cols]. cbn [m_data m_rows m_cols] in *.
  destruct data as [|x data]; [reflexivity|]. rewrite Em. reflexivity.
Qed.

(* in particular the method-built expression, in either builder order, retains what the
   enum-built one retains *)
Corollary retain_by_methods (s : matrix T) (rows columns : slice) :
  retain_mut s (slice2d_columns_then_rows (by_methods columns) (by_methods rows))
    = retain_mut s (slice2d_rows_then_columns rows columns) /\
  retain s (slice2d_columns_then_rows (by_methods columns) (by_methods rows))
    = retain s (slice2d_rows_then_columns rows columns).
Proof.
  unfold retain, mclone, retain_mut, slice2d_columns_then_rows, slice2d_rows_then_columns. cbn [s_rows s_columns].
  assert (E1 : forall n, count_accepted (by_methods rows) n = count_accepted rows n)
    by (intros; apply count_accepted_ext; intros; apply accepts_by_methods).
  assert (E2 : forall n, count_accepted (by_methods columns) n = count_accepted columns n)
    by (intros; apply count_accepted_ext; intros; apply accepts_by_methods).
  assert (E3 : forall C (d : list T) r c,
             retain_rc (slice2d_accepts (mkSlice2D (by_methods rows) (by_methods columns))) C d r c
             = retain_rc (slice2d_accepts (mkSlice2D rows columns)) C d r c).
  { intros C d. induction d as [|x d IH]; intros r c; [reflexivity|]. cbn [retain_rc].
    unfold slice2d_accepts at 1 3. cbn [s_rows s_columns]. rewrite !accepts_by_methods, !IH. reflexivity. }
  split.
  - rewrite E1, E2, E3. reflexivity.
  - destruct (from_flat_row_major (m_rows s, m_cols s) (m_data s)) as [c|e|]; try reflexivity.
    cbn [s_rows s_columns]. rewrite E1, E2, E3. reflexivity.
Qed.

Lemma accepts_none_count sl n : accepts_none sl n <-> count_accepted sl n = 0.
Proof. unfold accepts_none, count_accepted, nlen. rewrite <- filter_none. lia. Qed.

(* the size a retention leaves is the pair of counts, and it panics exactly when a count is 0 *)
Theorem retained_size (s : matrix T) (a : slice2d) : Inv s ->
  (snd (retain_mut s a) = false <->
     count_accepted (s_rows a) (m_rows s) = 0 \/ count_accepted (s_columns a) (m_cols s) = 0) /\
  (snd (retain_mut s a) = true ->
     m_rows (fst (retain_mut s a)) = count_accepted (s_rows a) (m_rows s) /\
     m_cols (fst (retain_mut s a)) = count_accepted (s_columns a) (m_cols s)).
Proof.
  intros Hinv. destruct (abs_of_inv s Hinv) as [Hrect Hs].
  assert (Hrows : m_rows s = nlen (abs s)) by (rewrite <- Hs at 1; reflexivity).
  assert (Hcols : m_cols s = N.of_nat (ncols (abs s))) by (rewrite <- Hs at 1; reflexivity).
  split.
  - destruct (retain_mut_refines (abs s) a Hrect) as [E _]. rewrite Hs in E. rewrite E. cbn [snd].
    destruct (spec_panics (abs s) (ORetainMut a) Hrect) as [P _]. rewrite P. cbn [precondition_fails].
    rewrite !accepts_none_count, <- Hrows, <- Hcols. tauto.
  - unfold retain_mut.
    destruct (0 <? count_accepted (s_rows a) (m_rows s)); [|discriminate].
    destruct (0 <? count_accepted (s_columns a) (m_cols s)); [|discriminate].
    destruct (retain_rc (slice2d_accepts a) (m_cols s) (m_data s) 0 0); [discriminate|]. cbn [fst m_rows m_cols]. auto.
Qed.

(* retention by a Slice2D = retention by the normal forms of its two slices *)
Corollary retain_by_normal_form (s : matrix T) (a : slice2d) : Inv s ->
  let nf := mkSlice2D (slice_of_indexes (filter (slice_accepts (s_rows a)) (nrange (m_rows s))))
                      (slice_of_indexes (filter (slice_accepts (s_columns a)) (nrange (m_cols s)))) in
  retain_mut s a = retain_mut s nf /\ retain s a = retain s nf.
Proof.
  intros Hinv nf. apply retain_respects_accepts; [exact Hinv| |]; intros i Hi; unfold nf; cbn [s_rows s_columns];
    symmetry; apply slice_normal_form; exact Hi.
Qed.

End Retain.
