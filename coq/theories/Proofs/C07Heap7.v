(* The n = 7 instance of the Heap's-algorithm check (5040 permutations; a kernel computation of
   a few tens of seconds, hence its own file). *)
From Coq Require Import List Arith Lia Bool.
From EasyML Require Import Model.Perms Proofs.C07P1.
Import ListNotations.

Lemma heap_check_7 : heap_check 7 = true.
Proof. vm_compute. reflexivity. Qed.

Lemma heap_check_le_7 n : 1 <= n <= 7 -> heap_check n = true.
Proof.
  intros Hn. destruct (Nat.eq_dec n 7) as [->|Hne]; [exact heap_check_7|].
  apply heap_check_le_6. lia.
Qed.

Lemma heap_enumerates_le_7 n : 1 <= n <= 7 -> heap_enumerates n.
Proof. intros Hn. apply heap_check_sound, heap_check_le_7, Hn. Qed.
