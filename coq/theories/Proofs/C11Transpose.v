(* C11: transpose (allocating, through from_fn + get) and transpose_mut (replacement for non
   square matrices, the in-place swap loop for square ones) produce the transposed list of rows. *)
From Coq Require Import List ZArith NArith Bool Arith Lia.
From EasyML Require Import Base.Sx Model.Matrix Proofs.C11Spec Proofs.C11Ops.
Import ListNotations.
Local Open Scope nat_scope.

(* ================= folding pairwise disjoint position swaps (any element type) ================= *)
Section Swap.
Variable A : Type.
Variable d : A.

Fixpoint set_nth (l : list A) (k : nat) (v : A) : list A :=
  match l, k with
  | [], _ => []
  | _ :: r, O => v :: r
  | x :: r, S k' => x :: set_nth r k' v
  end.

Lemma length_set_nth l : forall k v, length (set_nth l k v) = length l.
Proof. induction l as [|x l IH]; intros [|k] v; cbn; auto. Qed.

Lemma nth_set_nth l : forall k p v, k < length l ->
  nth k (set_nth l p v) d = if Nat.eqb k p then v else nth k l d.
Proof.
  induction l as [|x l IH]; intros k p v Hk; [cbn in Hk; lia|].
  destruct p as [|p], k as [|k]; cbn [set_nth nth Nat.eqb]; auto.
  apply IH. cbn in Hk. lia.
Qed.

(* the three assignments through `temp`: a[p] <-> a[q] *)
Definition swap (l : list A) (p q : nat) : list A :=
  set_nth (set_nth l p (nth q l d)) q (nth p l d).

Lemma swap_length l p q : length (swap l p q) = length l.
Proof. unfold swap. now rewrite !length_set_nth. Qed.

Lemma nth_swap l p q k : k < length l ->
  nth k (swap l p q) d =
  if Nat.eqb k p then nth q l d else if Nat.eqb k q then nth p l d else nth k l d.
Proof.
  intros H. unfold swap. rewrite nth_set_nth by (now rewrite length_set_nth).
  rewrite nth_set_nth by exact H.
  destruct (Nat.eqb_spec k q) as [Eq|Nq]; destruct (Nat.eqb_spec k p) as [Ep|Np]; try reflexivity.
  subst. reflexivity.
Qed.

Definition run (l : list A) (sw : list (nat * nat)) : list A :=
  fold_left (fun l pq => swap l (fst pq) (snd pq)) sw l.

Lemma run_length sw : forall l, length (run l sw) = length l.
Proof.
  induction sw as [|[p q] sw IH]; intros l; [reflexivity|]. cbn [run fold_left fst snd].
  change (length (run (swap l p q) sw) = length l). rewrite IH, swap_length. reflexivity.
Qed.

Definition touched (sw : list (nat * nat)) (k : nat) : Prop :=
  exists p q, In (p, q) sw /\ (k = p \/ k = q).

Fixpoint disjoint (sw : list (nat * nat)) : Prop :=
  match sw with
  | [] => True
  | (p, q) :: rest => (~ touched rest p) /\ (~ touched rest q) /\ disjoint rest
  end.

Lemma run_untouched sw : forall l k, k < length l -> ~ touched sw k -> nth k (run l sw) d = nth k l d.
Proof.
  induction sw as [|[p q] sw IH]; intros l k Hk Hnt; [reflexivity|].
  cbn [run fold_left fst snd]. change (nth k (run (swap l p q) sw) d = nth k l d).
  rewrite IH.
  - rewrite nth_swap by lia.
    destruct (Nat.eqb_spec k p) as [->|]; [exfalso; apply Hnt; exists p, q; split; [left|]; auto|].
    destruct (Nat.eqb_spec k q) as [->|]; [exfalso; apply Hnt; exists p, q; split; [left|]; auto|].
    reflexivity.
  - rewrite swap_length. lia.
  - intros [p' [q' [Hin Hor]]]. apply Hnt. exists p', q'. split; [right|]; auto.
Qed.

Lemma run_swapped sw : forall l, disjoint sw ->
  (forall p q, In (p, q) sw -> p < length l /\ q < length l) ->
  forall p q, In (p, q) sw ->
    nth p (run l sw) d = nth q l d /\ nth q (run l sw) d = nth p l d.
Proof.
  induction sw as [|[p0 q0] sw IH]; intros l Hd Hb p q Hin; [destruct Hin|].
  destruct Hd as [Hp0 [Hq0 Hd]].
  assert (Hb0 : p0 < length l /\ q0 < length l) by (apply Hb; left; auto).
  cbn [run fold_left fst snd]. change (fold_left _ sw (swap l p0 q0)) with (run (swap l p0 q0) sw).
  destruct Hin as [Heq|Hin].
  - injection Heq as <- <-.
    rewrite !run_untouched by (rewrite ?swap_length; tauto).
    rewrite !nth_swap by tauto. rewrite !Nat.eqb_refl.
    destruct (Nat.eqb_spec q0 p0) as [->|]; auto.
  - assert (Htp : touched sw p) by (exists p, q; auto).
    assert (Htq : touched sw q) by (exists p, q; auto).
    assert (Hpq : p <> p0 /\ p <> q0 /\ q <> p0 /\ q <> q0)
      by (repeat split; intros E; subst; contradiction).
    destruct (IH (swap l p0 q0) Hd) with (p := p) (q := q) as [H1 H2]; auto.
    { intros p' q' Hin'. rewrite swap_length. apply Hb. right; auto. }
    assert (Hbpq : p < length l /\ q < length l) by (apply Hb; right; auto).
    rewrite H1, H2. rewrite !nth_swap by tauto.
    destruct Hpq as [A1 [A2 [A3 A4]]].
    destruct (Nat.eqb_spec q p0), (Nat.eqb_spec q q0), (Nat.eqb_spec p p0), (Nat.eqb_spec p q0);
      try contradiction; auto.
Qed.

Lemma disjoint_by_key (key : nat -> nat) sw :
  (forall p q, In (p, q) sw -> key p = p /\ key q = p) -> NoDup (map fst sw) -> disjoint sw.
Proof.
  induction sw as [|[p q] sw IH]; intros Hk Hnd; [exact I|].
  cbn [map fst] in Hnd. inversion Hnd as [|? ? Hnotin Hnd']; subst.
  destruct (Hk p q (or_introl eq_refl)) as [Kp Kq].
  assert (Hrest : forall k, touched sw k -> key k <> p).
  { intros k [p' [q' [Hin Hor]]] E. apply Hnotin.
    destruct (Hk p' q' (or_intror Hin)) as [Kp' Kq'].
    apply in_map_iff. exists (p', q'). split; [|exact Hin]. cbn.
    destruct Hor as [->| ->]; congruence. }
  split; [intros H; apply (Hrest p H); exact Kp|].
  split; [intros H; apply (Hrest q H); exact Kq|].
  apply IH; [intros; apply Hk; right; auto|exact Hnd'].
Qed.
End Swap.

(* ---- the positions exchanged by the square loop ---- *)
Ltac Zify.zify_post_hook ::= Z.div_mod_to_equations.

Definition tr (n k : nat) : nat := (k mod n) * n + k / n.
Definition upper (n k : nat) : bool := Nat.leb (k / n) (k mod n).
Definition swaps_of (n : nat) (ks : list nat) : list (nat * nat) :=
  map (fun k => (k, tr n k)) (filter (upper n) ks).
Definition swaps (n : nat) : list (nat * nat) := swaps_of n (seq 0 (n * n)).

Lemma tr_facts n k : k < n * n -> tr n k < n * n /\ tr n k / n = k mod n /\ tr n k mod n = k / n.
Proof.
  intros Hk. assert (Hn : 0 < n) by nia. unfold tr.
  assert (Hm : k mod n < n) by (apply Nat.mod_upper_bound; lia).
  assert (Hd : k / n < n) by (apply Nat.div_lt_upper_bound; lia).
  split; [nia|]. split.
  - rewrite Nat.div_add_l by lia. rewrite Nat.div_small by lia. lia.
  - rewrite Nat.add_comm, Nat.mod_add by lia. apply Nat.mod_small. lia.
Qed.

Lemma tr_invol n k : k < n * n -> tr n (tr n k) = k.
Proof.
  intros Hk. destruct (tr_facts n k Hk) as [_ [Hd Hm]]. unfold tr at 1. rewrite Hd, Hm.
  assert (Hn : n <> 0) by nia. rewrite Nat.mul_comm. symmetry. rewrite Nat.add_comm.
  rewrite (Nat.div_mod k n Hn) at 1. lia.
Qed.

Theorem transpose_loop A (d : A) n (data : list A) : length data = n * n ->
  forall k, k < n * n -> nth k (run A d data (swaps n)) d = nth (tr n k) data d.
Proof.
  intros Hlen k Hk.
  set (key := fun k => if upper n k then k else tr n k).
  assert (Hin : forall p q, In (p, q) (swaps n) -> p < n * n /\ upper n p = true /\ q = tr n p).
  { intros p q H. unfold swaps, swaps_of in H. apply in_map_iff in H as [k' [E H]]. injection E as <- <-.
    apply filter_In in H as [H1 H2]. apply in_seq in H1. repeat split; auto; lia. }
  assert (Hdis : disjoint (swaps n)).
  { apply (disjoint_by_key key).
    - intros p q H. destruct (Hin p q H) as [Hp [Hu ->]]. unfold key. rewrite Hu. split; [reflexivity|].
      destruct (tr_facts n p Hp) as [_ [Hd Hm]].
      unfold upper in *. rewrite Hd, Hm.
      destruct (Nat.leb_spec (p mod n) (p / n)).
      + apply Nat.leb_le in Hu. unfold tr.
        assert (p / n = p mod n) by lia.
        assert (Hn : n <> 0) by nia. rewrite (Nat.div_mod p n Hn) at 3. lia.
      + apply tr_invol; auto.
    - unfold swaps, swaps_of. rewrite map_map. cbn [fst]. rewrite map_id.
      apply NoDup_filter, seq_NoDup. }
  assert (Hb : forall p q, In (p, q) (swaps n) -> p < length data /\ q < length data).
  { intros p q H. destruct (Hin p q H) as [Hp [_ ->]]. rewrite Hlen.
    split; [exact Hp|apply tr_facts; exact Hp]. }
  destruct (upper n k) eqn:Hu.
  - assert (H : In (k, tr n k) (swaps n)).
    { unfold swaps, swaps_of. apply in_map_iff. exists k. split; [reflexivity|].
      apply filter_In. split; [apply in_seq; lia|exact Hu]. }
    apply (run_swapped A d (swaps n) data Hdis Hb k (tr n k) H).
  - destruct (tr_facts n k Hk) as [Ht [Hd Hm]].
    assert (Hu' : upper n (tr n k) = true).
    { unfold upper in *. rewrite Hd, Hm. apply Nat.leb_gt in Hu. apply Nat.leb_le. lia. }
    assert (H : In (tr n k, k) (swaps n)).
    { unfold swaps, swaps_of. apply in_map_iff. exists (tr n k). split; [rewrite tr_invol by auto; reflexivity|].
      apply filter_In. split; [apply in_seq; lia|exact Hu']. }
    apply (run_swapped A d (swaps n) data Hdis Hb (tr n k) k H).
Qed.

(* ================= the matrix operations ================= *)
Local Open Scope N_scope.

Section Transpose.
Context {T : Type}.
Implicit Types m : list (list T).

Lemma sequence_app {A} (a b : list (option A)) :
  sequence (a ++ b) = match sequence a, sequence b with
                      | Some x, Some y => Some (x ++ y)
                      | _, _ => None
                      end.
Proof.
  induction a as [|o a IH]; cbn [app sequence]; [now destruct (sequence b)|].
  destruct o; [|reflexivity]. rewrite IH. now destruct (sequence a), (sequence b).
Qed.

Lemma sequence_concat {A B} (F : B -> list (option A)) (G : B -> list A) (l : list B) :
  (forall x, In x l -> sequence (F x) = Some (G x)) ->
  sequence (concat (map F l)) = Some (concat (map G l)).
Proof.
  induction l as [|x l IH]; intros H; [reflexivity|]. cbn [map concat].
  rewrite sequence_app, (H x (or_introl eq_refl)), IH; [reflexivity|]. intros y Hy. apply H. now right.
Qed.

Lemma map_list_prod {A B C} (g : A * B -> C) (l : list A) (l' : list B) :
  map g (list_prod l l') = concat (map (fun x => map (fun y => g (x, y)) l') l).
Proof.
  induction l as [|x l IH]; [reflexivity|]. cbn [list_prod map concat].
  now rewrite map_app, map_map, IH.
Qed.

Lemma nth_error_concat m c : Forall (fun r => length r = c) m -> forall j i, (i < c)%nat ->
  nth_error (concat m) (j * c + i) = nth_error (nth j m []) i.
Proof.
  induction 1 as [|row m Hrow Hm IH]; intros j i Hi.
  - cbn [concat]. replace (nth j (@nil (list T)) []) with (@nil T) by (destruct j; reflexivity).
    destruct (j * c + i)%nat, i; reflexivity.
  - destruct j as [|j]; cbn [concat nth].
    + cbn [Nat.mul Nat.add]. apply nth_error_app1. lia.
    + replace (S j * c + i)%nat with (length row + (j * c + i))%nat by lia.
      rewrite nth_error_app2 by lia.
      replace (length row + (j * c + i) - length row)%nat with (j * c + i)%nat by lia. now apply IH.
Qed.

Lemma mget_of_rows m j i : rect m -> (j < length m)%nat -> (i < ncols m)%nat ->
  mget (of_rows m) (N.of_nat j) (N.of_nat i) = nth_error (nth j m []) i.
Proof.
  intros Hr Hj Hi. unfold mget, of_rows, get_index. cbn [m_rows m_cols m_data].
  assert (E1 : (N.of_nat j <? nlen m) = true) by (apply N.ltb_lt; unfold nlen; lia).
  assert (E2 : (N.of_nat i <? N.of_nat (ncols m)) = true) by (apply N.ltb_lt; lia).
  rewrite E1, E2.
  replace (N.to_nat (N.of_nat i + N.of_nat j * N.of_nat (ncols m))) with (j * ncols m + i)%nat by lia.
  apply nth_error_concat; [exact (rect_forall m Hr)|exact Hi].
Qed.

Lemma map_nth_seq {A B} (f : A -> B) (d : A) (l : list A) :
  map (fun k => f (nth k l d)) (seq 0 (length l)) = map f l.
Proof.
  induction l as [|x l IH]; [reflexivity|]. cbn [length seq map nth]. f_equal.
  rewrite <- seq_shift, map_map. exact IH.
Qed.

Lemma sequence_column m c i : Forall (fun r => length r = c) m -> (i < c)%nat ->
  sequence (map (fun row => nth_error row i) m) = Some (column_of i m).
Proof.
  induction 1 as [|row m Hrow Hm IH]; intros Hi; [reflexivity|].
  cbn [map sequence]. unfold column_of. cbn [flat_map].
  destruct (nth_error row i) eqn:E; [|apply nth_error_None in E; lia].
  fold (column_of i m). now rewrite (IH Hi).
Qed.

Lemma length_column_of m c i : Forall (fun r => length r = c) m -> (i < c)%nat ->
  length (column_of i m) = length m.
Proof.
  induction 1 as [|row m Hrow Hm IH]; intros Hi; [reflexivity|].
  unfold column_of. cbn [flat_map]. destruct (nth_error row i) eqn:E; [|apply nth_error_None in E; lia].
  fold (column_of i m). cbn [app length]. now rewrite (IH Hi).
Qed.

Lemma nth_error_column_of m c i : Forall (fun r => length r = c) m -> (i < c)%nat -> forall j,
  nth_error (column_of i m) j = match nth_error m j with Some row => nth_error row i | None => None end.
Proof.
  induction 1 as [|row m Hrow Hm IH]; intros Hi j; [destruct j; reflexivity|].
  unfold column_of. cbn [flat_map]. destruct (nth_error row i) eqn:E; [|apply nth_error_None in E; lia].
  fold (column_of i m). destruct j; cbn [app nth_error]; [now rewrite E|]. now apply IH.
Qed.

Lemma rect_transpose m : rect m ->
  rect (spec_transpose m) /\ ncols (spec_transpose m) = length m
  /\ length (spec_transpose m) = ncols m
  /\ Forall (fun r => length r = length m) (spec_transpose m).
Proof.
  intros [Hne [Hc Hall]].
  assert (Hl : length (spec_transpose m) = ncols m) by (unfold spec_transpose; now rewrite map_length, seq_length).
  assert (Hall' : Forall (fun r => length r = length m) (spec_transpose m)).
  { unfold spec_transpose. apply Forall_forall. intros r Hin. apply in_map_iff in Hin as [i [<- Hin]].
    apply in_seq in Hin. apply (length_column_of m _ i Hall). lia. }
  assert (Hne' : spec_transpose m <> []) by (intros E; rewrite E in Hl; cbn in Hl; lia).
  assert (Hlm : (0 < length m)%nat) by (destruct m; [congruence|cbn; lia]).
  repeat split; auto.
  - rewrite (ncols_uniform _ _ Hall' Hne'). exact Hlm.
  - now rewrite (ncols_uniform _ _ Hall' Hne').
  - exact (ncols_uniform _ _ Hall' Hne').
Qed.

Lemma transpose_data m : rect m ->
  sequence (map (fun p => mget (of_rows m) (snd p) (fst p)) (pairs (N.of_nat (ncols m)) (nlen m)))
  = Some (concat (spec_transpose m)).
Proof.
  intros Hr. pose proof (rect_forall m Hr) as Hall.
  unfold pairs, nlen. rewrite !nrange_of_nat, map_list_prod. cbn [fst snd].
  unfold spec_transpose.
  rewrite map_map.
  apply sequence_concat. intros i Hi. apply in_seq in Hi.
  rewrite map_map.
  rewrite (map_ext_in _ (fun j => nth_error (nth j m []) i)).
  - rewrite (map_nth_seq (fun row => nth_error row i) [] m). apply (sequence_column m _ i Hall). lia.
  - intros j Hj. apply in_seq in Hj. apply mget_of_rows; auto; lia.
Qed.

Lemma fits_transpose m : rect m -> fits m -> fits (spec_transpose m).
Proof.
  intros Hr Hf. destruct (rect_transpose m Hr) as [Hr' [Hn' [Hl' Hall']]].
  unfold fits in *. rewrite (nlen_concat _ Hr'), Hn'. rewrite (nlen_concat _ Hr) in Hf.
  unfold nlen in *. rewrite Hl'. lia.
Qed.

Lemma transpose_ok m : rect m -> fits m -> transpose (of_rows m) = Ok (of_rows (spec_transpose m)).
Proof.
  intros Hr Hf. unfold transpose.
  change (m_cols (of_rows m)) with (N.of_nat (ncols m)). change (m_rows (of_rows m)) with (nlen m).
  rewrite (transpose_data m Hr).
  destruct (rect_transpose m Hr) as [Hr' [Hn' [Hl' Hall']]].
  replace (N.of_nat (ncols m), nlen m) with (nlen (spec_transpose m), N.of_nat (ncols (spec_transpose m))).
  - apply from_flat_of_rows; [exact Hr'|now apply fits_transpose].
  - unfold nlen. now rewrite Hn', Hl'.
Qed.

Lemma transpose_refines m : rect m -> fits m ->
  impl_step (of_rows m) OTranspose =
    (of_rows (fst (spec_step m OTranspose)), snd (spec_step m OTranspose))
  /\ rect (fst (spec_step m OTranspose)).
Proof.
  intros Hr Hf. cbn [impl_step spec_step fst snd]. rewrite (transpose_ok m Hr Hf).
  split; [reflexivity|apply (rect_transpose m Hr)].
Qed.

(* ---- the square loop ---- *)
Lemma vec_set_set_nth (l : list T) : forall k v, (k < length l)%nat -> vec_set l k v = Some (set_nth T l k v).
Proof.
  induction l as [|x l IH]; intros k v H; [cbn in H; lia|]. destruct k; [reflexivity|].
  cbn [vec_set set_nth]. rewrite IH by (cbn in H; lia). reflexivity.
Qed.

Lemma swap_cell_square (d : T) n (data : list T) k : length data = (n * n)%nat -> (k < n * n)%nat ->
  swap_cell (mkM data (N.of_nat n) (N.of_nat n)) (N.of_nat (k / n), N.of_nat (k mod n))
  = Some (mkM (if upper n k then swap T d data k (tr n k) else data) (N.of_nat n) (N.of_nat n)).
Proof.
  intros Hlen Hk. assert (Hn : (0 < n)%nat) by nia.
  assert (Hm : (k mod n < n)%nat) by (apply Nat.mod_upper_bound; lia).
  assert (Hd : (k / n < n)%nat) by (apply Nat.div_lt_upper_bound; lia).
  assert (Hkk : (k / n * n + k mod n = k)%nat) by (pose proof (Nat.div_mod k n ltac:(lia)); lia).
  destruct (tr_facts n k Hk) as [Htr _].
  unfold swap_cell, upper.
  destruct (Nat.leb_spec (k / n) (k mod n)) as [Hle|Hgt].
  - assert (E : (N.of_nat (k mod n) <? N.of_nat (k / n)) = false) by (apply N.ltb_ge; lia).
    rewrite E. unfold mget, mset, get_index. cbn [m_rows m_cols m_data].
    assert (E1 : (N.of_nat (k / n) <? N.of_nat n) = true) by (apply N.ltb_lt; lia).
    assert (E2 : (N.of_nat (k mod n) <? N.of_nat n) = true) by (apply N.ltb_lt; lia).
    rewrite E1, E2.
    replace (N.to_nat (N.of_nat (k mod n) + N.of_nat (k / n) * N.of_nat n)) with k by lia.
    replace (N.to_nat (N.of_nat (k / n) + N.of_nat (k mod n) * N.of_nat n)) with (tr n k) by (unfold tr; lia).
    rewrite (nth_error_nth' data d) by lia. rewrite (nth_error_nth' data d) by lia.
    rewrite vec_set_set_nth by lia. cbn [option_map m_rows m_cols m_data]. rewrite E1, E2.
    replace (N.to_nat (N.of_nat (k / n) + N.of_nat (k mod n) * N.of_nat n)) with (tr n k) by (unfold tr; lia).
    rewrite vec_set_set_nth by (rewrite length_set_nth; lia). reflexivity.
  - assert (E : (N.of_nat (k mod n) <? N.of_nat (k / n)) = true) by (apply N.ltb_lt; lia).
    now rewrite E.
Qed.

Lemma swap_loop_square (d : T) n ks : forall (data : list T), length data = (n * n)%nat ->
  Forall (fun k => (k < n * n)%nat) ks ->
  swap_loop (mkM data (N.of_nat n) (N.of_nat n))
            (map (fun k => (N.of_nat (k / n), N.of_nat (k mod n))) ks)
  = (mkM (run T d data (swaps_of n ks)) (N.of_nat n) (N.of_nat n), true).
Proof.
  induction ks as [|k ks IH]; intros data Hlen Hks; [reflexivity|].
  inversion Hks as [|? ? Hk Hks']; subst.
  cbn [map swap_loop]. rewrite (swap_cell_square d n data k Hlen Hk).
  unfold swaps_of. cbn [filter]. destruct (upper n k).
  - cbn [map run fold_left fst snd]. rewrite IH by (rewrite ?swap_length; auto). reflexivity.
  - now rewrite IH.
Qed.

Lemma list_prod_app_l {A B} (l1 l2 : list A) (l' : list B) :
  list_prod (l1 ++ l2) l' = list_prod l1 l' ++ list_prod l2 l'.
Proof. induction l1 as [|x l1 IH]; [reflexivity|]. cbn [app list_prod]. now rewrite IH, app_assoc. Qed.

Lemma seq_from s n : seq s n = map (Nat.add s) (seq 0 n).
Proof.
  revert s; induction n as [|n IH]; intros s; [reflexivity|].
  cbn [seq map]. rewrite Nat.add_0_r. f_equal. rewrite (IH (S s)), <- seq_shift, map_map.
  apply map_ext. intros; lia.
Qed.

Lemma pairs_square_as_positions (f : nat -> N) n a : (0 < n)%nat ->
  list_prod (map f (seq 0 a)) (map f (seq 0 n))
  = map (fun k => (f (k / n)%nat, f (k mod n)%nat)) (seq 0 (a * n)).
Proof.
  intros Hn. induction a as [|a IH]; [reflexivity|].
  rewrite seq_S, map_app, list_prod_app_l, IH. cbn [map list_prod Nat.add]. rewrite app_nil_r.
  replace (S a * n)%nat with (a * n + n)%nat by lia. rewrite seq_app, map_app. f_equal.
  cbn [Nat.add]. rewrite (seq_from (a * n) n), !map_map. apply map_ext_in. intros t Ht. apply in_seq in Ht.
  assert (E1 : ((a * n + t) / n = a)%nat).
  { rewrite Nat.add_comm, Nat.div_add by lia. rewrite Nat.div_small by lia. lia. }
  assert (E2 : ((a * n + t) mod n = t)%nat).
  { rewrite Nat.add_comm, Nat.mod_add by lia. apply Nat.mod_small. lia. }
  now rewrite E1, E2.
Qed.

Lemma nth_spec_transpose m i : (i < ncols m)%nat -> nth i (spec_transpose m) [] = column_of i m.
Proof.
  intros Hi. unfold spec_transpose.
  rewrite (nth_indep _ [] (column_of 0 m)) by (now rewrite map_length, seq_length).
  rewrite (map_nth (fun j => column_of j m)), seq_nth by lia. reflexivity.
Qed.

Lemma transpose_mut_square m : rect m -> length m = ncols m ->
  swap_loop (of_rows m) (pairs (nlen m) (N.of_nat (ncols m))) = (of_rows (spec_transpose m), true).
Proof.
  intros Hr Hsq. pose proof (rect_forall m Hr) as Hall.
  set (n := ncols m) in *.
  destruct (rect_transpose m Hr) as [Hr' [Hn' [Hl' Hall']]]. fold n in Hl'.
  assert (Hn : (0 < n)%nat) by (destruct Hr as [_ [Hc _]]; exact Hc).
  assert (Hall'n : Forall (fun r => length r = n) (spec_transpose m))
    by (eapply Forall_impl; [|exact Hall']; intros r Hrl; cbn in *; lia).
  assert (Hlen : length (concat m) = (n * n)%nat) by (rewrite (length_concat_uniform m n Hall); lia).
  (* an element to serve as the default of nth *)
  assert (Hd : exists d : T, True).
  { destruct (concat m) as [|x l] eqn:E; [cbn in Hlen; nia|]. now exists x. }
  destruct Hd as [d _].
  unfold pairs, nlen. rewrite Hsq, !nrange_of_nat, (pairs_square_as_positions N.of_nat n n Hn).
  unfold of_rows at 1. unfold nlen. rewrite Hsq. fold n.
  rewrite (swap_loop_square d n (seq 0 (n * n)) (concat m) Hlen)
    by (apply Forall_forall; intros k Hk; apply in_seq in Hk; lia).
  f_equal. unfold of_rows. apply of_rows_eq.
  - fold (swaps n).
    apply (nth_ext _ _ d d).
    + rewrite run_length, Hlen, (length_concat_uniform _ _ Hall'n), Hl'. reflexivity.
    + intros k Hk. rewrite run_length, Hlen in Hk.
      rewrite (transpose_loop T d n (concat m) Hlen k Hk).
      destruct (tr_facts n k Hk) as [Htr _].
      assert (Hm : (k mod n < n)%nat) by (apply Nat.mod_upper_bound; lia).
      assert (Hdv : (k / n < n)%nat) by (apply Nat.div_lt_upper_bound; lia).
      assert (Hkk : (k / n * n + k mod n = k)%nat) by (pose proof (Nat.div_mod k n ltac:(lia)); lia).
      (* both sides through nth_error *)
      assert (E1 : nth_error (concat m) (tr n k) = nth_error (nth (k mod n) m []) (k / n)).
      { unfold tr. apply (nth_error_concat m n Hall). exact Hdv. }
      assert (E2 : nth_error (concat (spec_transpose m)) k = nth_error (nth (k mod n) m []) (k / n)).
      { rewrite <- Hkk at 1.
        rewrite (nth_error_concat (spec_transpose m) n Hall'n) by exact Hm.
        rewrite nth_spec_transpose by exact Hdv.
        rewrite (nth_error_column_of m n (k / n) Hall Hdv).
        rewrite (nth_error_nth' m []) by lia. reflexivity. }
      destruct (nth_error (nth (k mod n) m []) (k / n)) as [x|] eqn:Ex.
      * now rewrite (nth_error_nth _ _ d E1), (nth_error_nth _ _ d E2).
      * apply nth_error_None in E1. lia.
  - unfold nlen. now rewrite Hl'.
  - rewrite Hn'. now rewrite Hsq.
Qed.

Lemma transpose_mut_refines m : rect m -> fits m ->
  impl_step (of_rows m) OTransposeMut =
    (of_rows (fst (spec_step m OTransposeMut)), snd (spec_step m OTransposeMut))
  /\ rect (fst (spec_step m OTransposeMut)).
Proof.
  intros Hr Hf. cbn [impl_step spec_step fst snd]. unfold transpose_mut.
  change (m_cols (of_rows m)) with (N.of_nat (ncols m)). change (m_rows (of_rows m)) with (nlen m).
  split; [|apply (rect_transpose m Hr)].
  destruct (nlen m =? N.of_nat (ncols m)) eqn:E; cbn [negb].
  - apply N.eqb_eq in E. unfold nlen in E. apply transpose_mut_square; [exact Hr|lia].
  - now rewrite (transpose_ok m Hr Hf).
Qed.

End Transpose.
