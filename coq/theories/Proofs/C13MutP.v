(* C13: the in-place map_mut_with_index / map_mut loops (sequential writes through the mutable
   iterator) equal the allocating map_with_index / map, for sources whose writes behave like a
   lens (in particular Tensor). *)
From Coq Require Import List ZArith NArith Bool Arith Lia.
From EasyML Require Import Base.Sx Model.Shape Model.Tensor Model.TSource Model.ShapeIter
  Model.Transform Proofs.ShapeP Proofs.C01P Proofs.OdometerP Proofs.C09P Proofs.C13P Proofs.C13bP
  Proofs.C09OwnedP Proofs.SwapLoopP.
Import ListNotations.
Open Scope N_scope.

Section ForEach.
Context {A : Type}.
Variable f : list N -> A -> A.
Variable P : tsrc A -> Prop.
Hypothesis P_set : forall s idx v, P s -> in_range idx (lens_of (src_shape s)) ->
  exists s', src_set s idx v = Some s' /\ P s' /\ src_shape s' = src_shape s /\
             src_get s' idx = Some v /\
             forall idx', in_range idx' (lens_of (src_shape s)) -> idx' <> idx ->
                          src_get s' idx' = src_get s idx'.
Hypothesis P_total : forall s idx, P s -> in_range idx (lens_of (src_shape s)) ->
  exists v, src_get s idx = Some v.

Lemma for_each_wi_finished fuel sh idx (s : tsrc A) :
  for_each_mut_wi f fuel (mkTI (mkSI sh idx true) s) = mkTI (mkSI sh idx true) s.
Proof. destruct fuel; reflexivity. Qed.

Lemma for_each_wi_run : forall fuel idx (s : tsrc A), P s -> in_range idx (lens_of (src_shape s)) ->
  elements (src_shape s) - flat idx (lens_of (src_shape s)) <= N.of_nat fuel ->
  let itf := for_each_mut_wi f fuel (mkTI (mkSI (src_shape s) idx false) s) in
  P (ti_source itf) /\ src_shape (ti_source itf) = src_shape s /\
  forall x, in_range x (lens_of (src_shape s)) ->
    src_get (ti_source itf) x =
    if flat idx (lens_of (src_shape s)) <=? flat x (lens_of (src_shape s))
    then option_map (f x) (src_get s x) else src_get s x.
Proof.
  induction fuel as [|fuel IH]; intros idx s Ps Hr Hfuel; cbv zeta.
  - exfalso. pose proof (flat_lt _ _ Hr). unfold elements in Hfuel. lia.
  - set (sh := src_shape s) in *. set (lens := lens_of sh) in *.
    destruct (iter_next_spec sh idx Hr) as [idx' [fin [Hn Hs]]].
    unfold elements in Hs, Hfuel. fold lens in Hs, Hfuel.
    destruct (P_total s idx Ps Hr) as [v Hv].
    destruct (P_set s idx (f idx v) Ps Hr) as [s' [Hset [Ps' [Hsh' [Hget' Hother]]]]].
    assert (Hstep : for_each_mut_wi f (S fuel) (mkTI (mkSI sh idx false) s) =
                    for_each_mut_wi f fuel (mkTI (mkSI sh idx' fin) s')).
    { cbn [for_each_mut_wi]. unfold ti_with_index, ti_next. cbn [ti_shape_iter ti_source si_indexes].
      rewrite Hn, Hv. unfold ti_write. cbn [ti_source ti_shape_iter]. rewrite Hset. reflexivity. }
    rewrite Hstep. clear Hstep.
    pose proof (flat_lt _ _ Hr) as Hlt. fold lens in Hlt.
    destruct fin.
    + rewrite for_each_wi_finished. cbn [ti_source]. split; [exact Ps'|]. split; [exact Hsh'|].
      intros x Hx. pose proof (flat_lt _ _ Hx) as Hxl. fold lens in Hxl.
      destruct (list_eq_dec N.eq_dec x idx) as [->|Hne].
      * rewrite Hget', Hv. destruct (N.leb_spec (flat idx lens) (flat idx lens)); [reflexivity|lia].
      * rewrite Hother by assumption.
        assert (flat x lens <> flat idx lens) by (intros E; apply Hne; eapply flat_inj; eauto).
        destruct (N.leb_spec (flat idx lens) (flat x lens)); [lia|reflexivity].
    + destruct Hs as [Hr' Hf'].
      assert (Hr'' : in_range idx' (lens_of (src_shape s'))) by (rewrite Hsh'; exact Hr').
      assert (Hfuel' : elements (src_shape s') - flat idx' (lens_of (src_shape s')) <= N.of_nat fuel).
      { rewrite Hsh'. unfold elements. fold sh lens. rewrite Hf'. lia. }
      specialize (IH idx' s' Ps' Hr'' Hfuel'). cbv zeta in IH. rewrite Hsh' in IH. fold sh lens in IH.
      destruct IH as [Pf [Hshf Hgetf]]. split; [exact Pf|]. split; [exact Hshf|].
      intros x Hx. rewrite Hgetf by exact Hx. rewrite Hf'.
      destruct (list_eq_dec N.eq_dec x idx) as [->|Hne].
      * destruct (N.leb_spec (flat idx lens + 1) (flat idx lens)); [lia|].
        rewrite Hget', Hv. destruct (N.leb_spec (flat idx lens) (flat idx lens)); [reflexivity|lia].
      * rewrite Hother by assumption.
        assert (flat x lens <> flat idx lens) by (intros E; apply Hne; eapply flat_inj; eauto).
        destruct (N.leb_spec (flat idx lens + 1) (flat x lens)); destruct (N.leb_spec (flat idx lens) (flat x lens));
          try reflexivity; lia.
Qed.

(* from the initial state: every element replaced by f(index, element) *)
Theorem view_map_mut_with_index_spec (s : tsrc A) : P s -> lens_pos (lens_of (src_shape s)) ->
  let s' := view_map_mut_with_index f s in
  P s' /\ src_shape s' = src_shape s /\
  forall x, in_range x (lens_of (src_shape s)) -> src_get s' x = option_map (f x) (src_get s x).
Proof.
  intros Ps Hpos. cbv zeta. unfold view_map_mut_with_index, tensor_iter_from, shape_iter_from.
  rewrite (proj2 (all_pos_b (src_shape s)) Hpos). cbn [negb].
  replace (length (src_shape s)) with (length (lens_of (src_shape s))) by (unfold lens_of; apply map_length).
  pose proof (for_each_wi_run (fuel_of s) (repeat 0 (length (lens_of (src_shape s)))) s Ps
                (in_range_zeros _ Hpos)) as H.
  cbv zeta in H. rewrite flat_zeros in H.
  destruct H as [H1 [H2 H3]]; [unfold fuel_of; lia|]. split; [exact H1|]. split; [exact H2|].
  intros x Hx. rewrite H3 by exact Hx.
  destruct (N.leb_spec 0 (flat x (lens_of (src_shape s)))); [reflexivity|lia].
Qed.

End ForEach.

(* ---- tensors ---- *)
Section TensorMut.
Context {A : Type}.

(* two well-formed tensors of the same shape reading the same element everywhere are equal *)
Lemma tensor_ext (t1 t2 : tensor A) : tensor_inv t1 -> tensor_inv t2 -> t_shape t1 = t_shape t2 ->
  (forall x, in_range x (lens_of (t_shape t1)) -> t_get t1 x = t_get t2 x) -> t1 = t2.
Proof.
  intros I1 I2 Hsh Hget. pose proof I1 as [Hv1 [Hs1 He1]]. pose proof I2 as [Hv2 [Hs2 He2]].
  assert (Hd : t_data t1 = t_data t2).
  { apply nth_error_ext; [rewrite Hsh in He1; lia|].
    intros k Hk. destruct Hv1 as [_ Hpos].
    destruct (flat_onto (lens_of (t_shape t1)) Hpos (N.of_nat k)) as [idx [Hr Hf]].
    { unfold elements in He1. lia. }
    pose proof (Hget idx Hr) as G. rewrite (t_get_flat t1), (t_get_flat t2) in G; auto.
    - rewrite <- Hsh, Hf, Nat2N.id in G. exact G.
    - rewrite <- Hsh. exact Hr. }
  destruct t1 as [d1 sh1 st1], t2 as [d2 sh2 st2]. cbn [t_shape t_strides t_data] in *. congruence.
Qed.

Theorem tensor_map_mut_with_index_eq (f : list N -> A -> A) (t : tensor A) :
  tensor_inv t -> elements (t_shape t) <= usize_max ->
  tensor_map_mut_with_index f t = tensor_map_with_index f t.
Proof.
  intros Hinv Hb.
  change (tensor_map_mut_with_index f t) with (src_base (view_map_mut_with_index f (TBase t))).
  destruct (view_map_mut_with_index_spec f is_tensor (fun s idx v => tensor_lens s idx v)) with (s := TBase t)
    as [[t' [Es' Hinv']] [Hsh' Hget']].
  - intros s idx [t0 [-> Hi0]] Hr. apply (tensor_view_elems t0 Hi0). exact Hr.
  - exists t. split; [reflexivity|exact Hinv].
  - apply Hinv.
  - rewrite Es' in *. cbn [src_base src_shape src_get] in *.
    destruct (view_map_with_index_materialises f (TBase t) (good_tensor t Hinv Hb)) as [t'' [Hok [Hsh'' [Hst'' Hget'']]]].
    rewrite tensor_map_with_index_eq_view in Hok by assumption. injection Hok as Et''.
    cbn [src_shape src_get] in *.
    apply tensor_ext.
    + exact Hinv'.
    + (* the allocating result is well formed *)
      pose proof (tensor_map_with_index_eq_view f t Hinv Hb) as Hfrom. unfold view_map_with_index in Hfrom.
      cbn [src_shape] in Hfrom. apply from_agrees in Hfrom. apply try_from_inv in Hfrom. apply Hfrom.
    + rewrite Hsh'. subst t''. symmetry. exact Hsh''.
    + intros x Hx. rewrite Hsh' in Hx. rewrite Hget' by exact Hx. subst t''. symmetry. apply Hget''. exact Hx.
Qed.

Theorem tensor_map_mut_eq_map' (f : A -> A) (t : tensor A) : tensor_map_mut f t = tensor_map f t.
Proof. reflexivity. Qed.

End TensorMut.
