(* Heap's algorithm as tools/gen_arith.py regenerates it from src/linear_algebra.rs on every run:
   gen_heaps_permutations md k (Gen/Arith.v) is the EVENT TRACE of one invocation of
   `heaps_permutations(k, list, consumer)` - the calls the translator cannot look into are
   recorded in order as (tag, usize arguments):
       (0, [])        consumer(list)
       (1, [k'])      the recursive call heaps_permutations(k', list, consumer)
       (2, [i; j])    list.swap(i, j)
   so the base case, the loop `for i in 0..k`, the guard `i < k - 1` and the even / odd choice of
   the swap pair (i, k-1) / (0, k-1) are all in the generated term.  This file interprets a trace
   over the state of Model/Perms.v (the list, the consumer's calls so far, the even_swaps toggle of
   with_each_permutation) and proves: running the generated trace of level k, with the recursive
   calls answered by `heaps fuel`, IS `heaps (S fuel) k` - the function the C07 enumeration
   theorems (C07_heap_enumerates_all_n) are about. *)
From Coq Require Import List ZArith NArith Bool Arith Lia.
From EasyML Require Import Base.Sx Model.U64 Model.Perms Gen.Arith.
Import ListNotations.
From EasyML Require Import Proofs.GenTac.

(* gen_equiv: Proofs/GenTac.v (the specific script, then the shape-independent finisher) *)

(* the consumer handed over by with_each_permutation:
     |permuted| { consumer(permuted, even_swaps); even_swaps = !even_swaps; } *)
Definition run_event (rec : nat -> heap_state -> heap_state) (ev : N * list N) (st : heap_state) : heap_state :=
  match ev with
  | (0%N, []) => let '(l, (acc, e)) := st in (l, (acc ++ [(l, e)], negb e))
  | (1%N, [k']) => rec (N.to_nat k') st
  | (2%N, [i; j]) => let '(l, r) := st in (swap l (N.to_nat i) (N.to_nat j), r)
  | _ => st
  end.
Definition run_trace rec (evs : list (N * list N)) (st : heap_state) : heap_state :=
  fold_left (fun st ev => run_event rec ev st) evs st.

(* the events of iteration i at level k, as the source orders them *)
Definition level_events (k i : nat) : list (N * list N) :=
  (1%N, [N.of_nat (k - 1)]) ::
  (if Nat.ltb i (k - 1)
   then [(2%N, [if Nat.even k then N.of_nat i else 0%N; N.of_nat (k - 1)])]
   else []).

Lemma even_mod2 k : ((N.of_nat k mod 2 =? 0)%N) = Nat.even k.
Proof.
  destruct (Nat.even k) eqn:E.
  - apply Nat.even_spec in E. destruct E as [m ->]. apply N.eqb_eq.
    replace (N.of_nat (2 * m)) with (2 * N.of_nat m)%N by lia. rewrite N.mul_comm. apply N.mod_mul. discriminate.
  - apply N.eqb_neq. intros H.
    assert (Hodd : Nat.odd k = true) by (rewrite <- Nat.negb_even, E; reflexivity).
    apply Nat.odd_spec in Hodd. destruct Hodd as [m ->].
    replace (N.of_nat (2 * m + 1)) with (1 + N.of_nat m * 2)%N in H by lia.
    rewrite N.mod_add in H by discriminate. discriminate.
Qed.

Lemma gen_range_seq k : gen_range 0 (N.of_nat k) = map N.of_nat (seq 0 k).
Proof. unfold gen_range. rewrite N.sub_0_r, Nat2N.id. apply map_ext. intros. apply N.add_0_l. Qed.

Section Level.
Variable md : mode.
Variable k : nat.
Hypothesis Hk : (1 <= k)%nat.

(* the loop body as generated (shape of the term in Gen/Arith.v) folds to the level's events *)
Lemma gen_level_fold (body : list (N * list N) -> N -> outcome (list (N * list N))) :
  (forall tr i, body tr (N.of_nat i) = Ok (tr ++ level_events k i)) ->
  forall l tr, gen_fold body tr (map N.of_nat l) = Ok (tr ++ flat_map (level_events k) l).
Proof.
  intros Hb. induction l as [|i l IH]; intros tr; cbn [map gen_fold flat_map].
  - rewrite app_nil_r. reflexivity.
  - rewrite Hb. cbn [obind]. rewrite IH, app_assoc. reflexivity.
Qed.
End Level.

Lemma run_trace_app rec a b st : run_trace rec (a ++ b) st = run_trace rec b (run_trace rec a st).
Proof. unfold run_trace. apply fold_left_app. Qed.

(* running the events of one level = the fold of Model/Perms.v `heaps` *)
Lemma run_level fuel k : forall l st,
  run_trace (heaps fuel) (flat_map (level_events k) l) st =
  fold_left (fun st i =>
        let st1 := heaps fuel (k - 1) st in
        if Nat.ltb i (k - 1) then
          let '(l, r) := st1 in
          ((if Nat.even k then swap l i (k - 1) else swap l 0 (k - 1)), r)
        else st1) l st.
Proof.
  induction l as [|i l IH]; intros st; cbn [flat_map fold_left]; [reflexivity|].
  rewrite run_trace_app, IH. f_equal.
  unfold level_events, run_trace. cbn [fold_left run_event]. rewrite Nat2N.id.
  destruct (Nat.ltb i (k - 1)); cbn [fold_left run_event]; [|reflexivity].
  destruct (heaps fuel (k - 1) st) as [l0 r]. rewrite Nat2N.id.
  destruct (Nat.even k); [rewrite Nat2N.id|]; reflexivity.
Qed.

(* ---- the generated trace of one invocation, and what running it computes ---- *)
Lemma gen_heaps_permutations_eq : forall md k,
  gen_heaps_permutations md (N.of_nat k) =
  Ok (if Nat.eqb k 1 then [(0%N, [])] else flat_map (level_events k) (seq 0 k)).
Proof.
  gen_equiv gen_heaps_permutations_eq by
    (intros md k; unfold gen_heaps_permutations;
     replace (N.of_nat k =? 1)%N with (Nat.eqb k 1)
       by (destruct (Nat.eqb_spec k 1) as [->|Hn]; [reflexivity|symmetry; apply N.eqb_neq; lia]);
     destruct (Nat.eqb k 1) eqn:E1; [reflexivity|];
     destruct k as [|k']; [reflexivity|];
     rewrite gen_range_seq;
     rewrite (gen_level_fold (S k'));
       [reflexivity|];
     intros tr i; unfold level_events;
     unfold u_sub; replace (1 <=? N.of_nat (S k'))%N with true by (symmetry; apply N.leb_le; lia);
     cbn [obind];
     replace (N.of_nat (S k') - 1)%N with (N.of_nat (S k' - 1)) by lia;
     replace (N.of_nat i <? N.of_nat (S k' - 1))%N with (Nat.ltb i (S k' - 1))
       by (destruct (Nat.ltb_spec i (S k' - 1)); symmetry; [apply N.ltb_lt|apply N.ltb_ge]; lia);
     rewrite even_mod2;
     destruct (Nat.ltb i (S k' - 1)); [|reflexivity];
     destruct (Nat.even (S k')); rewrite <- app_assoc; reflexivity).
Qed.

Lemma generated_heap_step_matches_model : forall md fuel k st,
  exists evs,
    gen_heaps_permutations md (N.of_nat k) = Ok evs /\
    heaps (S fuel) k st = run_trace (heaps fuel) evs st.
Proof.
  intros md fuel k st. eexists. split; [apply gen_heaps_permutations_eq|].
  cbn [heaps]. destruct (Nat.eqb k 1).
  - destruct st as [l [acc e]]. reflexivity.
  - rewrite run_level. reflexivity.
Qed.

(* kernel-evaluated instances (used as the non-vacuity example of Properties/C07.v) *)
Definition heap_trace_example : Prop :=
  gen_heaps_permutations Debug 3 = Ok [(1, [2]); (2, [0; 2]); (1, [2]); (2, [0; 2]); (1, [2])]%N /\
  gen_heaps_permutations Release 4 = Ok [(1, [3]); (2, [0; 3]); (1, [3]); (2, [1; 3]); (1, [3]); (2, [2; 3]); (1, [3])]%N /\
  gen_heaps_permutations Debug 1 = Ok [(0, [])]%N /\
  gen_heaps_permutations Debug 0 = Ok [] /\
  heap_perms 3 = fst (snd (run_trace (heaps 3) [(1, [2]); (2, [0; 2]); (1, [2]); (2, [0; 2]); (1, [2])]%N (seq 0 3, ([], true)))).
Lemma heap_trace_example_holds : heap_trace_example.
Proof. unfold heap_trace_example. repeat split; vm_compute; reflexivity. Qed.
