(* C02: reference wrappers and convenience constructors.
   `ceq c c'`: two constructed views are OBSERVATIONALLY equal: same view_shape, the same source
   element at every index, the same data_layout (both versions of the transposition rule), the
   same leaves.  Every adaptor constructor respects `ceq` (it validates against the source's
   view_shape only, and its mapping goes through the source's get_reference only), hence removing
   every `Box<S>` / `&S` / `&mut S` / erased / RecordTensor wrapper (`VWrap`) anywhere in a
   composition changes no constructor outcome and no observable (`wraps_transparent`).  The
   convenience constructors of Tensor / TensorView (Model/ViewsConv.v) are the adaptor constructors
   over such wrappers, so they agree with the direct constructor (`convenience_agrees`). *)
From Coq Require Import List ZArith NArith Bool Arith Lia.
From EasyML Require Import Base.Sx Model.Shape Model.Views Model.ViewsConv Proofs.ShapeP
  Proofs.C02Lemmas Proofs.C02P.
Import ListNotations.
Open Scope N_scope.

Definition ceq (c c' : cview) : Prop :=
  c_shape c = c_shape c' /\ (forall idx, c_get c idx = c_get c' idx) /\
  (forall b, c_layout_gen b c = c_layout_gen b c') /\ c_leaves c = c_leaves c'.

(* same kind of outcome; Ok values related, Err payloads equal *)
Definition orel {A} (R : A -> A -> Prop) (o o' : outcome A) : Prop :=
  match o, o' with
  | Ok a, Ok b => R a b
  | Err e, Err e' => e = e'
  | Panic, Panic => True
  | _, _ => False
  end.

Lemma ceq_refl c : ceq c c.
Proof. repeat split. Qed.

Lemma orel_refl {A} (R : A -> A -> Prop) o : (forall a, R a a) -> orel R o o.
Proof. intros H. destruct o; cbn; auto. Qed.

Lemma orel_obind {A B} (R : A -> A -> Prop) (S : B -> B -> Prop) o o' f g :
  orel R o o' -> (forall a b, R a b -> orel S (f a) (g b)) -> orel S (obind o f) (obind o' g).
Proof. destruct o, o'; cbn; intros H Hf; try contradiction; auto. Qed.

Lemma orel_omap {A B} (R : A -> A -> Prop) (S : B -> B -> Prop) o o' f g :
  orel R o o' -> (forall a b, R a b -> S (f a) (g b)) -> orel S (omap f o) (omap g o').
Proof. destruct o, o'; cbn; intros H Hf; try contradiction; auto. Qed.

Lemma orel_map_err {A} (R : A -> A -> Prop) f o o' :
  orel R o o' -> orel R (map_err f o) (map_err f o').
Proof. destruct o, o'; cbn; intros H; try contradiction; auto. congruence. Qed.

(* ---------- the single-source adaptors ---------- *)
Section Unary.
Variables c c' : cview.
Hypothesis H : ceq c c'.

Let Hs : c_shape c = c_shape c' := proj1 H.
Let Hg : forall idx, c_get c idx = c_get c' idx := proj1 (proj2 H).
Let Hl : forall b, c_layout_gen b c = c_layout_gen b c' := proj1 (proj2 (proj2 H)).
Let Hv : c_leaves c = c_leaves c' := proj2 (proj2 (proj2 H)).

Ltac ceq_tac :=
  repeat split; cbn [c_shape c_get c_layout_gen c_leaves]; intros;
  rewrite <- ?Hs, ?Hl; try congruence; try apply Hg; auto.

Lemma ceq_range rs : ceq (CRange c rs) (CRange c' rs).
Proof. ceq_tac. destruct (map_indexes_by_range idx rs); auto. Qed.
Lemma ceq_mask ms : ceq (CMask c ms) (CMask c' ms).
Proof. ceq_tac. Qed.
Lemma ceq_index pr : ceq (CIndex c pr) (CIndex c' pr).
Proof. ceq_tac. destruct (select_idx pr idx); auto. Qed.
Lemma ceq_expand ex : ceq (CExpand c ex) (CExpand c' ex).
Proof. ceq_tac. destruct (expand_idx idx 0 ex); auto. Qed.
Lemma ceq_rename ns : ceq (CRename c ns) (CRename c' ns).
Proof. ceq_tac. Qed.
Lemma ceq_reverse rev : ceq (CReverse c rev) (CReverse c' rev).
Proof. ceq_tac. Qed.
Lemma ceq_access tbl : ceq (CAccess c tbl) (CAccess c' tbl).
Proof. ceq_tac. Qed.
Lemma ceq_transpose tbl : ceq (CTranspose c tbl) (CTranspose c' tbl).
Proof. ceq_tac. Qed.
Lemma ceq_wrap_l : ceq (CWrap c) c'.
Proof. repeat split; cbn [c_shape c_get c_layout_gen c_leaves]; auto. Qed.
Lemma ceq_wrap : ceq (CWrap c) (CWrap c').
Proof. repeat split; cbn [c_shape c_get c_layout_gen c_leaves]; auto. Qed.

Lemma orel_range_clip rs : orel ceq (range_clip_from c rs) (range_clip_from c' rs).
Proof.
  unfold range_clip_from. rewrite <- Hs. destruct (valid_shape_b _); cbn; [apply ceq_range|reflexivity].
Qed.
Lemma orel_mask_clip ms : orel ceq (mask_clip_from c ms) (mask_clip_from c' ms).
Proof.
  unfold mask_clip_from. rewrite <- Hs. destruct (valid_shape_b _); cbn; [apply ceq_mask|reflexivity].
Qed.

Lemma orel_ranged clip_from p :
  (forall rs, orel ceq (clip_from c rs) (clip_from c' rs)) ->
  orel ceq (ranged_ctor clip_from c p) (ranged_ctor clip_from c' p).
Proof.
  intros Hc. unfold ranged_ctor. rewrite <- Hs. destruct p as [[|] named|[|] rs].
  - destruct (map_err e_strict (from_named_to_all (c_shape c) named)) as [al|e|]; cbn [obind orel]; auto.
    destruct (range_exceeds_bounds _ al); cbn [orel]; auto. apply orel_map_err, Hc.
  - destruct (from_named_to_all (c_shape c) named) as [al|e|]; cbn [obind orel]; auto.
    apply orel_map_err, Hc.
  - destruct (negb _); cbn [orel]; auto.
    destruct (range_exceeds_bounds _ rs); cbn [orel]; auto. apply orel_map_err, Hc.
  - destruct (negb _); cbn [orel]; auto.
Qed.

Lemma orel_index ps : orel ceq (index_ctor c ps) (index_ctor c' ps).
Proof.
  unfold index_ctor. rewrite <- Hs. destruct (_ <? _)%nat; cbn [orel]; auto.
  destruct (has_duplicates _); cbn [orel]; auto.
  destruct (place_provided _ _ _); cbn [orel]; auto. apply ceq_index.
Qed.
Lemma orel_expand es : orel ceq (expand_ctor c es) (expand_ctor c' es).
Proof.
  unfold expand_ctor. rewrite <- Hs. destruct (has_duplicates _); cbn [orel]; auto.
  destruct (existsb _ es); cbn [orel]; auto. apply ceq_expand.
Qed.
Lemma orel_rename ns : orel ceq (rename_ctor c ns) (rename_ctor c' ns).
Proof.
  unfold rename_ctor. rewrite <- Hs. destruct (negb _); cbn [orel]; auto.
  destruct (has_duplicates _); cbn [orel]; auto. apply ceq_rename.
Qed.
Lemma orel_reverse ns : orel ceq (reverse_ctor c ns) (reverse_ctor c' ns).
Proof.
  unfold reverse_ctor. rewrite <- Hs. destruct (has_duplicates _); cbn [orel]; auto.
  destruct (existsb _ ns); cbn [orel]; auto. apply ceq_reverse.
Qed.
Lemma access_tbl_eq ns : access_tbl c ns = access_tbl c' ns.
Proof. unfold access_tbl. rewrite <- Hs. reflexivity. Qed.
Lemma orel_access ns : orel ceq (omap (CAccess c) (access_tbl c ns)) (omap (CAccess c') (access_tbl c' ns)).
Proof. rewrite <- access_tbl_eq. destruct (access_tbl c ns); cbn; auto. apply ceq_access. Qed.
Lemma orel_transpose ns :
  orel ceq (omap (CTranspose c) (access_tbl c ns)) (omap (CTranspose c') (access_tbl c' ns)).
Proof. rewrite <- access_tbl_eq. destruct (access_tbl c ns); cbn; auto. apply ceq_transpose. Qed.
End Unary.

(* ---------- stack / chain ---------- *)
Lemma Forall2_ceq_shapes cs cs' : Forall2 ceq cs cs' -> map c_shape cs = map c_shape cs'.
Proof. induction 1 as [|a b l l' Hab _ IH]; cbn [map]; [reflexivity|]. f_equal; [apply Hab|exact IH]. Qed.
Lemma Forall2_len {A B} (R : A -> B -> Prop) l l' : Forall2 R l l' -> length l = length l'.
Proof. induction 1; cbn [length]; congruence. Qed.
Lemma Forall2_ceq_leaves cs cs' : Forall2 ceq cs cs' -> flat_map c_leaves cs = flat_map c_leaves cs'.
Proof.
  induction 1 as [|a b l l' Hab _ IH]; cbn [flat_map]; [reflexivity|]. f_equal; [apply Hab|exact IH].
Qed.
Lemma Forall2_ceq_lens cs cs' along : Forall2 ceq cs cs' ->
  map (fun c0 => len_at (c_shape c0) along) cs = map (fun c0 => len_at (c_shape c0) along) cs'.
Proof.
  induction 1 as [|a b l l' Hab _ IH]; cbn [map]; [reflexivity|]. f_equal; [|exact IH].
  destruct Hab as [-> _]. reflexivity.
Qed.
Lemma Forall2_ceq_pickN cs cs' idx : Forall2 ceq cs cs' -> forall k,
  pickN (fun c1 => c_get c1 idx) cs k = pickN (fun c1 => c_get c1 idx) cs' k.
Proof.
  induction 1 as [|a b l l' Hab _ IH]; intros k; cbn [pickN]; [reflexivity|].
  destruct (k =? 0); [apply Hab|apply IH].
Qed.
Lemma Forall2_ceq_picknat cs cs' idx : Forall2 ceq cs cs' -> forall k,
  picknat (fun c1 => c_get c1 idx) cs k = picknat (fun c1 => c_get c1 idx) cs' k.
Proof.
  induction 1 as [|a b l l' Hab _ IH]; intros k; cbn [picknat]; [reflexivity|].
  destruct k; [apply Hab|apply IH].
Qed.

Lemma ceq_stack cs cs' along n : Forall2 ceq cs cs' -> ceq (CStack cs along n) (CStack cs' along n).
Proof.
  intros HF. repeat split.
  - cbn [c_shape]. rewrite (Forall2_ceq_shapes _ _ HF), (Forall2_len _ _ _ HF). reflexivity.
  - intros idx. rewrite !c_get_stack. apply Forall2_ceq_pickN, HF.
  - cbn [c_leaves]. apply Forall2_ceq_leaves, HF.
Qed.
Lemma ceq_chain cs cs' along : Forall2 ceq cs cs' -> ceq (CChain cs along) (CChain cs' along).
Proof.
  intros HF. repeat split.
  - cbn [c_shape]. rewrite (Forall2_ceq_shapes _ _ HF). reflexivity.
  - intros idx. rewrite !c_get_chain, (Forall2_ceq_lens _ _ along HF).
    destruct (chain_find _ _ _) as [[k i]|]; [|reflexivity]. apply Forall2_ceq_picknat, HF.
  - cbn [c_leaves]. apply Forall2_ceq_leaves, HF.
Qed.

Lemma orel_stack cs cs' pos n : Forall2 ceq cs cs' ->
  orel ceq (stack_ctor cs pos n) (stack_ctor cs' pos n).
Proof.
  intros HF. pose proof (Forall2_ceq_shapes _ _ HF) as Hm. unfold stack_ctor.
  destruct HF as [|a b l l' Hab HF]; [exact I|]. rewrite <- Hm, <- (proj1 Hab).
  destruct (_ <? _)%nat; cbn [orel]; auto. destruct (contains _ n); cbn [orel]; auto.
  destruct (negb _); cbn [orel]; auto. apply ceq_stack. constructor; assumption.
Qed.
Lemma orel_chain cs cs' n : Forall2 ceq cs cs' -> orel ceq (chain_ctor cs n) (chain_ctor cs' n).
Proof.
  intros HF. pose proof (Forall2_ceq_shapes _ _ HF) as Hm. unfold chain_ctor, chain_ctor_gen.
  destruct HF as [|a b l l' Hab HF]; [exact I|]. rewrite <- Hm, <- (proj1 Hab).
  destruct (c_shape a) as [|d sh] eqn:Es; [exact I|]. destruct (position_of _ n); cbn [orel]; auto.
  destruct (negb _); cbn [orel]; auto. apply ceq_chain. constructor; assumption.
Qed.

(* ---------- removing every wrapper ---------- *)
Fixpoint strip_wraps (v : view) : view :=
  match v with
  | VTensor _ _ | VMatrix _ _ _ _ _ => v
  | VRange v p => VRange (strip_wraps v) p
  | VMask v p => VMask (strip_wraps v) p
  | VIndex v ps => VIndex (strip_wraps v) ps
  | VExpand v es => VExpand (strip_wraps v) es
  | VRename v ns => VRename (strip_wraps v) ns
  | VReverse v ns => VReverse (strip_wraps v) ns
  | VAccess v ns => VAccess (strip_wraps v) ns
  | VTranspose v ns => VTranspose (strip_wraps v) ns
  | VStack vs pos n => VStack (map strip_wraps vs) pos n
  | VChain vs n => VChain (map strip_wraps vs) n
  | VWrap v => strip_wraps v
  end.

Lemma ctor_all_rel vs :
  Forall (fun v => orel ceq (v_ctor v) (v_ctor (strip_wraps v))) vs ->
  orel (Forall2 ceq) (ctor_all vs) (ctor_all (map strip_wraps vs)).
Proof.
  induction 1 as [|v r Hv _ IH]; cbn [ctor_all map]; [constructor|].
  eapply orel_obind; [exact Hv|]. intros a b Hab.
  eapply orel_omap; [exact IH|]. intros l l' Hl. constructor; assumption.
Qed.

Theorem wraps_transparent v : orel ceq (v_ctor v) (v_ctor (strip_wraps v)).
Proof.
  induction v using view_ind'; cbn [strip_wraps].
  - apply orel_refl, ceq_refl.
  - apply orel_refl, ceq_refl.
  - cbn [v_ctor]. eapply orel_obind; [exact IHv|]. intros a b Hab.
    apply orel_ranged; [exact Hab|]. intros rs. apply orel_range_clip, Hab.
  - cbn [v_ctor]. eapply orel_obind; [exact IHv|]. intros a b Hab.
    apply orel_ranged; [exact Hab|]. intros rs. apply orel_mask_clip, Hab.
  - cbn [v_ctor]. eapply orel_obind; [exact IHv|]. intros a b Hab. apply orel_index, Hab.
  - cbn [v_ctor]. eapply orel_obind; [exact IHv|]. intros a b Hab. apply orel_expand, Hab.
  - cbn [v_ctor]. eapply orel_obind; [exact IHv|]. intros a b Hab. apply orel_rename, Hab.
  - cbn [v_ctor]. eapply orel_obind; [exact IHv|]. intros a b Hab. apply orel_reverse, Hab.
  - cbn [v_ctor]. eapply orel_obind; [exact IHv|]. intros a b Hab. apply orel_access, Hab.
  - cbn [v_ctor]. eapply orel_obind; [exact IHv|]. intros a b Hab. apply orel_transpose, Hab.
  - rewrite !v_ctor_stack. eapply orel_obind; [apply ctor_all_rel; assumption|].
    intros a b Hab. apply orel_stack, Hab.
  - rewrite !v_ctor_chain. eapply orel_obind; [apply ctor_all_rel; assumption|].
    intros a b Hab. apply orel_chain, Hab.
  - cbn [v_ctor]. destruct (v_ctor v) as [c| |], (v_ctor (strip_wraps v)) as [c'| |];
      cbn [omap orel] in *; try contradiction;
      first [apply ceq_wrap_l; exact IHv | exact IHv | exact I].
Qed.

(* two terms that differ only in wrappers are observationally equal *)
Lemma orel_ceq_sym o o' : orel ceq o o' -> orel ceq o' o.
Proof.
  destruct o, o'; cbn; auto. intros [A [B [C D]]]. repeat split; auto.
Qed.
Lemma orel_ceq_trans o1 o2 o3 : orel ceq o1 o2 -> orel ceq o2 o3 -> orel ceq o1 o3.
Proof.
  destruct o1, o2, o3; cbn; try contradiction; auto; try congruence.
  intros [A [B [C D]]] [A' [B' [C' D']]]. repeat split; try congruence;
    intros x; first [rewrite B; apply B' | rewrite C; apply C'].
Qed.

Theorem same_modulo_wraps v w : strip_wraps v = strip_wraps w -> orel ceq (v_ctor v) (v_ctor w).
Proof.
  intros E. eapply orel_ceq_trans; [apply wraps_transparent|]. rewrite E.
  apply orel_ceq_sym, wraps_transparent.
Qed.

(* ---------- the convenience constructors agree with the direct ones ---------- *)
Lemma strip_conv_source f src : strip_wraps (conv_source f src) = strip_wraps src.
Proof. destruct f; reflexivity. Qed.

Theorem convenience_agrees f src :
  (forall named, orel ceq (v_ctor (conv_range f src named)) (v_ctor (VRange src (PNamed false named)))) /\
  (forall named, orel ceq (v_ctor (conv_mask f src named)) (v_ctor (VMask src (PNamed false named)))) /\
  (forall p, orel ceq (v_ctor (conv_select f src p)) (v_ctor (VIndex src [p]))) /\
  (forall e, orel ceq (v_ctor (conv_expand f src e)) (v_ctor (VExpand src [e]))) /\
  (forall ns, orel ceq (v_ctor (conv_reverse f src ns)) (v_ctor (VReverse src ns))) /\
  (forall ns, orel ceq (v_ctor (conv_rename_view src ns)) (v_ctor (VRename src ns))) /\
  (forall ns, orel ceq (v_ctor (conv_transpose_view src ns)) (v_ctor (VTranspose src ns))) /\
  (forall ns, orel ceq (v_ctor (conv_index_by f src ns)) (v_ctor (VAccess src ns))).
Proof.
  repeat split; intros; apply same_modulo_wraps;
    unfold conv_range, conv_mask, conv_select, conv_expand, conv_reverse, conv_rename_view,
      conv_transpose_view, conv_index_by; cbn [strip_wraps]; rewrite ?strip_conv_source; reflexivity.
Qed.

(* ---------- layouts as functions of the source's (view_shape, data_layout) ---------- *)
Lemma rename_layout_is c ns b :
  c_layout_gen b (CRename c ns) = obind (c_layout_gen b c) (rename_layout (c_shape c) ns).
Proof.
  cbn [c_layout_gen]. destruct (c_layout_gen b c) as [[order| |]|e|]; cbn [obind rename_layout]; reflexivity.
Qed.
Lemma transposed_layout_is c tbl :
  c_layout (CTranspose c tbl) = omap (transposed_layout (c_shape c) tbl) (c_layout c).
Proof.
  unfold c_layout. cbn [c_layout_gen].
  destruct (c_layout_gen false c) as [[order| |]|e|]; cbn [omap transposed_layout]; reflexivity.
Qed.
