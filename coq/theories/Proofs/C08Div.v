(* C08 division safety (stdlib style): what Cholesky / LDL^T / Householder-QR divide by, and when
   that is zero.  Stated through the instrumented transcriptions of Model/DecompDiv.v, whose
   division is a parameter `pd : R -> R -> option R` (None = the element type's `/` panics).
     erase      *_i_erase: whenever an instrumented run returns a value it is the value of the
                existing model of Model/Decomp.v (any pd agreeing with the dictionary's division
                where defined); *_i_total: with the total division it IS the existing model
     Cholesky   cholesky_i_only: pd need only be defined on (one, sqrt e) for e with
                `e <= zero` = false (L_jj = sqrt(pivot), pivot tested positive) — nothing else is
                ever a divisor; cholesky_i_strict: never a division by zero when the sqrt oracle
                has no zero on the tested-positive arguments
     LDL^T      ldlt_i_only: pd need only be defined on (one, y) for the y that the routine has
                just tested `== zero` = false (the pivot D_jj); ldlt_i_strict: NEVER a division
                by zero, no hypothesis at all
     QR         householder_i_only: the only divisor is the euclidean length of u;
                qr_i_strict: the run panics EXACTLY when at some reflection u is non-empty and
                its length is `== zero` (qr_div_safe, computed along the total run) — an exact
                three-way prediction value / absence / panic *)
From Coq Require Import List Arith Bool Lia.
From EasyML Require Import Base.Sx Model.Num Model.LinAlg Model.Decomp Model.DivOutcome
  Model.DecompDiv Proofs.C07Div.
Import ListNotations.

(* ---------------------------------------------------------------- map_outcome *)
Lemma map_outcome_ok {A B} (f : A -> outcome B) (g : A -> B) l :
  (forall a, In a l -> f a = Ok (g a)) -> map_outcome f l = Ok (map g l).
Proof.
  induction l as [|a l IH]; intros H; cbn [map_outcome map]; [reflexivity|].
  rewrite (H a (or_introl eq_refl)). cbn [obind].
  rewrite IH by (intros b Hb; apply H; right; exact Hb). reflexivity.
Qed.

Lemma map_outcome_erase {A B} (f : A -> outcome B) (g : A -> B) l r :
  (forall a b, In a l -> f a = Ok b -> b = g a) -> map_outcome f l = Ok r -> r = map g l.
Proof.
  revert r. induction l as [|a l IH]; intros r H; cbn [map_outcome map].
  - (now intros [= <-]).
  - destruct (f a) as [b| |] eqn:E; cbn [obind]; try discriminate.
    destruct (map_outcome f l) as [r'| |] eqn:E'; cbn [obind]; try discriminate.
    intros [= <-]. rewrite (H a b (or_introl eq_refl) E).
    rewrite (IH r') by (auto; intros; eapply H; eauto; right; assumption). reflexivity.
Qed.

Section C08Div.
Context {R : Type} (ops : numops R).
Notation zero := (nzero ops).
Notation one := (none_ ops).
Notation mat := (@mat R).

(* ================================================================ erase *)
Section Erase.
Variable pd : R -> R -> option R.
Hypothesis Hs : sound_div ops pd.

Lemma chol_row_i_erase a L i : forall fuel cur r,
  chol_row_i ops pd a L i cur fuel = Ok r -> chol_row ops a L i cur fuel = r.
Proof.
  induction fuel as [|f IH]; intros cur r; cbn [chol_row_i chol_row]; [(now intros [= <-])|].
  destruct (Nat.eqb (length cur) i).
  - destruct (nleb ops _ zero); [(now intros [= <-])|apply IH].
  - destruct (pd one _) as [q|] eqn:E; cbn [of_option obind]; [|discriminate].
    rewrite (Hs _ _ _ E). apply IH.
Qed.

Lemma chol_rows_i_erase a : forall fuel L r,
  chol_rows_i ops pd a L fuel = Ok r -> chol_rows ops a L fuel = r.
Proof.
  induction fuel as [|f IH]; intros L r; cbn [chol_rows_i chol_rows]; [(now intros [= <-])|].
  destruct (chol_row_i ops pd a L (length L) [] (S (length L))) as [o| |] eqn:E;
    cbn [obind]; try discriminate.
  apply chol_row_i_erase in E. rewrite E. destruct o; [apply IH|(now intros [= <-])].
Qed.

Lemma cholesky_i_erase a r : cholesky_i ops pd a = Ok r -> cholesky ops a = r.
Proof.
  unfold cholesky_i, cholesky. destruct (negb (is_square a)); [(now intros [= <-])|].
  destruct (chol_rows_i ops pd a [] (mrows a)) as [o| |] eqn:E; cbn [omap]; try discriminate.
  apply chol_rows_i_erase in E. rewrite E. (now intros [= <-]).
Qed.

Lemma ldlt_cols_i_erase a n : forall fuel cols ds r,
  ldlt_cols_i ops pd a n cols ds fuel = Ok r -> ldlt_cols ops a n cols ds fuel = r.
Proof.
  induction fuel as [|f IH]; intros cols ds r; cbn [ldlt_cols_i ldlt_cols]; [(now intros [= <-])|].
  destruct (neqb ops _ zero); [(now intros [= <-])|].
  match goal with |- obind (map_outcome ?F ?l) _ = _ -> _ =>
    destruct (map_outcome F l) as [col| |] eqn:E end; cbn [obind]; try discriminate.
  eapply map_outcome_erase in E.
  - rewrite <- E. apply IH.
  - intros i b _. cbv beta.
    destruct (Nat.ltb i (length cols)); [(now intros [= <-])|].
    destruct (Nat.eqb i (length cols)); [(now intros [= <-])|].
    destruct (pd one _) as [q|] eqn:Eq; cbn [of_option obind]; [|discriminate].
    rewrite (Hs _ _ _ Eq). (now intros [= <-]).
Qed.

Lemma ldlt_i_erase a r : ldlt_i ops pd a = Ok r -> ldlt ops a = r.
Proof.
  unfold ldlt_i, ldlt. destruct (negb (is_square a)); [(now intros [= <-])|].
  destruct (ldlt_cols_i ops pd a (mrows a) [] [] (mrows a)) as [o| |] eqn:E;
    cbn [omap]; try discriminate.
  apply ldlt_cols_i_erase in E. rewrite E. (now intros [= <-]).
Qed.

Lemma householder_i_erase x h : householder_i ops pd x = Ok h -> householder ops x = h.
Proof.
  unfold householder_i.
  match goal with |- obind (map_outcome ?F ?l) _ = _ -> _ =>
    destruct (map_outcome F l) as [v| |] eqn:E end; cbn [obind]; try discriminate.
  apply (map_outcome_erase _ (fun element =>
           ndiv ops element (euclidean_length ops (hh_u ops x)))) in E.
  - intros [= <-]. rewrite E. reflexivity.
  - intros e b _. destruct (pd e _) as [q|] eqn:Eq; cbn [of_option]; [|discriminate].
    rewrite (Hs _ _ _ Eq). (now intros [= <-]).
Qed.

Lemma qr_loop_i_erase rows : forall cs q r res,
  qr_loop_i ops pd rows cs q r = Ok res -> qr_loop ops rows cs q r = res.
Proof.
  induction cs as [|c cs IH]; intros q r res; cbn [qr_loop_i qr_loop]; [(now intros [= <-])|].
  destruct (householder_i ops pd (skipn c (column ops r c))) as [h| |] eqn:E;
    cbn [obind]; try discriminate.
  apply householder_i_erase in E. rewrite E. apply IH.
Qed.

Lemma qr_i_erase m r : qr_i ops pd m = Ok r -> qr ops m = r.
Proof.
  unfold qr_i, qr. destruct (Nat.ltb (mrows m) (mcols m)); [(now intros [= <-])|].
  destruct (qr_loop_i ops pd (mrows m) _ None m) as [res| |] eqn:E; cbn [obind]; try discriminate.
  apply qr_loop_i_erase in E. rewrite E. (now intros [= <-]).
Qed.
End Erase.

(* ================================================================ Cholesky *)
(* the only divisors: square roots (oracle values) of arguments tested positive *)
Definition sqrt_divisor (y : R) : Prop := exists e, nleb ops e zero = false /\ y = nsqrt ops e.

Definition diag_sqrt (L : list (list R)) : Prop :=
  forall k, k < length L -> sqrt_divisor (nth k (nth k L []) zero).

Section Cholesky.
Variable pd : R -> R -> option R.
Hypothesis Hpd : forall y, sqrt_divisor y -> pd one y = Some (ndiv ops one y).

Lemma chol_row_i_only a L i : i = length L -> diag_sqrt L -> forall fuel cur,
  length cur + fuel = S i ->
  chol_row_i ops pd a L i cur fuel = Ok (chol_row ops a L i cur fuel).
Proof.
  intros Hi Hd. induction fuel as [|f IH]; intros cur Hl; cbn [chol_row_i chol_row]; [reflexivity|].
  destruct (Nat.eqb (length cur) i) eqn:E.
  - destruct (nleb ops _ zero); [reflexivity|]. apply IH. rewrite app_length. cbn [length]. lia.
  - apply Nat.eqb_neq in E. rewrite Hpd by (apply Hd; lia). cbn [of_option obind].
    apply IH. rewrite app_length. cbn [length]. lia.
Qed.

Lemma chol_row_diag a L i : forall fuel cur row, length cur + fuel = S i ->
  (i < length cur -> sqrt_divisor (nth i cur zero)) ->
  chol_row ops a L i cur fuel = Some row -> sqrt_divisor (nth i row zero).
Proof.
  induction fuel as [|f IH]; intros cur row Hl Hq; cbn [chol_row].
  - intros [= <-]. apply Hq. lia.
  - destruct (Nat.eqb (length cur) i) eqn:E.
    + destruct (nleb ops _ zero) eqn:En; [discriminate|].
      apply IH; [rewrite app_length; cbn [length]; lia|].
      intros _. apply Nat.eqb_eq in E. rewrite app_nth2 by lia. replace (i - length cur) with 0 by lia.
      cbn [nth]. eexists. split; [exact En|reflexivity].
    + apply Nat.eqb_neq in E. apply IH; [rewrite app_length; cbn [length]; lia|].
      rewrite app_length. cbn [length]. lia.
Qed.

Lemma chol_rows_i_only a : forall fuel L, diag_sqrt L ->
  chol_rows_i ops pd a L fuel = Ok (chol_rows ops a L fuel).
Proof.
  induction fuel as [|f IH]; intros L Hd; cbn [chol_rows_i chol_rows]; [reflexivity|].
  rewrite (chol_row_i_only a L (length L) eq_refl Hd) by reflexivity. cbn [obind].
  destruct (chol_row ops a L (length L) [] (S (length L))) as [row|] eqn:E; [|reflexivity].
  apply IH. intros k Hk. rewrite app_length in Hk. cbn [length] in Hk.
  destruct (Nat.eq_dec k (length L)) as [->|Hne].
  - rewrite app_nth2 by lia. rewrite Nat.sub_diag. cbn [nth].
    eapply chol_row_diag; [|..|exact E]; cbn [length]; [reflexivity|lia].
  - rewrite app_nth1 by lia. apply Hd. lia.
Qed.

Theorem cholesky_i_only a : cholesky_i ops pd a = Ok (cholesky ops a).
Proof.
  unfold cholesky_i, cholesky. destruct (negb (is_square a)); [reflexivity|].
  rewrite chol_rows_i_only by (intros k Hk; cbn [length] in Hk; lia). reflexivity.
Qed.
End Cholesky.

(* never a division by zero: the oracle has no zero on arguments tested positive
   (implied by 0 < x -> 0 < sqrt x in an ordered field) *)
Theorem cholesky_i_strict a :
  (forall e, nleb ops e zero = false -> neqb ops (nsqrt ops e) zero = false) ->
  cholesky_i ops (strict_div ops) a = Ok (cholesky ops a).
Proof.
  intros H. apply cholesky_i_only. intros y [e [He ->]]. apply strict_defined. apply H. exact He.
Qed.

Theorem cholesky_i_total a : cholesky_i ops (total_div ops) a = Ok (cholesky ops a).
Proof. apply cholesky_i_only. reflexivity. Qed.

(* ================================================================ LDL^T *)
Section LDLT.
Variable pd : R -> R -> option R.
Hypothesis Hpd : forall y, neqb ops y zero = false -> pd one y = Some (ndiv ops one y).

Lemma ldlt_cols_i_only a n : forall fuel cols ds,
  ldlt_cols_i ops pd a n cols ds fuel = Ok (ldlt_cols ops a n cols ds fuel).
Proof.
  induction fuel as [|f IH]; intros cols ds; cbn [ldlt_cols_i ldlt_cols]; [reflexivity|].
  destruct (neqb ops _ zero) eqn:E; [reflexivity|].
  match goal with |- obind (map_outcome ?F ?l) _ = Ok (ldlt_cols _ _ _ (_ ++ [map ?G _]) _ _) =>
    rewrite (map_outcome_ok F G l) end.
  - cbn [obind]. apply IH.
  - intros i _. cbv beta.
    destruct (Nat.ltb i (length cols)); [reflexivity|].
    destruct (Nat.eqb i (length cols)); [reflexivity|].
    rewrite Hpd by exact E. reflexivity.
Qed.

Theorem ldlt_i_only a : ldlt_i ops pd a = Ok (ldlt ops a).
Proof.
  unfold ldlt_i, ldlt. destruct (negb (is_square a)); [reflexivity|].
  rewrite ldlt_cols_i_only. reflexivity.
Qed.
End LDLT.

Theorem ldlt_i_strict a : ldlt_i ops (strict_div ops) a = Ok (ldlt ops a).
Proof. apply ldlt_i_only. intros y Hy. apply strict_defined. exact Hy. Qed.

Theorem ldlt_i_total a : ldlt_i ops (total_div ops) a = Ok (ldlt ops a).
Proof. apply ldlt_i_only. reflexivity. Qed.

(* ================================================================ QR *)
(* a reflection divides every element of u by the euclidean length of u: safe when u is empty
   or the length is not `== zero` *)
Definition hh_safe (x : list R) : bool :=
  match hh_u ops x with
  | [] => true
  | _ :: _ => negb (neqb ops (euclidean_length ops (hh_u ops x)) zero)
  end.

Fixpoint qr_loop_safe (rows : nat) (cs : list nat) (r : mat) : bool :=
  match cs with
  | [] => true
  | c :: cs' =>
      let sub := skipn c (column ops r c) in
      hh_safe sub && qr_loop_safe rows cs' (mmul ops (pad_h ops (householder ops sub) c rows) r)
  end.

Definition qr_div_safe (m : mat) : bool :=
  qr_loop_safe (mrows m) (seq 0 (Nat.min (mrows m - 1) (mcols m))) m.

Theorem householder_i_only pd x :
  (forall e, In e (hh_u ops x) ->
     pd e (euclidean_length ops (hh_u ops x)) = Some (ndiv ops e (euclidean_length ops (hh_u ops x)))) ->
  householder_i ops pd x = Ok (householder ops x).
Proof.
  intros H. unfold householder_i.
  rewrite (map_outcome_ok _ (fun element => ndiv ops element (euclidean_length ops (hh_u ops x)))).
  - reflexivity.
  - intros e He. rewrite (H e He). reflexivity.
Qed.

Theorem householder_i_strict x :
  householder_i ops (strict_div ops) x = if hh_safe x then Ok (householder ops x) else Panic.
Proof.
  unfold hh_safe. destruct (hh_u ops x) as [|e u] eqn:Eu.
  - apply householder_i_only. rewrite Eu. intros e [].
  - destruct (neqb ops (euclidean_length ops (e :: u)) zero) eqn:E; cbn [negb].
    + unfold householder_i. rewrite Eu. cbn [map_outcome]. unfold strict_div at 1. rewrite E.
      reflexivity.
    + apply householder_i_only. rewrite Eu. intros e' _. apply strict_defined. exact E.
Qed.

Lemma qr_loop_i_strict rows : forall cs q r,
  qr_loop_i ops (strict_div ops) rows cs q r =
  if qr_loop_safe rows cs r then Ok (qr_loop ops rows cs q r) else Panic.
Proof.
  induction cs as [|c cs IH]; intros q r; cbn [qr_loop_i qr_loop qr_loop_safe]; [reflexivity|].
  rewrite householder_i_strict.
  destruct (hh_safe (skipn c (column ops r c))); cbn [obind andb]; [apply IH|reflexivity].
Qed.

(* the exact three-way prediction: absence / value / panic *)
Theorem qr_i_strict m :
  qr_i ops (strict_div ops) m =
  if Nat.ltb (mrows m) (mcols m) then Ok None
  else if qr_div_safe m then Ok (qr ops m) else Panic.
Proof.
  unfold qr_i, qr, qr_div_safe. destruct (Nat.ltb (mrows m) (mcols m)); [reflexivity|].
  rewrite qr_loop_i_strict. destruct (qr_loop_safe _ _ m); reflexivity.
Qed.

Theorem qr_i_total m : qr_i ops (total_div ops) m = Ok (qr ops m).
Proof.
  assert (Hh : forall x, householder_i ops (total_div ops) x = Ok (householder ops x))
    by (intros x; apply householder_i_only; reflexivity).
  assert (Hl : forall rows cs q r,
             qr_loop_i ops (total_div ops) rows cs q r = Ok (qr_loop ops rows cs q r)).
  { intros rows. induction cs as [|c cs IH]; intros q r; cbn [qr_loop_i qr_loop]; [reflexivity|].
    rewrite Hh. cbn [obind]. apply IH. }
  unfold qr_i, qr. destruct (Nat.ltb (mrows m) (mcols m)); [reflexivity|].
  rewrite Hl. reflexivity.
Qed.
End C08Div.
