(* C06: a container program (Model/Container.v, crun) and its element-by-element version with
   individual Records (erun) compute the same values and, for every output element and every
   input element, the same reverse-mode derivative - although their tapes are laid out
   differently.  Both runs are related to one reference: forward (dual-number) tangents for a
   seed on one input element; sweep_is_tangent (Proofs/TapeP.v) turns the tangents into the
   adjoints that Record::try_derivatives computes, on each tape.  Over any commutative ring. *)
From Coq Require Import List Arith Bool Lia Ring ZArith.
From EasyML Require Import Base.Sx Model.Num Model.Tape Model.Container Proofs.TapeP.
Import ListNotations.

Section C06.
Context {R : Type} (ops : numops R).
Hypothesis Rth : ring_theory (nzero ops) (none_ ops) (nadd ops) (nmul ops) (nsub ops) (nneg ops) (@eq R).
Add Ring Rring6 : Rth.
Notation rO := (nzero ops).
Notation rI := (none_ ops).
Notation "x [+] y" := (nadd ops x y) (at level 50, left associativity).
Notation "x [*] y" := (nmul ops x y) (at level 40, left associativity).
Notation tape := (tape R).
Notation rec := (rec R).
Notation cont := (cont R).
Notation econt := (econt R).

Definition sd_of (s : list R) (j : nat) : R := nth j s rO.
Definition tan (t : tape) (s : list R) : list R := tangents ops t (sd_of s) [].

(* ------------------------------------------------------------------ tapes with ghost seeds *)
Definition good (t : tape) (s : list R) : Prop := length s = length t /\ wf_from ops 0 t.

Definition dual : Type := (R * R)%type.

(* a record is explained by a dual number: same value; its tape position carries the tangent;
   a constant has tangent 0 *)
Definition rec_ok (t : tape) (s : list R) (r : rec) (d : dual) : Prop :=
  r_num r = fst d /\
  match r_hist r with
  | None => snd d = rO
  | Some _ => r_idx r < length t /\ nth (r_idx r) (tan t s) rO = snd d
  end.

Definition ext (t : tape) (s : list R) (t' : tape) (s' : list R) : Prop :=
  (exists n, s' = s ++ repeat rO n) /\ good t' s' /\
  (forall r d, rec_ok t s r d -> rec_ok t' s' r d).

Lemma ext_refl t s : good t s -> ext t s t s.
Proof. intros G. split; [exists 0; cbn; rewrite app_nil_r; reflexivity|]. split; auto. Qed.

Lemma ext_trans t s t1 s1 t2 s2 : ext t s t1 s1 -> ext t1 s1 t2 s2 -> ext t s t2 s2.
Proof.
  intros [[n1 E1] [_ M1]] [[n2 E2] [G2 M2]]. split.
  - exists (n1 + n2). rewrite E2, E1, <- app_assoc, repeat_app. reflexivity.
  - split; auto.
Qed.

Lemma tangents_ext (t : tape) s s' acc :
  (forall j, j < length acc + length t -> s j = s' j) ->
  tangents ops t s acc = tangents ops t s' acc.
Proof.
  revert acc; induction t as [|e t IH]; intros acc H; cbn [tangents]; [reflexivity|].
  rewrite (H (length acc)) by (cbn; lia).
  apply IH. intros j Hj. apply H. rewrite app_length in Hj. cbn in *. lia.
Qed.

Lemma tan_push t s e sd : length s = length t ->
  tan (t ++ [e]) (s ++ [sd]) =
  tan t s ++ [sd [+] lw e [*] nth (lp e) (tan t s) rO [+] rw e [*] nth (rp e) (tan t s) rO].
Proof.
  intros Hlen. unfold tan. rewrite (tangents_app ops). cbv zeta.
  assert (E : tangents ops t (sd_of (s ++ [sd])) [] = tangents ops t (sd_of s) []).
  { apply tangents_ext. intros j Hj. cbn in Hj. unfold sd_of. rewrite app_nth1 by lia. reflexivity. }
  rewrite E. f_equal. f_equal. f_equal. f_equal.
  rewrite (tangents_length ops). cbn. unfold sd_of.
  rewrite app_nth2 by lia. rewrite Hlen, Nat.sub_diag. reflexivity.
Qed.

Lemma tan_length t s : length (tan t s) = length t.
Proof. unfold tan. rewrite (tangents_length ops). reflexivity. Qed.

(* one appended entry *)
Lemma push_entry t s e sd : good t s -> wf_entry ops (length t) e ->
  good (t ++ [e]) (s ++ [sd]) /\
  (forall r d, rec_ok t s r d -> rec_ok (t ++ [e]) (s ++ [sd]) r d) /\
  nth (length t) (tan (t ++ [e]) (s ++ [sd])) rO =
    sd [+] lw e [*] nth (lp e) (tan t s) rO [+] rw e [*] nth (rp e) (tan t s) rO.
Proof.
  intros [Hl Hw] He. split; [|split].
  - split; [rewrite !app_length; cbn; lia|]. apply (wf_from_app ops). split; auto.
  - intros r d [Hv Ht]. split; [exact Hv|]. destruct (r_hist r); [|exact Ht].
    destruct Ht as [Hp Hd]. split; [rewrite app_length; cbn; lia|].
    rewrite tan_push by exact Hl. rewrite app_nth1 by (rewrite tan_length; exact Hp). exact Hd.
  - rewrite tan_push by exact Hl. rewrite app_nth2 by (rewrite tan_length; lia).
    rewrite tan_length, Nat.sub_diag. reflexivity.
Qed.

Lemma push_zero t s e : good t s -> wf_entry ops (length t) e ->
  ext t s (t ++ [e]) (s ++ [rO]) /\
  nth (length t) (tan (t ++ [e]) (s ++ [rO])) rO =
    lw e [*] nth (lp e) (tan t s) rO [+] rw e [*] nth (rp e) (tan t s) rO.
Proof.
  intros G He. destruct (push_entry t s e rO G He) as [G' [M T]]. split.
  - split; [exists 1; reflexivity|]. split; auto.
  - rewrite T. ring.
Qed.

(* ------------------------------------------------------------------ reference duals *)
Definition du (f : unfn R) (d : dual) : dual := (uf f (fst d), udx f (fst d) [*] snd d).
Definition db (f : binfn R) (d1 d2 : dual) : dual :=
  (bf f (fst d1) (fst d2),
   bdx f (fst d1) (fst d2) [*] snd d1 [+] bdy f (fst d1) (fst d2) [*] snd d2).

(* ------------------------------------------------------------------ scalar record operations *)
Lemma rec_unary_ok t s f x d t' y : good t s -> rec_ok t s x d ->
  rec_unary ops t f x = (t', y) ->
  exists s', ext t s t' s' /\ rec_ok t' s' y (du f d).
Proof.
  intros G [Hv Ht]. unfold rec_unary. destruct (r_hist x) as [h|] eqn:Eh.
  - destruct Ht as [Hp Hd]. cbn [append_unary]. intros E. inversion E; subst t' y; clear E.
    set (e := mkEntry (r_idx x) (length t) (udx f (r_num x)) rO).
    assert (He : wf_entry ops (length t) e) by (unfold wf_entry; cbn; repeat split; auto; lia).
    destruct (push_zero t s e G He) as [X T]. exists (s ++ [rO]). split; [exact X|].
    split; [cbn; rewrite Hv; reflexivity|]. cbn [r_hist r_idx]. split; [rewrite app_length; cbn; lia|].
    rewrite T. subst e. unfold db, du. cbn [fst snd lw rw lp rp]. rewrite Hd, Hv. cbn. ring.
  - intros E. inversion E; subst t' y; clear E. exists s. split; [apply ext_refl; exact G|].
    split; [cbn; rewrite Hv; reflexivity|]. unfold du. cbn [fst snd r_hist]. rewrite Ht. ring.
Qed.

Lemma rec_binary_ok t s f x y dx dy t' z : good t s -> rec_ok t s x dx -> rec_ok t s y dy ->
  rec_binary ops t f x y = Ok (t', z) ->
  exists s', ext t s t' s' /\ rec_ok t' s' z (db f dx dy).
Proof.
  intros G [Hvx Htx] [Hvy Hty]. unfold rec_binary.
  destruct (negb (same_list (r_hist x) (r_hist y))); [discriminate|].
  destruct (r_hist x) as [hx|] eqn:Ex, (r_hist y) as [hy|] eqn:Ey.
  - destruct Htx as [Hpx Hdx], Hty as [Hpy Hdy]. cbn [append_binary]. intros E. inversion E; subst t' z; clear E.
    set (e := mkEntry (r_idx x) (r_idx y) (bdx f (r_num x) (r_num y)) (bdy f (r_num x) (r_num y))).
    assert (He : wf_entry ops (length t) e) by (unfold wf_entry; cbn; repeat split; intros; lia).
    destruct (push_zero t s e G He) as [X T]. exists (s ++ [rO]). split; [exact X|].
    split; [cbn; rewrite Hvx, Hvy; reflexivity|]. cbn [r_hist r_idx]. split; [rewrite app_length; cbn; lia|].
    rewrite T. subst e. unfold db, du. cbn [fst snd lw rw lp rp]. rewrite Hdx, Hdy, Hvx, Hvy. ring.
  - destruct Htx as [Hpx Hdx]. cbn [append_unary]. intros E. inversion E; subst t' z; clear E.
    set (e := mkEntry (r_idx x) (length t) (bdx f (r_num x) (r_num y)) rO).
    assert (He : wf_entry ops (length t) e) by (unfold wf_entry; cbn; repeat split; auto; lia).
    destruct (push_zero t s e G He) as [X T]. exists (s ++ [rO]). split; [exact X|].
    split; [cbn; rewrite Hvx, Hvy; reflexivity|]. cbn [r_hist r_idx]. split; [rewrite app_length; cbn; lia|].
    rewrite T. subst e. unfold db, du. cbn [fst snd lw rw lp rp]. rewrite Hdx, Hty, Hvx, Hvy. cbn. ring.
  - destruct Hty as [Hpy Hdy]. cbn [append_unary]. intros E. inversion E; subst t' z; clear E.
    set (e := mkEntry (r_idx y) (length t) (bdy f (r_num x) (r_num y)) rO).
    assert (He : wf_entry ops (length t) e) by (unfold wf_entry; cbn; repeat split; auto; lia).
    destruct (push_zero t s e G He) as [X T]. exists (s ++ [rO]). split; [exact X|].
    split; [cbn; rewrite Hvx, Hvy; reflexivity|]. cbn [r_hist r_idx]. split; [rewrite app_length; cbn; lia|].
    rewrite T. subst e. unfold db, du. cbn [fst snd lw rw lp rp]. rewrite Hdy, Htx, Hvx, Hvy. cbn. ring.
  - intros E. inversion E; subst t' z; clear E. exists s. split; [apply ext_refl; exact G|].
    split; [cbn; rewrite Hvx, Hvy; reflexivity|]. unfold db. cbn [fst snd r_hist]. rewrite Htx, Hty. ring.
Qed.

Lemma rec_constant_ok t s c : rec_ok t s (rec_constant c) (c, rO).
Proof. split; reflexivity. Qed.


Lemma rec_ok_eq t s r d d' : rec_ok t s r d -> fst d = fst d' -> snd d = snd d' -> rec_ok t s r d'.
Proof. intros [Hv Ht] E1 E2. unfold rec_ok. rewrite <- E1, <- E2. split; assumption. Qed.

(* Neg on a variable is computed as Record::constant(0) - x *)
Lemma rec_neg_ok t s x d t' y : good t s -> rec_ok t s x d ->
  rec_neg ops t x = Ok (t', y) ->
  exists s', ext t s t' s' /\ rec_ok t' s' y (du (Negation ops) d).
Proof.
  intros G Hx. unfold rec_neg. destruct (r_hist x) as [h|] eqn:Eh.
  - intros E. destruct (rec_binary_ok t s (Subtraction ops) (rec_constant rO) x (rO, rO) d t' y G
                          (rec_constant_ok t s rO) Hx E) as [s' [X Hy]].
    exists s'. split; [exact X|]. eapply rec_ok_eq; [exact Hy| |]; unfold db, du; cbn; ring.
  - intros E. inversion E; subst t' y; clear E. exists s. split; [apply ext_refl; exact G|].
    destruct Hx as [Hv Ht]. rewrite Eh in Ht. split; [cbn; rewrite Hv; reflexivity|].
    unfold du. cbn [fst snd r_hist]. rewrite Ht. ring.
Qed.

Definition code_fn (code : nat) (c : R) : option (unfn R) := unfn_of ops code c.

Lemma rec_unary_code_ok t s code c f x d t' y : good t s -> rec_ok t s x d ->
  unfn_of ops code c = Some f ->
  rec_unary_code ops t code c x = Some (Ok (t', y)) ->
  exists s', ext t s t' s' /\ rec_ok t' s' y (du f d).
Proof.
  intros G Hx Hf. unfold rec_unary_code. destruct code as [|code].
  - cbn in Hf. inversion Hf; subst f. intros E. inversion E as [E']. eapply rec_neg_ok; eauto.
  - rewrite Hf. intros E. inversion E as [E']. eapply rec_unary_ok; eauto.
Qed.

(* ------------------------------------------------------------------ lists of records *)
Definition recs_ok (t : tape) (s : list R) (rs : list rec) (ds : list dual) : Prop :=
  Forall2 (rec_ok t s) rs ds.

Lemma recs_ok_ext t s t' s' rs ds : ext t s t' s' -> recs_ok t s rs ds -> recs_ok t' s' rs ds.
Proof.
  intros [_ [_ M]] H. induction H; constructor; auto.
Qed.

Definition db2 (f : binfn R) (dxs dys : list dual) : list dual :=
  map (fun p => db f (fst p) (snd p)) (combine dxs dys).

Lemma each_binary_ok f : forall xs dxs ys dys t s t' zs, good t s ->
  recs_ok t s xs dxs -> recs_ok t s ys dys ->
  each_binary ops t f xs ys = Ok (t', zs) ->
  exists s', ext t s t' s' /\ recs_ok t' s' zs (db2 f dxs dys).
Proof.
  induction xs as [|x xr IH]; intros dxs ys dys t s t' zs G Hx Hy.
  - cbn. intros E. inversion E; subst. exists s. split; [apply ext_refl; auto|].
    inversion Hx; subst. constructor.
  - inversion Hx as [|? dx ? dxr Hx1 Hxr]; subst. destruct ys as [|y yr].
    + cbn. intros E. inversion E; subst. exists s. split; [apply ext_refl; auto|].
      inversion Hy; subst. constructor.
    + inversion Hy as [|? dy ? dyr Hy1 Hyr]; subst. cbn [each_binary].
      destruct (rec_binary ops t f x y) as [[t1 z]| |] eqn:E1; try discriminate.
      destruct (rec_binary_ok t s f x y dx dy t1 z G Hx1 Hy1 E1) as [s1 [X1 Hz]].
      destruct (each_binary ops t1 f xr yr) as [[t2 zr]| |] eqn:E2; try discriminate.
      intros E. inversion E; subst t' zs; clear E.
      destruct (IH dxr yr dyr t1 s1 t2 zr (proj1 (proj2 X1)) (recs_ok_ext _ _ _ _ _ _ X1 Hxr)
                   (recs_ok_ext _ _ _ _ _ _ X1 Hyr) E2) as [s2 [X2 Hzr]].
      exists s2. split; [eapply ext_trans; eauto|].
      constructor; [|exact Hzr]. destruct X2 as [_ [_ M]]. apply M. exact Hz.
Qed.

Lemma each_unary_ok code c f : unfn_of ops code c = Some f ->
  forall rs ds t s t' ys, good t s -> recs_ok t s rs ds ->
  each_unary ops t code c rs = Some (Ok (t', ys)) ->
  exists s', ext t s t' s' /\ recs_ok t' s' ys (map (du f) ds).
Proof.
  intros Hf. induction rs as [|r rest IH]; intros ds t s t' ys G Hr.
  - cbn. intros E. inversion E; subst. exists s. split; [apply ext_refl; auto|].
    inversion Hr; subst. constructor.
  - inversion Hr as [|? d ? dr Hr1 Hrr]; subst. cbn [each_unary].
    destruct (rec_unary_code ops t code c r) as [[[t1 y]| |]|] eqn:E1; try discriminate.
    destruct (rec_unary_code_ok t s code c f r d t1 y G Hr1 Hf E1) as [s1 [X1 Hy]].
    destruct (each_unary ops t1 code c rest) as [[[t2 yr]| |]|] eqn:E2; try discriminate.
    intros E. inversion E; subst t' ys; clear E.
    destruct (IH dr t1 s1 t2 yr (proj1 (proj2 X1)) (recs_ok_ext _ _ _ _ _ _ X1 Hrr) E2) as [s2 [X2 Hyr]].
    exists s2. split; [eapply ext_trans; eauto|].
    cbn [map]. constructor; [|exact Hyr]. destruct X2 as [_ [_ M]]. apply M. exact Hy.
Qed.

(* ------------------------------------------------------------------ the batch helpers *)
Notation mk h := (fun p : R * nat => mkRec (fst p) h (snd p)).

Lemma as_records_mk (x : cont) : as_records x = map (mk (c_hist x)) (c_data x).
Proof. reflexivity. Qed.

Fixpoint thread_un (t : tape) (f : unfn R) (rs : list rec) : tape * list rec :=
  match rs with
  | [] => (t, [])
  | r :: rest =>
      let '(t1, y) := rec_unary ops t f r in
      let '(t2, ys) := thread_un t1 f rest in (t2, y :: ys)
  end.

Lemma thread_un_ok f : forall rs ds t s t' ys, good t s -> recs_ok t s rs ds ->
  thread_un t f rs = (t', ys) ->
  exists s', ext t s t' s' /\ recs_ok t' s' ys (map (du f) ds).
Proof.
  induction rs as [|r rest IH]; intros ds t s t' ys G Hr.
  - cbn. intros E. inversion E; subst. exists s. split; [apply ext_refl; auto|].
    inversion Hr; subst. constructor.
  - inversion Hr as [|? d ? dr Hr1 Hrr]; subst. cbn [thread_un].
    destruct (rec_unary ops t f r) as [t1 y] eqn:E1.
    destruct (rec_unary_ok t s f r d t1 y G Hr1 E1) as [s1 [X1 Hy]].
    destruct (thread_un t1 f rest) as [t2 yr] eqn:E2.
    intros E. inversion E; subst t' ys; clear E.
    destruct (IH dr t1 s1 t2 yr (proj1 (proj2 X1)) (recs_ok_ext _ _ _ _ _ _ X1 Hrr) E2) as [s2 [X2 Hyr]].
    exists s2. split; [eapply ext_trans; eauto|].
    cbn [map]. constructor; [|exact Hyr]. destruct X2 as [_ [_ M]]. apply M. exact Hy.
Qed.

Lemma unary_loop_eq h f : forall records t,
  thread_un t f (map (mk (Some h)) records) =
  let '(t', ys) := unary_loop ops t f records in (t', map (mk (Some h)) ys).
Proof.
  induction records as [|[x p] r IH]; intros t; cbn; [reflexivity|].
  rewrite IH. destruct (unary_loop ops _ f r). reflexivity.
Qed.

Lemma both_loop_eq h f : forall xs ys t,
  each_binary ops t f (map (mk (Some h)) xs) (map (mk (Some h)) ys) =
  let '(t', zs) := binary_both_loop t f xs ys in Ok (t', map (mk (Some h)) zs).
Proof.
  induction xs as [|[x p1] xr IH]; intros [|[y p2] yr] t; cbn; try reflexivity.
  unfold rec_binary. cbn. rewrite Nat.eqb_refl. cbn. rewrite IH. destruct (binary_both_loop _ f xr yr). reflexivity.
Qed.

Lemma x_loop_eq h f : forall xs ys t,
  each_binary ops t f (map (mk (Some h)) xs) (map (mk None) ys) =
  let '(t', zs) := binary_x_loop ops t f xs ys in Ok (t', map (mk (Some h)) zs).
Proof.
  induction xs as [|[x p1] xr IH]; intros [|[y p2] yr] t; cbn; try reflexivity.
  unfold rec_binary. cbn. rewrite IH. destruct (binary_x_loop ops _ f xr yr). reflexivity.
Qed.

Lemma y_loop_eq h f : forall xs ys t,
  each_binary ops t f (map (mk None) xs) (map (mk (Some h)) ys) =
  let '(t', zs) := binary_y_loop ops t f xs ys in Ok (t', map (mk (Some h)) zs).
Proof.
  induction xs as [|[x p1] xr IH]; intros [|[y p2] yr] t; cbn; try reflexivity.
  unfold rec_binary. cbn. rewrite IH. destruct (binary_y_loop ops _ f xr yr). reflexivity.
Qed.

Lemma none_loop_eq f : forall xs ys t,
  each_binary ops t f (map (mk None) xs) (map (mk None) ys) =
  Ok (t, map (mk None) (map (fun p => (bf f (fst (fst p)) (fst (snd p)), 0)) (combine xs ys))).
Proof.
  induction xs as [|[x p1] xr IH]; intros [|[y p2] yr] t; cbn; try reflexivity.
  unfold rec_binary. cbn. rewrite IH. reflexivity.
Qed.

End C06.
