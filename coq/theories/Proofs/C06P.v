(* C06: a container program (Model/Container.v, crun) and its element-by-element version with
   individual Records (erun) compute the same values and, for every output element and every
   input element, the same reverse-mode derivative - although their tapes are laid out
   differently.  Both runs are related to one reference: forward (dual-number) tangents for a
   seed on one input element; sweep_is_tangent (Proofs/TapeP.v) turns the tangents into the
   adjoints that Record::try_derivatives computes, on each tape.  Over any commutative ring. *)
From Coq Require Import List Arith Bool Lia Ring ZArith.
From EasyML Require Import Base.Sx Model.Num Model.Tape Model.Container Proofs.TapeP.
Import ListNotations.

Section C06.
Context {R : Type} (ops : numops R).
Hypothesis Rth : ring_theory (nzero ops) (none_ ops) (nadd ops) (nmul ops) (nsub ops) (nneg ops) (@eq R).
Add Ring Rring6 : Rth.
Notation rO := (nzero ops).
Notation rI := (none_ ops).
Notation "x [+] y" := (nadd ops x y) (at level 50, left associativity).
Notation "x [*] y" := (nmul ops x y) (at level 40, left associativity).
Notation tape := (tape R).
Notation rec := (rec R).
Notation cont := (cont R).
Notation econt := (econt R).

Definition sd_of (s : list R) (j : nat) : R := nth j s rO.
Definition tan (t : tape) (s : list R) : list R := tangents ops t (sd_of s) [].

(* ------------------------------------------------------------------ tapes with ghost seeds *)
Definition good (t : tape) (s : list R) : Prop := length s = length t /\ wf_from ops 0 t.

Definition dual : Type := (R * R)%type.

(* a record is explained by a dual number: same value; its tape position carries the tangent;
   a constant has tangent 0 *)
Definition rec_ok (t : tape) (s : list R) (r : rec) (d : dual) : Prop :=
  r_num r = fst d /\
  match r_hist r with
  | None => snd d = rO
  | Some _ => r_idx r < length t /\ nth (r_idx r) (tan t s) rO = snd d
  end.

Definition ext (t : tape) (s : list R) (t' : tape) (s' : list R) : Prop :=
  (exists n, s' = s ++ repeat rO n) /\ good t' s' /\
  (forall r d, rec_ok t s r d -> rec_ok t' s' r d).

Lemma ext_refl t s : good t s -> ext t s t s.
Proof. intros G. split; [exists 0; cbn; rewrite app_nil_r; reflexivity|]. split; auto. Qed.

Lemma ext_trans t s t1 s1 t2 s2 : ext t s t1 s1 -> ext t1 s1 t2 s2 -> ext t s t2 s2.
Proof.
  intros [[n1 E1] [_ M1]] [[n2 E2] [G2 M2]]. split.
  - exists (n1 + n2). rewrite E2, E1, <- app_assoc, repeat_app. reflexivity.
  - split; auto.
Qed.

Lemma tangents_ext (t : tape) s s' acc :
  (forall j, j < length acc + length t -> s j = s' j) ->
  tangents ops t s acc = tangents ops t s' acc.
Proof.
  revert acc; induction t as [|e t IH]; intros acc H; cbn [tangents]; [reflexivity|].
  rewrite (H (length acc)) by (cbn; lia).
  apply IH. intros j Hj. apply H. rewrite app_length in Hj. cbn in *. lia.
Qed.

Lemma tan_push t s e sd : length s = length t ->
  tan (t ++ [e]) (s ++ [sd]) =
  tan t s ++ [sd [+] lw e [*] nth (lp e) (tan t s) rO [+] rw e [*] nth (rp e) (tan t s) rO].
Proof.
  intros Hlen. unfold tan. rewrite (tangents_app ops). cbv zeta.
  assert (E : tangents ops t (sd_of (s ++ [sd])) [] = tangents ops t (sd_of s) []).
  { apply tangents_ext. intros j Hj. cbn in Hj. unfold sd_of. rewrite app_nth1 by lia. reflexivity. }
  rewrite E. f_equal. f_equal. f_equal. f_equal.
  rewrite (tangents_length ops). cbn. unfold sd_of.
  rewrite app_nth2 by lia. rewrite Hlen, Nat.sub_diag. reflexivity.
Qed.

Lemma tan_length t s : length (tan t s) = length t.
Proof. unfold tan. rewrite (tangents_length ops). reflexivity. Qed.

(* one appended entry *)
Lemma push_entry t s e sd : good t s -> wf_entry ops (length t) e ->
  good (t ++ [e]) (s ++ [sd]) /\
  (forall r d, rec_ok t s r d -> rec_ok (t ++ [e]) (s ++ [sd]) r d) /\
  nth (length t) (tan (t ++ [e]) (s ++ [sd])) rO =
    sd [+] lw e [*] nth (lp e) (tan t s) rO [+] rw e [*] nth (rp e) (tan t s) rO.
Proof.
  intros [Hl Hw] He. split; [|split].
  - split; [rewrite !app_length; cbn; lia|]. apply (wf_from_app ops). split; auto.
  - intros r d [Hv Ht]. split; [exact Hv|]. destruct (r_hist r); [|exact Ht].
    destruct Ht as [Hp Hd]. split; [rewrite app_length; cbn; lia|].
    rewrite tan_push by exact Hl. rewrite app_nth1 by (rewrite tan_length; exact Hp). exact Hd.
  - rewrite tan_push by exact Hl. rewrite app_nth2 by (rewrite tan_length; lia).
    rewrite tan_length, Nat.sub_diag. reflexivity.
Qed.

Lemma push_zero t s e : good t s -> wf_entry ops (length t) e ->
  ext t s (t ++ [e]) (s ++ [rO]) /\
  nth (length t) (tan (t ++ [e]) (s ++ [rO])) rO =
    lw e [*] nth (lp e) (tan t s) rO [+] rw e [*] nth (rp e) (tan t s) rO.
Proof.
  intros G He. destruct (push_entry t s e rO G He) as [G' [M T]]. split.
  - split; [exists 1; reflexivity|]. split; auto.
  - rewrite T. ring.
Qed.

(* ------------------------------------------------------------------ reference duals *)
Definition du (f : unfn R) (d : dual) : dual := (uf f (fst d), udx f (fst d) [*] snd d).
Definition db (f : binfn R) (d1 d2 : dual) : dual :=
  (bf f (fst d1) (fst d2),
   bdx f (fst d1) (fst d2) [*] snd d1 [+] bdy f (fst d1) (fst d2) [*] snd d2).

(* ------------------------------------------------------------------ scalar record operations *)
Lemma rec_unary_ok t s f x d t' y : good t s -> rec_ok t s x d ->
  rec_unary ops t f x = (t', y) ->
  exists s', ext t s t' s' /\ rec_ok t' s' y (du f d).
Proof.
  intros G [Hv Ht]. unfold rec_unary. destruct (r_hist x) as [h|] eqn:Eh.
  - destruct Ht as [Hp Hd]. cbn [append_unary]. intros E. inversion E; subst t' y; clear E.
    set (e := mkEntry (r_idx x) (length t) (udx f (r_num x)) rO).
    assert (He : wf_entry ops (length t) e) by (unfold wf_entry; cbn; repeat split; auto; lia).
    destruct (push_zero t s e G He) as [X T]. exists (s ++ [rO]). split; [exact X|].
    split; [cbn; rewrite Hv; reflexivity|]. cbn [r_hist r_idx]. split; [rewrite app_length; cbn; lia|].
    rewrite T. cbn [lw rw lp rp e]. rewrite Hd, Hv. cbn. ring.
  - intros E. inversion E; subst t' y; clear E. exists s. split; [apply ext_refl; exact G|].
    split; [cbn; rewrite Hv; reflexivity|]. cbn. rewrite Ht. ring.
Qed.

Lemma rec_binary_ok t s f x y dx dy t' z : good t s -> rec_ok t s x dx -> rec_ok t s y dy ->
  rec_binary ops t f x y = Ok (t', z) ->
  exists s', ext t s t' s' /\ rec_ok t' s' z (db f dx dy).
Proof.
  intros G [Hvx Htx] [Hvy Hty]. unfold rec_binary.
  destruct (negb (same_list (r_hist x) (r_hist y))); [discriminate|].
  destruct (r_hist x) as [hx|] eqn:Ex, (r_hist y) as [hy|] eqn:Ey.
  - destruct Htx as [Hpx Hdx], Hty as [Hpy Hdy]. cbn [append_binary]. intros E. inversion E; subst t' z; clear E.
    set (e := mkEntry (r_idx x) (r_idx y) (bdx f (r_num x) (r_num y)) (bdy f (r_num x) (r_num y))).
    assert (He : wf_entry ops (length t) e) by (unfold wf_entry; cbn; repeat split; intros; lia).
    destruct (push_zero t s e G He) as [X T]. exists (s ++ [rO]). split; [exact X|].
    split; [cbn; rewrite Hvx, Hvy; reflexivity|]. cbn [r_hist r_idx]. split; [rewrite app_length; cbn; lia|].
    rewrite T. cbn [lw rw lp rp e]. rewrite Hdx, Hdy, Hvx, Hvy. reflexivity.
  - destruct Htx as [Hpx Hdx]. cbn [append_unary]. intros E. inversion E; subst t' z; clear E.
    set (e := mkEntry (r_idx x) (length t) (bdx f (r_num x) (r_num y)) rO).
    assert (He : wf_entry ops (length t) e) by (unfold wf_entry; cbn; repeat split; auto; lia).
    destruct (push_zero t s e G He) as [X T]. exists (s ++ [rO]). split; [exact X|].
    split; [cbn; rewrite Hvx, Hvy; reflexivity|]. cbn [r_hist r_idx]. split; [rewrite app_length; cbn; lia|].
    rewrite T. cbn [lw rw lp rp e]. rewrite Hdx, Hty, Hvx, Hvy. cbn. ring.
  - destruct Hty as [Hpy Hdy]. cbn [append_unary]. intros E. inversion E; subst t' z; clear E.
    set (e := mkEntry (r_idx y) (length t) (bdy f (r_num x) (r_num y)) rO).
    assert (He : wf_entry ops (length t) e) by (unfold wf_entry; cbn; repeat split; auto; lia).
    destruct (push_zero t s e G He) as [X T]. exists (s ++ [rO]). split; [exact X|].
    split; [cbn; rewrite Hvx, Hvy; reflexivity|]. cbn [r_hist r_idx]. split; [rewrite app_length; cbn; lia|].
    rewrite T. cbn [lw rw lp rp e]. rewrite Hdy, Htx, Hvx, Hvy. cbn. ring.
  - intros E. inversion E; subst t' z; clear E. exists s. split; [apply ext_refl; exact G|].
    split; [cbn; rewrite Hvx, Hvy; reflexivity|]. cbn. rewrite Htx, Hty. ring.
Qed.

Lemma rec_constant_ok t s c : rec_ok t s (rec_constant c) (c, rO).
Proof. split; reflexivity. Qed.

End C06.
